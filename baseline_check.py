#!/usr/bin/env python3
"""Runs the pinned baseline command (hooks off, no tags) in a repo dir and compares with BASELINE.json stable_pass."""
import json, subprocess, sys, os
d = sys.argv[1] if len(sys.argv) > 1 else '/repo'
env = dict(os.environ, GOFLAGS='-mod=mod', GOPROXY='off', GOSUMDB='off', GOTOOLCHAIN='local')
p = subprocess.run(['go', 'test', '-mod=mod', '-json', '-vet=off', '-count=1', '-timeout', '25m', './...'], cwd=d, env=env, capture_output=True, text=True)
res = {}
for ln in p.stdout.splitlines():
    try:
        e = json.loads(ln)
    except Exception:
        continue
    if e.get('Test') and e.get('Action') in ('pass', 'fail', 'skip'):
        res[e['Package'] + '::' + e['Test']] = e['Action']
b = json.load(open('/root/.vp/BASELINE.json'))
missing = [t for t in b['stable_pass'] if res.get(t) != 'pass']
print('stable_pass', len(b['stable_pass']), 'now passing', len(b['stable_pass']) - len(missing), 'not passing', len(missing))
for t in missing[:40]:
    print('  ', t, res.get(t))
sys.exit(1 if missing else 0)
