#!/bin/sh
# usage: commit_fixes.sh slug...   applies /verif/fixes/<slug>.diff on a side branch from /repo main, commits each, then moves main (working tree untouched)
cd /repo && git worktree prune; git branch -D fixq >/dev/null 2>&1
git worktree add -q -b fixq /tmp/fixq main || exit 1
cd /tmp/fixq || exit 1
: > /tmp/fixq.log
for s in "$@"; do
  if git apply --recount /verif/fixes/$s.diff 2>/tmp/ap.err || patch -p1 -s --no-backup-if-mismatch < /verif/fixes/$s.diff 2>>/tmp/ap.err; then
    git add -A && git commit -qF /verif/fixes/$s.msg && echo "$s $(git rev-parse --short HEAD)" | tee -a /tmp/fixq.log
  else echo "FAIL $s"; cat /tmp/ap.err; git checkout -q -- .; exit 1; fi
done
GOFLAGS=-mod=mod GOPROXY=off GOSUMDB=off GOTOOLCHAIN=local go build ./... || { echo BUILD-FAIL; exit 1; }
for f in $(git diff --name-only main fixq); do cmp -s $f /repo/$f || echo "DIFFERS-FROM-WORKTREE $f"; done
echo "side branch ready: review, then: git -C /repo reset -q fixq; git -C /repo worktree remove --force /tmp/fixq; git -C /repo branch -D fixq"
