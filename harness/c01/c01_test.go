package c01

import (
	"fmt"
	"sort"
	"testing"

	"github.com/spikeekips/mitum/base"
	"verifharness/vlib"
)

// oracle (DESIGN.md C01), integers only.
// returns result and the set of facts that reached the required count.
func oracle(q, r uint, counts []uint) (base.VoteResult, map[int]bool) {
	rr := r
	if rr > q {
		rr = q
	}
	if len(counts) == 0 {
		return base.VoteResultNotYet, nil
	}
	maj := map[int]bool{}
	var sum, max uint
	for i, c := range counts {
		if c >= rr {
			maj[i] = true
		}
		sum += c
		if c > max {
			max = c
		}
	}
	if len(maj) > 0 {
		return base.VoteResultMajority, maj
	}
	var miss uint
	if q > sum {
		miss = q - sum
	}
	if max+miss < rr {
		return base.VoteResultDraw, nil
	}
	return base.VoteResultNotYet, nil
}

func votes(counts []uint, perm []int) []string {
	var s []string
	for i, c := range counts {
		for j := uint(0); j < c; j++ {
			s = append(s, fmt.Sprintf("F%d", i))
		}
	}
	if perm != nil {
		o := make([]string, len(s))
		for i, p := range perm {
			o[i] = s[p]
		}
		return o
	}
	return s
}

type input struct {
	Q, R   uint
	Counts []uint
	Via    string
	T      string `json:",omitempty"`
}

func TestC01(t *testing.T) {
	r := vlib.Start(t, "C01", vlib.LevelExploration)
	defer r.Finish()
	r.SetRule("case = (quorum q, required r, vote multiset) fed to base.FindMajority, base.FindVoteResult and Threshold.VoteResult; exhaustive q<=Q0 over all r in 1..q+2 and all multisets over <=4 facts with sum<=q+3, then PRNG cases q<=500 near the boundary; distinct = (q, min(r,q), sorted multiset); non-trivial = at least one vote")
	r.Assume("quorum 0 is not generated (no suffrage of size 0 exists)")
	r.Assume("Threshold.VoteResult is judged against the exact required count (n*t10+999)/1000 computed by the monitor in integers, not against what Threshold.Threshold returns")

	check := func(in input) {
		counts := in.Counts
		want, maj := oracle(in.Q, in.R, counts)
		sorted := append([]uint{}, counts...)
		sort.Slice(sorted, func(i, j int) bool { return sorted[i] > sorted[j] })
		fp := fmt.Sprintf("%d/%d/%v", in.Q, min(in.R, in.Q), sorted)
		nz := false
		for _, c := range counts {
			if c > 0 {
				nz = true
			}
		}
		if nz {
			r.Case(fp)
		} else {
			r.Eval(1)
		}
		r.Count("result_"+string(want), 1)

		// FindMajority on the raw count slice (it sorts in place: give it a copy)
		r.Guard("FindMajority", in, func() {
			set := append([]uint{}, counts...)
			idx := base.FindMajority(in.Q, in.R, set...)
			var got base.VoteResult
			switch {
			case idx == -1:
				got = base.VoteResultNotYet
			case idx == -2:
				got = base.VoteResultDraw
			default:
				got = base.VoteResultMajority
			}
			if got != want {
				r.Violation(fmt.Sprintf("FindMajority:want=%s:got=%s:overquorum=%v", want, got, sum(counts) > in.Q),
					fmt.Sprintf("FindMajority(%d,%d,%v) index %d (%s), statement says %s", in.Q, in.R, counts, idx, got, want), in)
				return
			}
			if got == base.VoteResultMajority {
				// index refers to the slice as passed in (returned before sorting)
				if idx < 0 || idx >= len(counts) || !maj[idx] {
					r.Violation("FindMajority:majority-index-below-required",
						fmt.Sprintf("FindMajority(%d,%d,%v) index %d does not reach required count", in.Q, in.R, counts, idx), in)
				}
			}
		})

		// FindVoteResult with the expanded vote list, two orders; third pass:
		// the LAST fact is keyed by the empty string (any string is a vote key)
		vs := votes(counts, nil)
		for o := 0; o < 3; o++ {
			s := append([]string{}, vs...)
			if o == 1 {
				for i, j := 0, len(s)-1; i < j; i, j = i+1, j-1 {
					s[i], s[j] = s[j], s[i]
				}
			}
			emptyKeyed := -1
			if o == 2 {
				if len(counts) == 0 {
					continue
				}
				emptyKeyed = len(counts) - 1
				name := fmt.Sprintf("F%d", emptyKeyed)
				for i := range s {
					if s[i] == name {
						s[i] = ""
					}
				}
			}
			r.Guard("FindVoteResult", in, func() {
				got, key := base.FindVoteResult(in.Q, in.R, s)
				if emptyKeyed >= 0 {
					r.Count("calls_with_empty_string_vote_key", 1)
					if got == base.VoteResultMajority && key == "" {
						key = fmt.Sprintf("F%d", emptyKeyed)
					} else if got == base.VoteResultMajority && key == fmt.Sprintf("F%d", emptyKeyed) {
						key = "?"
					}
					checkResult(r, "FindVoteResult:empty-string-key", in, want, maj, got, key)
					return
				}
				checkResult(r, "FindVoteResult", in, want, maj, got, key)
			})
		}
	}

	// exhaustive small domain
	q0 := uint(r.N(7, 9))
	var exh int
	for q := uint(1); q <= q0; q++ {
		for rq := uint(1); rq <= q+2; rq++ {
			lim := q + 3
			for a := uint(0); a <= lim; a++ {
				for b := uint(0); b <= a && a+b <= lim; b++ {
					for c := uint(0); c <= b && a+b+c <= lim; c++ {
						for d := uint(0); d <= c && a+b+c+d <= lim; d++ {
							var cs []uint
							for _, x := range []uint{a, b, c, d} {
								if x > 0 {
									cs = append(cs, x)
								}
							}
							// also one rotated order so that the first element is not the max
							check(input{Q: q, R: rq, Counts: cs, Via: "exhaustive"})
							if len(cs) > 1 {
								rot := append(append([]uint{}, cs[1:]...), cs[0])
								check(input{Q: q, R: rq, Counts: rot, Via: "exhaustive-rotated"})
							}
							exh++
						}
					}
				}
			}
		}
	}
	r.Set("exhaustive_bound_q", q0)
	r.Set("exhaustive_multisets", exh)

	// Threshold.VoteResult at the boundary of the exact required count, every
	// threshold of the 0.1 grid, small suffrages: one fact with required-1 and
	// with required votes, the other nodes silent or voting another fact
	qb := uint(r.N(40, 120))
	for q := uint(1); q <= qb; q++ {
		for t10 := 510; t10 <= 1000; t10++ {
			th := base.Threshold(float64(t10) / 10)
			req := exactRequired(q, t10)
			for _, c0 := range []uint{req - 1, req} {
				for _, other := range []uint{0, q - c0} {
					if c0 > q || (c0 == 0 && other == 0) {
						continue
					}
					var cs []uint
					if c0 > 0 {
						cs = append(cs, c0)
					}
					if other > 0 {
						cs = append(cs, other)
					}
					in := input{Q: q, R: req, Counts: cs, Via: "grid", T: th.String()}
					want, maj := oracle(q, req, cs)
					vs := votes(cs, nil)
					r.Eval(1)
					r.Count("threshold_grid_cases", 1)
					r.Guard("Threshold.VoteResult", in, func() {
						got, key := th.VoteResult(q, vs)
						checkResult(r, "Threshold.VoteResult", in, want, maj, got, key)
					})
				}
			}
		}
	}

	// Threshold.VoteResult + random large cases near the boundary
	n := r.N(20000, 600000)
	for i := 0; i < n; i++ {
		rng := r.Rand(1, i)
		q := uint(1 + rng.Intn(500))
		t10 := 510 + rng.Intn(491)
		th := base.Threshold(float64(t10) / 10)
		req := exactRequired(q, t10)
		rr := req
		if rr > q {
			rr = q
		}
		nf := 1 + rng.Intn(4)
		counts := make([]uint, nf)
		// first fact near the required count
		delta := rng.Intn(5) - 2
		c0 := int(rr) + delta
		if c0 < 0 {
			c0 = 0
		}
		counts[0] = uint(c0)
		// total near q, q-1, q+1, or random
		var total int
		switch rng.Intn(5) {
		case 0:
			total = int(q)
		case 1:
			total = int(q) - 1
		case 2:
			total = int(q) + 1 + rng.Intn(3)
		case 3:
			total = int(q) - int(rr) + c0 + rng.Intn(3) - 1 // draw boundary
		default:
			total = rng.Intn(int(q) + 2)
		}
		rest := total - c0
		for j := 1; j < nf && rest > 0; j++ {
			var x int
			if j == nf-1 {
				x = rest
			} else {
				x = rng.Intn(rest + 1)
			}
			if rng.Intn(4) == 0 && c0 > 0 && x > c0 {
				x = c0 // tie
			}
			counts[j] = uint(x)
			rest -= x
		}
		var cs []uint
		for _, c := range counts {
			if c > 0 {
				cs = append(cs, c)
			}
		}
		rng.Shuffle(len(cs), func(a, b int) { cs[a], cs[b] = cs[b], cs[a] })
		in := input{Q: q, R: req, Counts: cs, Via: "random", T: th.String()}
		check(in)
		want, maj := oracle(q, req, cs)
		vs := votes(cs, rng.Perm(int(sum(cs))))
		r.Guard("Threshold.VoteResult", in, func() {
			got, key := th.VoteResult(q, vs)
			checkResult(r, "Threshold.VoteResult", in, want, maj, got, key)
		})
		if i < 3 {
			r.Sample(map[string]any{"input": in, "oracle": string(want)})
		}
	}
	r.Sample(map[string]any{"input": input{Q: 3, R: 3, Counts: []uint{2, 2, 2}, Via: "directed over-quorum"}, "oracle": "DRAW"})
	check(input{Q: 3, R: 3, Counts: []uint{2, 2, 2}, Via: "directed over-quorum"})
}

func sum(c []uint) uint {
	var s uint
	for _, x := range c {
		s += x
	}
	return s
}

func checkResult(r *vlib.Run, fn string, in input, want base.VoteResult, maj map[int]bool, got base.VoteResult, key string) {
	if got != want {
		r.Violation(fmt.Sprintf("%s:want=%s:got=%s:overquorum=%v", fn, want, got, sum(in.Counts) > in.Q),
			fmt.Sprintf("%s(q=%d,r=%d,%v) = %s, statement says %s", fn, in.Q, in.R, in.Counts, got, want), in)
		return
	}
	if want == base.VoteResultMajority {
		var idx int
		if _, err := fmt.Sscanf(key, "F%d", &idx); err != nil || !maj[idx] {
			r.Violation(fn+":majority-key-below-required",
				fmt.Sprintf("%s(q=%d,r=%d,%v) majority key %q does not reach required count", fn, in.Q, in.R, in.Counts, key), in)
		}
	} else if key != "" {
		r.Violation(fn+":key-without-majority", fmt.Sprintf("%s(q=%d,r=%d,%v) = %s with key %q", fn, in.Q, in.R, in.Counts, got, key), in)
	}
}

// exactRequired is the least integer >= q*t/100 for t = t10/10, in integers.
func exactRequired(q uint, t10 int) uint {
	return (q*uint(t10) + 999) / 1000
}
