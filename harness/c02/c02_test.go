package c02

import (
	"fmt"
	"testing"

	"github.com/spikeekips/mitum/base"
	"verifharness/vlib"
)

func exact(n uint64, t10 uint64) uint64 { return (n*t10 + 999) / 1000 }

func TestC02(t *testing.T) {
	r := vlib.Start(t, "C02", vlib.LevelExploration)
	defer r.Finish()
	r.SetRule("case = (n, t) with t = t10/10, t10 in 510..1000; the real Threshold.Threshold(n) is compared with ceil(n*t10/1000) in uint64; thresholds built both as Threshold(float64(t10)/10) and via UnmarshalText(\"dd.d\"); distinct = (n,t10) grid point; non-trivial = n>=1")
	r.Assume("thresholds have one decimal place as the statement says")

	nmax := uint64(r.N(4000, 100000))
	ths := make([]base.Threshold, 1001)
	ths2 := make([]base.Threshold, 1001)
	for t10 := 510; t10 <= 1000; t10++ {
		ths[t10] = base.Threshold(float64(t10) / 10)
		var th base.Threshold
		if err := th.UnmarshalText([]byte(fmt.Sprintf("%d.%d", t10/10, t10%10))); err != nil {
			t.Fatal(err)
		}
		ths2[t10] = th
		if err := th.IsValid(nil); err != nil {
			r.Violation("valid-threshold-rejected", fmt.Sprintf("t=%v rejected: %v", th, err), t10)
		}
	}
	var evals, bad int64
	type res struct {
		evals, bad int64
		firstBad   []map[string]any
	}
	chunks := 64
	out := make([]res, chunks)
	grid := func(lo, hi uint64, step uint64, k int) {
		for n := lo; n <= hi; n += step {
			for t10 := uint64(510); t10 <= 1000; t10++ {
				want := exact(n, t10)
				got := uint64(ths[t10].Threshold(uint(n)))
				got2 := uint64(ths2[t10].Threshold(uint(n)))
				out[k].evals++
				if got != want || got2 != want {
					out[k].bad++
					if len(out[k].firstBad) < 3 {
						out[k].firstBad = append(out[k].firstBad, map[string]any{"n": n, "t": fmt.Sprintf("%d.%d", t10/10, t10%10), "got": got, "got_via_text": got2, "exact": want})
					}
				}
			}
		}
	}
	vlib.Parallel(chunks, 16, func(k int) {
		lo := 1 + uint64(k)*nmax/uint64(chunks)
		hi := uint64(k+1) * nmax / uint64(chunks)
		grid(lo, hi, 1, k)
	})
	for _, o := range out {
		evals += o.evals
		bad += o.bad
		for _, b := range o.firstBad {
			dir := "above"
			if b["got"].(uint64) < b["exact"].(uint64) {
				dir = "below"
			}
			r.Violation("Threshold.Threshold:"+dir+"-exact-ceiling",
				fmt.Sprintf("Threshold(%v).Threshold(%v) = %v, exact ceiling %v", b["t"], b["n"], b["got"], b["exact"]), b)
		}
	}
	extra := int64(0)
	if r.Quick() {
		// every multiple of 25 up to 100000 (where float error concentrates)
		out2 := make([]res, 1)
		out = out2
		grid(4025, 100000, 25, 0)
		extra = out[0].evals
		bad += out[0].bad
		for _, b := range out[0].firstBad {
			dir := "above"
			if b["got"].(uint64) < b["exact"].(uint64) {
				dir = "below"
			}
			r.Violation("Threshold.Threshold:"+dir+"-exact-ceiling",
				fmt.Sprintf("Threshold(%v).Threshold(%v) = %v, exact ceiling %v", b["t"], b["n"], b["got"], b["exact"]), b)
		}
	}
	r.Eval(int(evals + extra))
	r.Set("grid_points", evals+extra)
	r.Set("grid_points_disagreeing", bad)
	r.Set("n_max_full_grid", nmax)
	r.Exhaustive(r.Thorough())
	// distinct: every grid point is distinct by construction; record count via fingerprints of a stride
	for n := uint64(1); n <= nmax; n += nmax/2000 + 1 {
		for t10 := 510; t10 <= 1000; t10 += 7 {
			r.Distinct(fmt.Sprintf("%d/%d", n, t10))
		}
	}
	r.Set("distinct_note", "distinct_nontrivial counts a fingerprinted stride of the grid (every grid point is distinct by construction; grid_points is the full count)")
	r.Sample(map[string]any{"n": 25, "t": "56.0", "code": base.Threshold(56.0).Threshold(25), "exact": exact(25, 560)})
	r.Sample(map[string]any{"n": 100, "t": "55.0", "code": base.Threshold(55.0).Threshold(100), "exact": exact(100, 550)})
	r.Sample(map[string]any{"n": 100000, "t": "67.0", "code": base.Threshold(67.0).Threshold(100000), "exact": exact(100000, 670)})

	// NumberOfFaultyNodes: recorded, not judged (see DESIGN C02)
	var dis int
	for n := uint64(1); n <= 2000; n++ {
		for t10 := uint64(510); t10 <= 1000; t10++ {
			f := base.NumberOfFaultyNodes(uint(n), ths[t10])
			if uint64(f) != n-exact(n, t10) {
				dis++
			}
		}
	}
	r.Set("faulty_nodes_helper_disagreements_n_le_2000_not_judged", dis)
}
