package c03

import (
	"encoding/json"
	"fmt"
	"math/bits"
	"sort"
	"strings"
	"sync"
	"testing"
	"time"

	"github.com/spikeekips/mitum/base"
	"github.com/spikeekips/mitum/isaac"
	"github.com/spikeekips/mitum/util"
	"github.com/spikeekips/mitum/util/encoder"
	jsonenc "github.com/spikeekips/mitum/util/encoder/json"
	"github.com/spikeekips/mitum/util/valuehash"
	"verifharness/vlib"
)

var networkID = base.NetworkID([]byte("c03-network"))

const (
	kindPlain = iota
	kindExpel
	kindStuck
)

var kindName = []string{"plain", "expel", "stuck"}

const (
	stNone = iota
	stF    // votes the majority fact of the candidate
	stG    // votes the other fact
)

// expel-operation signer patterns (who signs each expel operation of a candidate)
const (
	patAll           = iota // every suffrage node but the target
	patRuleRemaining        // exactly the count the validator asks for; not-expelled nodes first
	patRuleExpelled         // same count; the other expelled nodes first
	patRuleMinus1           // one fewer
	patFull                 // exactly the ordinary threshold count
	patMixed                // first operation one fewer, the others all
	patOutsider             // required count plus a node that is not in the suffrage
	patSelf                 // one fewer plus the target itself
	nPatterns
)

var patName = []string{"all", "rule-remaining-first", "rule-expelled-first", "rule-minus-1", "full-threshold", "mixed-one-short", "plus-outsider", "with-self-sign"}

type world struct {
	n     int
	t10   int
	th    base.Threshold
	stage base.Stage
	q     int // exact ceil(n*t/100)
	f     int // floor(n - n*t/100)

	locals   []base.LocalNode // n members, then [n] an outsider, [n+1] an outsider key under member 0's address
	suf      isaac.Suffrage
	point    base.Point
	prev     util.Hash
	props    [2]util.Hash
	blocks   [2]util.Hash
	pfacts   [2]base.BallotFact
	psigns   [2][]base.BallotSignFact
	exfacts  []isaac.SuffrageExpelFact
	exhashes []util.Hash
	exsigns  [][]base.NodeSign // [signer][target]

	// honest votes of neighbouring points of the same world: [kind][letter]
	// kind 0 = next round, 1 = next height, 2 = other stage of the same point
	ffacts [3][2]base.BallotFact
	fsigns [3][2][]base.BallotSignFact // [kind][letter][member]
	csigns [nCrafted][2][]base.BallotSignFact

	// impersonated signatures, made on demand: a sign whose node ADDRESS is the
	// one of locals[addr] and whose KEY (signer + signature) is the one of
	// locals[holder]; holder != addr. Shared by the tasks of the world.
	imu      sync.Mutex
	isigns   map[impKey]base.BallotSignFact
	iexsigns map[[3]int]base.NodeSign // [holder, addr, target]
}

type impKey struct{ bind, letter, holder, addr int }

// crafted sign facts, [kind][letter][member]: the ballot fact is the world's
// fact `letter`, the sign is not the member's sign of that fact
const (
	cfOtherFact  = iota // the member's own genuine sign of the other fact of this stage point
	cfOtherPoint        // the member's own genuine sign of the same-letter fact of the next round
	cfOtherKey          // the member's address with the next member's signer key and signature (of the same fact)
	cfOtherSig          // the member's address and key with the next member's signature (of the same fact)
	nCrafted
)

var craftedName = []string{"replayed-sign-of-other-fact", "replayed-sign-of-other-round", "sign-with-other-members-key", "sign-with-other-members-signature"}

var foreignName = []string{"other-round", "other-height", "other-stage"}

func (w *world) String() string { return fmt.Sprintf("n%d:t%d.%d:%s", w.n, w.t10/10, w.t10%10, w.stage) }

var (
	keyMu sync.Mutex
	keys  = map[int]base.Privatekey{}
)

func key(i int) base.Privatekey {
	keyMu.Lock()
	defer keyMu.Unlock()
	if k, ok := keys[i]; ok {
		return k
	}
	k, err := base.NewMPrivatekeyFromSeed(fmt.Sprintf("c03-node-key-%04d-padding-padding-padding", i))
	if err != nil {
		panic(err)
	}
	keys[i] = k
	return k
}

func (w *world) fact(letter int, expelfacts []util.Hash) base.BallotFact {
	return w.factAt(w.point, w.stage, letter, expelfacts)
}

func (w *world) factAt(point base.Point, stage base.Stage, letter int, expelfacts []util.Hash) base.BallotFact {
	var ef []util.Hash
	if len(expelfacts) > 0 {
		ef = append(ef, expelfacts...)
	}
	if stage == base.StageINIT {
		return isaac.NewINITBallotFact(point, w.prev, w.props[letter], ef)
	}
	return isaac.NewACCEPTBallotFact(point, w.props[0], w.blocks[letter], ef)
}

func (w *world) sign(node int, fact base.BallotFact) base.BallotSignFact {
	return w.signAs(node, node, fact)
}

// signAs makes a sign fact that names the address of locals[addr] as the
// signing node and is signed (signer key and signature over fact + that
// address) with the private key of locals[holder].
func (w *world) signAs(holder, addr int, fact base.BallotFact) base.BallotSignFact {
	priv, address := w.locals[holder].Privatekey(), w.locals[addr].Address()
	if fact.Point().Stage() == base.StageINIT {
		sf := isaac.NewINITBallotSignFact(fact.(base.INITBallotFact))
		if err := sf.NodeSign(priv, networkID, address); err != nil {
			panic(err)
		}
		return sf
	}
	sf := isaac.NewACCEPTBallotSignFact(fact.(base.ACCEPTBallotFact))
	if err := sf.NodeSign(priv, networkID, address); err != nil {
		panic(err)
	}
	return sf
}

// impSign: the (cached) impersonated sign fact of `fact` (identified inside the
// world by bind and letter), in its decoded wire form like the genuine ones.
func (w *world) impSign(bind, letter int, fact base.BallotFact, holder, addr int) base.BallotSignFact {
	k := impKey{bind, letter, holder, addr}
	w.imu.Lock()
	sf, ok := w.isigns[k]
	w.imu.Unlock()
	if ok {
		return sf
	}
	sf = craft(w.signAs(holder, addr, fact), nil, nil)
	if !sf.Node().Equal(w.locals[addr].Address()) || !sf.Signer().Equal(w.locals[holder].Publickey()) {
		panic("impersonated sign fact does not carry (address, key) as built")
	}
	w.imu.Lock()
	if o, ok := w.isigns[k]; ok {
		sf = o
	} else {
		w.isigns[k] = sf
	}
	w.imu.Unlock()
	return sf
}

// impExpelSign: node sign of the expel fact against target x naming the address
// of locals[addr], made with the key of locals[holder].
func (w *world) impExpelSign(holder, addr, x int) base.NodeSign {
	if holder == addr {
		return w.exsigns[holder][x]
	}
	k := [3]int{holder, addr, x}
	w.imu.Lock()
	ns, ok := w.iexsigns[k]
	w.imu.Unlock()
	if ok {
		return ns
	}
	n, err := base.NewBaseNodeSignFromFact(w.locals[addr].Address(), w.locals[holder].Privatekey(), networkID, w.exfacts[x])
	if err != nil {
		panic(err)
	}
	w.imu.Lock()
	if o, ok := w.iexsigns[k]; ok {
		ns = o
	} else {
		w.iexsigns[k] = n
		ns = n
	}
	w.imu.Unlock()
	return ns
}

// wire codec: sign facts reach a node as encoded messages; a crafted message
// can carry any combination of a ballot fact and a node sign.
var (
	encOnce sync.Once
	wireEnc *jsonenc.Encoder
)

func wire() *jsonenc.Encoder {
	encOnce.Do(func() {
		enc := jsonenc.NewEncoder()
		for _, d := range []encoder.DecodeDetail{
			{Hint: base.StringAddressHint, Instance: base.StringAddress{}},
			{Hint: base.MPublickeyHint, Instance: &base.MPublickey{}},
			{Hint: isaac.INITBallotFactHint, Instance: isaac.INITBallotFact{}},
			{Hint: isaac.ACCEPTBallotFactHint, Instance: isaac.ACCEPTBallotFact{}},
			{Hint: isaac.INITBallotSignFactHint, Instance: isaac.INITBallotSignFact{}},
			{Hint: isaac.ACCEPTBallotSignFactHint, Instance: isaac.ACCEPTBallotSignFact{}},
		} {
			if err := enc.Add(d); err != nil {
				panic(err)
			}
		}
		wireEnc = enc
	})
	return wireEnc
}

// craft decodes the wire message of sign fact src after replacing its ballot
// fact (fact != nil) and/or fields of its sign taken from the sign of `from`
// (fields: "signer", "signature", "signed_at"). craft(src, nil, nil) is the
// plain decoded copy of a genuine sign fact.
func craft(src base.BallotSignFact, fact base.BallotFact, from base.BallotSignFact, fields ...string) base.BallotSignFact {
	enc := wire()
	b, err := enc.Marshal(src)
	if err != nil {
		panic(err)
	}
	var m map[string]json.RawMessage
	if err := json.Unmarshal(b, &m); err != nil {
		panic(err)
	}
	if fact != nil {
		fb, err := enc.Marshal(fact)
		if err != nil {
			panic(err)
		}
		m["fact"] = fb
	}
	if from != nil {
		fb, err := enc.Marshal(from)
		if err != nil {
			panic(err)
		}
		var fm map[string]json.RawMessage
		if err := json.Unmarshal(fb, &fm); err != nil {
			panic(err)
		}
		var ssign, fsign map[string]json.RawMessage
		if err := json.Unmarshal(m["sign"], &ssign); err != nil {
			panic(err)
		}
		if err := json.Unmarshal(fm["sign"], &fsign); err != nil {
			panic(err)
		}
		for _, f := range fields {
			ssign[f] = fsign[f]
		}
		if m["sign"], err = json.Marshal(ssign); err != nil {
			panic(err)
		}
	}
	nb, err := json.Marshal(m)
	if err != nil {
		panic(err)
	}
	i, err := enc.Decode(nb)
	if err != nil {
		panic(fmt.Sprintf("decode crafted sign fact: %+v", err))
	}
	sf, ok := i.(base.BallotSignFact)
	if !ok {
		panic(fmt.Sprintf("crafted sign fact decodes to %T", i))
	}
	return sf
}

func newWorld(n, t10 int, stage base.Stage) *world {
	w := &world{n: n, t10: t10, th: base.Threshold(float64(t10) / 10), stage: stage}
	w.isigns = map[impKey]base.BallotSignFact{}
	w.iexsigns = map[[3]int]base.NodeSign{}
	w.q = (n*t10 + 999) / 1000
	w.f = n - w.q
	w.point = base.RawPoint(33, 0)
	w.prev = valuehash.NewSHA256([]byte("c03-previous-block"))
	for l := 0; l < 2; l++ {
		w.props[l] = valuehash.NewSHA256([]byte(fmt.Sprintf("c03-proposal-%d", l)))
		w.blocks[l] = valuehash.NewSHA256([]byte(fmt.Sprintf("c03-block-%d", l)))
	}
	nodes := make([]base.Node, n)
	for i := 0; i < n; i++ {
		l := isaac.NewLocalNode(key(i), base.NewStringAddress(fmt.Sprintf("no%02d", i)))
		w.locals = append(w.locals, l)
		nodes[i] = l
	}
	w.locals = append(w.locals, isaac.NewLocalNode(key(100), base.NewStringAddress("outsider")))
	w.locals = append(w.locals, isaac.NewLocalNode(key(101), base.NewStringAddress("no00")))
	suf, err := isaac.NewSuffrage(nodes)
	if err != nil {
		panic(err)
	}
	w.suf = suf
	for l := 0; l < 2; l++ {
		w.pfacts[l] = w.fact(l, nil)
		w.psigns[l] = make([]base.BallotSignFact, n+2)
		for i := 0; i < n+2; i++ {
			w.psigns[l][i] = w.sign(i, w.pfacts[l])
		}
	}
	other := base.StageACCEPT
	if stage == base.StageACCEPT {
		other = base.StageINIT
	}
	for fk := 0; fk < 3; fk++ {
		pt, stg := w.point, stage
		switch fk {
		case 0:
			pt = w.point.NextRound()
		case 1:
			pt = w.point.NextHeight()
		case 2:
			stg = other
		}
		for l := 0; l < 2; l++ {
			w.ffacts[fk][l] = w.factAt(pt, stg, l, nil)
			w.fsigns[fk][l] = make([]base.BallotSignFact, n)
			for i := 0; i < n; i++ {
				w.fsigns[fk][l][i] = w.sign(i, w.ffacts[fk][l])
			}
		}
	}
	// every genuine sign fact is used in its decoded wire form (what a node
	// receives), so a crafted message carries byte-identical signs
	for l := 0; l < 2; l++ {
		for i := range w.psigns[l] {
			w.psigns[l][i] = craft(w.psigns[l][i], nil, nil)
			if err := w.psigns[l][i].IsValid(networkID); err != nil {
				panic(fmt.Sprintf("decoded genuine sign fact invalid: %+v", err))
			}
		}
		for fk := 0; fk < 3; fk++ {
			for i := range w.fsigns[fk][l] {
				w.fsigns[fk][l][i] = craft(w.fsigns[fk][l][i], nil, nil)
			}
		}
	}
	for l := 0; l < 2; l++ {
		for c := 0; c < nCrafted; c++ {
			w.csigns[c][l] = make([]base.BallotSignFact, n)
		}
		for i := 0; i < n; i++ {
			nx := (i + 1) % n
			w.csigns[cfOtherFact][l][i] = craft(w.psigns[1-l][i], w.pfacts[l], nil)
			w.csigns[cfOtherPoint][l][i] = craft(w.fsigns[0][l][i], w.pfacts[l], nil)
			w.csigns[cfOtherKey][l][i] = craft(w.psigns[l][i], nil, w.psigns[l][nx], "signer", "signature", "signed_at")
			w.csigns[cfOtherSig][l][i] = craft(w.psigns[l][i], nil, w.psigns[l][nx], "signature", "signed_at")
		}
	}
	w.exfacts = make([]isaac.SuffrageExpelFact, n)
	w.exhashes = make([]util.Hash, n)
	for x := 0; x < n; x++ {
		w.exfacts[x] = isaac.NewSuffrageExpelFact(w.locals[x].Address(), w.point.Height(), w.point.Height()+1, "c03")
		w.exhashes[x] = w.exfacts[x].Hash()
	}
	w.exsigns = make([][]base.NodeSign, n+1)
	for s := 0; s <= n; s++ {
		w.exsigns[s] = make([]base.NodeSign, n)
		for x := 0; x < n; x++ {
			ns, err := base.NewBaseNodeSignFromFact(w.locals[s].Address(), w.locals[s].Privatekey(), networkID, w.exfacts[x])
			if err != nil {
				panic(err)
			}
			w.exsigns[s][x] = ns
		}
	}
	// an impersonated sign is a well-formed, verifiable signature of its key
	// holder over (fact, somebody else's address): only the address/key binding
	// of the suffrage can refuse it
	if err := w.impSign(-1, 0, w.pfacts[0], n, 0).IsValid(networkID); err != nil {
		panic(fmt.Sprintf("impersonated sign fact is not verifiable by itself: %+v", err))
	}
	if err := w.impExpelSign(n, 0, 0).Verify(networkID, w.exfacts[0].Hash().Bytes()); err != nil {
		panic(fmt.Sprintf("impersonated expel sign is not verifiable by itself: %+v", err))
	}
	return w
}

// signers of the expel operation against target x under a pattern; emask = all
// expelled nodes of the candidate, idx = position of x among them.
func (w *world) expelSigners(pat int, emask uint, x, idx int) []int {
	k := bits.OnesCount(emask)
	rule := w.q
	if k > w.n-w.q {
		rule = w.n - k
	}
	var remaining, expelled []int
	for i := 0; i < w.n; i++ {
		switch {
		case i == x:
		case emask&(1<<uint(i)) != 0:
			expelled = append(expelled, i)
		default:
			remaining = append(remaining, i)
		}
	}
	take := func(cnt int, order ...[]int) []int {
		var all []int
		for _, o := range order {
			all = append(all, o...)
		}
		if cnt > len(all) {
			cnt = len(all)
		}
		if cnt < 0 {
			cnt = 0
		}
		return append([]int{}, all[:cnt]...)
	}
	switch pat {
	case patAll:
		return take(w.n, remaining, expelled)
	case patRuleRemaining:
		return take(rule, remaining, expelled)
	case patRuleExpelled:
		return take(rule, expelled, remaining)
	case patRuleMinus1:
		return take(rule-1, remaining, expelled)
	case patFull:
		return take(w.q, remaining, expelled)
	case patMixed:
		if idx == 0 {
			return take(rule-1, remaining, expelled)
		}
		return take(w.n, remaining, expelled)
	case patOutsider:
		return append(take(rule, remaining, expelled), w.n)
	case patSelf:
		return append(take(rule-1, remaining, expelled), x)
	}
	return nil
}

type opset struct {
	ops      []base.SuffrageExpelOperation
	minsigns int // min over operations of member signers other than the target
	outsider bool
	signers  [][]int
	ok       bool // every operation has at least one signature (can be built)
	holders  [][]int // impersonated operations: key holder of each sign (parallel to signers); nil = every sign made by its own node
	nimp     int     // signs whose key holder is not the node they name
}

// buildImpOps: one expel operation per expelled node, signed under the addresses
// `addrs(x, idx)`; the sign of address a is made with the key of holder(a)
// (holder(a) == a: a's genuine sign). minsigns counts the distinct suffrage
// members other than the target whose KEY signed the operation.
func (w *world) buildImpOps(emask uint, addrs func(x, idx int) []int, holder func(a int) int) opset {
	o := opset{minsigns: 1 << 30, ok: true}
	idx := 0
	for x := 0; x < w.n; x++ {
		if emask&(1<<uint(x)) == 0 {
			continue
		}
		as := addrs(x, idx)
		idx++
		if len(as) == 0 {
			o.ok = false
			return o
		}
		hs := make([]int, len(as))
		signs := make([]base.NodeSign, len(as))
		var km uint
		for i, a := range as {
			hs[i] = holder(a)
			signs[i] = w.impExpelSign(hs[i], a, x)
			if a == w.n && hs[i] == w.n {
				o.outsider = true
			}
			if a != hs[i] {
				o.nimp++
			}
			if hs[i] < w.n && hs[i] != x {
				km |= 1 << uint(hs[i])
			}
		}
		if c := bits.OnesCount(km); c < o.minsigns {
			o.minsigns = c
		}
		o.signers = append(o.signers, as)
		o.holders = append(o.holders, hs)
		op := isaac.NewSuffrageExpelOperation(w.exfacts[x])
		if err := op.SetNodeSigns(signs); err != nil {
			// the operation itself refuses the sign set (e.g. duplicated address)
			o.ok = false
			return o
		}
		o.ops = append(o.ops, op)
	}
	return o
}

func (w *world) buildOps(pat int, emask uint) opset {
	o := opset{minsigns: 1 << 30, ok: true}
	idx := 0
	for x := 0; x < w.n; x++ {
		if emask&(1<<uint(x)) == 0 {
			continue
		}
		signers := w.expelSigners(pat, emask, x, idx)
		idx++
		o.signers = append(o.signers, signers)
		if len(signers) == 0 {
			o.ok = false
			return o
		}
		signs := make([]base.NodeSign, len(signers))
		cnt := 0
		for i, s := range signers {
			signs[i] = w.exsigns[s][x]
			switch {
			case s == w.n:
				o.outsider = true
			case s != x:
				cnt++
			}
		}
		if cnt < o.minsigns {
			o.minsigns = cnt
		}
		op := isaac.NewSuffrageExpelOperation(w.exfacts[x])
		if err := op.SetNodeSigns(signs); err != nil {
			panic(err)
		}
		o.ops = append(o.ops, op)
	}
	return o
}

func (w *world) build(kind int, maj base.BallotFact, sfs []base.BallotSignFact, ops []base.SuffrageExpelOperation, properStuck bool) base.Voteproof {
	ops = append([]base.SuffrageExpelOperation{}, ops...) // SetExpels sorts in place
	if w.stage == base.StageINIT {
		switch kind {
		case kindPlain:
			vp := isaac.NewINITVoteproof(w.point)
			if maj != nil {
				vp.SetMajority(maj)
			}
			vp.SetSignFacts(sfs).SetThreshold(w.th).Finish()
			return vp
		case kindExpel:
			vp := isaac.NewINITExpelVoteproof(w.point)
			if maj != nil {
				vp.SetMajority(maj)
			}
			vp.SetSignFacts(sfs).SetThreshold(w.th)
			vp.SetExpels(ops)
			vp.Finish()
			return vp
		default:
			vp := isaac.NewINITStuckVoteproof(w.point)
			vp.SetSignFacts(sfs)
			vp.SetExpels(ops)
			if properStuck {
				vp.Finish()
				return vp
			}
			if maj != nil {
				vp.SetMajority(maj)
			}
			vp.SetThreshold(base.MaxThreshold)
			vp.INITVoteproof.Finish()
			return vp
		}
	}
	switch kind {
	case kindPlain:
		vp := isaac.NewACCEPTVoteproof(w.point)
		if maj != nil {
			vp.SetMajority(maj)
		}
		vp.SetSignFacts(sfs).SetThreshold(w.th).Finish()
		return vp
	case kindExpel:
		vp := isaac.NewACCEPTExpelVoteproof(w.point)
		if maj != nil {
			vp.SetMajority(maj)
		}
		vp.SetSignFacts(sfs).SetThreshold(w.th)
		vp.SetExpels(ops)
		vp.Finish()
		return vp
	default:
		vp := isaac.NewACCEPTStuckVoteproof(w.point)
		vp.SetSignFacts(sfs)
		vp.SetExpels(ops)
		if properStuck {
			vp.Finish()
			return vp
		}
		if maj != nil {
			vp.SetMajority(maj)
		}
		vp.SetThreshold(base.MaxThreshold)
		vp.ACCEPTVoteproof.Finish()
		return vp
	}
}

// one voteproof the real validators accepted, with a majority
type accepted struct {
	kind    int
	maj     int  // letter of the majority fact
	bind    int  // -1: facts without expel facts; else the expel set the facts are bound to
	emask   uint // expelled nodes
	fmask   uint // members with a sign fact for the majority fact
	gmask   uint // members with a sign fact for the other fact
	desc    string
	pattern int
	signers [][]int
	extra   string
	cmask   uint // members whose sign fact in the voteproof is crafted (they never signed that fact)
	fpt     int  // 0: majority fact of the voteproof's own point; 1..3: of another round / height / stage
	xmask   uint // members whose sign fact in the voteproof is a vote of another point (not a vote for this stage point)

	// impersonation candidates: fmask holds the suffrage members whose KEY signed
	// the majority fact (whatever address the sign names)
	impForm   string
	imp       [][2]int // sign facts (address, key holder) with address != key holder
	vmask     uint     // addresses the sign facts for the majority fact name
	opHolders [][]int  // key holder of every expel sign, when some are impersonated
}

func (a accepted) witness(w *world) map[string]any {
	set := func(m uint) []int {
		s := []int{}
		for i := 0; i < w.n+2; i++ {
			if m&(1<<uint(i)) != 0 {
				s = append(s, i)
			}
		}
		return s
	}
	facts := "without expel facts"
	if a.bind >= 0 {
		facts = fmt.Sprintf("carry the expel facts of nodes %v", set(uint(a.bind)))
	}
	m := map[string]any{
		"kind": kindName[a.kind], "majority": string(rune('A' + a.maj)), "ballot_facts": facts,
		"voters_for_majority": set(a.fmask), "voters_for_other_fact": set(a.gmask), "shape": a.desc,
	}
	if a.kind != kindPlain {
		m["expelled"] = set(a.emask)
		m["expel_signers_per_operation"] = a.signers
		m["expel_signer_pattern"] = patName[a.pattern]
	}
	if a.extra != "" {
		m["variant"] = a.extra
	}
	if a.fpt > 0 {
		m["majority"] = string(rune('A'+a.maj)) + " voted at " + foreignName[a.fpt-1]
	}
	if a.xmask != 0 {
		m["sign_facts_that_are_votes_of_another_point"] = set(a.xmask)
	}
	if a.cmask != 0 {
		m["crafted_sign_facts_of_members_who_never_signed_this_fact"] = set(a.cmask)
	}
	if a.impForm != "" {
		m["impersonation_form"] = a.impForm
		m["voters_for_majority"] = set(a.fmask)
		m["voters_for_majority_are"] = "the suffrage members whose key made a signature on the majority fact"
		m["addresses_named_by_the_sign_facts"] = set(a.vmask)
		var l []string
		for _, p := range a.imp {
			l = append(l, fmt.Sprintf("address of %s signed with the key of %s", w.nodeName(p[0]), w.nodeName(p[1])))
		}
		m["sign_facts_naming_another_nodes_address"] = l
		if a.opHolders != nil {
			m["expel_sign_key_holders_per_operation"] = a.opHolders
		}
	}
	return m
}

func (w *world) nodeName(i int) string {
	switch {
	case i < w.n:
		return fmt.Sprintf("node %d", i)
	case i == w.n:
		return "the non-member"
	}
	return fmt.Sprintf("local %d", i)
}

type stats struct {
	cands, acceptedMaj, acceptedDraw, rejSuffrage, rejIsValid int
	byKind                                                    [3][2]int // [kind][accepted?]
	reasons                                                   map[string]int
	distinct                                                  map[string]struct{}
	imp                                                       map[string]int // impersonation candidates: counts by form / kind / outcome
	impSamples                                                []map[string]any
}

func newStats() *stats {
	return &stats{reasons: map[string]int{}, distinct: map[string]struct{}{}, imp: map[string]int{}}
}

func reason(err error) string {
	s := err.Error()
	for _, k := range []string{
		"insufficient expel node signs", "unknown node found", "wrong publickey", "wrong result", "wrong majority", "not enough sign facts with expels",
		"unknown node signed", "unknown expel node", "expel expired", "duplicated node found in SignFacts", "expel node voted", "duplicated expel node",
		"expels not matched", "unknown expels found", "majoirty not found", "empty signs", "empty sign facts", "empty expels", "wrong threshold for stuck",
		"not empty majority for draw", "empty majority for majority", "point does not match", "duplicated signs", "verify", "signature",
	} {
		if strings.Contains(s, k) {
			return strings.ReplaceAll(k, " ", "-")
		}
	}
	if len(s) > 60 {
		s = s[len(s)-60:]
	}
	return strings.ReplaceAll(s, " ", "-")
}

// validate runs the two real validators; accepted = both return nil.
func (w *world) validate(st *stats, kind int, vp base.Voteproof) (bool, string) {
	st.cands++
	if err := isaac.IsValidVoteproofWithSuffrage(vp, w.suf); err != nil {
		st.rejSuffrage++
		st.byKind[kind][0]++
		why := "suffrage-check:" + reason(err)
		st.reasons[why]++
		return false, why
	}
	if err := vp.IsValid(networkID); err != nil {
		st.rejIsValid++
		st.byKind[kind][0]++
		why := "IsValid:" + reason(err)
		st.reasons[why]++
		return false, why
	}
	st.byKind[kind][1]++
	return true, ""
}

// describe gives the shape of an accepted voteproof: its kind and every way in
// which it falls short of what validation is documented to demand (votes of
// ceil(n*t/100) distinct members for a plain voteproof; for an expel voteproof
// every not-expelled node voting the majority and every expel operation signed
// by at least min(ceil(n*t/100), n-k) members other than its target).
func (w *world) describe(kind int, emask, fmask, gmask uint, minsigns int, flags []string) string {
	k := bits.OnesCount(emask)
	members := uint(1)<<uint(w.n) - 1
	m := bits.OnesCount(fmask & members)
	var name string
	var parts []string
	rule := w.q
	if w.n-k < rule {
		rule = w.n - k
	}
	switch kind {
	case kindPlain:
		name = "plain"
		if m < w.q {
			parts = append(parts, "votes-below-quorum")
		}
	case kindExpel:
		name = "expel-k<=f"
		if k > w.f {
			name = "expel-k>f"
		}
		if m < w.n-k {
			parts = append(parts, "votes-part-of-remaining")
		}
	default:
		name = "stuck-with-majority"
		if bits.OnesCount((fmask|gmask)&members)+k < w.n {
			parts = append(parts, "voters-missing")
		}
	}
	if kind != kindPlain && minsigns < rule {
		parts = append(parts, "expel-signs-below-rule")
	}
	parts = append(parts, flags...)
	if len(parts) == 0 {
		return name
	}
	return name + "[" + strings.Join(parts, ",") + "]"
}

type task struct {
	w     *world
	emask uint
	// statuses to enumerate for the not-expelled nodes: nil = all 3^r
	sample []int
	pats   []int
	styles []int
	// thorough tier: the larger impersonation family
	thorough bool
}

func nst3(r int) int { return pow3(r) }

func pow3(r int) int {
	p := 1
	for i := 0; i < r; i++ {
		p *= 3
	}
	return p
}

// run enumerates the candidates of one (world, expelled set) and returns the
// accepted voteproofs that carry a majority.
func (tk task) run(st *stats) []accepted {
	w := tk.w
	var out []accepted
	k := bits.OnesCount(tk.emask)
	var remaining, expelled []int
	for i := 0; i < w.n; i++ {
		if tk.emask&(1<<uint(i)) != 0 {
			expelled = append(expelled, i)
		} else {
			remaining = append(remaining, i)
		}
	}
	r := len(remaining)

	// facts and sign facts per style: 0 = without expel facts, 1 = bound to this expel set, 2 = bound to another set
	type styleFacts struct {
		bind  int
		facts [2]base.BallotFact
		signs [2][]base.BallotSignFact // index = node (0..n+1)
	}
	sfacts := map[int]*styleFacts{0: {bind: -1, facts: w.pfacts, signs: w.psigns}}
	mkBound := func(bindmask uint) *styleFacts {
		var hs []util.Hash
		for x := 0; x < w.n; x++ {
			if bindmask&(1<<uint(x)) != 0 {
				hs = append(hs, w.exhashes[x])
			}
		}
		s := &styleFacts{bind: int(bindmask)}
		for l := 0; l < 2; l++ {
			s.facts[l] = w.fact(l, hs)
			s.signs[l] = make([]base.BallotSignFact, w.n+2)
			for i := 0; i < w.n+2; i++ {
				s.signs[l][i] = w.sign(i, s.facts[l])
			}
		}
		return s
	}
	if k > 0 {
		sfacts[1] = mkBound(tk.emask)
		if k >= 2 {
			sfacts[2] = mkBound(tk.emask &^ (1 << uint(expelled[0])))
		}
	}

	ops := make([]opset, nPatterns)
	if k > 0 {
		for p := 0; p < nPatterns; p++ {
			ops[p] = w.buildOps(p, tk.emask)
		}
	}

	// set by the foreign-point candidates around their try calls
	var curFpt int
	var curXmask uint
	var curMajFact base.BallotFact
	var curCmask uint // crafted voters of the majority fact: counted by the validator, not votes of those members
	var curCsrcG uint // members whose genuine sign of the OTHER fact of this point is what was replayed
	// set by the candidates whose signs name an address other than their key
	// holder's: fmask passed to try = members whose KEY signed the majority fact
	var curVotesSet bool
	var curVotes uint    // addresses named by the sign facts for the majority fact (what the validator counts)
	var curImpForm string // impersonation form (part of the fingerprint); "" = not an impersonation candidate
	var curImp [][2]int  // (address, key holder) of the impersonated sign facts
	var curOps *opset    // expel operations built for this candidate instead of a pattern
	try := func(kind, maj, style, pat int, sfs []base.BallotSignFact, fmask, gmask uint, flags []string, extra string, proper bool) {
		sf := sfacts[style]
		var o opset
		if kind != kindPlain {
			o = ops[pat]
			if curOps != nil {
				o = *curOps
			}
			if !o.ok {
				return
			}
			if o.outsider {
				flags = append(flags, "outsider-signed-expel")
			}
		}
		var mf base.BallotFact
		if maj >= 0 {
			mf = sf.facts[maj]
		}
		if curMajFact != nil {
			mf = curMajFact
		}
		vp := w.build(kind, mf, sfs, o.ops, proper)
		okv, why := w.validate(st, kind, vp)
		st.distinct[fmt.Sprintf("%s|%s|k%d|f%d|g%d|p%d|s%d|m%d|%v|%s|%v", w, kindName[kind], k, bits.OnesCount(fmask), bits.OnesCount(gmask), pat, style, maj, flags, curImpForm, okv)] = struct{}{}
		if curImpForm != "" {
			form := curImpForm
			if i := strings.Index(form, "|"); i >= 0 {
				form = form[:i]
			}
			st.imp["candidates"]++
			st.imp["candidates_"+kindName[kind]]++
			st.imp["form:"+form]++
			st.imp["impersonated_sign_facts_in_candidates"] += len(curImp)
			if o.holders != nil {
				st.imp["candidates_with_impersonated_expel_signs"]++
			}
			if okv {
				st.imp["accepted"]++
				st.imp["accepted_"+kindName[kind]]++
			} else {
				st.imp["rejected:"+why]++
			}
			if w.n == 4 && w.t10 == 670 && w.stage == base.StageINIT && maj == 1 && !proper && len(st.impSamples) < 1 &&
				strings.HasPrefix(extra, "after") && strings.HasPrefix(curImpForm, "one-member-key:own-address-plus-all-others") &&
				(tk.emask == 0 || (tk.emask == 0b0100 && kind == kindExpel && style == 1 && strings.HasSuffix(curImpForm, "|expel-signs:same-key"))) {
				m := map[string]any{
					"world": w.String(), "impersonation_candidate": kindName[kind], "form": curImpForm, "accepted": okv, "refused_with": why,
					"sign_facts_address_from_key_of": curImp, "key_holders_that_signed": bits.OnesCount(fmask), "addresses_named": bits.OnesCount(curVotes),
				}
				if o.holders != nil {
					m["expel_sign_addresses_per_operation"] = o.signers
					m["expel_sign_key_holders_per_operation"] = o.holders
				}
				st.impSamples = append(st.impSamples, m)
			}
		}
		if !okv {
			return
		}
		if vp.Majority() == nil || vp.Result() != base.VoteResultMajority {
			st.acceptedDraw++
			return
		}
		st.acceptedMaj++
		bind := sf.bind
		a := accepted{
			kind: kind, maj: maj, bind: bind, emask: tk.emask, fmask: fmask, gmask: gmask,
			pattern: pat, signers: o.signers, extra: extra, fpt: curFpt, xmask: curXmask, cmask: curCmask,
		}
		a.gmask |= curCsrcG
		if curImpForm != "" {
			a.impForm, a.imp, a.vmask, a.opHolders = curImpForm, curImp, curVotes, o.holders
		}
		// the shape counts votes for the majority fact whatever point they were cast for
		vm := fmask | curCmask
		if curVotesSet {
			vm = curVotes
		}
		if curFpt > 0 {
			vm = curXmask
			a.fmask = 0 // votes of another point are not votes for this stage point
		}
		a.desc = w.describe(kind, tk.emask, vm, gmask|curXmask, o.minsigns, flags)
		out = append(out, a)
	}

	// ---- crafted sign facts -------------------------------------------------
	// tried before the genuine voteproofs of this task and again after them, so
	// that acceptance depending on what was validated earlier shows
	crafted := func(phase string) {
		if tk.sample != nil {
			return
		}
		sf := sfacts[0]
		before := len(out)
		for maj := 0; maj < 2; maj++ {
			if k == 0 {
				// every assignment {absent, genuine vote, replayed sign of the other fact}, at least one replayed
				for code := 0; code < nst3(r); code++ {
					c := code
					var sfs []base.BallotSignFact
					var fm, cm uint
					for i := 0; i < r; i++ {
						nd := remaining[i]
						switch c % 3 {
						case 1:
							sfs = append(sfs, sf.signs[maj][nd])
							fm |= 1 << uint(nd)
						case 2:
							sfs = append(sfs, w.csigns[cfOtherFact][maj][nd])
							cm |= 1 << uint(nd)
						}
						c /= 3
					}
					if cm == 0 || bits.OnesCount(fm|cm) < w.q-1 {
						continue
					}
					curCmask, curCsrcG = cm, cm
					try(kindPlain, maj, 0, 0, sfs, fm, 0, []string{craftedName[cfOtherFact]}, phase, false)
					curCmask, curCsrcG = 0, 0
				}
			}
			kinds := []int{kindPlain}
			need := w.q
			if k > 0 {
				kinds = []int{kindExpel, kindStuck}
				need = r
			}
			if need > r || need < 1 {
				continue
			}
			for _, kind := range kinds {
				for ck := 0; ck < nCrafted; ck++ {
					if k == 0 && ck == cfOtherFact {
						continue // enumerated above
					}
					if w.n < 2 && ck >= cfOtherKey {
						continue // there is no other member
					}
					for _, nc := range []int{1, need} { // one crafted vote topping up, or all crafted
						var sfs []base.BallotSignFact
						var fm, cm, hm uint
						for i, nd := range remaining[:need] {
							if i < need-nc {
								sfs = append(sfs, sf.signs[maj][nd])
								fm |= 1 << uint(nd)
							} else {
								sfs = append(sfs, w.csigns[ck][maj][nd])
								cm |= 1 << uint(nd)
								if ck >= cfOtherKey {
									// the signature was made by the next member's key, on this very fact
									hm |= 1 << uint((nd+1)%w.n)
								}
							}
						}
						curCmask = cm
						if ck == cfOtherFact {
							curCsrcG = cm
						}
						curVotesSet, curVotes = true, fm|cm
						try(kind, maj, 0, patRuleRemaining, sfs, fm|hm, 0, []string{craftedName[ck]}, phase, false)
						curCmask, curCsrcG = 0, 0
						curVotesSet, curVotes = false, 0
					}
				}
			}
		}
		st.reasons["crafted-sign-candidates-accepted:"+phase] += len(out) - before
	}
	crafted("before the genuine voteproofs of this task")

	// ---- impersonation: signs that name another node's address -----------------
	// A node signs whatever message it likes with its own valid key, and the
	// node address is part of that message: (address of a, key of d) is a
	// verifiable signature. Holders: one member, f members, two members swapping,
	// every member signing for its neighbour, an expelled member, a non-member;
	// addresses: other members, a non-member. Always exactly as many sign facts as
	// the voteproof needs, so it reaches its threshold only thanks to the
	// impersonated ones. The same for the node signs of the expel operations.
	// level 0: one form (before the genuine voteproofs); 1: sampled tasks; 2: all
	// forms, first and last member as the single key holder; 3: every member
	impOps := map[string]*opset{}
	impersonated := func(phase string, level int) {
		kinds := []int{kindPlain}
		need := w.q
		styles := []int{0}
		if k > 0 {
			kinds = []int{kindExpel, kindStuck}
			need = r
			styles = []int{0, 1}
		}
		if need < 1 || need > r {
			return
		}
		type form struct {
			name  string
			pairs [][2]int // (address, key holder) of every sign fact
			opKey int      // key that makes the impersonated expel signs of the candidate
		}
		var forms []form
		others := func(d int) []int {
			var o []int
			for _, nd := range remaining {
				if nd != d {
					o = append(o, nd)
				}
			}
			return o
		}
		type cnt struct {
			c    int
			name string
		}
		counts := func(max int) []cnt {
			var c []cnt
			if max >= 1 {
				c = append(c, cnt{max, "all"})
			}
			if max >= 2 && level >= 1 {
				c = append(c, cnt{1, "one"})
			}
			return c
		}
		// the last c addresses of addrs are signed with holder(j), the others by their own node
		add := func(name string, own []int, addrs []int, c int, holder func(j int) int, opKey int) {
			f := form{name: name, opKey: opKey}
			for _, d := range own {
				f.pairs = append(f.pairs, [2]int{d, d})
			}
			for j, a := range addrs {
				h := a
				if j >= len(addrs)-c {
					h = holder(j)
				}
				f.pairs = append(f.pairs, [2]int{a, h})
			}
			forms = append(forms, f)
		}
		last := remaining[r-1]
		ds := []int{last}
		switch {
		case level >= 3:
			ds = remaining // thorough tier: every not-expelled member as the key holder
		case level >= 2 && remaining[0] != last:
			ds = []int{remaining[0], last}
		}
		for _, d := range ds {
			d := d
			oth := others(d)
			for _, c := range counts(need - 1) {
				add("one-member-key:own-address-plus-"+c.name+"-others", []int{d}, oth[:need-1], c.c, func(int) int { return d }, d)
			}
			if level >= 2 && len(oth) >= need {
				for _, c := range counts(need) {
					add("one-member-key:"+c.name+"-other-addresses-without-its-own", nil, oth[:need], c.c, func(int) int { return d }, d)
				}
			}
		}
		if w.f >= 2 && r >= w.f && need > w.f {
			D := remaining[r-w.f:]
			var oth []int
			for _, nd := range remaining[:r-w.f] {
				oth = append(oth, nd)
			}
			for _, c := range counts(need - w.f) {
				add("f-member-keys:own-addresses-plus-"+c.name+"-others", D, oth[:need-w.f], c.c, func(j int) int { return D[j%len(D)] }, D[0])
			}
		}
		if level >= 2 && need >= 2 {
			as := remaining[:need]
			add("two-members-swap-keys", nil, as, need, func(j int) int {
				switch j {
				case 0:
					return as[1]
				case 1:
					return as[0]
				}
				return as[j]
			}, as[1])
			if need >= 3 {
				add("every-member-key-under-the-next-address", nil, as, need, func(j int) int { return as[(j+1)%need] }, as[1])
			}
		}
		if level >= 2 && k > 0 {
			for _, c := range counts(need) {
				add("expelled-member-key:"+c.name+"-member-addresses", nil, remaining[:need], c.c, func(int) int { return expelled[0] }, expelled[0])
			}
		}
		if level >= 1 {
			for _, c := range counts(need) {
				if level == 1 && c.name != "all" {
					continue
				}
				add("non-member-key:"+c.name+"-member-addresses", nil, remaining[:need], c.c, func(int) int { return w.n }, w.n)
			}
		}
		if level >= 2 {
			add("member-key-under-non-member-address", nil, append(append([]int{}, remaining[:need-1]...), w.n), 1, func(int) int { return last }, last)
		}

		sameKeyOps := func(key int) *opset {
			name := fmt.Sprintf("same-key-%d", key)
			if o, ok := impOps[name]; ok {
				return o
			}
			o := w.buildImpOps(tk.emask, func(x, idx int) []int { return w.expelSigners(patRuleRemaining, tk.emask, x, idx) }, func(int) int { return key })
			impOps[name] = &o
			return &o
		}
		evariants := []string{"genuine"}
		if k > 0 && level >= 1 {
			evariants = []string{"genuine", "same-key"}
		}
		before := len(out)
		for _, f := range forms {
			var hm, am uint
			var imp [][2]int
			for _, p := range f.pairs {
				am |= 1 << uint(p[0])
				if p[1] < w.n {
					hm |= 1 << uint(p[1])
				}
				if p[0] != p[1] {
					imp = append(imp, p)
				}
			}
			for _, kind := range kinds {
				for maj := 0; maj < 2; maj++ {
					for _, style := range styles {
						sf := sfacts[style]
						sfs := make([]base.BallotSignFact, len(f.pairs))
						for i, p := range f.pairs {
							if p[0] == p[1] {
								sfs[i] = sf.signs[maj][p[0]]
							} else {
								sfs[i] = w.impSign(sf.bind, maj, sf.facts[maj], p[1], p[0])
							}
						}
						for _, ev := range evariants {
							flags := []string{"impersonated-address"}
							curOps = nil
							if ev != "genuine" {
								curOps = sameKeyOps(f.opKey)
								if curOps.nimp == 0 {
									curOps = nil
									continue // every expel sign of this candidate would be its own node's
								}
								flags = append(flags, "impersonated-expel-sign")
							}
							curVotesSet, curVotes, curImp = true, am, imp
							curImpForm = f.name
							if kind != kindPlain {
								curImpForm += "|expel-signs:" + ev
							}
							try(kind, maj, style, patRuleRemaining, sfs, hm, 0, flags, phase, false)
							if kind == kindStuck && maj == 0 && style == 0 && level >= 2 {
								curImpForm += "|proper-stuck"
								try(kindStuck, -1, 0, patRuleRemaining, sfs, hm, 0, flags, phase, true)
							}
							curVotesSet, curVotes, curImp, curImpForm, curOps = false, 0, nil, "", nil
						}
					}
				}
			}
		}
		// only the expel signs impersonated; every not-expelled node votes with its own key
		if k > 0 && level >= 1 {
			var all uint
			for _, nd := range remaining {
				all |= 1 << uint(nd)
			}
			type eform struct {
				name string
				ops  *opset
			}
			efs := []eform{{"expel-signs-only:one-member-key", sameKeyOps(last)}}
			if level >= 2 {
				efs = append(efs, eform{"expel-signs-only:expelled-member-key", sameKeyOps(expelled[0])}, eform{"expel-signs-only:non-member-key", sameKeyOps(w.n)})
				o, ok := impOps["non-member-address"]
				if !ok {
					no := w.buildImpOps(tk.emask, func(x, idx int) []int {
						return append(w.expelSigners(patRuleMinus1, tk.emask, x, idx), w.n)
					}, func(a int) int {
						if a == w.n {
							return last
						}
						return a
					})
					o = &no
					impOps["non-member-address"] = o
				}
				efs = append(efs, eform{"expel-signs-only:member-key-under-non-member-address", o})
			}
			for _, ef := range efs {
				if ef.ops.nimp == 0 {
					continue
				}
				for _, kind := range kinds {
					for maj := 0; maj < 2; maj++ {
						for _, style := range styles {
							sf := sfacts[style]
							var sfs []base.BallotSignFact
							for _, nd := range remaining {
								sfs = append(sfs, sf.signs[maj][nd])
							}
							curOps, curImpForm = ef.ops, ef.name
							curVotesSet, curVotes = true, all
							try(kind, maj, style, patRuleRemaining, sfs, all, 0, []string{"impersonated-expel-sign"}, phase, false)
							curVotesSet, curVotes, curImpForm, curOps = false, 0, "", nil
						}
					}
				}
			}
		}
		st.reasons["impersonation-candidates-accepted:"+phase] += len(out) - before
	}
	implevel, implevelBefore := 2, 0
	switch {
	case tk.sample != nil:
		implevel = 1
	case tk.thorough:
		implevel, implevelBefore = 3, 1
	}
	impersonated("before the genuine voteproofs of this task", implevelBefore)

	nst := pow3(r)
	statuses := tk.sample
	if statuses == nil {
		statuses = make([]int, nst)
		for i := range statuses {
			statuses[i] = i
		}
	}
	status := make([]int, r)
	for _, code := range statuses {
		c := code
		nF := 0
		for i := 0; i < r; i++ {
			status[i] = c % 3
			c /= 3
			if status[i] == stF {
				nF++
			}
		}
		for maj := 0; maj < 2; maj++ {
			for _, style := range tk.styles {
				sf, okS := sfacts[style]
				if !okS || (k == 0 && style != 0) {
					continue
				}
				var sfs []base.BallotSignFact
				var fmask, gmask uint
				for i, nd := range remaining {
					switch status[i] {
					case stF:
						sfs = append(sfs, sf.signs[maj][nd])
						fmask |= 1 << uint(nd)
					case stG:
						sfs = append(sfs, sf.signs[1-maj][nd])
						gmask |= 1 << uint(nd)
					}
				}
				if len(sfs) == 0 {
					continue
				}
				if k == 0 {
					if style == 0 {
						try(kindPlain, maj, 0, 0, sfs, fmask, gmask, nil, "", false)
						if maj == 0 {
							try(kindPlain, -1, 0, 0, sfs, fmask, gmask, nil, "draw", false)
						}
					}
					continue
				}
				for _, pat := range tk.pats {
					if nF == 0 && pat != patAll {
						continue
					}
					if style == 2 && pat != patRuleRemaining {
						continue
					}
					try(kindExpel, maj, style, pat, sfs, fmask, gmask, nil, "", false)
					// stuck voteproofs: every vote assignment with the plain facts and three
					// signer patterns; every pattern and fact style when at most one
					// remaining node does not vote the majority fact
					if style != 2 && (nF >= r-1 || (style == 0 && (pat == patAll || pat == patRuleRemaining || pat == patRuleMinus1))) {
						try(kindStuck, maj, style, pat, sfs, fmask, gmask, nil, "", false)
					}
				}
				if maj == 0 && style == 0 {
					try(kindStuck, -1, 0, patRuleRemaining, sfs, fmask, gmask, nil, "proper stuck voteproof (no majority)", true)
					try(kindExpel, -1, 0, patRuleRemaining, sfs, fmask, gmask, nil, "draw", false)
				}
			}
		}
	}

	crafted("after the genuine voteproofs of this task")
	impersonated("after the genuine voteproofs of this task", implevel)

	// ---- votes of a neighbouring point packed into a voteproof of this point --
	// Honest nodes vote for other facts in the next round, at the next height
	// and in the other stage; those sign facts exist in every world and are not
	// votes for this stage point.
	if tk.sample == nil {
		need := w.q
		kinds := []int{kindPlain}
		if k > 0 {
			need = r
			kinds = []int{kindExpel, kindStuck}
		}
		for fk := 0; fk < 3; fk++ {
			for maj := 0; maj < 2; maj++ {
				for _, kind := range kinds {
					for _, m := range []int{need - 1, need, r} {
						if m < 1 || m > r {
							continue
						}
						// (a) the whole voteproof is made of the other point's votes
						var sfs []base.BallotSignFact
						var xm uint
						for _, nd := range remaining[:m] {
							sfs = append(sfs, w.fsigns[fk][maj][nd])
							xm |= 1 << uint(nd)
						}
						curFpt, curXmask, curMajFact = fk+1, xm, w.ffacts[fk][maj]
						try(kind, maj, 0, patRuleRemaining, sfs, 0, 0, []string{"majority-and-votes-of-" + foreignName[fk]}, "sign facts and majority voted at " + foreignName[fk], false)
						curFpt, curXmask, curMajFact = 0, 0, nil
						// (b) majority of this point, one vote short, topped up with a vote of the other point
						if m >= 2 {
							var own []base.BallotSignFact
							var fm uint
							for _, nd := range remaining[:m-1] {
								own = append(own, sfacts[0].signs[maj][nd])
								fm |= 1 << uint(nd)
							}
							last := remaining[m-1]
							own = append(own, w.fsigns[fk][maj][last])
							curXmask = 1 << uint(last)
							try(kind, maj, 0, patRuleRemaining, own, fm, 0, []string{"one-vote-of-" + foreignName[fk]}, "one sign fact voted at " + foreignName[fk], false)
							curXmask = 0
						}
					}
				}
			}
		}
	}

	// ---- variants around the acceptance boundary --------------------------
	if tk.sample == nil {
		for maj := 0; maj < 2; maj++ {
			sf := sfacts[0]
			kinds := []int{kindPlain}
			if k > 0 {
				kinds = []int{kindExpel, kindStuck}
			}
			need := w.q
			if k > 0 {
				need = r
			}
			for _, kind := range kinds {
				for short := 1; short <= 2 && need-short >= 1 && r >= need; short++ {
					voters := remaining[:need-short]
					var base0 []base.BallotSignFact
					var fmask uint
					for _, nd := range voters {
						base0 = append(base0, sf.signs[maj][nd])
						fmask |= 1 << uint(nd)
					}
					pat := patRuleRemaining
					// the same sign fact twice / three times
					dup := append(append([]base.BallotSignFact{}, base0...), base0[0])
					if short == 2 {
						dup = append(dup, base0[0])
					}
					try(kind, maj, 0, pat, dup, fmask, 0, []string{"duplicate-sign-fact"}, "one node's sign fact repeated", false)
					// both facts signed by the same node inside one voteproof
					both := append(append([]base.BallotSignFact{}, base0...), sf.signs[1-maj][voters[0]])
					try(kind, maj, 0, pat, both, fmask, 1<<uint(voters[0]), []string{"duplicate-sign-fact"}, "one node with both facts", false)
					if short == 1 {
						// a node that is not in the suffrage
						out1 := append(append([]base.BallotSignFact{}, base0...), sf.signs[maj][w.n])
						try(kind, maj, 0, pat, out1, fmask|1<<uint(w.n), 0, []string{"non-member-voted"}, "sign fact of a non-member", false)
						// a member's address with another key (only when that member is not a voter already)
						if !(len(voters) > 0 && voters[0] == 0) && (k == 0 || tk.emask&1 == 0) {
							imp := append(append([]base.BallotSignFact{}, base0...), sf.signs[maj][w.n+1])
							try(kind, maj, 0, pat, imp, fmask|1<<uint(w.n+1), 0, []string{"wrong-key-voted"}, "member address signed with another key", false)
						}
						if k > 0 {
							ex := append(append([]base.BallotSignFact{}, base0...), sf.signs[maj][expelled[0]])
							try(kind, maj, 0, pat, ex, fmask|1<<uint(expelled[0]), 0, []string{"expelled-node-voted"}, "sign fact of an expelled node", false)
						}
					}
				}
			}
			if k > 0 {
				// every remaining node votes, plus an expelled node
				var all []base.BallotSignFact
				var fmask uint
				for _, nd := range remaining {
					all = append(all, sf.signs[maj][nd])
					fmask |= 1 << uint(nd)
				}
				ex := append(append([]base.BallotSignFact{}, all...), sf.signs[maj][expelled[0]])
				try(kindExpel, maj, 0, patAll, ex, fmask|1<<uint(expelled[0]), 0, []string{"expelled-node-voted"}, "sign fact of an expelled node", false)
			}
		}
	}
	return out
}

// equivocators needed for two accepted voteproofs to exist together: members
// that signed two different facts.
func equivocators(w *world, a, b accepted) uint {
	type fs struct {
		letter, bind int
		mask         uint
	}
	sets := []fs{
		{a.maj, a.bind, a.fmask}, {1 - a.maj, a.bind, a.gmask},
		{b.maj, b.bind, b.fmask}, {1 - b.maj, b.bind, b.gmask},
	}
	var eq uint
	for i := 0; i < len(sets); i++ {
		for j := i + 1; j < len(sets); j++ {
			if sets[i].letter == sets[j].letter && sets[i].bind == sets[j].bind {
				continue
			}
			eq |= sets[i].mask & sets[j].mask
		}
	}
	return eq & (1<<uint(w.n) - 1)
}

type violation struct {
	sig  string
	w    *world
	a, b accepted
	eq   uint
	rank string
}

func pairUp(w *world, acc []accepted, found map[string]*violation, counts map[string]int) (pairs int) {
	// dedupe by what matters to the oracle
	type key struct {
		desc             string
		maj, bind        int
		emask, fm, gm    uint
	}
	seen := map[key]int{}
	var list []accepted
	for _, a := range acc {
		k := key{a.desc, a.maj, a.bind, a.emask, a.fmask, a.gmask}
		if i, ok := seen[k]; ok {
			if a.pattern < list[i].pattern {
				list[i] = a
			}
			continue
		}
		seen[k] = len(list)
		list = append(list, a)
	}
	sort.Slice(list, func(i, j int) bool {
		x, y := list[i], list[j]
		if x.desc != y.desc {
			return x.desc < y.desc
		}
		if x.maj != y.maj {
			return x.maj < y.maj
		}
		if x.bind != y.bind {
			return x.bind < y.bind
		}
		if x.emask != y.emask {
			return x.emask < y.emask
		}
		if x.fmask != y.fmask {
			return x.fmask < y.fmask
		}
		return x.gmask < y.gmask
	})
	for i := 0; i < len(list); i++ {
		for j := i + 1; j < len(list); j++ {
			a, b := list[i], list[j]
			if a.maj == b.maj && a.bind == b.bind && a.fpt == b.fpt {
				continue // same majority fact
			}
			pairs++
			eq := equivocators(w, a, b)
			ne := bits.OnesCount(eq)
			if ne > w.f {
				continue
			}
			da, db := a.desc, b.desc
			if db < da {
				da, db = db, da
			}
			sig := da + "+" + db
			if ne == 0 {
				counts[sig+" (zero equivocators)"]++
			}
			counts[sig]++
			// smallest witness: fewest nodes, then plain-fact style, then lowest masks
			rank := fmt.Sprintf("%02d|%02d|%04d|%v|%v|%06d|%06d|%06d|%06d|%s", ne, w.n, w.t10, a.bind >= 0, b.bind >= 0, a.emask, b.emask, a.fmask, b.fmask, w.stage)
			if v, ok := found[sig]; !ok || rank < v.rank {
				found[sig] = &violation{sig: sig, w: w, a: a, b: b, eq: eq, rank: rank}
			}
		}
	}
	return pairs
}

func TestC03(t *testing.T) {
	r := vlib.Start(t, "C03", vlib.LevelExploration)
	defer r.Finish()
	r.SetRule("world = (n real key pairs as suffrage, threshold t, stage INIT/ACCEPT, two facts A and B at one stage point, real signed sign facts of every node for both facts, real expel operations assembled from real node signatures); case = one candidate voteproof (plain / expel / stuck; majority A, B or none; every assignment {absent, votes majority fact, votes other fact, expelled} of the nodes; 8 expel-signer patterns; ballot facts with and without expel facts; variants with repeated sign facts, non-member, wrong key, expelled voter; voteproofs packed with the honest votes of a neighbouring point - next round, next height, other stage - as majority and sign facts, or as one topping-up vote; crafted wire messages that attach a member's genuine sign of the other fact / of the next round / another member's key or signature to this fact, tried before and after the genuine voteproofs; impersonation candidates, also before and after: sign facts that name the ADDRESS of one node and are signed, verifiably, with the KEY of another - one member for other members (with/without its own address, one or all of the other votes), f members, two members swapping, every member for its neighbour, an expelled member, a non-member key under member addresses, a member key under a non-member address - in plain, expel and stuck voteproofs with exactly as many sign facts as the threshold needs, and the same for the node signs of the expel operations, alone and together with impersonated votes) passed through the real IsValidVoteproofWithSuffrage and vp.IsValid; oracle pairs only accepted voteproofs with different majority facts and asks whether the nodes that signed two different facts number <= f, a node having signed a fact when its KEY made a signature on it, whatever address the sign names; distinct = (world, kind, k, #majority votes, #other votes, signer pattern, fact style, majority, flags, accepted)")
	r.Assume("every candidate of a world carries the world's threshold (stuck voteproofs: 100, as their validation demands); f = n - ceil(n*t/100) in exact integer arithmetic")
	r.Assume("who signs an expel operation is unconstrained (statement: any suffrage node may sign expels); equivocation = one suffrage node signing two different ballot facts for the stage point")
	r.Assume("ballot facts that carry different expel facts are different facts")
	r.Assume("a crafted sign fact (a member's genuine sign of another fact, of another round, or another member's key/signature, attached to this fact through the wire codec) is not a vote of that member: the member signed only the fact the sign was made for")
	r.Assume("signing is judged by the key: a sign naming the address of node a made with the key of node d is a signature of d (d is the equivocator if it signs two facts), never of a; a key outside the suffrage belongs to no suffrage node")
	r.Assume("a sign fact whose ballot fact belongs to another round, height or stage is an honest vote for that other point: it does not make its signer an equivocator at this stage point")

	type wspec struct {
		n, t10 int
		stage  base.Stage
		full   bool // all assignments and patterns
	}
	var specs []wspec
	stages := []base.Stage{base.StageINIT, base.StageACCEPT}
	ts := []int{670, 750, 800, 1000}
	nFull := r.N(5, 7)
	for n := 1; n <= 7; n++ {
		for _, t10 := range ts {
			for _, stg := range stages {
				switch {
				case n <= nFull:
					specs = append(specs, wspec{n, t10, stg, true})
				case t10 == 670 || t10 == 1000:
					// quick tier, n = 6, 7: all expel sets, sampled vote assignments
					if stg == base.StageINIT || n == 6 {
						specs = append(specs, wspec{n, t10, stg, false})
					}
				}
			}
		}
	}

	worlds := make([]*world, len(specs))
	vlib.Parallel(len(specs), 16, func(i int) {
		worlds[i] = newWorld(specs[i].n, specs[i].t10, specs[i].stage)
	})

	allPats := make([]int, nPatterns)
	for i := range allPats {
		allPats[i] = i
	}
	var tasks []task
	for wi, w := range worlds {
		for em := uint(0); em < 1<<uint(w.n)-1; em++ {
			tk := task{w: w, emask: em, pats: allPats, styles: []int{0, 1, 2}, thorough: r.Thorough()}
			if !specs[wi].full {
				k := bits.OnesCount(em)
				rr := w.n - k
				rng := r.Rand(3, w.n, w.t10, int(em))
				total := pow3(rr)
				// always: everybody votes the majority fact; one absent; one dissent; plus a PRNG sample
				pick := map[int]bool{}
				allF := 0
				for i := 0; i < rr; i++ {
					allF = allF*3 + stF
				}
				pick[allF] = true
				if rr >= 1 {
					pick[allF-stF] = true     // first remaining node absent
					pick[allF-stF+stG] = true // first remaining node votes the other fact
				}
				for x := 0; x < 6 && len(pick) < total; x++ {
					pick[rng.Intn(total)] = true
				}
				for c := range pick {
					tk.sample = append(tk.sample, c)
				}
				sort.Ints(tk.sample)
				tk.pats = []int{patAll, patRuleRemaining, patRuleExpelled, patRuleMinus1}
				tk.styles = []int{0, 1}
			}
			tasks = append(tasks, tk)
		}
	}
	// big tasks first
	sort.SliceStable(tasks, func(i, j int) bool {
		ci := pow3(tasks[i].w.n - bits.OnesCount(tasks[i].emask))
		cj := pow3(tasks[j].w.n - bits.OnesCount(tasks[j].emask))
		if tasks[i].sample != nil {
			ci = len(tasks[i].sample)
		}
		if tasks[j].sample != nil {
			cj = len(tasks[j].sample)
		}
		return ci > cj
	})
	r.Set("worlds", len(worlds))
	r.Set("tasks_world_x_expel_set", len(tasks))

	var mu sync.Mutex
	accByWorld := map[*world][]accepted{}
	total := newStats()
	t0 := time.Now()
	vlib.Parallel(len(tasks), 16, func(i int) {
		st := newStats()
		var acc []accepted
		r.Guard("voteproof-validation", map[string]any{"world": tasks[i].w.String(), "expelled_mask": tasks[i].emask}, func() {
			acc = tasks[i].run(st)
		})
		mu.Lock()
		defer mu.Unlock()
		accByWorld[tasks[i].w] = append(accByWorld[tasks[i].w], acc...)
		total.cands += st.cands
		total.acceptedMaj += st.acceptedMaj
		total.acceptedDraw += st.acceptedDraw
		total.rejSuffrage += st.rejSuffrage
		total.rejIsValid += st.rejIsValid
		for k := 0; k < 3; k++ {
			total.byKind[k][0] += st.byKind[k][0]
			total.byKind[k][1] += st.byKind[k][1]
		}
		for k, v := range st.reasons {
			total.reasons[k] += v
		}
		for k := range st.distinct {
			total.distinct[k] = struct{}{}
		}
		for k, v := range st.imp {
			total.imp[k] += v
		}
		total.impSamples = append(total.impSamples, st.impSamples...)
	})
	r.Logf("validation done at %.1fs: %d candidates, %d accepted with majority", time.Since(t0).Seconds(), total.cands, total.acceptedMaj)

	r.Eval(total.cands)
	for k := range total.distinct {
		r.Distinct(k)
	}
	r.Count("candidates", total.cands)
	r.Count("accepted_with_majority", total.acceptedMaj)
	r.Count("accepted_draw_or_stuck_without_majority", total.acceptedDraw)
	r.Count("rejected_by_IsValidVoteproofWithSuffrage", total.rejSuffrage)
	r.Count("rejected_by_IsValid", total.rejIsValid)
	for k := 0; k < 3; k++ {
		r.Count("candidates_"+kindName[k]+"_rejected", total.byKind[k][0])
		r.Count("candidates_"+kindName[k]+"_accepted", total.byKind[k][1])
	}
	r.Set("rejection_reasons", total.reasons)
	// impersonation candidates (signs naming an address other than their key holder's)
	r.Count("impersonation_candidates", total.imp["candidates"])
	r.Count("impersonation_candidates_accepted", total.imp["accepted"])
	r.Count("impersonation_candidates_with_impersonated_expel_signs", total.imp["candidates_with_impersonated_expel_signs"])
	r.Count("impersonated_sign_facts_in_candidates", total.imp["impersonated_sign_facts_in_candidates"])
	r.Set("impersonation_candidates_by_form_kind_and_outcome", total.imp)
	nis, nes := 0, 0
	for _, w := range worlds {
		w.imu.Lock()
		nis += len(w.isigns)
		nes += len(w.iexsigns)
		w.imu.Unlock()
	}
	r.Count("distinct_impersonated_ballot_signs_made", nis)
	r.Count("distinct_impersonated_expel_signs_made", nes)

	// ---- oracle -----------------------------------------------------------
	found := map[string]*violation{}
	counts := map[string]int{}
	shapes := map[string]int{}
	var fmu sync.Mutex
	pairs := 0
	vlib.Parallel(len(worlds), 16, func(i int) {
		w := worlds[i]
		mu.Lock()
		acc := accByWorld[w]
		mu.Unlock()
		lf := map[string]*violation{}
		lc := map[string]int{}
		p := pairUp(w, acc, lf, lc)
		fmu.Lock()
		defer fmu.Unlock()
		pairs += p
		for _, a := range acc {
			shapes[a.desc]++
		}
		for s, v := range lf {
			if o, ok := found[s]; !ok || v.rank < o.rank {
				found[s] = v
			}
		}
		for s, c := range lc {
			counts[s] += c
		}
	})
	r.Count("accepted_pairs_with_different_majorities_checked", pairs)
	r.Set("accepted_voteproof_shapes", shapes)
	r.Set("violating_pairs_per_signature", counts)
	r.Logf("pairing done at %.1fs: %d pairs", time.Since(t0).Seconds(), pairs)

	sigs := make([]string, 0, len(found))
	for s := range found {
		sigs = append(sigs, s)
	}
	sort.Strings(sigs)
	for _, s := range sigs {
		v := found[s]
		w := v.w
		eqs := []int{}
		for i := 0; i < w.n; i++ {
			if v.eq&(1<<uint(i)) != 0 {
				eqs = append(eqs, i)
			}
		}
		wa, wb := v.a.witness(w), v.b.witness(w)
		what := fmt.Sprintf("n=%d t=%s %s f=%d: both pass IsValid and IsValidVoteproofWithSuffrage with equivocators %v: [%s majority %v expelled %v voters %v] and [%s majority %v expelled %v voters %v]",
			w.n, w.th, w.stage, w.f, eqs,
			kindName[v.a.kind], wa["majority"], wa["expelled"], wa["voters_for_majority"],
			kindName[v.b.kind], wb["majority"], wb["expelled"], wb["voters_for_majority"])
		if v.a.cmask != 0 || v.b.cmask != 0 {
			what += fmt.Sprintf("; crafted sign facts (members who never signed that fact): %v / %v", wa["crafted_sign_facts_of_members_who_never_signed_this_fact"], wb["crafted_sign_facts_of_members_who_never_signed_this_fact"])
		}
		if v.a.impForm != "" || v.b.impForm != "" {
			what += fmt.Sprintf("; voters = members whose key signed; signs naming another node's address: %v (sign facts naming addresses %v) / %v (sign facts naming addresses %v)",
				wa["sign_facts_naming_another_nodes_address"], wa["addresses_named_by_the_sign_facts"], wb["sign_facts_naming_another_nodes_address"], wb["addresses_named_by_the_sign_facts"])
		}
		if v.a.xmask != 0 || v.b.xmask != 0 {
			what += fmt.Sprintf("; sign facts that are votes of another point: %v / %v", wa["sign_facts_that_are_votes_of_another_point"], wb["sign_facts_that_are_votes_of_another_point"])
		}
		r.Violation("agreement:"+s, what, map[string]any{
			"n": w.n, "threshold": w.th.String(), "stage": w.stage.String(), "f": w.f, "equivocators": eqs,
			"voteproof_1": wa, "voteproof_2": wb, "violating_pairs_with_this_signature": counts[s],
		})
		r.Logf("SIG agreement:%s -- %s", s, what)
	}
	r.Set("violation_signatures", sigs)

	// samples: impersonation candidates, the probe case and accepted shapes
	sort.Slice(total.impSamples, func(i, j int) bool {
		return fmt.Sprint(total.impSamples[i]) < fmt.Sprint(total.impSamples[j])
	})
	for _, m := range total.impSamples {
		r.Sample(m)
	}
	for _, w := range worlds {
		if w.n == 4 && w.t10 == 670 && w.stage == base.StageINIT {
			var pa, pb *accepted
			for i, a := range accByWorld[w] {
				if a.kind == kindExpel && a.bind < 0 && a.pattern == patRuleRemaining {
					if a.maj == 0 && a.emask == 0b1100 && a.fmask == 0b0011 {
						pa = &accByWorld[w][i]
					}
					if a.maj == 1 && a.emask == 0b0011 && a.fmask == 0b1100 {
						pb = &accByWorld[w][i]
					}
				}
			}
			if pa != nil && pb != nil {
				r.Set("directed_case_n4_t67_init", map[string]any{
					"both_accepted_by_IsValid_and_IsValidVoteproofWithSuffrage": true,
					"equivocators":  bits.OnesCount(equivocators(w, *pa, *pb)),
					"voteproof_1":   pa.witness(w),
					"voteproof_2":   pb.witness(w),
					"f":             w.f,
				})
			} else {
				r.Set("directed_case_n4_t67_init", map[string]any{"both_accepted_by_IsValid_and_IsValidVoteproofWithSuffrage": false})
			}
			n := 0
			for _, a := range accByWorld[w] {
				if n < 4 && (a.kind != kindPlain || n == 0) && a.pattern <= patRuleRemaining && a.bind < 0 && a.maj == 0 && a.impForm == "" {
					r.Sample(map[string]any{"world": w.String(), "accepted_voteproof": a.witness(w)})
					n++
				}
			}
		}
	}
	if total.imp["candidates"] == 0 {
		r.Inconclusive("no impersonation candidate was built")
	}
	if total.acceptedMaj == 0 {
		r.Inconclusive("no candidate voteproof was accepted by the validators")
	}
}
