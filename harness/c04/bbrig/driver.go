package bbrig

import (
	"context"
	"fmt"
	"hash/fnv"
	"sync"
	"time"

	"github.com/spikeekips/mitum/base"
	"github.com/spikeekips/mitum/isaac"
	isaacstates "github.com/spikeekips/mitum/isaac/states"
)

// SFInfo is what the rig knows about a sign fact it submitted.
type SFInfo struct {
	SF    base.BallotSignFact
	SP    base.StagePoint
	Node  string
	IsSC  bool
	Clean bool
	// ExpelFacts: hashes of the expel facts the ballot carried (accepted ones only)
	ExpelFacts []string
}

// Emission is a voteproof that came out of the ballotbox.
type Emission struct {
	VP  base.Voteproof
	Via string // channel | stuck
}

// StepResult is what one step returned.
type StepResult struct {
	Err     error
	Missing []base.Address
	Stuck   base.Voteproof
	Voted   bool
	Found   bool
	OK      bool
}

func SPKey(sp base.StagePoint, isSC bool) string {
	if isSC {
		return "sf-" + sp.String()
	}
	return sp.String()
}

// Driver owns one real Ballotbox and the registry of what was submitted.
type Driver struct {
	W      *World
	Box    *isaacstates.Ballotbox
	cancel func()

	mu        sync.Mutex
	submitted map[string]*SFInfo            // string(sf.HashBytes()) -> info (registered before the call)
	points    map[string]int                // SPKey -> number of submissions
	embedded  map[string]string             // string(vp.HashBytes()) -> description
	accepted  map[string]map[string]*SFInfo // SPKey -> string(sf.HashBytes()) -> info (Vote said true)
	touched   map[string]base.StagePoint    // every stage point touched by a submission
	ops       map[string]int
	order     []byte // actor ids in the order steps started (interleaving fingerprint)
	learned   int
	validMemo map[string]error // string(vp.HashBytes()) -> vp.IsValid(networkID)
	// voteproof IDs are attacker-chosen strings: which contents were submitted
	// under one ID, and which IDs the box has emitted so far
	idHashes   map[string]map[string]bool // vp.ID() -> string(vp.HashBytes()) of the embedded voteproofs submitted with it
	emittedIDs map[string]emittedID       // vp.ID() -> the first voteproof emitted with it
}

type emittedID struct {
	hash  string
	point base.StagePoint
}

type DriverOpts struct {
	Interval   time.Duration
	CountAfter time.Duration
	Start      bool // run the ticker daemon
}

func NewDriver(w *World, o DriverOpts) *Driver {
	d := &Driver{
		W:          w,
		submitted:  map[string]*SFInfo{},
		points:     map[string]int{},
		embedded:   map[string]string{},
		accepted:   map[string]map[string]*SFInfo{},
		touched:    map[string]base.StagePoint{},
		ops:        map[string]int{},
		idHashes:   map[string]map[string]bool{},
		emittedIDs: map[string]emittedID{},
	}
	th := w.Threshold
	box := isaacstates.NewBallotbox(w.Local, func() base.Threshold { return th }, w.GetSuffrage)
	if o.Interval > 0 {
		box.SetInterval(o.Interval)
	}
	if o.CountAfter > 0 {
		box.SetCountAfter(o.CountAfter)
	}
	box.SetSuffrageVoteFunc(func(base.SuffrageExpelOperation) error {
		d.mu.Lock()
		d.learned++
		d.mu.Unlock()
		return nil
	})
	box.SetIsValidVoteproofFunc(func(base.Voteproof, base.Suffrage) error {
		if f := w.Delay; f != nil {
			f("isValidVoteproof")
		}
		return nil
	})
	d.Box = box
	d.cancel = func() {}
	if o.Start {
		ctx, cancel := context.WithCancel(context.Background())
		d.cancel = cancel
		_ = box.Start(ctx)
	}
	return d
}

func (d *Driver) Close() {
	d.cancel()
	_ = d.Box.Stop()
}

// allSubmitted: every sign fact any driver of this process submitted. The
// record pool of isaac/states is process-global: a callback of box A that is
// still in flight when its record was released can count the record after the
// pool gave it to box B (a production process has one ballotbox; there the
// late callback counts a live record of the same box). Voteproofs made of
// another box's sign facts are recognised with this and set aside.
var allSubmitted sync.Map // string(sf.HashBytes()) -> *Driver

// ForeignSignFact tells whether sf was submitted by another driver only.
func (d *Driver) ForeignSignFact(sf base.BallotSignFact) bool {
	if d.Submitted(sf) != nil {
		return false
	}
	v, ok := allSubmitted.Load(string(sf.HashBytes()))
	return ok && v.(*Driver) != d
}

func (d *Driver) register(st *Step, actor int) {
	d.mu.Lock()
	defer d.mu.Unlock()
	d.ops[st.Op]++
	if st.Kind != "" {
		d.ops["ballot:"+st.Kind]++
	}
	d.order = append(d.order, byte(actor))
	var sf base.BallotSignFact
	switch {
	case st.Ballot != nil:
		sf = st.Ballot.SignFact()
		if vp := st.Ballot.Voteproof(); vp != nil {
			hk := string(vp.HashBytes())
			d.embedded[hk] = st.Desc
			d.ops["embedded_voteproofs_submitted"]++
			m := d.idHashes[vp.ID()]
			if m == nil {
				m = map[string]bool{}
				d.idHashes[vp.ID()] = m
			}
			if !m[hk] {
				m[hk] = true
				if len(m) > 1 {
					d.ops["distinct_embedded_voteproofs_sharing_an_id_with_other_content"]++
				}
			}
			// the ID of a voteproof the box already emitted, other content
			if e, ok := d.emittedIDs[vp.ID()]; ok && e.hash != hk {
				if e.point.Equal(vp.Point()) {
					d.ops["embedded_voteproof_with_id_of_already_emitted_voteproof:same_stage_point"]++
				} else {
					d.ops["embedded_voteproof_with_id_of_already_emitted_voteproof:other_stage_point"]++
				}
			} else if len(m) > 1 && !ok {
				d.ops["embedded_voteproof_with_shared_id_before_any_emission_of_that_id"]++
			}
		}
	case st.SignFact != nil:
		sf = st.SignFact
	default:
		return
	}
	k := string(sf.HashBytes())
	allSubmitted.LoadOrStore(k, d)
	if _, ok := d.submitted[k]; !ok {
		d.submitted[k] = &SFInfo{SF: sf, SP: st.SP, IsSC: st.IsSC, Node: st.Node, Clean: st.Clean}
	}
	d.points[SPKey(st.SP, st.IsSC)]++
	d.touched[st.SP.String()] = st.SP
}

func (d *Driver) accept(st *Step, sf base.BallotSignFact) {
	d.mu.Lock()
	defer d.mu.Unlock()
	k := SPKey(st.SP, st.IsSC)
	m := d.accepted[k]
	if m == nil {
		m = map[string]*SFInfo{}
		d.accepted[k] = m
	}
	info := &SFInfo{SF: sf, SP: st.SP, IsSC: st.IsSC, Node: st.Node, Clean: st.Clean}
	if st.Ballot != nil {
		if w, ok := st.Ballot.(base.HasExpels); ok {
			for _, op := range w.Expels() {
				info.ExpelFacts = append(info.ExpelFacts, op.Fact().Hash().String())
			}
		}
	}
	m[string(sf.HashBytes())] = info
	d.ops["voted_true"]++
}

// Do executes one step against the real ballotbox. Safe for concurrent use.
func (d *Driver) Do(actor int, st *Step) StepResult {
	d.register(st, actor)
	var res StepResult
	switch st.Op {
	case "vote":
		res.Voted, res.Err = d.Box.Vote(st.Ballot)
		if res.Voted {
			d.accept(st, st.Ballot.SignFact())
		}
	case "signfact":
		res.Voted, res.Err = d.Box.VoteSignFact(st.SignFact)
		if res.Voted {
			d.accept(st, st.SignFact)
		}
	case "count":
		res.OK = d.Box.Count()
	case "setlast":
		res.OK = d.Box.SetLastPoint(st.Last)
	case "stuck":
		res.Stuck, res.Err = d.Box.StuckVoteproof(st.SP, st.Expels)
	case "missing":
		res.Missing, res.Found, res.Err = d.Box.MissingNodes(st.SP)
	case "hide":
		d.W.Hide(st.Height)
	case "reveal":
		d.W.Reveal(st.Height)
	case "sleep":
		time.Sleep(3 * time.Millisecond)
	default:
		panic("unknown step " + st.Op)
	}
	return res
}

// NoteEmitted remembers the ID of a voteproof that left the box.
func (d *Driver) NoteEmitted(vp base.Voteproof) {
	d.mu.Lock()
	defer d.mu.Unlock()
	if _, ok := d.emittedIDs[vp.ID()]; !ok {
		d.emittedIDs[vp.ID()] = emittedID{hash: string(vp.HashBytes()), point: vp.Point()}
	}
}

// IDShared tells whether embedded voteproofs of different content were
// submitted under vp's ID.
func (d *Driver) IDShared(vp base.Voteproof) bool {
	d.mu.Lock()
	defer d.mu.Unlock()
	return len(d.idHashes[vp.ID()]) > 1
}

// cachedIsValid is vp.IsValid(networkID), computed once per distinct voteproof
// bytes (embedded voteproofs are emitted again and again).
func (d *Driver) cachedIsValid(vp base.Voteproof) error {
	k := string(vp.HashBytes())
	d.mu.Lock()
	if err, ok := d.validMemo[k]; ok {
		d.mu.Unlock()
		return err
	}
	d.mu.Unlock()
	err := vp.IsValid(d.W.NetworkID)
	d.mu.Lock()
	if d.validMemo == nil {
		d.validMemo = map[string]error{}
	}
	d.validMemo[k] = err
	d.mu.Unlock()
	return err
}

// Drain reads whatever is on the voteproof channel right now.
func (d *Driver) Drain() []Emission {
	var out []Emission
	for {
		select {
		case vp := <-d.Box.Voteproof():
			out = append(out, Emission{VP: vp, Via: "channel"})
		default:
			return out
		}
	}
}

// DrainQuiet keeps counting and draining until nothing came out for `quiet`
// consecutive rounds (bounded).
func (d *Driver) DrainQuiet(quiet int, pause time.Duration, f func(Emission)) {
	calm := 0
	for i := 0; i < 400 && calm < quiet; i++ {
		_ = d.Box.Count()
		time.Sleep(pause)
		es := d.Drain()
		if len(es) == 0 {
			calm++
			continue
		}
		calm = 0
		for _, e := range es {
			f(e)
		}
	}
}

// ---- registry queries (all under the lock)

func (d *Driver) EmbeddedOrigin(vp base.Voteproof) (string, bool) {
	d.mu.Lock()
	defer d.mu.Unlock()
	s, ok := d.embedded[string(vp.HashBytes())]
	return s, ok
}

func (d *Driver) SubmittedAt(sp base.StagePoint) int {
	d.mu.Lock()
	defer d.mu.Unlock()
	return d.points[SPKey(sp, false)] + d.points[SPKey(sp, true)]
}

func (d *Driver) Submitted(sf base.BallotSignFact) *SFInfo {
	d.mu.Lock()
	defer d.mu.Unlock()
	return d.submitted[string(sf.HashBytes())]
}

// Accepted returns the accepted sign facts of (sp, isSC) (a copy).
func (d *Driver) Accepted(sp base.StagePoint, isSC bool) map[string]*SFInfo {
	d.mu.Lock()
	defer d.mu.Unlock()
	out := map[string]*SFInfo{}
	for k, v := range d.accepted[SPKey(sp, isSC)] {
		out[k] = v
	}
	return out
}

func (d *Driver) Touched() []base.StagePoint {
	d.mu.Lock()
	defer d.mu.Unlock()
	out := make([]base.StagePoint, 0, len(d.touched))
	for _, sp := range d.touched {
		out = append(out, sp)
	}
	return out
}

func (d *Driver) Ops() map[string]int {
	d.mu.Lock()
	defer d.mu.Unlock()
	out := map[string]int{}
	for k, v := range d.ops {
		out[k] = v
	}
	out["expels_learned"] = d.learned
	return out
}

// OrderFingerprint hashes the order in which the actors' steps started.
func (d *Driver) OrderFingerprint() string {
	d.mu.Lock()
	defer d.mu.Unlock()
	h := fnv.New64a()
	_, _ = h.Write(d.order)
	return fmt.Sprintf("%d:%016x", len(d.order), h.Sum64())
}

var _ = isaac.IsSuffrageConfirmBallotFact
