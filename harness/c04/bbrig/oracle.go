package bbrig

import (
	"fmt"
	"math"
	"sort"
	"strings"

	"github.com/spikeekips/mitum/base"
	"github.com/spikeekips/mitum/isaac"
)

// Tally is the exact-arithmetic recount (integers only).
// quorum q, required r (clamped to q), counts per fact.
func Tally(q, r uint, counts map[string]uint) (base.VoteResult, string) {
	if r > q {
		r = q
	}
	if len(counts) == 0 {
		return base.VoteResultNotYet, ""
	}
	var sum, max uint
	keys := make([]string, 0, len(counts))
	for k := range counts {
		keys = append(keys, k)
	}
	sort.Strings(keys)
	for _, k := range keys {
		c := counts[k]
		sum += c
		if c > max {
			max = c
		}
	}
	for _, k := range keys {
		if counts[k] >= r {
			return base.VoteResultMajority, k
		}
	}
	var missing uint
	if q > sum {
		missing = q - sum
	}
	if max+missing < r {
		return base.VoteResultDraw, ""
	}
	return base.VoteResultNotYet, ""
}

// Required is ceil(n*t/100) with t taken to one decimal place.
func Required(n uint, t base.Threshold) uint {
	t10 := uint64(math.Round(float64(t) * 10))
	return uint((uint64(n)*t10 + 999) / 1000)
}

// Finding is one way an emitted voteproof breaks the statement.
type Finding struct {
	Sig  string
	What string
}

// EmissionInfo classifies an emission for the evidence.
type EmissionInfo struct {
	Kind     string // e.g. channel:counted:init:expel:MAJORITY
	Origin   string // counted | embedded | stuck
	Recount  base.VoteResult
	Findings []Finding
	// IDShared: the emitted voteproof arrived embedded in a ballot and its ID was
	// also submitted with other content
	IDShared bool
}

func vpKind(vp base.Voteproof) (stage, shape string, expels []base.SuffrageExpelOperation, stuck bool) {
	stage = strings.ToLower(vp.Point().Stage().String())
	shape = "plain"
	if w, ok := vp.(base.HasExpels); ok {
		expels = w.Expels()
	}
	if _, ok := vp.(base.StuckVoteproof); ok {
		return stage, "stuck", expels, true
	}
	if _, ok := vp.(base.ExpelVoteproof); ok {
		shape = "expel"
	}
	return stage, shape, expels, false
}

func errClass(err error) string {
	if err == nil {
		return "nil"
	}
	s := err.Error()
	for _, c := range [][2]string{
		{"wrong result", "wrong-result"},
		{"not enough sign facts with expels", "stuck-not-enough-signfacts"},
		{"unknown node found", "unknown-node"},
		{"wrong publickey", "wrong-publickey"},
		{"insufficient expel node signs", "insufficient-expel-signs"},
		{"expel expired", "expel-expired"},
		{"unknown expel node", "unknown-expel-node"},
		{"unknown node signed", "unknown-node-signed-expel"},
		{"wrong majority", "wrong-majority"},
		{"not empty majority for draw", "majority-on-draw"},
		{"empty majority for majority", "no-majority-on-majority"},
		{"expel node voted", "expel-node-voted"},
		{"duplicated node", "duplicated-node"},
		{"point does not match", "point-mismatch"},
		{"expels not matched", "majority-expels-differ-from-voteproof-expels"},
		{"unknown expels found", "majority-expels-differ-from-voteproof-expels"},
	} {
		if strings.Contains(s, c[0]) {
			return c[1]
		}
	}
	return "other"
}

// CheckEmission evaluates clauses (a)-(d) of C04 on one voteproof that left
// the ballotbox. boxThreshold is the threshold the box is configured with.
func CheckEmission(d *Driver, e Emission) EmissionInfo {
	w := d.W
	vp := e.VP
	stage, shape, expels, stuck := vpKind(vp)
	info := EmissionInfo{}
	add := func(sig, what string) {
		info.Findings = append(info.Findings, Finding{Sig: sig, What: what})
	}

	// a record of another box of this process (see allSubmitted)
	for _, sf := range vp.SignFacts() {
		if d.ForeignSignFact(sf) {
			info.Origin = "other-box"
			info.Kind = "set-aside:record-of-another-box-of-this-process"
			return info
		}
	}

	// (a) origin
	origin := "counted"
	embDesc, isEmb := d.EmbeddedOrigin(vp)
	switch {
	case e.Via == "stuck":
		origin = "stuck"
	case isEmb:
		origin = "embedded"
	}
	info.Origin = origin
	d.NoteEmitted(vp)
	head := fmt.Sprintf("%s:%s", origin, shape) // stage is not part of the kind of failure
	if origin == "embedded" && d.IDShared(vp) {
		// an embedded voteproof whose ID was submitted with other content as
		// well: failing only for those is another kind of failure (state keyed by
		// the ID survives between calls) than failing for embedded voteproofs at large
		info.IDShared = true
		head = fmt.Sprintf("%s-id-reused:%s", origin, shape)
	}
	if origin != "embedded" && d.SubmittedAt(vp.Point()) < 1 {
		add(head+":a:point-never-voted-on", fmt.Sprintf("voteproof %s for %s: no ballot or sign fact was ever submitted for that stage point", vp.ID(), vp.Point()))
	}
	if stuck != (origin == "stuck") && origin != "embedded" {
		add(head+":a:stuck-shape-mismatch", fmt.Sprintf("voteproof %s: stuck=%v but came via %s", vp.ID(), stuck, e.Via))
	}

	// (b) sign facts: for that point, distinct suffrage nodes, submitted ones
	suf := w.TrueSuffrage(vp.Point().Height().SafePrev())
	sfs := vp.SignFacts()
	seen := map[string]bool{}
	counts := map[string]uint{}
	var scFacts, plainFacts int
	for _, sf := range sfs {
		f, ok := sf.Fact().(base.BallotFact)
		if !ok {
			add(head+":b:not-a-ballot-fact", "sign fact without ballot fact")
			continue
		}
		counts[f.Hash().String()]++
		if isaac.IsSuffrageConfirmBallotFact(f) {
			scFacts++
		} else {
			plainFacts++
		}
		if !f.Point().Equal(vp.Point()) {
			add(head+":b:signfact-of-other-point", fmt.Sprintf("voteproof for %s holds a sign fact for %s (node %s)", vp.Point(), f.Point(), sf.Node()))
		}
		switch {
		case !suf.Exists(sf.Node()):
			add(head+":b:signfact-of-non-member", fmt.Sprintf("voteproof for %s holds a sign fact of %s which is not in the suffrage", vp.Point(), sf.Node()))
		case !suf.ExistsPublickey(sf.Node(), sf.Signer()):
			add(head+":b:signfact-with-foreign-key", fmt.Sprintf("voteproof for %s holds a sign fact of %s signed with another key", vp.Point(), sf.Node()))
		}
		if seen[sf.Node().String()] {
			add(head+":b:node-twice", fmt.Sprintf("voteproof for %s holds two sign facts of %s", vp.Point(), sf.Node()))
		}
		seen[sf.Node().String()] = true
		if origin != "embedded" {
			if si := d.Submitted(sf); si == nil {
				add(head+":b:signfact-never-submitted", fmt.Sprintf("voteproof for %s holds a sign fact of %s that was never submitted", vp.Point(), sf.Node()))
			} else if !si.SP.Equal(vp.Point()) {
				add(head+":b:signfact-submitted-for-other-point", fmt.Sprintf("voteproof for %s holds a sign fact submitted for %s", vp.Point(), si.SP))
			}
		}
	}
	if origin == "counted" && scFacts > 0 && plainFacts > 0 {
		add(head+":b:suffrage-confirm-and-plain-mixed", fmt.Sprintf("voteproof for %s mixes suffrage-confirm and plain sign facts", vp.Point()))
	}

	// (d) fresh recount (as validation defines the electorate)
	n := uint(suf.Len())
	k := uint(len(expels))
	q := n
	req := Required(n, vp.Threshold())
	if k > 0 {
		if k >= n {
			q = 0
		} else {
			q = n - k
		}
		req = q
	}
	recount, rkey := Tally(q, req, counts)
	info.Recount = recount
	recountBad := false
	var recountWhat string
	if !stuck {
		switch {
		case recount != vp.Result():
			recountBad = true
			recountWhat = fmt.Sprintf("result %s but a recount of its %d sign facts over %d nodes (required %d) gives %s", vp.Result(), len(sfs), q, req, recount)
		case recount == base.VoteResultMajority && (vp.Majority() == nil || vp.Majority().Hash().String() != rkey):
			recountBad = true
			recountWhat = "majority fact differs from the recount's"
		}
	} else if vp.Result() != base.VoteResultDraw || vp.Majority() != nil {
		recountBad = true
		recountWhat = fmt.Sprintf("stuck voteproof with result %s", vp.Result())
	}

	// (c) the validation every other node applies
	err1 := d.cachedIsValid(vp)
	err2 := isaac.IsValidVoteproofWithSuffrage(vp, suf)

	// classes that make the signature canonical
	var tags []string
	if k > 0 && !stuck {
		qd := base.DefaultThreshold.Threshold(n)
		if k <= n-qd {
			tags = append(tags, "k<=n-q")
		} else {
			tags = append(tags, "k>n-q")
		}
	}
	if vp.Result() == base.VoteResultDraw && recount == base.VoteResultMajority {
		// a majority of "empty" facts is recorded as a draw by SetMajority
		for _, sf := range sfs {
			if sf.Fact().Hash().String() == rkey {
				switch sf.Fact().(type) {
				case isaac.EmptyProposalINITBallotFact, isaac.EmptyOperationsACCEPTBallotFact:
					tags = append(tags, "empty-fact-majority")
				}
				break
			}
		}
	}
	tag := ""
	if len(tags) > 0 {
		tag = ":" + strings.Join(tags, ":")
	}
	shapeOf := fmt.Sprintf("result=%s:recount=%s%s", strings.ReplaceAll(vp.Result().String(), " ", "_"), strings.ReplaceAll(recount.String(), " ", "_"), tag)

	// one signature per kind of failure: the first clause that fails, in the
	// order validation itself checks; the result/recount shape is part of the
	// kind only where the failure is about the count
	switch {
	case err1 != nil:
		add(head+":c:IsValid:"+errClass(err1), fmt.Sprintf("emitted voteproof for %s (n=%d, expels=%d, sign facts=%d) fails its own IsValid: %v", vp.Point(), n, k, len(sfs), err1))
	case err2 != nil && errClass(err2) == "wrong-result":
		add(head+":c+d:IsValidVoteproofWithSuffrage:wrong-result:"+shapeOf,
			fmt.Sprintf("emitted voteproof for %s (n=%d, expels=%d, sign facts=%d, threshold %s) is rejected by isaac.IsValidVoteproofWithSuffrage (%v): %s",
				vp.Point(), n, k, len(sfs), vp.Threshold(), err2, recountWhat))
	case err2 != nil:
		add(head+":c:IsValidVoteproofWithSuffrage:"+errClass(err2),
			fmt.Sprintf("emitted voteproof for %s (n=%d, expels=%d, sign facts=%d, threshold %s) is rejected by isaac.IsValidVoteproofWithSuffrage: %v", vp.Point(), n, k, len(sfs), vp.Threshold(), err2))
	case recountBad:
		add(head+":d:"+shapeOf, fmt.Sprintf("emitted voteproof for %s passes validation but %s", vp.Point(), recountWhat))
	}

	res := strings.ReplaceAll(vp.Result().String(), " ", "_")
	info.Kind = fmt.Sprintf("%s:%s:%s:%s", origin, stage, shape, res)
	_ = embDesc
	return info
}
