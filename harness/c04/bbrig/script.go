package bbrig

import (
	"fmt"
	"math/rand"

	"github.com/spikeekips/mitum/base"
	"github.com/spikeekips/mitum/isaac"
)

// Step is one operation on the ballotbox (or on the environment).
type Step struct {
	Op       string // vote | signfact | count | setlast | stuck | hide | reveal | sleep | missing
	Kind     string // ballot kind for evidence: init, init-expel, accept, accept-expel, sc, init-empty, ...
	Desc     string
	Ballot   base.Ballot
	SignFact base.BallotSignFact
	SP       base.StagePoint
	IsSC     bool
	Node     string // address of the voting node
	// Clean: the sign fact is from a suffrage member with the member's key and
	// its expels (if any) are valid for the suffrage: the ballotbox has no
	// reason to drop it once it said "voted".
	Clean  bool
	Last   isaac.LastPoint
	Expels []base.SuffrageExpelOperation
	Height base.Height
}

// ScriptOpts shapes a generated script.
type ScriptOpts struct {
	Heights   int     // consecutive heights to advance through
	Noise     float64 // probability of a noise step after each vote
	Hostile   float64 // probability that a regular vote is replaced by a hostile variant
	ExpelProb float64 // probability that a height runs the expel + suffrage-confirm scenario
	DrawProb  float64 // probability that a round is steered to a draw
	Deferred  float64 // probability that a height starts with its suffrage "not found yet"
	Stuck     bool    // include StuckVoteproof requests
	SetLast   bool    // include SetLastPoint noise
	Missing   bool    // include MissingNodes calls as steps
	Empty     bool    // include colluding empty-proposal ballots
}

// Gen builds a script. Every ballot in it passed IsValid(networkID); ballots
// that did not are dropped and counted in Invalid (a rig problem, reported).
type Gen struct {
	W       *World
	R       *rand.Rand
	O       ScriptOpts
	Steps   []Step
	Invalid []string
	exSeq   int
	// last voteproof round per height that the flow steered to a majority
	acceptRound map[base.Height]base.Round
}

func NewGen(w *World, rng *rand.Rand, o ScriptOpts) *Gen {
	return &Gen{W: w, R: rng, O: o, acceptRound: map[base.Height]base.Round{}}
}

func (g *Gen) add(st Step) {
	if st.Ballot != nil {
		if err := st.Ballot.IsValid(g.W.NetworkID); err != nil {
			g.Invalid = append(g.Invalid, st.Desc+": "+err.Error())
			return
		}
		st.SP = st.Ballot.Point()
		st.IsSC = isaac.IsSuffrageConfirmBallotFact(st.Ballot.SignFact().Fact())
		st.Node = st.Ballot.SignFact().Node().String()
	}
	if st.SignFact != nil && st.Ballot == nil {
		if err := st.SignFact.IsValid(g.W.NetworkID); err != nil {
			g.Invalid = append(g.Invalid, st.Desc+": "+err.Error())
			return
		}
		f := st.SignFact.Fact().(base.BallotFact)
		st.SP = f.Point()
		st.IsSC = isaac.IsSuffrageConfirmBallotFact(f)
		st.Node = st.SignFact.Node().String()
	}
	g.Steps = append(g.Steps, st)
}

// ---- expel specs

func (g *Gen) newExpel(h base.Height, targets []int, signers []int, tag string) *ExpelSpec {
	g.exSeq++
	return &ExpelSpec{
		ID:      fmt.Sprintf("ex%d-%s-h%d", g.exSeq, tag, h),
		Targets: targets,
		Signers: signers,
		Start:   h - 1,
		End:     h,
	}
}

func (g *Gen) allIdx() []int {
	v := make([]int, g.W.N())
	for i := range v {
		v[i] = i
	}
	return v
}

// validExpel picks k targets (never the local node when it is a member).
func (g *Gen) validExpel(h base.Height, k int) *ExpelSpec {
	n := g.W.N()
	var cands []int
	for i := 0; i < n; i++ {
		if i != g.W.LocalIdx {
			cands = append(cands, i)
		}
	}
	g.R.Shuffle(len(cands), func(a, b int) { cands[a], cands[b] = cands[b], cands[a] })
	if k > len(cands) {
		k = len(cands)
	}
	t := append([]int{}, cands[:k]...)
	var signers []int
	for i := 0; i < n; i++ {
		isT := false
		for _, x := range t {
			if x == i {
				isT = true
			}
		}
		if !isT {
			signers = append(signers, i)
		}
	}
	return g.newExpel(h, t, signers, fmt.Sprintf("valid%d", k))
}

func (g *Gen) hostileExpel(h base.Height) (*ExpelSpec, string) {
	n := g.W.N()
	t := g.R.Intn(n)
	switch g.R.Intn(5) {
	case 0: // expired
		e := g.newExpel(h, []int{t}, g.allIdx(), "expired")
		e.Start, e.End = h-2, h-1
		return e, "expired"
	case 1: // unknown target
		e := g.newExpel(h, []int{-1}, g.allIdx(), "unknown-target")
		return e, "unknown-target"
	case 2: // under-signed: one sign only
		s := (t + 1) % n
		e := g.newExpel(h, []int{t}, []int{s}, "undersigned")
		return e, "undersigned"
	case 3: // signed by a node outside the suffrage too
		e := g.newExpel(h, []int{t}, g.allIdx(), "outsider-signed")
		e.OutsiderSigns = true
		return e, "outsider-signed"
	default: // expels the local node (the box ignores such ballots)
		if g.W.LocalIdx >= 0 {
			e := g.newExpel(h, []int{g.W.LocalIdx}, g.allIdx(), "expel-local")
			return e, "expel-local"
		}
		e := g.newExpel(h, []int{t}, g.allIdx(), "valid1")
		return e, "valid"
	}
}

func (g *Gen) expelIsClean(ex *ExpelSpec, h base.Height) bool {
	if ex == nil {
		return true
	}
	if h > ex.End || ex.OutsiderSigns {
		return false
	}
	for _, t := range ex.Targets {
		if t < 0 {
			return false
		}
	}
	return true
}

// ---- embedded voteproofs

// prevVP is the voteproof an INIT ballot of point p carries.
func (g *Gen) prevVP(p base.Point, hostile string) base.Voteproof {
	w := g.W
	signers := w.Members
	th := w.Threshold
	switch hostile {
	case "few":
		signers = w.Members[:1]
	case "outsider":
		signers = append(append([]base.LocalNode{}, w.Members[:w.N()-1]...), w.Outsiders[0])
	case "imposter":
		signers = append(append([]base.LocalNode{}, w.Members[:w.N()-1]...), w.Imposters[w.N()-1])
	case "lowth":
		th = base.Threshold(51)
	case "maxth":
		th = base.MaxThreshold
	}
	if p.Round() == 0 {
		r := g.acceptRound[p.Height()-1]
		pp := base.NewPoint(p.Height()-1, r)
		if hostile == "otherheight" && p.Height() > 3 {
			// a majority ACCEPT voteproof of an older height whose new block
			// equals the ballot's previous block (all that IsValid asks for)
			bh := p.Height() - 1
			return w.voteproofACCEPTWithBlock(base.NewPoint(p.Height()-3, 0), bh, signers, th)
		}
		return w.Voteproof(VPSpec{Stage: base.StageACCEPT, Point: pp, Variant: "A", Signers: signers, Threshold: th, Tag: hostile})
	}
	// round > 0: a draw of the previous round, INIT or ACCEPT
	pp := p.PrevRound()
	stage := base.StageINIT
	if g.R.Intn(2) == 0 {
		stage = base.StageACCEPT
	}
	return w.Voteproof(VPSpec{Stage: stage, Point: pp, Variant: "", Signers: signers, Threshold: th, Tag: hostile})
}

func (w *World) voteproofACCEPTWithBlock(p base.Point, blockOf base.Height, signers []base.LocalNode, th base.Threshold) base.Voteproof {
	k := fmt.Sprintf("acceptblk/%s/%d/%s/", p, blockOf, th)
	for _, n := range signers {
		k += nodeTag(n) + ","
	}
	w.cacheMu.Lock()
	if v, ok := w.vpCache[k]; ok {
		w.cacheMu.Unlock()
		return v
	}
	w.cacheMu.Unlock()
	f := isaac.NewACCEPTBallotFact(p, Proposal(p, "A"), Block(blockOf, "A"), nil)
	sfs := make([]base.BallotSignFact, len(signers))
	for i, n := range signers {
		sfs[i] = w.SignACCEPT(n, f)
	}
	a := isaac.NewACCEPTVoteproof(p)
	a.SetSignFacts(sfs).SetThreshold(th).SetMajority(f)
	a.Finish()
	w.cacheMu.Lock()
	defer w.cacheMu.Unlock()
	if v, ok := w.vpCache[k]; ok {
		return v
	}
	w.vpCache[k] = a
	return a
}

// initVP is the INIT voteproof (majority `variant`) ACCEPT and suffrage
// confirm ballots of point p carry.
func (g *Gen) initVP(p base.Point, variant string, ex *ExpelSpec, hostile string) base.Voteproof {
	w := g.W
	signers := w.MembersExcept(ex)
	th := w.Threshold
	switch hostile {
	case "few":
		if len(signers) > 1 {
			signers = signers[:1]
		}
	case "outsider":
		signers = append(append([]base.LocalNode{}, signers...), w.Outsiders[0])
	case "lowth":
		th = base.Threshold(51)
	case "maxth":
		th = base.MaxThreshold
	}
	return w.Voteproof(VPSpec{Stage: base.StageINIT, Point: p, Variant: variant, Ex: ex, Signers: signers, Threshold: th, Tag: hostile})
}

func (g *Gen) pickHostileVP() string {
	if g.R.Float64() >= g.O.Hostile {
		// the regular voteproof; sometimes with the 100% threshold (also fine)
		if g.R.Intn(6) == 0 {
			return "maxth"
		}
		return ""
	}
	return []string{"few", "outsider", "imposter", "lowth", "otherheight"}[g.R.Intn(5)]
}

// ---- ballots

func (g *Gen) initBallot(n base.LocalNode, p base.Point, variant string, ex *ExpelSpec, vpHostile, note string, clean bool) Step {
	w := g.W
	var fact base.INITBallotFact
	kind := "init"
	switch {
	case variant == "empty":
		fact = w.EmptyINITFact(p).(base.INITBallotFact)
		kind = "init-empty"
		ex = nil
	default:
		fact = w.INITFact(p, variant, ex)
	}
	if ex != nil {
		kind = "init-expel"
	}
	sf := w.SignINIT(n, fact)
	bl := isaac.NewINITBallot(g.prevVP(p, vpHostile), sf, w.Expels(ex))
	return Step{
		Op: "vote", Kind: kind, Ballot: bl, Clean: clean && g.expelIsClean(ex, p.Height()),
		Desc: fmt.Sprintf("vote %s %s by %s variant=%s ex=%s vp=%q %s", kind, base.NewStagePoint(p, base.StageINIT), n.Address(), variant, exID(ex), vpHostile, note),
	}
}

func (g *Gen) scBallot(n base.LocalNode, p base.Point, variant string, ex *ExpelSpec, vpHostile, note string, clean bool) Step {
	w := g.W
	fact := w.SCFact(p, variant, ex)
	sf := w.SignINIT(n, fact)
	bl := isaac.NewINITBallot(g.initVP(p, variant, ex, vpHostile), sf, nil)
	return Step{
		Op: "vote", Kind: "sc", Ballot: bl, Clean: clean && g.expelIsClean(ex, p.Height()),
		Desc: fmt.Sprintf("vote sc %s by %s variant=%s ex=%s vp=%q %s", base.NewStagePoint(p, base.StageINIT), n.Address(), variant, exID(ex), vpHostile, note),
	}
}

func (g *Gen) acceptBallot(n base.LocalNode, p base.Point, variant string, ex *ExpelSpec, vpHostile, note string, clean bool) Step {
	w := g.W
	fact := w.ACCEPTFact(p, variant, ex)
	sf := w.SignACCEPT(n, fact)
	kind := "accept"
	if ex != nil {
		kind = "accept-expel"
	}
	ivp := g.initVP(p, variant, ex, vpHostile).(base.INITVoteproof)
	bl := isaac.NewACCEPTBallot(ivp, sf, w.Expels(ex))
	return Step{
		Op: "vote", Kind: kind, Ballot: bl, Clean: clean && g.expelIsClean(ex, p.Height()),
		Desc: fmt.Sprintf("vote %s %s by %s variant=%s ex=%s vp=%q %s", kind, base.NewStagePoint(p, base.StageACCEPT), n.Address(), variant, exID(ex), vpHostile, note),
	}
}

func exID(ex *ExpelSpec) string {
	if ex == nil {
		return "-"
	}
	return ex.ID
}

// asSignFact turns a vote step into a VoteSignFact step (no voteproof, no
// expels travel with it).
func asSignFact(st Step) Step {
	st.Op = "signfact"
	st.SignFact = st.Ballot.SignFact()
	st.Kind += "-signfact"
	// without the expels at hand the box cannot judge them: still the same
	// member/key rule
	st.Ballot = nil
	st.Desc = "signfact of: " + st.Desc
	return st
}

// ---- the flow

type stageCtx struct {
	stage string // init | sc | accept
	p     base.Point
	ex    *ExpelSpec
}

func (g *Gen) voteStep(c stageCtx, n base.LocalNode, variant, vpHostile, note string, clean bool) Step {
	switch c.stage {
	case "init":
		return g.initBallot(n, c.p, variant, c.ex, vpHostile, note, clean)
	case "sc":
		return g.scBallot(n, c.p, variant, c.ex, vpHostile, note, clean)
	default:
		return g.acceptBallot(n, c.p, variant, c.ex, vpHostile, note, clean)
	}
}

func (g *Gen) noise(c stageCtx) {
	w := g.W
	r := g.R
	h := c.p.Height()
	sp := func() base.StagePoint {
		st := base.StageINIT
		if c.stage == "accept" {
			st = base.StageACCEPT
		}
		return base.NewStagePoint(c.p, st)
	}()
	switch k := r.Intn(14); k {
	case 0:
		g.add(Step{Op: "count", Desc: "count"})
	case 1: // outsider votes
		g.add(g.voteStep(c, w.Outsiders[r.Intn(2)], "A", "", "outsider", false))
	case 2: // a member's address with another key
		g.add(g.voteStep(c, w.Imposters[r.Intn(w.N())], "A", "", "imposter", false))
	case 3: // old point
		if h-1 > w.H0 {
			oc := stageCtx{stage: "accept", p: base.NewPoint(h-1, g.acceptRound[h-1])}
			g.add(g.voteStep(oc, w.Members[r.Intn(w.N())], "A", "", "old-point", true))
		}
	case 4: // future point: next round or next height
		fc := stageCtx{stage: "init", p: c.p.NextRound()}
		if r.Intn(2) == 0 {
			g.acceptRound[h] = c.p.Round()
			fc.p = base.NewPoint(h+1, 0)
		}
		g.add(g.voteStep(fc, w.Members[r.Intn(w.N())], []string{"A", "B"}[r.Intn(2)], g.pickHostileVP(), "future-point", true))
	case 5:
		if g.O.SetLast {
			// a point around the current one
			pts := []base.StagePoint{
				base.NewStagePoint(c.p, base.StageINIT),
				base.NewStagePoint(c.p, base.StageACCEPT),
				base.NewStagePoint(base.NewPoint(h-1, 0), base.StageACCEPT),
				base.NewStagePoint(c.p.NextRound(), base.StageINIT),
			}
			p := pts[r.Intn(len(pts))]
			isc := p.Stage() == base.StageINIT && r.Intn(4) == 0
			lp, err := isaac.NewLastPoint(p, r.Intn(3) > 0, isc)
			if err == nil {
				g.add(Step{Op: "setlast", Last: lp, Desc: fmt.Sprintf("setlast %s majority=%v sc=%v", p, lp.IsMajority(), isc)})
			}
		}
	case 6:
		if g.O.Stuck && w.N() >= 2 {
			// expels for one or two random non-local members, as the stuck
			// resolver asks (start = end = height)
			k := 1 + r.Intn(2)
			ex := g.validExpel(h, k)
			ex.Start, ex.End = h, h
			ex.ID += "-stuck"
			if r.Intn(4) == 0 { // under-signed variant
				ex.Signers = ex.Signers[:1]
				ex.ID += "-under"
			}
			g.add(Step{Op: "stuck", SP: sp, Expels: w.Expels(ex), Desc: fmt.Sprintf("stuck %s expels=%s targets=%v", sp, ex.ID, ex.Targets)})
		}
	case 7:
		g.add(Step{Op: "sleep", Desc: "sleep 3ms (ticker)"})
	case 8: // hostile expels on a ballot
		if c.stage != "sc" && w.N() >= 2 {
			ex, tag := g.hostileExpel(h)
			hc := c
			hc.ex = ex
			hostile := ""
			g.add(g.voteStep(hc, w.Members[r.Intn(w.N())], "A", hostile, "hostile-expel:"+tag, tag == "valid"))
		}
	case 9: // hostile embedded voteproof on an otherwise honest ballot
		g.add(g.voteStep(c, w.Members[r.Intn(w.N())], "A", []string{"few", "outsider", "imposter", "lowth", "otherheight"}[r.Intn(5)], "hostile-vp", true))
	case 10:
		if g.O.Missing {
			g.add(Step{Op: "missing", SP: sp, Desc: fmt.Sprintf("missingnodes %s", sp)})
		}
	case 11:
		if g.O.Empty && c.stage == "init" {
			g.add(g.voteStep(c, w.Members[r.Intn(w.N())], "empty", "", "empty-proposal", true))
		}
	case 12: // suffrage confirm out of the blue (no expel voteproof emitted before)
		if w.N() >= 3 {
			ex := g.validExpel(h, 1)
			g.add(g.scBallot(w.Members[r.Intn(w.N())], c.p, "A", ex, "", "sc-noise", true))
		}
	default:
		g.add(Step{Op: "count", Desc: "count"})
	}
}

// stage emits the votes of one stage of one round.
func (g *Gen) stage(c stageCtx, draw bool) {
	w := g.W
	r := g.R
	voters := w.MembersExcept(c.ex)
	order := r.Perm(len(voters))
	// the expelled nodes sometimes vote as well (plain ballots)
	var expelled []base.LocalNode
	if c.ex != nil && c.stage != "sc" {
		for _, t := range c.ex.Targets {
			if t >= 0 && r.Intn(2) == 0 {
				expelled = append(expelled, w.Members[t])
			}
		}
	}
	absent := -1
	if len(voters) > 2 && r.Intn(4) == 0 {
		absent = r.Intn(len(voters))
	}
	dissent := -1
	if len(voters) > 1 && r.Intn(3) == 0 {
		dissent = r.Intn(len(voters))
	}
	for seq, i := range order {
		if i == absent {
			continue
		}
		n := voters[i]
		variant := "A"
		switch {
		case draw:
			variant = []string{"A", "B", "C"}[seq%3]
		case i == dissent:
			variant = "B"
		}
		if g.O.Empty && c.stage == "init" && c.ex == nil && draw && r.Intn(3) == 0 {
			variant = "empty"
		}
		vc := c
		if i == dissent && c.ex != nil && c.stage != "sc" && r.Intn(2) == 0 {
			vc.ex = nil // the dissenter does not carry the expels
		}
		st := g.voteStep(vc, n, variant, g.pickHostileVP(), "", true)
		if c.stage != "sc" && vc.ex == nil && r.Intn(8) == 0 {
			st = asSignFact(st)
		}
		g.add(st)
		if r.Intn(6) == 0 { // conflicting ballot of the same node
			g.add(g.voteStep(vc, n, "C", "", "conflict", true))
		}
		if len(expelled) > 0 && r.Intn(2) == 0 {
			e := expelled[0]
			expelled = expelled[1:]
			ec := c
			ec.ex = nil
			g.add(g.voteStep(ec, e, "A", "", "expelled-node-votes", true))
		}
		for r.Float64() < g.O.Noise {
			g.noise(c)
		}
	}
	if r.Intn(3) == 0 {
		g.add(Step{Op: "count", Desc: "count"})
	}
}

// Flow generates the script: Heights consecutive heights, each with rounds of
// INIT (→ suffrage confirm when the height expels) → ACCEPT.
func (g *Gen) Flow() []Step {
	w := g.W
	r := g.R
	g.acceptRound[w.H0] = 0
	if r.Intn(2) == 0 {
		lp, _ := isaac.NewLastPoint(base.NewStagePoint(base.NewPoint(w.H0, 0), base.StageACCEPT), true, false)
		g.add(Step{Op: "setlast", Last: lp, Desc: "setlast initial " + lp.StagePoint.String()})
	}
	for hi := 1; hi <= g.O.Heights; hi++ {
		h := w.H0 + base.Height(hi)
		deferred := r.Float64() < g.O.Deferred
		if deferred {
			g.add(Step{Op: "hide", Height: h - 1, Desc: fmt.Sprintf("hide suffrage of height %d", h-1)})
		}
		var round base.Round
		for {
			p := base.NewPoint(h, round)
			var ex *ExpelSpec
			if w.N() >= 3 && r.Float64() < g.O.ExpelProb {
				k := 1
				if w.N() >= 5 && r.Intn(3) == 0 {
					k = 2
				}
				ex = g.validExpel(h, k)
			}
			draw := round < 2 && r.Float64() < g.O.DrawProb
			drawAt := r.Intn(2) // 0: INIT draws, 1: ACCEPT draws

			g.stage(stageCtx{stage: "init", p: p, ex: ex}, draw && drawAt == 0)
			if deferred && r.Intn(2) == 0 {
				g.add(Step{Op: "reveal", Height: h - 1, Desc: fmt.Sprintf("reveal suffrage of height %d", h-1)})
				g.add(Step{Op: "count", Desc: "count"})
				deferred = false
			}
			if !(draw && drawAt == 0) {
				if ex != nil {
					g.stage(stageCtx{stage: "sc", p: p, ex: ex}, false)
				}
				g.stage(stageCtx{stage: "accept", p: p, ex: ex}, draw && drawAt == 1)
			}
			if deferred {
				g.add(Step{Op: "reveal", Height: h - 1, Desc: fmt.Sprintf("reveal suffrage of height %d", h-1)})
				g.add(Step{Op: "count", Desc: "count"})
				deferred = false
			}
			if !draw {
				g.acceptRound[h] = round
				break
			}
			round++
		}
	}
	g.add(Step{Op: "count", Desc: "final count"})
	return g.Steps
}

// DirectedINIT builds one honest INIT ballot of member i (round 0) for a
// directed case; the step is validated like every generated one.
func (g *Gen) DirectedINIT(i int, p base.Point, variant string, ex *ExpelSpec) Step {
	before := len(g.Steps)
	g.add(g.initBallot(g.W.Members[i], p, variant, ex, "", "directed", true))
	if len(g.Steps) == before {
		return Step{Op: "count", Desc: "count (directed ballot was invalid)"}
	}
	st := g.Steps[len(g.Steps)-1]
	g.Steps = g.Steps[:before]
	return st
}

// DirectedINITBy is DirectedINIT for an arbitrary signer (an imposter, an outsider).
func (g *Gen) DirectedINITBy(n base.LocalNode, p base.Point, variant string, ex *ExpelSpec) Step {
	before := len(g.Steps)
	g.add(g.initBallot(n, p, variant, ex, "", "directed", false))
	if len(g.Steps) == before {
		return Step{Op: "count", Desc: "count (directed ballot was invalid)"}
	}
	st := g.Steps[len(g.Steps)-1]
	g.Steps = g.Steps[:before]
	return st
}
