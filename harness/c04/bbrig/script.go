package bbrig

import (
	"fmt"
	"math/rand"

	"github.com/spikeekips/mitum/base"
	"github.com/spikeekips/mitum/isaac"
)

// Step is one operation on the ballotbox (or on the environment).
type Step struct {
	Op       string // vote | signfact | count | setlast | stuck | hide | reveal | sleep | missing
	Kind     string // ballot kind for evidence: init, init-expel, accept, accept-expel, sc, init-empty, ...
	Desc     string
	Ballot   base.Ballot
	SignFact base.BallotSignFact
	SP       base.StagePoint
	IsSC     bool
	Node     string // address of the voting node
	// Clean: the sign fact is from a suffrage member with the member's key and
	// its expels (if any) are valid for the suffrage: the ballotbox has no
	// reason to drop it once it said "voted".
	Clean  bool
	Last   isaac.LastPoint
	Expels []base.SuffrageExpelOperation
	Height base.Height
	// VPHostile: how the voteproof the ballot carries was built: "" or "maxth" =
	// the honest one; otherwise "<kind>" or "<kind>@<id source>" (see Gen.replayID)
	VPHostile string
	// ExResigned: the ballot's expel operations carry the facts of another spec
	// under other node signs (ExpelSpec.FactOf)
	ExResigned bool
}

// ScriptOpts shapes a generated script.
type ScriptOpts struct {
	Heights   int     // consecutive heights to advance through
	Noise     float64 // probability of a noise step after each vote
	Hostile   float64 // probability that a regular vote is replaced by a hostile variant
	ExpelProb float64 // probability that a height runs the expel + suffrage-confirm scenario
	DrawProb  float64 // probability that a round is steered to a draw
	Deferred  float64 // probability that a height starts with its suffrage "not found yet"
	Stuck     bool    // include StuckVoteproof requests
	SetLast   bool    // include SetLastPoint noise
	Missing   bool    // include MissingNodes calls as steps
	Empty     bool    // include colluding empty-proposal ballots
	SufChange float64 // probability per height that the suffrage changes (a join or a leave)
	Stale     bool    // late ballots and sign facts for stage points the script went through long ago (one, two and more stages back)
	PermHide  float64 // probability per height that the suffrage of the previous voteproofs' height is hidden (revealed late or never)
	// Replay: probability that a hostile embedded voteproof carries the ID of
	// another (honest) voteproof of the script instead of a fresh one; also
	// enables ballots of genuine members for stage points ahead of the current
	// one carrying such voteproofs. 0 = every voteproof has its own ID.
	Replay float64
	// Skip: probability that the box misses a whole stage (none of its ballots
	// is delivered): it learns the result only from the voteproof the next
	// stage's ballots carry.
	Skip float64
}

// Gen builds a script. Every ballot in it passed IsValid(networkID); ballots
// that did not are dropped and counted in Invalid (a rig problem, reported).
type Gen struct {
	W       *World
	R       *rand.Rand
	O       ScriptOpts
	Steps   []Step
	Invalid []string
	exSeq   int
	// last voteproof round per height that the flow steered to a majority
	acceptRound map[base.Height]base.Round
	past        []stageCtx  // every stage the flow went through, oldest first
	hiddenFor   base.Height // ballots of this height are held now (their suffrage is hidden, revealed later); 0 = none
	// IDs of the honest voteproofs carried by the steps added so far, oldest first
	honestIDs []string
	honestSet map[string]bool
	// Replays counts the added ballots that replay an identifier with other
	// content: "voteproof-id:<id source>", "voteproof-id:<kind>@<id source>",
	// "expel-facts-under-other-node-signs"; Skipped counts the missed stages
	Replays map[string]int
	Skipped int
}

func NewGen(w *World, rng *rand.Rand, o ScriptOpts) *Gen {
	return &Gen{W: w, R: rng, O: o, acceptRound: map[base.Height]base.Round{}, honestSet: map[string]bool{}, Replays: map[string]int{}}
}

func (g *Gen) add(st Step) {
	if st.Ballot != nil {
		if err := st.Ballot.IsValid(g.W.NetworkID); err != nil {
			g.Invalid = append(g.Invalid, st.Desc+": "+err.Error())
			return
		}
		st.SP = st.Ballot.Point()
		st.IsSC = isaac.IsSuffrageConfirmBallotFact(st.Ballot.SignFact().Fact())
		st.Node = st.Ballot.SignFact().Node().String()
		if st.ExResigned {
			g.Replays["expel-facts-under-other-node-signs"]++
		}
		if vp := st.Ballot.Voteproof(); vp != nil {
			switch kind, src := splitHostile(st.VPHostile); {
			case src != "":
				g.Replays["voteproof-id:"+src]++
				g.Replays["voteproof-id:"+kind+"@"+src]++
			case kind == "" || kind == "maxth":
				if id := vp.ID(); !g.honestSet[id] {
					g.honestSet[id] = true
					g.honestIDs = append(g.honestIDs, id)
				}
			}
		}
	}
	if st.SignFact != nil && st.Ballot == nil {
		if err := st.SignFact.IsValid(g.W.NetworkID); err != nil {
			g.Invalid = append(g.Invalid, st.Desc+": "+err.Error())
			return
		}
		f := st.SignFact.Fact().(base.BallotFact)
		st.SP = f.Point()
		st.IsSC = isaac.IsSuffrageConfirmBallotFact(f)
		st.Node = st.SignFact.Node().String()
	}
	g.Steps = append(g.Steps, st)
}

// ---- expel specs

func (g *Gen) newExpel(h base.Height, targets []int, signers []int, tag string) *ExpelSpec {
	g.exSeq++
	return &ExpelSpec{
		ID:      fmt.Sprintf("ex%d-%s-h%d", g.exSeq, tag, h),
		Targets: targets,
		Signers: signers,
		Start:   h - 1,
		End:     h,
	}
}

// idxAt: member indices of the suffrage that decides height h (the suffrage of h-1).
func (g *Gen) idxAt(h base.Height) []int { return g.W.IdxAt(h - 1) }

func (g *Gen) sizeAt(h base.Height) int { return len(g.W.IdxAt(h - 1)) }

// anyMember picks a member of the suffrage that decides height h.
func (g *Gen) anyMember(h base.Height) (base.LocalNode, int) {
	idx := g.idxAt(h)
	i := idx[g.R.Intn(len(idx))]
	return g.W.Members[i], i
}

// validExpel picks k targets (never the local node when it is a member).
func (g *Gen) validExpel(h base.Height, k int) *ExpelSpec {
	all := g.idxAt(h)
	var cands []int
	for _, i := range all {
		if i != g.W.LocalIdx {
			cands = append(cands, i)
		}
	}
	g.R.Shuffle(len(cands), func(a, b int) { cands[a], cands[b] = cands[b], cands[a] })
	if k > len(cands) {
		k = len(cands)
	}
	t := append([]int{}, cands[:k]...)
	var signers []int
	for _, i := range all {
		isT := false
		for _, x := range t {
			if x == i {
				isT = true
			}
		}
		if !isT {
			signers = append(signers, i)
		}
	}
	return g.newExpel(h, t, signers, fmt.Sprintf("valid%d", k))
}

func (g *Gen) hostileExpel(h base.Height) (*ExpelSpec, string) {
	all := g.idxAt(h)
	t := all[g.R.Intn(len(all))]
	switch g.R.Intn(5) {
	case 0: // expired
		e := g.newExpel(h, []int{t}, all, "expired")
		e.Start, e.End = h-2, h-1
		return e, "expired"
	case 1: // unknown target
		e := g.newExpel(h, []int{-1}, all, "unknown-target")
		return e, "unknown-target"
	case 2: // under-signed: one sign only
		s := all[g.R.Intn(len(all))]
		e := g.newExpel(h, []int{t}, []int{s}, "undersigned")
		return e, "undersigned"
	case 3: // signed by a node outside the suffrage too
		e := g.newExpel(h, []int{t}, all, "outsider-signed")
		e.OutsiderSigns = true
		return e, "outsider-signed"
	default: // expels the local node (the box ignores such ballots)
		if g.W.LocalIdx >= 0 {
			e := g.newExpel(h, []int{g.W.LocalIdx}, all, "expel-local")
			return e, "expel-local"
		}
		e := g.newExpel(h, []int{t}, all, "valid1")
		return e, "valid"
	}
}

// resigned is ex with the same expel facts under other node signs: "outsider"
// adds the sign of a node outside the suffrage, "under" keeps one sign only.
func (g *Gen) resigned(ex *ExpelSpec, mode string) *ExpelSpec {
	e := *ex
	if e.FactOf == "" {
		e.FactOf = ex.ID
	}
	g.exSeq++
	e.ID = fmt.Sprintf("%s-resigned%d-%s", ex.ID, g.exSeq, mode)
	switch mode {
	case "outsider":
		e.OutsiderSigns = true
	case "under":
		if len(e.Signers) > 1 {
			e.Signers = append([]int{}, e.Signers[:1]...)
		}
	}
	return &e
}

func (g *Gen) expelIsClean(ex *ExpelSpec, h base.Height) bool {
	if ex == nil {
		return true
	}
	if h > ex.End || ex.OutsiderSigns {
		return false
	}
	for _, t := range ex.Targets {
		if t < 0 {
			return false
		}
	}
	return true
}

// ---- embedded voteproofs

// splitHostile splits "<kind>@<id source>".
func splitHostile(h string) (kind, src string) {
	for i := 0; i < len(h); i++ {
		if h[i] == '@' {
			return h[:i], h[i+1:]
		}
	}
	return h, ""
}

// replayID resolves the ID a hostile embedded voteproof replays. Voteproof IDs
// are free strings: whoever builds a voteproof can give it the ID of any
// voteproof it has seen. Sources:
//
//	seen : an honest voteproof carried by an earlier step of the script, of
//	       whatever stage point (the box has usually validated, often emitted it)
//	same : the honest voteproof for the very same stage point (the hostile one
//	       arrives before, among or after the ballots which carry the honest one)
//	later: the honest voteproof of the ballot's own stage point, which only
//	       the next stage's ballots will carry (the hostile one comes first and is
//	       for another stage point)
func (g *Gen) replayID(src string, same, later func() base.Voteproof) string {
	switch src {
	case "seen":
		switch n := len(g.honestIDs); {
		case n < 1:
			return same().ID()
		case g.R.Intn(2) == 0:
			return g.honestIDs[n-1]
		default:
			return g.honestIDs[g.R.Intn(n)]
		}
	case "same":
		return same().ID()
	case "later":
		return later().ID()
	default:
		return ""
	}
}

// honestACCEPT is the honest ACCEPT voteproof of p: what the INIT ballots of
// the next height carry when p's round is the one that decided the height.
func (g *Gen) honestACCEPT(p base.Point) base.Voteproof {
	w := g.W
	return w.Voteproof(VPSpec{Stage: base.StageACCEPT, Point: p, Variant: "A", Signers: w.MembersAt(p.Height() - 1), Threshold: w.Threshold})
}

var replaySources = []string{"seen", "seen", "same", "later"}

// withReplay turns a hostile kind into "<kind>@<id source>" with probability Replay.
func (g *Gen) withReplay(kind string) string {
	if g.O.Replay <= 0 || kind == "" || kind == "maxth" || g.R.Float64() >= g.O.Replay {
		return kind
	}
	return kind + "@" + replaySources[g.R.Intn(len(replaySources))]
}

var hostileKinds = []string{"few", "outsider", "imposter", "lowth", "otherheight", "nextsuf"}

// hostileKind draws the kind of a hostile embedded voteproof; scripts with ID
// replay also get voteproofs signed by nodes outside the suffrage only.
func (g *Gen) hostileKind(base []string) string {
	if g.O.Replay > 0 {
		if k := g.R.Intn(len(base) + 2); k < len(base) {
			return base[k]
		}
		return "alloutsiders"
	}
	return base[g.R.Intn(len(base))]
}

// prevVP is the voteproof an INIT ballot of point p carries. id != "" replaces
// the voteproof's own ID.
func (g *Gen) prevVP(p base.Point, hostile, id string) base.Voteproof {
	w := g.W
	// the point of the carried voteproof and the suffrage that decided it
	vpHeight := p.Height()
	if p.Round() == 0 {
		vpHeight = p.Height() - 1
	}
	idx := g.idxAt(vpHeight)
	signers := w.MembersAt(vpHeight - 1)
	th := w.Threshold
	switch hostile {
	case "few":
		signers = signers[:1]
	case "outsider":
		signers = append(append([]base.LocalNode{}, signers[:len(signers)-1]...), w.Outsiders[0])
	case "imposter":
		signers = append(append([]base.LocalNode{}, signers[:len(signers)-1]...), w.Imposters[idx[len(idx)-1]])
	case "nextsuf":
		// signed by the suffrage of the ballot's height instead of the
		// voteproof's own (differs when a node joined or left in between)
		signers = w.MembersAt(p.Height() - 1)
	case "lowth":
		th = base.Threshold(51)
	case "maxth":
		th = base.MaxThreshold
	case "alloutsiders":
		signers = append([]base.LocalNode{}, w.Outsiders...)
	}
	if p.Round() == 0 {
		r := g.acceptRound[p.Height()-1]
		pp := base.NewPoint(p.Height()-1, r)
		if hostile == "otherheight" && p.Height() > 3 {
			// a majority ACCEPT voteproof of an older height whose new block
			// equals the ballot's previous block (all that IsValid asks for)
			bh := p.Height() - 1
			if hostile == "otherheight" {
				signers = w.MembersAt(p.Height() - 4) // the suffrage that decided height h-3
			}
			return w.voteproofACCEPTWithBlock(base.NewPoint(p.Height()-3, 0), bh, signers, th, id)
		}
		return w.Voteproof(VPSpec{Stage: base.StageACCEPT, Point: pp, Variant: "A", Signers: signers, Threshold: th, Tag: hostile, ID: id})
	}
	// round > 0: a draw of the previous round, INIT or ACCEPT
	pp := p.PrevRound()
	stage := base.StageINIT
	if g.R.Intn(2) == 0 {
		stage = base.StageACCEPT
	}
	return w.Voteproof(VPSpec{Stage: stage, Point: pp, Variant: "", Signers: signers, Threshold: th, Tag: hostile, ID: id})
}

func (w *World) voteproofACCEPTWithBlock(p base.Point, blockOf base.Height, signers []base.LocalNode, th base.Threshold, id string) base.Voteproof {
	k := fmt.Sprintf("acceptblk/%s/%d/%s/id=%s/", p, blockOf, th, id)
	for _, n := range signers {
		k += nodeTag(n) + ","
	}
	w.cacheMu.Lock()
	if v, ok := w.vpCache[k]; ok {
		w.cacheMu.Unlock()
		return v
	}
	w.cacheMu.Unlock()
	f := isaac.NewACCEPTBallotFact(p, Proposal(p, "A"), Block(blockOf, "A"), nil)
	sfs := make([]base.BallotSignFact, len(signers))
	for i, n := range signers {
		sfs[i] = w.SignACCEPT(n, f)
	}
	a := isaac.NewACCEPTVoteproof(p)
	a.SetSignFacts(sfs).SetThreshold(th).SetMajority(f)
	a.Finish()
	if id != "" {
		a.SetID(id)
	}
	w.cacheMu.Lock()
	defer w.cacheMu.Unlock()
	if v, ok := w.vpCache[k]; ok {
		return v
	}
	w.vpCache[k] = a
	return a
}

// initVP is the INIT voteproof (majority `variant`) ACCEPT and suffrage
// confirm ballots of point p carry.
func (g *Gen) initVP(p base.Point, variant string, ex *ExpelSpec, hostile, id string) base.Voteproof {
	w := g.W
	signers := w.MembersExceptAt(p.Height()-1, ex)
	th := w.Threshold
	switch hostile {
	case "few":
		if len(signers) > 1 {
			signers = signers[:1]
		}
	case "outsider":
		signers = append(append([]base.LocalNode{}, signers...), w.Outsiders[0])
	case "lowth":
		th = base.Threshold(51)
	case "maxth":
		th = base.MaxThreshold
	case "alloutsiders":
		signers = append([]base.LocalNode{}, w.Outsiders...)
	}
	return w.Voteproof(VPSpec{Stage: base.StageINIT, Point: p, Variant: variant, Ex: ex, Signers: signers, Threshold: th, Tag: hostile, ID: id})
}

func (g *Gen) pickHostileVP() string {
	if g.R.Float64() >= g.O.Hostile {
		// the regular voteproof; sometimes with the 100% threshold (also fine)
		if g.R.Intn(6) == 0 {
			return "maxth"
		}
		return ""
	}
	return g.withReplay(g.hostileKind([]string{"few", "outsider", "imposter", "lowth", "otherheight", "nextsuf", "nextsuf"}))
}

// ---- ballots

func (g *Gen) initBallot(n base.LocalNode, p base.Point, variant string, ex *ExpelSpec, vpHostile, note string, clean bool) Step {
	w := g.W
	var fact base.INITBallotFact
	kind := "init"
	switch {
	case variant == "empty":
		fact = w.EmptyINITFact(p).(base.INITBallotFact)
		kind = "init-empty"
		ex = nil
	default:
		fact = w.INITFact(p, variant, ex)
	}
	if ex != nil {
		kind = "init-expel"
	}
	sf := w.SignINIT(n, fact)
	vpKind, src := splitHostile(vpHostile)
	id := g.replayID(src,
		func() base.Voteproof { return g.prevVP(p, "", "") },
		func() base.Voteproof { return g.initVP(p, variant, ex, "", "") })
	bl := isaac.NewINITBallot(g.prevVP(p, vpKind, id), sf, w.Expels(ex))
	return Step{
		Op: "vote", Kind: kind, Ballot: bl, Clean: clean && g.expelIsClean(ex, p.Height()), VPHostile: vpHostile, ExResigned: ex != nil && ex.FactOf != "",
		Desc: fmt.Sprintf("vote %s %s by %s variant=%s ex=%s vp=%q %s", kind, base.NewStagePoint(p, base.StageINIT), n.Address(), variant, exID(ex), vpHostile, note),
	}
}

func (g *Gen) scBallot(n base.LocalNode, p base.Point, variant string, ex *ExpelSpec, vpHostile, note string, clean bool) Step {
	w := g.W
	fact := w.SCFact(p, variant, ex)
	sf := w.SignINIT(n, fact)
	vpKind, src := splitHostile(vpHostile)
	id := g.replayID(src,
		func() base.Voteproof { return g.initVP(p, variant, ex, "", "") },
		func() base.Voteproof { return g.honestACCEPT(p) })
	bl := isaac.NewINITBallot(g.initVP(p, variant, ex, vpKind, id), sf, nil)
	return Step{
		Op: "vote", Kind: "sc", Ballot: bl, Clean: clean && g.expelIsClean(ex, p.Height()), VPHostile: vpHostile,
		Desc: fmt.Sprintf("vote sc %s by %s variant=%s ex=%s vp=%q %s", base.NewStagePoint(p, base.StageINIT), n.Address(), variant, exID(ex), vpHostile, note),
	}
}

func (g *Gen) acceptBallot(n base.LocalNode, p base.Point, variant string, ex *ExpelSpec, vpHostile, note string, clean bool) Step {
	w := g.W
	fact := w.ACCEPTFact(p, variant, ex)
	sf := w.SignACCEPT(n, fact)
	kind := "accept"
	if ex != nil {
		kind = "accept-expel"
	}
	vpKind, src := splitHostile(vpHostile)
	id := g.replayID(src,
		func() base.Voteproof { return g.initVP(p, variant, ex, "", "") },
		func() base.Voteproof { return g.honestACCEPT(p) })
	ivp := g.initVP(p, variant, ex, vpKind, id).(base.INITVoteproof)
	bl := isaac.NewACCEPTBallot(ivp, sf, w.Expels(ex))
	return Step{
		Op: "vote", Kind: kind, Ballot: bl, Clean: clean && g.expelIsClean(ex, p.Height()), VPHostile: vpHostile, ExResigned: ex != nil && ex.FactOf != "",
		Desc: fmt.Sprintf("vote %s %s by %s variant=%s ex=%s vp=%q %s", kind, base.NewStagePoint(p, base.StageACCEPT), n.Address(), variant, exID(ex), vpHostile, note),
	}
}

func exID(ex *ExpelSpec) string {
	if ex == nil {
		return "-"
	}
	return ex.ID
}

// asSignFact turns a vote step into a VoteSignFact step (no voteproof, no
// expels travel with it).
func asSignFact(st Step) Step {
	st.Op = "signfact"
	st.SignFact = st.Ballot.SignFact()
	st.Kind += "-signfact"
	// without the expels at hand the box cannot judge them: still the same
	// member/key rule
	st.Ballot = nil
	st.VPHostile = ""
	st.Desc = "signfact of: " + st.Desc
	return st
}

// ---- the flow

type stageCtx struct {
	stage string // init | sc | accept
	p     base.Point
	ex    *ExpelSpec
}

func (g *Gen) voteStep(c stageCtx, n base.LocalNode, variant, vpHostile, note string, clean bool) Step {
	switch c.stage {
	case "init":
		return g.initBallot(n, c.p, variant, c.ex, vpHostile, note, clean)
	case "sc":
		return g.scBallot(n, c.p, variant, c.ex, vpHostile, note, clean)
	default:
		return g.acceptBallot(n, c.p, variant, c.ex, vpHostile, note, clean)
	}
}

func (g *Gen) noise(c stageCtx) {
	w := g.W
	r := g.R
	h := c.p.Height()
	sp := func() base.StagePoint {
		st := base.StageINIT
		if c.stage == "accept" {
			st = base.StageACCEPT
		}
		return base.NewStagePoint(c.p, st)
	}()
	kinds := 14
	if g.O.Replay > 0 {
		kinds = 16
	}
	switch k := r.Intn(kinds); k {
	case 14, 15: // (scripts with ID replay only)
		g.ahead(c)
	case 0:
		g.add(Step{Op: "count", Desc: "count"})
	case 1: // outsider votes
		g.add(g.voteStep(c, w.Outsiders[r.Intn(2)], "A", "", "outsider", false))
	case 2: // a member's address with another key
		_, mi := g.anyMember(h)
		g.add(g.voteStep(c, w.Imposters[mi], "A", "", "imposter", false))
	case 3: // old point
		if h-1 > w.H0 {
			oc := stageCtx{stage: "accept", p: base.NewPoint(h-1, g.acceptRound[h-1])}
			m, _ := g.anyMember(h - 1)
			g.add(g.voteStep(oc, m, "A", "", "old-point", true))
		}
	case 4: // future point: next round or next height
		fc := stageCtx{stage: "init", p: c.p.NextRound()}
		if r.Intn(2) == 0 {
			g.acceptRound[h] = c.p.Round()
			fc.p = base.NewPoint(h+1, 0)
		}
		m, _ := g.anyMember(fc.p.Height())
		g.add(g.voteStep(fc, m, []string{"A", "B"}[r.Intn(2)], g.pickHostileVP(), "future-point", true))
	case 5:
		if g.O.SetLast {
			// a point around the current one
			pts := []base.StagePoint{
				base.NewStagePoint(c.p, base.StageINIT),
				base.NewStagePoint(c.p, base.StageACCEPT),
				base.NewStagePoint(base.NewPoint(h-1, 0), base.StageACCEPT),
				base.NewStagePoint(c.p.NextRound(), base.StageINIT),
			}
			p := pts[r.Intn(len(pts))]
			isc := p.Stage() == base.StageINIT && r.Intn(4) == 0
			lp, err := isaac.NewLastPoint(p, r.Intn(3) > 0, isc)
			if err == nil {
				g.add(Step{Op: "setlast", Last: lp, Desc: fmt.Sprintf("setlast %s majority=%v sc=%v", p, lp.IsMajority(), isc)})
			}
		}
	case 6:
		if g.O.Stuck && g.sizeAt(h) >= 2 {
			// expels for one or two random non-local members, as the stuck
			// resolver asks (start = end = height)
			k := 1 + r.Intn(2)
			ex := g.validExpel(h, k)
			ex.Start, ex.End = h, h
			ex.ID += "-stuck"
			if len(ex.Signers) < 1 {
				return // nobody left to sign the expels
			}
			if r.Intn(4) == 0 && len(ex.Signers) > 1 { // under-signed variant
				ex.Signers = ex.Signers[:1]
				ex.ID += "-under"
			}
			g.add(Step{Op: "stuck", SP: sp, Expels: w.Expels(ex), Desc: fmt.Sprintf("stuck %s expels=%s targets=%v", sp, ex.ID, ex.Targets)})
		}
	case 7:
		g.add(Step{Op: "sleep", Desc: "sleep 3ms (ticker)"})
	case 8: // hostile expels on a ballot
		if c.stage != "sc" && g.sizeAt(h) >= 2 {
			ex, tag := g.hostileExpel(h)
			hc := c
			hc.ex = ex
			hostile := ""
			m, _ := g.anyMember(h)
			g.add(g.voteStep(hc, m, "A", hostile, "hostile-expel:"+tag, tag == "valid"))
		}
	case 9: // hostile embedded voteproof on an otherwise honest ballot
		m, _ := g.anyMember(h)
		g.add(g.voteStep(c, m, "A", g.withReplay(g.hostileKind(hostileKinds)), "hostile-vp", true))
	case 10:
		if g.O.Missing {
			g.add(Step{Op: "missing", SP: sp, Desc: fmt.Sprintf("missingnodes %s", sp)})
		}
	case 11:
		if g.O.Empty && c.stage == "init" {
			m, _ := g.anyMember(h)
			g.add(g.voteStep(c, m, "empty", "", "empty-proposal", true))
		}
	case 12: // suffrage confirm out of the blue (no expel voteproof emitted before)
		if g.sizeAt(h) >= 3 {
			ex := g.validExpel(h, 1)
			m, _ := g.anyMember(h)
			g.add(g.scBallot(m, c.p, "A", ex, "", "sc-noise", true))
		}
	case 13:
		if g.O.Stale && len(g.past) > 0 {
			g.stale(1 + r.Intn(len(g.past)))
		} else {
			g.add(Step{Op: "count", Desc: "count"})
		}
	default:
		g.add(Step{Op: "count", Desc: "count"})
	}
}

// ahead adds the ballot of a genuine suffrage member for a stage point ahead of
// the current one (the ACCEPT stage of the current point, the next round, the
// next height). The voteproof it carries is for the stage right before that
// point, hence newer than whatever the box has finished; it is invalid for the
// true suffrage and carries the ID of an honest voteproof of the script.
func (g *Gen) ahead(c stageCtx) {
	r := g.R
	h := c.p.Height()
	var fc stageCtx
	switch k := r.Intn(3); {
	case k == 0 && c.stage != "accept":
		fc = stageCtx{stage: "accept", p: c.p, ex: c.ex}
	case k == 1:
		fc = stageCtx{stage: "init", p: c.p.NextRound()}
	default:
		g.acceptRound[h] = c.p.Round()
		fc = stageCtx{stage: "init", p: base.NewPoint(h+1, 0)}
	}
	m, _ := g.anyMember(fc.p.Height())
	kind := g.hostileKind([]string{"few", "outsider", "imposter", "nextsuf"})
	src := replaySources[r.Intn(len(replaySources))]
	g.add(g.voteStep(fc, m, "A", kind+"@"+src, "ahead", true))
	if r.Intn(2) == 0 {
		g.add(Step{Op: "count", Desc: "count"})
	}
}

// stageOrMiss is stage, unless the box misses the stage altogether (Skip).
func (g *Gen) stageOrMiss(c stageCtx, draw bool) {
	if g.O.Skip > 0 && g.R.Float64() < g.O.Skip {
		g.add(Step{Op: "count", Desc: fmt.Sprintf("count (the box misses stage %s of %s: none of its ballots is delivered)", c.stage, c.p)})
		g.past = append(g.past, c)
		g.Skipped++
		return
	}
	g.stage(c, draw)
}

// stage emits the votes of one stage of one round.
func (g *Gen) stage(c stageCtx, draw bool) {
	w := g.W
	r := g.R
	voters := w.MembersExceptAt(c.p.Height()-1, c.ex)
	order := r.Perm(len(voters))
	// the expelled nodes sometimes vote as well (plain ballots)
	var expelled []base.LocalNode
	if c.ex != nil && c.stage != "sc" {
		for _, t := range c.ex.Targets {
			if t >= 0 && r.Intn(2) == 0 {
				expelled = append(expelled, w.Members[t])
			}
		}
	}
	absent := -1
	if len(voters) > 2 && r.Intn(4) == 0 {
		absent = r.Intn(len(voters))
	}
	dissent := -1
	if len(voters) > 1 && r.Intn(3) == 0 {
		dissent = r.Intn(len(voters))
	}
	held := g.hiddenFor != 0 && g.hiddenFor == c.p.Height()
	// (scripts with replay) in some expel stages every voter's ballot comes with
	// a twin: another ballot of the same node which lists the same expel facts
	// but carries operations with other node signs - after the regular ballot
	// (a second ballot of a node that has voted) or before it
	var twinEx *ExpelSpec
	if g.O.Replay > 0 && c.ex != nil && c.stage != "sc" && r.Intn(3) == 0 {
		twinEx = g.resigned(c.ex, []string{"outsider", "outsider", "under"}[r.Intn(3)])
	}
	for seq, i := range order {
		if held && (i == absent || r.Intn(4) == 0) {
			// while the suffrage is unknown the box can only hold what arrives:
			// things it has to throw away once the suffrage is known, through
			// Vote (with voteproof) and through VoteSignFact (bare)
			g.heldHostile(c, voters[i])
		}
		if i == absent {
			continue
		}
		n := voters[i]
		variant := "A"
		switch {
		case draw:
			variant = []string{"A", "B", "C"}[seq%3]
		case i == dissent:
			variant = "B"
		}
		if g.O.Empty && c.stage == "init" && c.ex == nil && draw && r.Intn(3) == 0 {
			variant = "empty"
		}
		vc := c
		if i == dissent && c.ex != nil && c.stage != "sc" && r.Intn(2) == 0 {
			vc.ex = nil // the dissenter does not carry the expels
		}
		st := g.voteStep(vc, n, variant, g.pickHostileVP(), "", true)
		if c.stage != "sc" && vc.ex == nil && r.Intn(8) == 0 {
			st = asSignFact(st)
		}
		if twinEx != nil && vc.ex != nil {
			tc := vc
			tc.ex = twinEx
			if r.Intn(4) == 0 {
				// the very same sign fact first arrives with the re-signed operations
				g.add(g.voteStep(tc, n, variant, "", "twin-first:same-expel-facts-other-signs", false))
				g.add(st)
			} else {
				g.add(st)
				g.add(g.voteStep(tc, n, []string{"C", variant}[r.Intn(2)], "", "twin-second:same-expel-facts-other-signs", false))
			}
		} else {
			g.add(st)
		}
		if r.Intn(6) == 0 { // conflicting ballot of the same node
			cc := vc
			if g.O.Replay > 0 && vc.ex != nil && c.stage != "sc" && r.Intn(2) == 0 {
				cc.ex = g.resigned(vc.ex, []string{"outsider", "under"}[r.Intn(2)])
			}
			g.add(g.voteStep(cc, n, "C", "", "conflict", true))
		}
		if len(expelled) > 0 && r.Intn(2) == 0 {
			e := expelled[0]
			expelled = expelled[1:]
			ec := c
			ec.ex = nil
			g.add(g.voteStep(ec, e, "A", "", "expelled-node-votes", true))
		}
		for r.Float64() < g.O.Noise {
			g.noise(c)
		}
	}
	if r.Intn(3) == 0 {
		g.add(Step{Op: "count", Desc: "count"})
	}
	g.past = append(g.past, c)
}

// heldHostile adds, for the seat of member n, submissions a ballotbox must not
// count: the member's address with another key, a node outside the suffrage,
// a member's ballot with an expired expel.
func (g *Gen) heldHostile(c stageCtx, n base.LocalNode) {
	w := g.W
	r := g.R
	mi := w.MemberIndex(n.Address())
	bare := func(st Step) Step {
		if c.stage != "sc" && c.ex == nil {
			return asSignFact(st)
		}
		return st
	}
	switch r.Intn(5) {
	case 0: // foreign key, bare sign fact
		g.add(bare(g.voteStep(c, w.Imposters[mi], "A", "", "held:imposter", false)))
	case 1: // foreign key, full ballot
		g.add(g.voteStep(c, w.Imposters[mi], "A", "", "held:imposter", false))
	case 2: // outsider, bare sign fact
		g.add(bare(g.voteStep(c, w.Outsiders[r.Intn(2)], "A", "", "held:outsider", false)))
	case 3: // outsider, full ballot
		g.add(g.voteStep(c, w.Outsiders[r.Intn(2)], "A", "", "held:outsider", false))
	default: // expired expel on a member's ballot
		if c.stage != "sc" && g.sizeAt(c.p.Height()) >= 2 {
			all := g.idxAt(c.p.Height())
			t := all[r.Intn(len(all))]
			e := g.newExpel(c.p.Height(), []int{t}, all, "expired")
			e.Start, e.End = c.p.Height()-2, c.p.Height()-1
			hc := c
			hc.ex = e
			g.add(g.voteStep(hc, n, "A", "", "held:expired-expel", false))
		}
	}
}

// stale adds a late ballot (or bare sign fact) for a stage the flow finished
// `back` stages ago: the ballotbox has usually released that stage point.
func (g *Gen) stale(back int) {
	if back < 1 || back > len(g.past) {
		return
	}
	c := g.past[len(g.past)-back]
	m, _ := g.anyMember(c.p.Height())
	variant := []string{"A", "A", "B"}[g.R.Intn(3)]
	st := g.voteStep(c, m, variant, "", fmt.Sprintf("stale:%d-stages-back", back), true)
	if c.stage != "sc" && c.ex == nil && g.R.Intn(2) == 0 {
		st = asSignFact(st)
	}
	g.add(st)
}

// Flow generates the script: Heights consecutive heights, each with rounds of
// INIT (→ suffrage confirm when the height expels) → ACCEPT.
func (g *Gen) Flow() []Step {
	w := g.W
	r := g.R
	g.acceptRound[w.H0] = 0
	g.evolve()
	if r.Intn(2) == 0 {
		lp, _ := isaac.NewLastPoint(base.NewStagePoint(base.NewPoint(w.H0, 0), base.StageACCEPT), true, false)
		g.add(Step{Op: "setlast", Last: lp, Desc: "setlast initial " + lp.StagePoint.String()})
	}
	var lateReveal []base.Height
	for hi := 1; hi <= g.O.Heights; hi++ {
		h := w.H0 + base.Height(hi)
		if g.O.Stale && len(g.past) > 0 {
			// late arrivals for stages of earlier heights: one stage back, two, and more
			for _, back := range []int{1, 2, 3 + r.Intn(len(g.past))} {
				if r.Intn(3) > 0 {
					g.stale(back)
				}
			}
		}
		if r.Float64() < g.O.PermHide {
			// the suffrage that decided the previous height (the one embedded
			// voteproofs of height h-1 are to be judged with) is not known to
			// the local node; it may learn it late or never
			g.add(Step{Op: "hide", Height: h - 2, Desc: fmt.Sprintf("hide suffrage of height %d", h-2)})
			if r.Intn(2) == 0 {
				lateReveal = append(lateReveal, h-2)
			}
		}
		for len(lateReveal) > 0 && lateReveal[0] < h-2 {
			g.add(Step{Op: "reveal", Height: lateReveal[0], Desc: fmt.Sprintf("reveal suffrage of height %d", lateReveal[0])})
			lateReveal = lateReveal[1:]
		}
		deferred := r.Float64() < g.O.Deferred
		if deferred {
			g.add(Step{Op: "hide", Height: h - 1, Desc: fmt.Sprintf("hide suffrage of height %d", h-1)})
			g.hiddenFor = h
		}
		var round base.Round
		for {
			p := base.NewPoint(h, round)
			var ex *ExpelSpec
			if g.sizeAt(h) >= 3 && r.Float64() < g.O.ExpelProb {
				k := 1
				if g.sizeAt(h) >= 5 && r.Intn(3) == 0 {
					k = 2
				}
				ex = g.validExpel(h, k)
			}
			draw := round < 2 && r.Float64() < g.O.DrawProb
			drawAt := r.Intn(2) // 0: INIT draws, 1: ACCEPT draws

			g.stageOrMiss(stageCtx{stage: "init", p: p, ex: ex}, draw && drawAt == 0)
			if deferred && r.Intn(2) == 0 {
				g.add(Step{Op: "reveal", Height: h - 1, Desc: fmt.Sprintf("reveal suffrage of height %d", h-1)})
				g.add(Step{Op: "count", Desc: "count"})
				deferred = false
				g.hiddenFor = 0
			}
			if !(draw && drawAt == 0) {
				if ex != nil {
					g.stageOrMiss(stageCtx{stage: "sc", p: p, ex: ex}, false)
				}
				g.stageOrMiss(stageCtx{stage: "accept", p: p, ex: ex}, draw && drawAt == 1)
			}
			if deferred {
				g.add(Step{Op: "reveal", Height: h - 1, Desc: fmt.Sprintf("reveal suffrage of height %d", h-1)})
				g.add(Step{Op: "count", Desc: "count"})
				deferred = false
				g.hiddenFor = 0
			}
			if !draw {
				g.acceptRound[h] = round
				break
			}
			round++
		}
	}
	if g.O.Stale {
		for back := 1; back <= len(g.past); back += 1 + r.Intn(2) {
			g.stale(back)
		}
	}
	g.add(Step{Op: "count", Desc: "final count"})
	return g.Steps
}

// DirectedINIT builds one honest INIT ballot of member i (round 0) for a
// directed case; the step is validated like every generated one.
func (g *Gen) DirectedINIT(i int, p base.Point, variant string, ex *ExpelSpec) Step {
	before := len(g.Steps)
	g.add(g.initBallot(g.W.Members[i], p, variant, ex, "", "directed", true))
	if len(g.Steps) == before {
		return Step{Op: "count", Desc: "count (directed ballot was invalid)"}
	}
	st := g.Steps[len(g.Steps)-1]
	g.Steps = g.Steps[:before]
	return st
}

// DirectedINITBy is DirectedINIT for an arbitrary signer (an imposter, an outsider).
func (g *Gen) DirectedINITBy(n base.LocalNode, p base.Point, variant string, ex *ExpelSpec) Step {
	before := len(g.Steps)
	g.add(g.initBallot(n, p, variant, ex, "", "directed", false))
	if len(g.Steps) == before {
		return Step{Op: "count", Desc: "count (directed ballot was invalid)"}
	}
	st := g.Steps[len(g.Steps)-1]
	g.Steps = g.Steps[:before]
	return st
}

// evolve draws the suffrage table: joins and leaves between consecutive
// heights (the local node never leaves).
func (g *Gen) evolve() {
	if g.O.SufChange <= 0 || g.W.N() < 3 {
		return
	}
	w := g.W
	r := g.R
	cur := make([]int, w.N())
	for i := range cur {
		cur[i] = i
	}
	drop := func() bool {
		var c []int
		for p, i := range cur {
			if i != w.LocalIdx {
				c = append(c, p)
			}
		}
		if len(cur) <= 2 || len(c) == 0 {
			return false
		}
		p := c[r.Intn(len(c))]
		cur = append(append([]int{}, cur[:p]...), cur[p+1:]...)
		return true
	}
	join := func() bool {
		in := map[int]bool{}
		for _, i := range cur {
			in[i] = true
		}
		var out []int
		for i := 0; i < w.N(); i++ {
			if !in[i] {
				out = append(out, i)
			}
		}
		if len(out) == 0 {
			return false
		}
		cur = append(cur, out[r.Intn(len(out))])
		sortInts(cur)
		return true
	}
	// leave room for a join
	if r.Intn(3) > 0 {
		drop()
	}
	w.SetSuffrageFrom(0, cur)
	for h := w.H0 - 1; h <= w.H0+base.Height(g.O.Heights)+1; h++ {
		if r.Float64() >= g.O.SufChange {
			continue
		}
		changed := false
		if r.Intn(2) == 0 {
			changed = join() || drop()
		} else {
			changed = drop() || join()
		}
		if changed {
			w.SetSuffrageFrom(h, cur)
		}
	}
}

func sortInts(v []int) {
	for i := 1; i < len(v); i++ {
		for j := i; j > 0 && v[j] < v[j-1]; j-- {
			v[j], v[j-1] = v[j-1], v[j]
		}
	}
}

// DirectedINITVP is DirectedINITBy with a chosen embedded-voteproof variant.
func (g *Gen) DirectedINITVP(n base.LocalNode, p base.Point, variant, vpHostile string) Step {
	before := len(g.Steps)
	g.add(g.initBallot(n, p, variant, nil, vpHostile, "directed", true))
	if len(g.Steps) == before {
		return Step{Op: "count", Desc: "count (directed ballot was invalid)"}
	}
	st := g.Steps[len(g.Steps)-1]
	g.Steps = g.Steps[:before]
	return st
}

// DirectedSignFactBy is a bare INIT sign fact (VoteSignFact) of an arbitrary signer.
func (g *Gen) DirectedSignFactBy(n base.LocalNode, p base.Point, variant string) Step {
	before := len(g.Steps)
	g.add(asSignFact(g.initBallot(n, p, variant, nil, "", "directed", false)))
	if len(g.Steps) == before {
		return Step{Op: "count", Desc: "count (directed sign fact was invalid)"}
	}
	st := g.Steps[len(g.Steps)-1]
	g.Steps = g.Steps[:before]
	return st
}

// DirectedBallot builds one ballot of stage "init", "sc" or "accept" for a
// directed case: signer n, embedded voteproof of kind vpHostile ("" = honest,
// "<kind>@<id source>" = hostile with a replayed ID). The honest voteproofs of
// earlier DirectedBallot calls of this Gen count as "seen".
func (g *Gen) DirectedBallot(stage string, n base.LocalNode, p base.Point, variant string, ex *ExpelSpec, vpHostile string) Step {
	before := len(g.Steps)
	g.add(g.voteStep(stageCtx{stage: stage, p: p, ex: ex}, n, variant, vpHostile, "directed", true))
	if len(g.Steps) == before {
		return Step{Op: "count", Desc: "count (directed ballot was invalid)"}
	}
	st := g.Steps[len(g.Steps)-1]
	g.Steps = g.Steps[:before]
	return st
}
