// Package bbrig builds real ballots, voteproofs, expels and a real
// isaacstates.Ballotbox for the C04/C05 monitors. Nothing here stands in for
// the code under test: the rig only constructs inputs (with the repository's
// own constructors), drives the exported API and keeps a registry of what it
// submitted.
package bbrig

import (
	"fmt"
	"sort"
	"sync"
	"sync/atomic"

	"github.com/spikeekips/mitum/base"
	"github.com/spikeekips/mitum/isaac"
	"github.com/spikeekips/mitum/util"
	"github.com/spikeekips/mitum/util/valuehash"
)

// ---- deterministic keys (pooled per process; key derivation is from a seed string)

var keyPool sync.Map // seed -> base.Privatekey

func keyOf(seed string) base.Privatekey {
	if v, ok := keyPool.Load(seed); ok {
		return v.(base.Privatekey)
	}
	s := "verif-ballotbox-rig-key-seed-padding-" + seed
	k, err := base.NewMPrivatekeyFromSeed(s)
	if err != nil {
		panic(err)
	}
	v, _ := keyPool.LoadOrStore(seed, base.Privatekey(k))
	return v.(base.Privatekey)
}

func H(parts ...any) util.Hash {
	return valuehash.NewSHA256([]byte(fmt.Sprint(parts...)))
}

// World is the environment of one case: the nodes, the suffrage table the
// ballotbox reads through its getSuffrage callback, the threshold.
type World struct {
	NetworkID base.NetworkID
	Members   []base.LocalNode // the suffrage, sorted by address
	Outsiders []base.LocalNode // valid nodes which are in no suffrage
	Imposters []base.LocalNode // address of Members[i], another key
	Suf       base.Suffrage
	Threshold base.Threshold
	Local     base.Address
	LocalIdx  int // index in Members, -1 when local is not a member
	H0        base.Height

	mu      sync.Mutex
	hidden  map[base.Height]bool // suffrage of this height is "not found yet"
	epochs  []sufEpoch           // suffrage table: the suffrage of height h is the last epoch with from <= h
	Delay   func(where string)   // injected suspension point (concurrent phase)
	sufHits atomic.Int64

	cacheMu sync.Mutex
	sfCache map[string]base.BallotSignFact
	vpCache map[string]base.Voteproof
	exCache map[string][]base.SuffrageExpelOperation
	emptyFs map[string]base.BallotFact
}

func NewWorld(caseID string, n int, th base.Threshold, localMember bool, h0 base.Height) *World {
	w := &World{
		NetworkID: base.NetworkID([]byte("verif-network-" + caseID)),
		Threshold: th,
		H0:        h0,
		hidden:    map[base.Height]bool{},
		sfCache:   map[string]base.BallotSignFact{},
		vpCache:   map[string]base.Voteproof{},
		exCache:   map[string][]base.SuffrageExpelOperation{},
		emptyFs:   map[string]base.BallotFact{},
		LocalIdx:  -1,
	}
	nodes := make([]base.Node, n)
	for i := 0; i < n; i++ {
		l := isaac.NewLocalNode(keyOf(fmt.Sprintf("m%02d", i)), base.NewStringAddress(fmt.Sprintf("no%02d", i)))
		w.Members = append(w.Members, l)
		nodes[i] = l
		w.Imposters = append(w.Imposters,
			isaac.NewLocalNode(keyOf(fmt.Sprintf("imp%02d", i)), base.NewStringAddress(fmt.Sprintf("no%02d", i))))
	}
	for i := 0; i < 2; i++ {
		w.Outsiders = append(w.Outsiders,
			isaac.NewLocalNode(keyOf(fmt.Sprintf("out%02d", i)), base.NewStringAddress(fmt.Sprintf("xo%02d", i))))
	}
	suf, err := isaac.NewSuffrage(nodes)
	if err != nil {
		panic(err)
	}
	w.Suf = suf
	if localMember {
		w.Local = w.Members[0].Address()
		w.LocalIdx = 0
	} else {
		w.Local = base.NewStringAddress("lo00")
	}
	return w
}

func (w *World) N() int { return len(w.Members) }

// sufEpoch: from this height on the suffrage consists of Members[idx...].
type sufEpoch struct {
	suf  base.Suffrage
	idx  []int
	from base.Height
}

// SetSuffrageFrom makes Members[idx...] the suffrage of every height >= from
// (until a later epoch). Call before any ballot is built.
func (w *World) SetSuffrageFrom(from base.Height, idx []int) {
	nodes := make([]base.Node, len(idx))
	for i, j := range idx {
		nodes[i] = w.Members[j]
	}
	suf, err := isaac.NewSuffrage(nodes)
	if err != nil {
		panic(err)
	}
	e := sufEpoch{from: from, idx: append([]int{}, idx...), suf: suf}
	w.mu.Lock()
	defer w.mu.Unlock()
	for i := range w.epochs {
		if w.epochs[i].from == from {
			w.epochs[i] = e
			return
		}
	}
	w.epochs = append(w.epochs, e)
	sort.Slice(w.epochs, func(i, j int) bool { return w.epochs[i].from < w.epochs[j].from })
}

func (w *World) epochAt(h base.Height) *sufEpoch {
	var e *sufEpoch
	for i := range w.epochs {
		if w.epochs[i].from <= h {
			e = &w.epochs[i]
		}
	}
	return e
}

// IdxAt returns the indices (in Members) of the suffrage of height h.
func (w *World) IdxAt(h base.Height) []int {
	w.mu.Lock()
	defer w.mu.Unlock()
	if e := w.epochAt(h); e != nil {
		return append([]int{}, e.idx...)
	}
	v := make([]int, len(w.Members))
	for i := range v {
		v[i] = i
	}
	return v
}

func (w *World) MembersAt(h base.Height) []base.LocalNode {
	idx := w.IdxAt(h)
	out := make([]base.LocalNode, len(idx))
	for i, j := range idx {
		out[i] = w.Members[j]
	}
	return out
}

// SufAt is the true suffrage of height h.
func (w *World) SufAt(h base.Height) base.Suffrage {
	w.mu.Lock()
	defer w.mu.Unlock()
	if e := w.epochAt(h); e != nil {
		return e.suf
	}
	return w.Suf
}

// SuffrageChanges tells how many epochs the table has.
func (w *World) SuffrageChanges() int {
	w.mu.Lock()
	defer w.mu.Unlock()
	return len(w.epochs)
}

// GetSuffrage is the callback handed to the ballotbox.
func (w *World) GetSuffrage(h base.Height) (base.Suffrage, bool, error) {
	w.sufHits.Add(1)
	if d := w.Delay; d != nil {
		d("getSuffrage")
	}
	w.mu.Lock()
	hid := w.hidden[h]
	w.mu.Unlock()
	if hid {
		return nil, false, nil
	}
	return w.SufAt(h), true, nil
}

func (w *World) SuffrageCalls() int64 { return w.sufHits.Load() }

// TrueSuffrage is the ground truth (what GetSuffrage answers once revealed).
func (w *World) TrueSuffrage(h base.Height) base.Suffrage { return w.SufAt(h) }

func (w *World) Hide(h base.Height)   { w.mu.Lock(); w.hidden[h] = true; w.mu.Unlock() }
func (w *World) Reveal(h base.Height) { w.mu.Lock(); delete(w.hidden, h); w.mu.Unlock() }
func (w *World) IsHidden(h base.Height) bool {
	w.mu.Lock()
	defer w.mu.Unlock()
	return w.hidden[h]
}

func (w *World) MemberIndex(a base.Address) int {
	for i := range w.Members {
		if w.Members[i].Address().Equal(a) {
			return i
		}
	}
	return -1
}

// ---- block / proposal hashes

func Block(h base.Height, variant string) util.Hash { return H("block", h, variant) }
func Proposal(p base.Point, variant string) util.Hash {
	return H("proposal", p.Height(), p.Round(), variant)
}

// ---- expels

// ExpelSpec describes one set of expel operations attached to ballots of one
// height.
type ExpelSpec struct {
	ID      string // unique per world
	Targets []int  // member indices; -1 = outsider 0 (unknown target)
	Signers []int  // member indices that sign (the target never signs its own)
	Start   base.Height
	End     base.Height
	// OutsiderSigns adds a sign of outsider 1 (unknown node signed)
	OutsiderSigns bool
	// FactOf, when set, is the ID of the spec whose expel facts these
	// operations carry: the same facts (same fact hashes, what ballot facts
	// list) under another set of node signs. The fact hash is all that names an
	// expel in a ballot fact; who signed the operation is not covered by it.
	FactOf string
}

func (w *World) Expels(s *ExpelSpec) []base.SuffrageExpelOperation {
	if s == nil {
		return nil
	}
	w.cacheMu.Lock()
	if v, ok := w.exCache[s.ID]; ok {
		w.cacheMu.Unlock()
		return append([]base.SuffrageExpelOperation{}, v...)
	}
	w.cacheMu.Unlock()

	ops := make([]base.SuffrageExpelOperation, len(s.Targets))
	for i, t := range s.Targets {
		var addr base.Address
		if t < 0 {
			addr = w.Outsiders[0].Address()
		} else {
			addr = w.Members[t].Address()
		}
		factID := s.ID
		if s.FactOf != "" {
			factID = s.FactOf
		}
		fact := isaac.NewSuffrageExpelFact(addr, s.Start, s.End, "verif "+factID)
		op := isaac.NewSuffrageExpelOperation(fact)
		for _, j := range s.Signers {
			if j == t {
				continue
			}
			n := w.Members[j]
			if err := op.NodeSign(n.Privatekey(), w.NetworkID, n.Address()); err != nil {
				panic(err)
			}
		}
		if s.OutsiderSigns {
			n := w.Outsiders[1]
			if err := op.NodeSign(n.Privatekey(), w.NetworkID, n.Address()); err != nil {
				panic(err)
			}
		}
		ops[i] = op
	}
	// the order every constructor imposes (sorted by fact hash)
	sort.Slice(ops, func(i, j int) bool {
		return ops[i].Fact().Hash().String() < ops[j].Fact().Hash().String()
	})
	w.cacheMu.Lock()
	w.exCache[s.ID] = ops
	w.cacheMu.Unlock()
	return append([]base.SuffrageExpelOperation{}, ops...)
}

func ExpelFactHashes(ops []base.SuffrageExpelOperation) []util.Hash {
	if len(ops) < 1 {
		return nil
	}
	hs := make([]util.Hash, len(ops))
	for i := range ops {
		hs[i] = ops[i].Fact().Hash()
	}
	return hs
}

// ---- facts

func (w *World) INITFact(p base.Point, variant string, ex *ExpelSpec) isaac.INITBallotFact {
	return isaac.NewINITBallotFact(p, Block(p.Height()-1, "A"), Proposal(p, variant), ExpelFactHashes(w.Expels(ex)))
}

func (w *World) ACCEPTFact(p base.Point, variant string, ex *ExpelSpec) isaac.ACCEPTBallotFact {
	return isaac.NewACCEPTBallotFact(p, Proposal(p, variant), Block(p.Height(), variant), ExpelFactHashes(w.Expels(ex)))
}

func (w *World) SCFact(p base.Point, variant string, ex *ExpelSpec) isaac.SuffrageConfirmBallotFact {
	return isaac.NewSuffrageConfirmBallotFact(p, Block(p.Height()-1, "A"), Proposal(p, variant), ExpelFactHashes(w.Expels(ex)))
}

// EmptyINITFact is one shared "empty proposal" fact per point (honest nodes
// each make their own; colluding nodes may sign the same one).
func (w *World) EmptyINITFact(p base.Point) base.BallotFact {
	k := p.String()
	w.cacheMu.Lock()
	defer w.cacheMu.Unlock()
	if f, ok := w.emptyFs[k]; ok {
		return f
	}
	f := isaac.NewEmptyProposalINITBallotFact(p, Block(p.Height()-1, "A"), Proposal(p, "empty"))
	w.emptyFs[k] = f
	return f
}

// ---- sign facts (cached by signer key + fact hash + kind)

func nodeTag(n base.LocalNode) string {
	return n.Address().String() + "/" + n.Publickey().String()
}

func (w *World) SignINIT(n base.LocalNode, fact base.INITBallotFact) isaac.INITBallotSignFact {
	k := "i/" + nodeTag(n) + "/" + fmt.Sprintf("%T", fact) + "/" + fact.Hash().String()
	w.cacheMu.Lock()
	if v, ok := w.sfCache[k]; ok {
		w.cacheMu.Unlock()
		return v.(isaac.INITBallotSignFact)
	}
	w.cacheMu.Unlock()
	sf := isaac.NewINITBallotSignFact(fact)
	if err := sf.NodeSign(n.Privatekey(), w.NetworkID, n.Address()); err != nil {
		panic(err)
	}
	w.cacheMu.Lock()
	w.sfCache[k] = sf
	w.cacheMu.Unlock()
	return sf
}

func (w *World) SignACCEPT(n base.LocalNode, fact base.ACCEPTBallotFact) isaac.ACCEPTBallotSignFact {
	k := "a/" + nodeTag(n) + "/" + fact.Hash().String()
	w.cacheMu.Lock()
	if v, ok := w.sfCache[k]; ok {
		w.cacheMu.Unlock()
		return v.(isaac.ACCEPTBallotSignFact)
	}
	w.cacheMu.Unlock()
	sf := isaac.NewACCEPTBallotSignFact(fact)
	if err := sf.NodeSign(n.Privatekey(), w.NetworkID, n.Address()); err != nil {
		panic(err)
	}
	w.cacheMu.Lock()
	w.sfCache[k] = sf
	w.cacheMu.Unlock()
	return sf
}

// ---- voteproofs to embed in ballots

// VPSpec describes an embedded voteproof.
type VPSpec struct {
	Stage     base.Stage
	Point     base.Point
	Variant   string     // majority fact variant; "" = draw (votes split A/B/C...)
	Ex        *ExpelSpec // expel voteproof when non-nil (INIT only)
	Signers   []base.LocalNode
	Threshold base.Threshold
	Tag       string // cache discriminator / description of the hostility
	// ID, when set, replaces the voteproof's own fresh ID: voteproof IDs are
	// free strings chosen by whoever builds the voteproof, nothing ties them to
	// the content (HashBytes does not cover them), so an attacker can replay the
	// ID of any voteproof it has seen.
	ID string
}

func (s VPSpec) key() string {
	ex := ""
	if s.Ex != nil {
		ex = s.Ex.ID
	}
	k := fmt.Sprintf("%s/%s/%s/%s/%s/%s/id=%s/", s.Stage, s.Point, s.Variant, ex, s.Threshold, s.Tag, s.ID)
	for _, n := range s.Signers {
		k += nodeTag(n) + ","
	}
	return k
}

// Voteproof builds (once) the voteproof of the spec with the repository's
// constructors.
func (w *World) Voteproof(s VPSpec) base.Voteproof {
	k := s.key()
	w.cacheMu.Lock()
	if v, ok := w.vpCache[k]; ok {
		w.cacheMu.Unlock()
		return v
	}
	w.cacheMu.Unlock()

	expels := w.Expels(s.Ex)
	var vp base.Voteproof
	switch s.Stage {
	case base.StageINIT:
		var maj base.BallotFact
		sfs := make([]base.BallotSignFact, len(s.Signers))
		for i, n := range s.Signers {
			v := s.Variant
			if v == "" { // draw: everyone votes something else
				v = fmt.Sprintf("draw%d", i)
			}
			f := w.INITFact(s.Point, v, s.Ex)
			if s.Variant != "" {
				maj = f
			}
			sfs[i] = w.SignINIT(n, f)
		}
		if s.Ex != nil {
			i := isaac.NewINITExpelVoteproof(s.Point)
			i.SetSignFacts(sfs).SetThreshold(s.Threshold)
			if maj != nil {
				i.SetMajority(maj)
			}
			i.SetExpels(expels)
			i.Finish()
			if s.ID != "" {
				i.SetID(s.ID)
			}
			vp = i
		} else {
			i := isaac.NewINITVoteproof(s.Point)
			i.SetSignFacts(sfs).SetThreshold(s.Threshold)
			if maj != nil {
				i.SetMajority(maj)
			}
			i.Finish()
			if s.ID != "" {
				i.SetID(s.ID)
			}
			vp = i
		}
	case base.StageACCEPT:
		var maj base.BallotFact
		sfs := make([]base.BallotSignFact, len(s.Signers))
		for i, n := range s.Signers {
			v := s.Variant
			if v == "" {
				v = fmt.Sprintf("draw%d", i)
			}
			f := w.ACCEPTFact(s.Point, v, nil)
			if s.Variant != "" {
				maj = f
			}
			sfs[i] = w.SignACCEPT(n, f)
		}
		a := isaac.NewACCEPTVoteproof(s.Point)
		a.SetSignFacts(sfs).SetThreshold(s.Threshold)
		if maj != nil {
			a.SetMajority(maj)
		}
		a.Finish()
		if s.ID != "" {
			a.SetID(s.ID)
		}
		vp = a
	default:
		panic("unknown stage")
	}
	w.cacheMu.Lock()
	if v, ok := w.vpCache[k]; ok {
		vp = v
	} else {
		w.vpCache[k] = vp
	}
	w.cacheMu.Unlock()
	return vp
}

// MembersExceptAt returns the suffrage members of height h without the expel
// targets of ex.
func (w *World) MembersExceptAt(h base.Height, ex *ExpelSpec) []base.LocalNode {
	var out []base.LocalNode
	for _, i := range w.IdxAt(h) {
		n := w.Members[i]
		skip := false
		if ex != nil {
			for _, t := range ex.Targets {
				if t == i {
					skip = true
				}
			}
		}
		if !skip {
			out = append(out, n)
		}
	}
	return out
}
