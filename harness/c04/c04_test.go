package c04

import (
	"fmt"
	"hash/fnv"
	"runtime"
	"sync"
	"sync/atomic"
	"testing"
	"time"

	"github.com/spikeekips/mitum/base"
	"github.com/spikeekips/mitum/isaac"
	"verifharness/c04/bbrig"
	"verifharness/vlib"
)

type caseParams struct {
	Phase      string
	Index      int
	N          int
	Threshold  string
	LocalIn    bool
	Heights    int
	Goroutines int `json:",omitempty"`
	Steps      int
}

type vpSummary struct {
	ID        string
	Point     string
	Type      string
	Result    string
	Threshold string
	Majority  string   `json:",omitempty"`
	SignFacts []string // node=fact-hash-prefix
	Expels    []string `json:",omitempty"`
	Via       string
}

func summarize(e bbrig.Emission) vpSummary {
	vp := e.VP
	s := vpSummary{
		ID: vp.ID(), Point: vp.Point().String(), Type: fmt.Sprintf("%T", vp), Result: vp.Result().String(),
		Threshold: vp.Threshold().String(), Via: e.Via,
	}
	if m := vp.Majority(); m != nil {
		s.Majority = fmt.Sprintf("%T:%s", m, short(m.Hash().String()))
	}
	for _, sf := range vp.SignFacts() {
		s.SignFacts = append(s.SignFacts, sf.Node().String()+"="+short(sf.Fact().Hash().String()))
	}
	if w, ok := vp.(base.HasExpels); ok {
		for _, op := range w.Expels() {
			s.Expels = append(s.Expels, fmt.Sprintf("%s(signs=%d)", op.ExpelFact().Node(), len(op.NodeSigns())))
		}
	}
	return s
}

func short(s string) string {
	if len(s) > 10 {
		return s[:10]
	}
	return s
}

func scriptHash(steps []bbrig.Step) string {
	h := fnv.New64a()
	for i := range steps {
		_, _ = h.Write([]byte(steps[i].Desc))
		_, _ = h.Write([]byte{0})
	}
	return fmt.Sprintf("%016x", h.Sum64())
}

var thresholds = []base.Threshold{51, 60, 66.7, 67, 67, 67, 75, 80, 100}

type monitor struct {
	r *vlib.Run
}

// caseWatchdog bounds one case. A case is CPU-bound (signatures, the
// repository's JSON logging under -race) and never blocks on anything but the
// scheduler: the voteproof channel holds 65535 entries and is drained after
// every step, every step is a plain call. On a machine shared with dozens of
// other checks a case that takes 20 s alone was seen to take more than 5
// minutes (all goroutines runnable in the dump), so the bound is far above
// that; the driver's own timeout (2700 s quick, 14400 s thorough) ends a run
// that really hangs.
const caseWatchdog = 45 * time.Minute

// handle evaluates one emission and records it.
func (m *monitor) handle(d *bbrig.Driver, e bbrig.Emission, cp caseParams, trail func() []string) {
	r := m.r
	info := bbrig.CheckEmission(d, e)
	r.Count("emitted_total", 1)
	r.Count("emitted:"+info.Kind, 1)
	if e.Via == "channel" {
		r.Count("emitted_via_channel", 1)
	} else {
		r.Count("returned_by_StuckVoteproof", 1)
	}
	if info.Origin == "embedded" {
		r.Count("emitted_embedded_total", 1)
		if info.IDShared {
			r.Count("emitted_embedded_whose_id_was_also_submitted_with_other_content", 1)
		}
	}
	for _, f := range info.Findings {
		r.Violation(f.Sig, f.What, map[string]any{"case": cp, "voteproof": summarize(e), "last_steps": trail()})
	}
}

func (m *monitor) buildCase(phase int, idx int, n int, concurrent bool) (*bbrig.World, []bbrig.Step, caseParams, *bbrig.Gen) {
	r := m.r
	rng := r.Rand(phase, idx)
	if n == 0 {
		// 1..9; the larger suffrages are where expel thresholds differ
		n = 1 + rng.Intn(9)
		if rng.Intn(3) == 0 {
			n = 5 + rng.Intn(5)
		}
	}
	th := thresholds[rng.Intn(len(thresholds))]
	localIn := rng.Intn(4) > 0
	w := bbrig.NewWorld(fmt.Sprintf("c04-%d-%d-%d", r.Seed, phase, idx), n, th, localIn, 33)
	o := bbrig.ScriptOpts{
		Heights:   2 + rng.Intn(r.N(2, 3)),
		Noise:     0.25,
		Hostile:   0.12,
		ExpelProb: 0.45,
		DrawProb:  0.25,
		Deferred:  0.3,
		Stuck:     true,
		SetLast:   rng.Intn(3) == 0,
		Empty:     rng.Intn(4) == 0,
	}
	if rng.Intn(5) < 3 {
		// the suffrage changes between heights (joins, leaves) and the local
		// node may not know an older height's suffrage
		o.SufChange = 0.4
		o.PermHide = 0.35
	}
	// identifiers an attacker controls are replayed with other content: half of
	// the hostile embedded voteproofs carry the ID of an honest voteproof of the
	// same script (submitted earlier, for the same stage point, or later)
	o.Replay = 0.5
	if rng.Intn(3) > 0 {
		// the box misses whole stages and learns their result from the voteproofs
		// the next stage's ballots carry: those embedded voteproofs are validated,
		// emitted and move the last point
		o.Skip = 0.2
	}
	g := bbrig.NewGen(w, rng, o)
	steps := g.Flow()
	for k, v := range g.Replays {
		r.Count("script_replayed:"+k, v)
	}
	r.Count("script_stages_missed_by_box", g.Skipped)
	if w.SuffrageChanges() > 1 {
		r.Count("cases_with_suffrage_changing_between_heights", 1)
	}
	cp := caseParams{Index: idx, N: n, Threshold: th.String(), LocalIn: localIn, Heights: o.Heights, Steps: len(steps)}
	cp.Phase = "single"
	if concurrent {
		cp.Phase = "concurrent"
	}
	return w, steps, cp, g
}

func (m *monitor) runSingle(w *bbrig.World, steps []bbrig.Step, cp caseParams) int {
	r := m.r
	d := bbrig.NewDriver(w, bbrig.DriverOpts{Interval: time.Millisecond, CountAfter: time.Millisecond, Start: true})
	defer d.Close()
	var emitted int
	cur := 0
	trail := func() []string {
		lo := cur - 40
		if lo < 0 {
			lo = 0
		}
		var out []string
		for i := lo; i <= cur && i < len(steps); i++ {
			out = append(out, steps[i].Desc)
		}
		return out
	}
	ok := r.WithWatchdog(caseWatchdog, fmt.Sprintf("single case %s %d", cp.Phase, cp.Index), func() {
		for i := range steps {
			cur = i
			st := &steps[i]
			var res bbrig.StepResult
			r.Guard("ballotbox:"+st.Op, map[string]any{"case": cp, "step": st.Desc}, func() {
				res = d.Do(0, st)
			})
			if res.Err != nil {
				r.Count("step_errors:"+st.Op, 1)
			}
			if res.Stuck != nil {
				emitted++
				m.handle(d, bbrig.Emission{VP: res.Stuck, Via: "stuck"}, cp, trail)
			}
			for _, e := range d.Drain() {
				emitted++
				m.handle(d, e, cp, trail)
			}
		}
		d.DrainQuiet(3, 2*time.Millisecond, func(e bbrig.Emission) {
			emitted++
			m.handle(d, e, cp, trail)
		})
	})
	if !ok {
		return emitted
	}
	for k, v := range d.Ops() {
		r.Count("ops:"+k, v)
	}
	r.Count("getSuffrage_calls", int(w.SuffrageCalls()))
	return emitted
}

func (m *monitor) runConcurrent(w *bbrig.World, steps []bbrig.Step, cp caseParams, goroutines int) int {
	r := m.r
	var ctr atomic.Int64
	w.Delay = func(string) {
		switch c := ctr.Add(1); {
		case c%3 == 0:
			runtime.Gosched()
		case c%11 == 0:
			time.Sleep(time.Microsecond * 20)
		}
	}
	d := bbrig.NewDriver(w, bbrig.DriverOpts{Interval: time.Millisecond, CountAfter: time.Millisecond, Start: true})
	defer d.Close()

	var emitted atomic.Int64
	var mu sync.Mutex
	var recent []string
	trail := func() []string {
		mu.Lock()
		defer mu.Unlock()
		return append([]string{}, recent...)
	}
	note := func(s string) {
		mu.Lock()
		recent = append(recent, s)
		if len(recent) > 60 {
			recent = recent[len(recent)-60:]
		}
		mu.Unlock()
	}

	ok := r.WithWatchdog(caseWatchdog, fmt.Sprintf("concurrent case %d", cp.Index), func() {
		stop := make(chan struct{})
		var cwg sync.WaitGroup
		cwg.Add(1)
		go func() { // collector
			defer cwg.Done()
			for {
				select {
				case vp := <-d.Box.Voteproof():
					emitted.Add(1)
					m.handle(d, bbrig.Emission{VP: vp, Via: "channel"}, cp, trail)
				case <-stop:
					return
				}
			}
		}()
		var wg sync.WaitGroup
		for g := 0; g < goroutines; g++ {
			wg.Add(1)
			go func(g int) {
				defer wg.Done()
				for i := g; i < len(steps); i += goroutines {
					st := &steps[i]
					note(fmt.Sprintf("g%d: %s", g, st.Desc))
					var res bbrig.StepResult
					r.Guard("ballotbox:"+st.Op, map[string]any{"case": cp, "step": st.Desc}, func() {
						res = d.Do(g, st)
					})
					if res.Stuck != nil {
						emitted.Add(1)
						m.handle(d, bbrig.Emission{VP: res.Stuck, Via: "stuck"}, cp, trail)
					}
					if i%5 == 0 {
						runtime.Gosched()
					}
				}
			}(g)
		}
		wg.Wait()
		close(stop)
		cwg.Wait()
		d.DrainQuiet(3, 2*time.Millisecond, func(e bbrig.Emission) {
			emitted.Add(1)
			m.handle(d, e, cp, trail)
		})
	})
	if !ok {
		return int(emitted.Load())
	}
	for k, v := range d.Ops() {
		r.Count("ops:"+k, v)
	}
	r.Count("getSuffrage_calls", int(w.SuffrageCalls()))
	r.SetAdd("interleavings_seen", d.OrderFingerprint())
	return int(emitted.Load())
}

// directed builds, deterministically, the inputs of the defects this monitor
// established (so that a recorded finding is re-observed on every run, and a
// repaired one is seen to stay repaired).
func (m *monitor) directed() {
	r := m.r
	h := base.Height(34)
	p := base.NewPoint(h, 0)
	sp := base.NewStagePoint(p, base.StageINIT)
	type dcase struct {
		name  string
		n     int
		th    base.Threshold
		build func(w *bbrig.World, g *bbrig.Gen) []bbrig.Step
		setup func(w *bbrig.World)
	}
	all := func(n int) []int {
		v := make([]int, n)
		for i := range v {
			v[i] = i
		}
		return v
	}
	cases := []dcase{
		{ // DESIGN C04 expectation: count keeps the full quorum when 0 < k <= n-q
			name: "expel-k1-n7-five-agree", n: 7, th: 67,
			build: func(w *bbrig.World, g *bbrig.Gen) []bbrig.Step {
				ex := &bbrig.ExpelSpec{ID: "d-ex", Targets: []int{6}, Signers: all(6), Start: h - 1, End: h}
				var steps []bbrig.Step
				for i := 0; i < 5; i++ {
					steps = append(steps, g.DirectedINIT(i, p, "A", ex))
				}
				return steps
			},
		},
		{
			name: "expel-k1-n7-five-agree-one-dissents", n: 7, th: 67,
			build: func(w *bbrig.World, g *bbrig.Gen) []bbrig.Step {
				ex := &bbrig.ExpelSpec{ID: "d-ex", Targets: []int{6}, Signers: all(6), Start: h - 1, End: h}
				steps := []bbrig.Step{g.DirectedINIT(5, p, "B", nil)}
				for i := 0; i < 5; i++ {
					steps = append(steps, g.DirectedINIT(i, p, "A", ex))
				}
				return steps
			},
		},
		{ // expels with too few node signs are counted
			name: "expel-undersigned-n4", n: 4, th: 67,
			build: func(w *bbrig.World, g *bbrig.Gen) []bbrig.Step {
				ex := &bbrig.ExpelSpec{ID: "d-under", Targets: []int{3}, Signers: []int{0}, Start: h - 1, End: h}
				var steps []bbrig.Step
				for i := 0; i < 3; i++ {
					steps = append(steps, g.DirectedINIT(i, p, "A", ex))
				}
				return steps
			},
		},
		{ // the expels of one ballot are attached to the majority of other ballots
			name: "expel-sets-mixed-n7", n: 7, th: 67,
			build: func(w *bbrig.World, g *bbrig.Gen) []bbrig.Step {
				ex1 := &bbrig.ExpelSpec{ID: "d-ex1", Targets: []int{6}, Signers: all(6), Start: h - 1, End: h}
				ex2 := &bbrig.ExpelSpec{ID: "d-ex2", Targets: []int{5, 6}, Signers: all(5), Start: h - 1, End: h}
				steps := []bbrig.Step{g.DirectedINIT(5, p, "B", ex2)}
				for i := 0; i < 5; i++ {
					steps = append(steps, g.DirectedINIT(i, p, "A", ex1))
				}
				return steps
			},
		},
		{ // stuck voteproof before every node that is not expelled has voted
			name: "stuck-partial-n5", n: 5, th: 67,
			build: func(w *bbrig.World, g *bbrig.Gen) []bbrig.Step {
				var steps []bbrig.Step
				for i := 0; i < 3; i++ {
					steps = append(steps, g.DirectedINIT(i, p, "A", nil))
				}
				ex := &bbrig.ExpelSpec{ID: "d-stuck", Targets: []int{4}, Signers: all(4), Start: h, End: h}
				steps = append(steps,
					bbrig.Step{Op: "count", Desc: "count"},
					bbrig.Step{Op: "stuck", SP: sp, Expels: w.Expels(ex), Desc: "stuck " + sp.String() + " expels for no04 (4 signs); no03 neither voted nor expelled"})
				return steps
			},
		},
		{ // a member's address with another key (direct path)
			name: "foreign-key-n4", n: 4, th: 67,
			build: func(w *bbrig.World, g *bbrig.Gen) []bbrig.Step {
				steps := []bbrig.Step{g.DirectedINITBy(w.Imposters[3], p, "A", nil)}
				for i := 0; i < 2; i++ {
					steps = append(steps, g.DirectedINIT(i, p, "A", nil))
				}
				return steps
			},
		},
	}
	cases = append(cases, dcase{
		// an embedded voteproof must be judged with the suffrage of its own
		// height: no03 joins at height 33; the local node does not know the
		// suffrage of height 32; no03's INIT ballot of (34,0) carries an ACCEPT
		// voteproof of height 33 signed by the suffrage of height 33 (with no03)
		name: "embedded-voteproof-signed-by-later-suffrage-n4", n: 4, th: 67,
		setup: func(w *bbrig.World) {
			w.SetSuffrageFrom(0, []int{0, 1, 2})
			w.SetSuffrageFrom(33, []int{0, 1, 2, 3})
		},
		build: func(w *bbrig.World, g *bbrig.Gen) []bbrig.Step {
			lp, _ := isaac.NewLastPoint(base.NewStagePoint(base.NewPoint(33, 0), base.StageINIT), true, false)
			return []bbrig.Step{
				{Op: "setlast", Last: lp, Desc: "setlast (33,0,INIT) majority"},
				{Op: "hide", Height: 32, Desc: "hide suffrage of height 32 (never revealed)"},
				g.DirectedINITVP(w.Members[3], p, "A", "nextsuf"),
			}
		},
	})
	cases = append(cases, dcase{
		// a majority of one shared "empty proposal" fact is recorded as a draw
		name: "empty-proposal-majority-n1", n: 1, th: 67,
		build: func(w *bbrig.World, g *bbrig.Gen) []bbrig.Step {
			return []bbrig.Step{g.DirectedINIT(0, p, "empty", nil)}
		},
	})
	cases = append(cases, dcase{
		// held while the suffrage is unknown, to be thrown away when it is known:
		// a bare sign fact with no03's address and another key
		name: "held-foreign-key-signfact-n4", n: 4, th: 67,
		build: func(w *bbrig.World, g *bbrig.Gen) []bbrig.Step {
			return []bbrig.Step{
				{Op: "hide", Height: 33, Desc: "hide suffrage of height 33"},
				g.DirectedSignFactBy(w.Imposters[3], p, "A"),
				g.DirectedSignFactBy(w.Members[0], p, "A"),
				g.DirectedINIT(1, p, "A", nil),
				{Op: "reveal", Height: 33, Desc: "reveal suffrage of height 33"},
			}
		},
	})
	// An expel is named in a ballot fact by its fact hash only: the same expel
	// facts arrive under other node signs (a sign of a node outside the suffrage)
	// on another ballot of a node - its second ballot after it has voted, or the
	// very same sign fact before the properly signed one
	for _, order := range []string{"second", "first"} {
		order := order
		cases = append(cases, dcase{
			name: "same-expel-facts-other-signs/" + order + "-ballot-outsider-signed-n4", n: 4, th: 67,
			build: func(w *bbrig.World, g *bbrig.Gen) []bbrig.Step {
				ex := &bbrig.ExpelSpec{ID: "d-tw", Targets: []int{3}, Signers: all(3), Start: h - 1, End: h}
				tw := &bbrig.ExpelSpec{ID: "d-tw-outsider", FactOf: "d-tw", Targets: []int{3}, Signers: all(3), Start: h - 1, End: h, OutsiderSigns: true}
				var steps []bbrig.Step
				for i := 0; i < 3; i++ {
					if order == "second" {
						steps = append(steps, g.DirectedINIT(i, p, "A", ex), g.DirectedBallot("init", w.Members[i], p, "C", tw, ""))
					} else {
						steps = append(steps, g.DirectedBallot("init", w.Members[i], p, "A", tw, ""), g.DirectedINIT(i, p, "A", ex))
					}
				}
				return steps
			},
		})
	}
	// Voteproof IDs are free strings: a hostile embedded voteproof (invalid for
	// the true suffrage) that carries the ID of an honest one, submitted by a
	// genuine member after / before the honest one was processed, for the same
	// stage point and for stage points ahead (next stage, next round, next height)
	type ahead struct {
		tag   string
		stage string
		p     base.Point
	}
	type size struct {
		n  int
		th base.Threshold
	}
	sizes := []size{{4, 67}}
	if r.Thorough() {
		sizes = []size{{4, 67}, {7, 75}, {2, 100}}
	}
	for _, ah := range []ahead{
		{"same-stage-point", "init", p},
		{"next-stage", "accept", p},
		{"next-round", "init", p.NextRound()},
		{"next-height", "init", base.NewPoint(h+1, 0)},
	} {
		for _, order := range []string{"after", "before"} {
			for _, kind := range []string{"alloutsiders", "few", "outsider", "imposter"} {
				if (kind == "imposter" && ah.stage == "accept") || (order == "before" && (kind == "outsider" || kind == "imposter")) {
					continue
				}
				for _, nt := range sizes {
					ah, order, kind := ah, order, kind
					cases = append(cases, dcase{
						name: fmt.Sprintf("id-replay/%s/%s/%s-n%d", order, ah.tag, kind, nt.n), n: nt.n, th: nt.th,
						build: func(w *bbrig.World, g *bbrig.Gen) []bbrig.Step {
							lp, _ := isaac.NewLastPoint(base.NewStagePoint(base.NewPoint(h-1, 0), base.StageINIT), true, false)
							// no00's INIT ballot of (34,0) carries the honest ACCEPT voteproof X of (33,0)
							honest := g.DirectedBallot("init", w.Members[0], p, "A", nil, "")
							// no01's ballot carries a voteproof with X's ID and other content
							hostile := g.DirectedBallot(ah.stage, w.Members[1], ah.p, "A", nil, kind+"@seen")
							count := bbrig.Step{Op: "count", Desc: "count"}
							steps := []bbrig.Step{{Op: "setlast", Last: lp, Desc: "setlast (33,0,INIT) majority"}}
							if order == "after" {
								return append(steps, honest, count, hostile)
							}
							return append(steps, hostile, count, honest)
						},
					})
				}
			}
		}
	}
	for i, dc := range cases {
		w := bbrig.NewWorld("c04-directed-"+dc.name, dc.n, dc.th, true, 33)
		if dc.setup != nil {
			dc.setup(w)
		}
		g := bbrig.NewGen(w, r.Rand(9, i), bbrig.ScriptOpts{})
		steps := dc.build(w, g)
		for k, v := range g.Replays {
			r.Count("script_replayed:"+k, v)
		}
		steps = append(steps, bbrig.Step{Op: "count", Desc: "count"})
		cp := caseParams{Phase: "directed:" + dc.name, Index: i, N: dc.n, Threshold: dc.th.String(), LocalIn: true, Heights: 1, Steps: len(steps)}
		if len(g.Invalid) > 0 {
			r.Inconclusive("directed case " + dc.name + ": rig built an invalid ballot: " + g.Invalid[0])
			continue
		}
		em := m.runSingle(w, steps, cp)
		r.Case("directed/" + dc.name)
		r.Count("directed_emissions", em)
		if i == 0 || i == 3 || dc.name == "id-replay/after/next-height/alloutsiders-n4" {
			r.Sample(map[string]any{"case": cp, "script": descs(steps), "emitted": em})
		}
	}
}

func descs(steps []bbrig.Step) []string {
	out := make([]string, 0, len(steps))
	for i := range steps {
		if len(out) >= 12 {
			out = append(out, fmt.Sprintf("... %d more", len(steps)-i))
			break
		}
		out = append(out, steps[i].Desc)
	}
	return out
}

func TestC04(t *testing.T) {
	r := vlib.Start(t, "C04", vlib.LevelExploration)
	defer r.Finish()
	r.SetRule("case = (suffrage size 1..9, threshold, local in/out of suffrage, generated script of Vote/VoteSignFact/Count/SetLastPoint/StuckVoteproof/suffrage hide+reveal steps over 2-4 heights (2-3 in the quick tier: every Vote costs ~0.1s CPU under -race) with INIT, ACCEPT, suffrage-confirm, expel, hostile-expel, hostile embedded voteproofs (too few signs, outsiders only or among the signers, foreign key, other height, another height's suffrage, low threshold), outsiders, foreign keys, conflicting ballots; identifiers the builder of a voteproof chooses freely are replayed across the steps of a case: half of the hostile embedded voteproofs carry the ID of an honest voteproof of the same script with other content - one carried by an earlier step ('@seen': any stage point, usually validated and emitted by then), the one for the same stage point ('@same': before, among and after its ballots), the one only the next stage will carry ('@later') - on the regular ballots of a stage and on ballots of genuine members for stage points ahead (next stage, next round, next height: 'ahead'); likewise expel facts are replayed under other node signs (an outsider's sign added, one sign only): in a third of the expel stages every voter's ballot has a twin listing the same expel facts with re-signed operations, as the node's second ballot or as the same sign fact arriving first, and half of the conflicting second ballots of expel stages carry re-signed operations; in two thirds of the cases the box misses a stage with probability 0.2 and learns it from the embedded voteproofs of the next one; a directed matrix repeats the ID replay for {after, before the honest voteproof was processed} x {same stage point, next stage, next round, next height} x {kind of invalid content}) run against a real Ballotbox (interval and countAfter 1ms, ticker on); every voteproof read from box.Voteproof() or returned by StuckVoteproof is judged by its content (embedded voteproofs the box hands on included: membership, the real validators against the true suffrage of the voteproof's own height, exact recount), never by its ID; distinct = (n, threshold, local, script hash, phase); non-trivial = the box emitted at least one voteproof in the case")
	r.Assume("only ballots and sign facts that pass IsValid(networkID) are submitted (the network handlers guarantee that before Vote)")
	r.Assume("the suffrage of a height never changes once getSuffrage reports it (heights may be 'not found' for a while or for ever); suffrages of consecutive heights may differ (joins, leaves); every emitted voteproof is judged with the true suffrage of its own height from the world table, not with what the box was told")
	r.Assume("stuck voteproofs are draws by construction (isaac baseStuckVoteproof.finish clears the majority and validation skips their recount); clause (d) asks of them only Result()==DRAW")
	r.Assume("recount uses the voteproof's own threshold to one decimal, the suffrage of height-1, and for voteproofs with expels the reduced suffrage at 100% as isaac.IsValidVoteproofWithSuffrage defines it")

	m := &monitor{r: r}

	m.directed()

	// phase 1: single-threaded scripts (cases independent, run on 12 workers)
	n1 := r.N(30, 150)
	var sampleMu sync.Mutex
	sampled := 0
	vlib.Parallel(n1, 12, func(i int) {
		w, steps, cp, g := m.buildCase(1, i, 0, false)
		r.Count("rig_invalid_ballots_dropped", len(g.Invalid))
		if len(g.Invalid) > 0 {
			r.Set("rig_invalid_example", g.Invalid[0])
		}
		em := m.runSingle(w, steps, cp)
		fp := fmt.Sprintf("single/%d/%s/%v/%s", cp.N, cp.Threshold, cp.LocalIn, scriptHash(steps))
		if em > 0 {
			r.Case(fp)
		} else {
			r.Eval(1)
		}
		r.Count("cases_single", 1)
		sampleMu.Lock()
		if sampled < 2 && em > 0 {
			sampled++
			r.Sample(map[string]any{"case": cp, "script_head": descs(steps), "emitted": em})
		}
		sampleMu.Unlock()
	})

	// phase 2: the same kind of scripts sharded over 2..16 concurrent voters
	n2 := r.N(20, 100)
	sampled = 0
	vlib.Parallel(n2, 6, func(i int) {
		w, steps, cp, g := m.buildCase(2, i, 0, true)
		r.Count("rig_invalid_ballots_dropped", len(g.Invalid))
		gor := 2 + r.Rand(3, i).Intn(15)
		cp.Goroutines = gor
		em := m.runConcurrent(w, steps, cp, gor)
		fp := fmt.Sprintf("concurrent/%d/%s/%v/%d/%s", cp.N, cp.Threshold, cp.LocalIn, gor, scriptHash(steps))
		if em > 0 {
			r.Case(fp)
		} else {
			r.Eval(1)
		}
		r.Count("cases_concurrent", 1)
		sampleMu.Lock()
		if sampled < 2 && em > 0 {
			sampled++
			r.Sample(map[string]any{"case": cp, "script_head": descs(steps), "emitted": em})
		}
		sampleMu.Unlock()
	})

	if r.Counter("emitted_total") == 0 {
		r.Inconclusive("the ballotbox emitted no voteproof at all")
	}
	if r.Counter("ops:embedded_voteproof_with_id_of_already_emitted_voteproof:other_stage_point") == 0 ||
		r.Counter("ops:embedded_voteproof_with_id_of_already_emitted_voteproof:same_stage_point") == 0 ||
		r.Counter("ops:embedded_voteproof_with_shared_id_before_any_emission_of_that_id") == 0 {
		r.Inconclusive("no voteproof ID was replayed with other content after and before the box emitted the voteproof it belongs to")
	}
}
