package c05

import (
	"fmt"
	"hash/fnv"
	"reflect"
	"runtime"
	"sort"
	"strings"
	"sync"
	"sync/atomic"
	"syscall"
	"testing"
	"time"

	"github.com/spikeekips/mitum/base"
	"github.com/spikeekips/mitum/isaac"
	isaacstates "github.com/spikeekips/mitum/isaac/states"
	"verifharness/c04/bbrig"
	"verifharness/vlib"
)

type caseParams struct {
	Phase      string
	Index      int
	N          int
	Threshold  string
	LocalIn    bool
	Heights    int
	Goroutines int `json:",omitempty"`
	Steps      int
}

type putEvent struct {
	Ptr  string
	SP   string
	IsSC bool
}

// caseMon watches one ballotbox.
type caseMon struct {
	r     *vlib.Run
	d     *bbrig.Driver
	cp    caseParams
	steps []bbrig.Step
	cur   atomic.Int64

	mu       sync.Mutex
	known    map[uintptr]string // record identity -> last key it was seen live under
	puts     []putEvent
	aborted  atomic.Bool
	g0       atomic.Int64 // goroutines alive before the current step started (box idle)
	timeouts int

	emissions []bbrig.Emission // not yet judged (concurrent phase)
	scSeen    map[string]bool  // sf- keys ever seen live

	// released at least once: records that left the map wait for their release
	cleanups int // cleanup cycles seen so far (single-threaded phase)
	live     map[uintptr]bool
	vanished map[uintptr]int // record -> cleanups at the time it was seen to have left the map
	putCount map[uintptr]int // record -> pool puts since it was last seen live

	// per stage point (key): releases since a record for it could last be
	// created legitimately; keys whose record was seen to leave the map
	exact       atomic.Bool
	keyReleases map[string]int // key -> records of that stage point handed to the pool
	keyOpens    map[string]int // key -> times a record for it came to life (or could have) through a ballot the gate admits
	prevKeys    map[string]bool
	releasedKey map[string]base.StagePoint // non suffrage-confirm keys only
	liveKeySP   map[string]base.StagePoint

	// objects the box handed out (handout_test.go)
	reissuedTo map[string]string // key whose record object was later seen live under another key -> that key (under mu)
	hmu        sync.Mutex
	handouts   []*handout
	hseen      map[string]bool
	tValid     time.Duration
	tPrint     time.Duration
}

func (m *caseMon) trail() []string {
	cur := int(m.cur.Load())
	lo := cur - 30
	if lo < 0 {
		lo = 0
	}
	var out []string
	for i := lo; i <= cur && i < len(m.steps); i++ {
		out = append(out, m.steps[i].Desc)
	}
	return out
}

func (m *caseMon) violation(sig, what string, extra map[string]any) {
	w := map[string]any{"case": m.cp, "last_steps": m.trail()}
	m.mu.Lock()
	n := len(m.puts)
	lo := n - 12
	if lo < 0 {
		lo = 0
	}
	w["recent_pool_puts"] = append([]putEvent{}, m.puts[lo:]...)
	m.mu.Unlock()
	for k, v := range extra {
		w[k] = v
	}
	m.r.Violation(sig, what, w)
	if strings.HasPrefix(sig, "release:") || strings.HasPrefix(sig, "structure:") || strings.HasPrefix(sig, "cleanup:") || strings.HasPrefix(sig, "released:") {
		// the record pool is process-global: a record released while live (or
		// twice) ends up in later boxes too; nothing after this is a fair
		// observation of the property any more
		poisoned.Store(true)
	}
	// a record that is released while reachable makes the real code
	// dereference reset records in its own goroutines later (process crash);
	// stop driving this box once the property is refuted for it
	m.aborted.Store(true)
}

func recView(rs []isaacstates.VerifRecord) []string {
	out := make([]string, len(rs))
	for i, r := range rs {
		out[i] = fmt.Sprintf("key=%q ptr=%x sp=%s sc=%v finished=%v voted=%d", r.Key, r.Ptr, r.StagePoint, r.IsSuffrageConfirm, r.Finished, len(r.Voted))
	}
	return out
}

// recContent lists the per-node content of a record; Expels and VPs are read
// by name so that the monitor also builds against a hook without them.
func recContent(rec isaacstates.VerifRecord) map[string][]string {
	out := map[string][]string{"voted": rec.Voted, "ballots": rec.Ballots}
	v := reflect.ValueOf(rec)
	for name, what := range map[string]string{"Expels": "expels", "VPs": "voteproofs"} {
		if f := v.FieldByName(name); f.IsValid() && f.Kind() == reflect.Slice {
			for i := 0; i < f.Len(); i++ {
				out[what] = append(out[what], f.Index(i).String())
			}
		}
	}
	return out
}

func keyClass(key string) string {
	if strings.HasPrefix(key, "sf-") {
		return "suffrage-confirm-record"
	}
	return "plain-record"
}

// onPut runs inside Ballotbox.clean() (the hook wraps voterecordsPoolPut),
// before the record is reset and handed to the pool.
func (m *caseMon) onPut(ptr uintptr, sp base.StagePoint, isSC bool) {
	r := m.r
	r.Count("pool_puts_observed", 1)
	m.mu.Lock()
	m.puts = append(m.puts, putEvent{Ptr: fmt.Sprintf("%x", ptr), SP: sp.String(), IsSC: isSC})
	_, known := m.known[ptr]
	m.putCount[ptr]++
	delete(m.vanished, ptr)
	if !sp.IsZero() {
		m.keyReleases[bbrig.SPKey(sp, isSC)]++
	}
	m.mu.Unlock()
	if !known {
		r.Count("pool_puts_of_records_never_sampled", 1)
	}
	// released exactly once: a record that reaches the pool function with a
	// reset (zero) stage point was released before and not initialised since
	if sp.IsZero() {
		m.violation("release:record-released-again-without-reinitialisation",
			fmt.Sprintf("record %x handed to the pool with a zero stage point: it was already released and never re-initialised", ptr), nil)
	}
	// no longer consulted: at release time the record must not be reachable
	recs := m.d.Box.VerifRecords()
	for _, rec := range recs {
		if rec.Ptr == ptr {
			m.violation("release:record-released-while-still-reachable:"+keyClass(rec.Key),
				fmt.Sprintf("record %x is handed to the pool while the ballotbox still maps key %q to it", ptr, rec.Key),
				map[string]any{"live_records": recView(recs)})
		}
	}
}

// settle waits for the goroutines Vote/VoteSignFact spawned (single box,
// nothing else running in the process).
func (m *caseMon) settle() {
	deadline := time.Now().Add(200 * time.Millisecond)
	for i := 0; ; i++ {
		if runtime.NumGoroutine() <= int(m.g0.Load()) {
			return
		}
		if time.Now().After(deadline) {
			m.timeouts++
			return
		}
		if i < 50 {
			runtime.Gosched()
		} else {
			time.Sleep(100 * time.Microsecond)
		}
	}
}

func (m *caseMon) allNodes() []base.Address {
	w := m.d.W
	var out []base.Address
	for _, n := range w.Members {
		out = append(out, n.Address())
	}
	for _, n := range w.Outsiders {
		out = append(out, n.Address())
	}
	return out
}

// structural checks (iv) on a snapshot; returns findings instead of reporting
// so that the caller can re-sample before it believes them.
func (m *caseMon) structural(recs []isaacstates.VerifRecord) (sigs, whats []string) {
	byPtr := map[uintptr]string{}
	for _, rec := range recs {
		want := bbrig.SPKey(rec.StagePoint, rec.IsSuffrageConfirm)
		if rec.Key != want {
			shape := "record-of-other-point"
			if rec.StagePoint.IsZero() {
				shape = "reset-record"
			}
			sigs = append(sigs, "structure:key-maps-to-"+shape+":"+keyClass(rec.Key))
			whats = append(whats, fmt.Sprintf("key %q maps to a record whose own stage point is %s (suffrage confirm=%v)", rec.Key, rec.StagePoint, rec.IsSuffrageConfirm))
		}
		if k, dup := byPtr[rec.Ptr]; dup {
			sigs = append(sigs, "structure:record-live-under-two-keys")
			whats = append(whats, fmt.Sprintf("record %x is live under keys %q and %q", rec.Ptr, k, rec.Key))
		}
		byPtr[rec.Ptr] = rec.Key
	}
	return sigs, whats
}

func (m *caseMon) remember(recs []isaacstates.VerifRecord) {
	m.mu.Lock()
	now := map[uintptr]bool{}
	for _, rec := range recs {
		now[rec.Ptr] = true
		delete(m.vanished, rec.Ptr)
		m.putCount[rec.Ptr] = 0
	}
	for ptr := range m.live {
		if !now[ptr] && m.putCount[ptr] == 0 { // left the map and not released yet
			if _, ok := m.vanished[ptr]; !ok {
				m.vanished[ptr] = m.cleanups
			}
		}
	}
	m.live = now
	nowKeys := map[string]bool{}
	for _, rec := range recs {
		nowKeys[rec.Key] = true
		delete(m.releasedKey, rec.Key)
	}
	for k, sp := range m.liveKeySP {
		if !nowKeys[k] && !strings.HasPrefix(k, "sf-") {
			m.releasedKey[k] = sp
		}
	}
	m.liveKeySP = map[string]base.StagePoint{}
	for _, rec := range recs {
		if rec.Key == bbrig.SPKey(rec.StagePoint, rec.IsSuffrageConfirm) {
			m.liveKeySP[rec.Key] = rec.StagePoint
		}
	}
	for _, rec := range recs {
		if old, ok := m.known[rec.Ptr]; ok && old != rec.Key && rec.Key == bbrig.SPKey(rec.StagePoint, rec.IsSuffrageConfirm) {
			// the record object which served stage point `old` now serves another one
			if _, noted := m.reissuedTo[old]; !noted {
				m.r.Count("records_seen_reissued_to_another_stage_point", 1)
			}
			m.reissuedTo[old] = rec.Key
		}
		m.known[rec.Ptr] = rec.Key
		if strings.HasPrefix(rec.Key, "sf-") {
			m.scSeen[rec.Key] = true
		}
	}
	m.mu.Unlock()
}

// sample runs the per-step checks. cleaned: a counted voteproof was emitted
// during the step (that is when clean() runs). exact: single-threaded phase.
func (m *caseMon) sample(cleaned, exact bool) {
	r := m.r
	box := m.d.Box
	w := m.d.W
	r.Count("samples_taken", 1)

	recs := box.VerifRecords()
	m.remember(recs)
	if len(recs) > 0 {
		var sc int
		for _, rec := range recs {
			if rec.IsSuffrageConfirm {
				sc++
			}
		}
		if sc > 0 {
			r.Count("samples_with_live_suffrage_confirm_record", 1)
		}
	}

	// (iv) structure; believed only when it survives a second look
	if sigs, _ := m.structural(recs); len(sigs) > 0 {
		time.Sleep(5 * time.Millisecond)
		m.settle()
		recs = box.VerifRecords()
		sigs2, whats2 := m.structural(recs)
		for i := range sigs2 {
			m.violation(sigs2[i], whats2[i], map[string]any{"live_records": recView(recs)})
		}
		if len(sigs2) > 0 {
			return
		}
	}

	all := m.allNodes()
	last := box.LastPoint()

	live := map[string]isaacstates.VerifRecord{}
	for _, rec := range recs {
		live[rec.Key] = rec
	}

	touched := m.d.Touched()
	sort.Slice(touched, func(i, j int) bool { return touched[i].Compare(touched[j]) < 0 })
	for _, p := range touched {
		// (i) Voted(p, nodes) holds accepted facts of p only
		acc := m.d.Accepted(p, false)
		got := box.Voted(p, all)
		r.Count("Voted_calls", 1)
		m.retainSFs(kindVoted, p, got)
		for _, sf := range got {
			f := sf.Fact().(base.BallotFact)
			if !f.Point().Equal(p) {
				m.violation("isolation:Voted-returns-fact-of-other-point",
					fmt.Sprintf("Voted(%s) returned a sign fact of %s for point %s", p, sf.Node(), f.Point()), nil)
				return
			}
			if exact {
				if _, ok := acc[string(sf.HashBytes())]; !ok {
					m.violation("isolation:Voted-returns-fact-never-accepted-for-point",
						fmt.Sprintf("Voted(%s) returned a sign fact of %s which Vote never accepted for that point", p, sf.Node()), nil)
					return
				}
			}
		}
		if len(got) > 0 && len(all) > 1 {
			// restriction to the asked nodes
			ask := []base.Address{got[0].Node()}
			sub := box.Voted(p, ask)
			for _, sf := range sub {
				if !sf.Node().Equal(ask[0]) {
					m.violation("isolation:Voted-ignores-asked-nodes", fmt.Sprintf("Voted(%s,[%s]) returned a fact of %s", p, ask[0], sf.Node()), nil)
					return
				}
			}
		}

		// (ii) missing nodes: a vote elsewhere never makes a node "not missing" here
		_, isLive := live[bbrig.SPKey(p, false)]
		if isLive && w.LocalIdx >= 0 {
			missing, found, err := box.MissingNodes(p)
			r.Count("MissingNodes_calls", 1)
			m.retainAddrs(kindMissing, p, missing)
			after := box.VerifRecords()
			var rec *isaacstates.VerifRecord
			for i := range after {
				if after[i].Key == bbrig.SPKey(p, false) {
					rec = &after[i]
				}
			}
			if err == nil && found && rec != nil && !rec.Finished {
				r.Count("MissingNodes_reports_judged", 1)
				votedHere := map[string]bool{}
				for _, si := range m.d.Accepted(p, false) {
					votedHere[si.Node] = true
				}
				miss := map[string]bool{}
				for _, a := range missing {
					miss[a.String()] = true
					if w.MemberIndex(a) < 0 {
						m.violation("isolation:MissingNodes-reports-non-member", fmt.Sprintf("MissingNodes(%s) reports %s which is not in the suffrage", p, a), nil)
						return
					}
				}
				if exact {
					for i, n := range w.Members {
						a := n.Address().String()
						if i == w.LocalIdx || votedHere[a] {
							continue
						}
						if !miss[a] {
							m.violation("isolation:MissingNodes-omits-node-that-never-voted-for-point",
								fmt.Sprintf("MissingNodes(%s) does not report %s although no sign fact of it was accepted for that point", p, a),
								map[string]any{"missing": fmt.Sprint(missing), "live_records": recView(after)})
							return
						}
					}
				}
			}
		}
	}

	// a released stage point the box has moved past answers "not found",
	// after every step
	if exact {
		m.mu.Lock()
		rel := map[string]base.StagePoint{}
		for k, sp := range m.releasedKey {
			rel[k] = sp
		}
		m.mu.Unlock()
		now := box.LastPoint()
		for k, sp := range rel {
			if now.IsZero() || now.Before(sp, false) {
				continue // the point could be opened again by a new ballot
			}
			r.Count("released_point_lookups", 1)
			if got := box.Voted(sp, all); len(got) > 0 {
				m.violation("released:Voted-answers-for-released-point", fmt.Sprintf("Voted(%s) returns %d facts although the record of %q was released and the last point is %s", sp, len(got), k, now.StagePoint), nil)
				return
			}
			if _, found, _ := box.MissingNodes(sp); found {
				m.violation("released:MissingNodes-finds-released-point", fmt.Sprintf("MissingNodes(%s) reports found although the record of %q was released and the last point is %s", sp, k, now.StagePoint),
					map[string]any{"live_records": recView(box.VerifRecords())})
				return
			}
		}
	}

	// released (at least) once: a record that left the map in an earlier
	// cleanup is handed to the pool by the next one
	if cleaned && exact {
		overdue := func() (uintptr, bool) {
			m.mu.Lock()
			defer m.mu.Unlock()
			for ptr, at := range m.vanished {
				if at < m.cleanups-1 { // left the map, and a whole later cleanup has run since
					return ptr, true
				}
			}
			return 0, false
		}
		if _, bad := overdue(); bad {
			var ptr uintptr
			for i := 0; i < 60 && bad; i++ {
				time.Sleep(3 * time.Millisecond)
				m.settle()
				ptr, bad = overdue()
			}
			if bad {
				m.mu.Lock()
				key := m.known[ptr]
				m.mu.Unlock()
				m.violation("release:removed-record-never-released:"+keyClass(key),
					fmt.Sprintf("record %x (last seen under key %q) left the record map, a later cleanup has run, and the record was never handed to the pool", ptr, key), nil)
				return
			}
		}
	}

	// (v) right after a cleanup nothing below the last point is reachable
	if cleaned && exact {
		r.Count("cleanup_cycles_checked", 1)
		check := func() (string, string, []isaacstates.VerifRecord) {
			recs := box.VerifRecords()
			last = box.LastPoint()
			for _, rec := range recs {
				if rec.StagePoint.Compare(last.StagePoint) < 0 {
					shape := ""
					if rec.StagePoint.IsZero() {
						shape = ":reset-record"
					}
					return "cleanup:record-below-last-point-still-live:" + keyClass(rec.Key) + shape,
						fmt.Sprintf("after a cleanup with last point %s key %q (record stage point %s) is still live", last.StagePoint, rec.Key, rec.StagePoint), recs
				}
			}
			for _, p := range touched {
				if p.Compare(last.StagePoint) >= 0 {
					continue
				}
				if got := box.Voted(p, all); len(got) > 0 {
					return "cleanup:Voted-still-answers-for-released-point", fmt.Sprintf("Voted(%s) still returns %d facts with last point %s", p, len(got), last.StagePoint), recs
				}
				if _, found, _ := box.MissingNodes(p); found {
					return "cleanup:MissingNodes-still-finds-released-point", fmt.Sprintf("MissingNodes(%s) still finds the point with last point %s", p, last.StagePoint), recs
				}
			}
			return "", "", nil
		}
		if sig, _, _ := check(); sig != "" {
			// believed only when it persists (clean() runs in the box's own goroutine)
			var sig2, what2 string
			var recs2 []isaacstates.VerifRecord
			for i := 0; i < 60; i++ {
				time.Sleep(3 * time.Millisecond)
				m.settle()
				if sig2, what2, recs2 = check(); sig2 == "" {
					break
				}
			}
			if sig2 != "" {
				m.violation(sig2, what2, map[string]any{"live_records": recView(recs2)})
				return
			}
			r.Count("cleanup_checks_passed_on_second_look", 1)
		}
	}
}

// judge checks (iii) on emitted voteproofs: counted ones hold accepted facts
// of their own (point, kind) only. Returns how many were counted voteproofs.
func (m *caseMon) judge(es []bbrig.Emission) int {
	r := m.r
	counted := 0
	for _, e := range es {
		vp := e.VP
		_, emb := m.d.EmbeddedOrigin(vp)
		kind := "counted"
		if emb {
			kind = "embedded"
		}
		if _, ok := vp.(base.ExpelVoteproof); ok {
			kind += ":expel"
		}
		r.Count("emitted:"+kind+":"+strings.ToLower(vp.Point().Stage().String())+":"+strings.ReplaceAll(vp.Result().String(), " ", "_"), 1)
		// the emitted object is kept and looked at again after everything that
		// happens later (handout_test.go)
		if emb {
			m.retainVP(kindEmbedded, vp)
			continue
		}
		m.retainVP(kindCounted, vp)
		counted++
		accP := m.d.Accepted(vp.Point(), false)
		accS := m.d.Accepted(vp.Point(), true)
		inP, inS := 0, 0
		for _, sf := range vp.SignFacts() {
			k := string(sf.HashBytes())
			_, p := accP[k]
			_, s := accS[k]
			f := sf.Fact().(base.BallotFact)
			if !p && !s {
				m.violation("isolation:voteproof-holds-fact-not-accepted-for-its-point",
					fmt.Sprintf("voteproof for %s holds a sign fact of %s (fact point %s) that was not accepted for that point", vp.Point(), sf.Node(), f.Point()), nil)
				return counted
			}
			// NOTE a suffrage-confirm fact and an INIT fact of the same point,
			// block, proposal and expels have the same hash (and so the same
			// signature bytes); the kind is told by the fact's type
			if isaac.IsSuffrageConfirmBallotFact(f) {
				inS++
			} else {
				inP++
			}
		}
		if w, ok := vp.(base.HasExpels); ok && len(w.Expels()) > 0 {
			// the expels of a counted voteproof were carried by a ballot voted at
			// that very point (plain or suffrage-confirm record)
			carried := map[string]bool{}
			for _, acc := range []map[string]*bbrig.SFInfo{accP, accS} {
				for _, si := range acc {
					for _, h := range si.ExpelFacts {
						carried[h] = true
					}
				}
			}
			for _, op := range w.Expels() {
				if !carried[op.Fact().Hash().String()] {
					m.violation("isolation:voteproof-expels-not-voted-at-its-point",
						fmt.Sprintf("voteproof for %s carries an expel of %s which no ballot accepted for that point carried", vp.Point(), op.ExpelFact().Node()),
						map[string]any{"voteproof_signfacts": len(vp.SignFacts()), "voteproof_type": fmt.Sprintf("%T", vp)})
					return counted
				}
			}
		}
		if inP > 0 && inS > 0 {
			m.violation("isolation:voteproof-mixes-plain-and-suffrage-confirm-records",
				fmt.Sprintf("voteproof for %s holds %d plain and %d suffrage-confirm sign facts", vp.Point(), inP, inS), nil)
			return counted
		}
	}
	return counted
}

func cpuSeconds() float64 {
	var ru syscall.Rusage
	_ = syscall.Getrusage(syscall.RUSAGE_SELF, &ru)
	return float64(ru.Utime.Sec+ru.Stime.Sec) + float64(ru.Utime.Usec+ru.Stime.Usec)/1e6
}

var current atomic.Pointer[caseMon]
var poisoned atomic.Bool

type built struct {
	w     *bbrig.World
	steps []bbrig.Step
	cp    caseParams
	inv   []string
}

func build(r *vlib.Run, phase, idx int) built {
	rng := r.Rand(phase, idx)
	// every Vote costs ~0.1s of CPU under -race (the ballotbox serialises the
	// sign fact for its logger), boxes are driven one at a time: small
	// suffrages, few heights in the quick tier
	n := 3 + rng.Intn(r.N(2, 4)) // quick 3..4, thorough 3..6
	if rng.Intn(6) == 0 {
		n = 1 + rng.Intn(r.N(5, 9))
	}
	th := []base.Threshold{60, 67, 67, 67, 75, 100}[rng.Intn(6)]
	localIn := rng.Intn(5) > 0
	w := bbrig.NewWorld(fmt.Sprintf("c05-%d-%d-%d", r.Seed, phase, idx), n, th, localIn, 33)
	o := bbrig.ScriptOpts{
		Heights:   r.N(3, 4) + rng.Intn(2),
		Noise:     0.12,
		Hostile:   0.05,
		ExpelProb: 0.6,
		DrawProb:  0.25,
		Deferred:  0.2,
		Stuck:     rng.Intn(3) == 0,
		SetLast:   rng.Intn(4) == 0,
		Missing:   true,
		Stale:     true,
	}
	g := bbrig.NewGen(w, rng, o)
	steps := g.Flow()
	cp := caseParams{Index: idx, N: n, Threshold: th.String(), LocalIn: localIn, Heights: o.Heights, Steps: len(steps)}
	return built{w: w, steps: steps, cp: cp, inv: g.Invalid}
}

func scriptHash(steps []bbrig.Step) string {
	h := fnv.New64a()
	for i := range steps {
		_, _ = h.Write([]byte(steps[i].Desc))
		_, _ = h.Write([]byte{0})
	}
	return fmt.Sprintf("%016x", h.Sum64())
}

func newMon(r *vlib.Run, b built) *caseMon {
	d := bbrig.NewDriver(b.w, bbrig.DriverOpts{Interval: time.Millisecond, CountAfter: time.Millisecond, Start: true})
	m := &caseMon{r: r, d: d, cp: b.cp, steps: b.steps, known: map[uintptr]string{}, scSeen: map[string]bool{},
		live: map[uintptr]bool{}, vanished: map[uintptr]int{}, putCount: map[uintptr]int{},
		liveKeySP: map[string]base.StagePoint{}, keyReleases: map[string]int{}, keyOpens: map[string]int{}, prevKeys: map[string]bool{}, releasedKey: map[string]base.StagePoint{},
		reissuedTo: map[string]string{}, hseen: map[string]bool{}}
	current.Store(m)
	return m
}

// calibrate records the goroutine count of the idle box; call it from the
// goroutine that drives the case.
func (m *caseMon) calibrate() {
	time.Sleep(2 * time.Millisecond)
	m.mark()
}

// mark notes the number of goroutines while the box is idle (before a step).
func (m *caseMon) mark() {
	m.g0.Store(int64(runtime.NumGoroutine()))
}

func (m *caseMon) finish() (cleanups int) {
	current.Store(nil)
	m.d.Close()
	time.Sleep(time.Millisecond)
	for k, v := range m.d.Ops() {
		m.r.Count("ops:"+k, v)
	}
	m.r.Count("settle_timeouts", m.timeouts)
	m.r.Count("suffrage_confirm_records_seen", len(m.scSeen))
	m.hmu.Lock()
	handoutTime.Add(int64(m.tPrint))
	handoutValidTime.Add(int64(m.tValid))
	m.hmu.Unlock()
	return 0
}

// time spent re-taking fingerprints / IsValid verdicts of handed out objects (log only)
var handoutTime, handoutValidTime atomic.Int64

func runSingle(r *vlib.Run, b built) (cleanups int) {
	m := newMon(r, b)
	defer m.finish()
	m.cp.Phase = "single"
	m.exact.Store(true)
	r.WithWatchdog(10*time.Minute, fmt.Sprintf("single case %d", b.cp.Index), func() {
		m.calibrate()
		for i := range m.steps {
			if m.aborted.Load() {
				r.Count("cases_aborted_after_violation", 1)
				return
			}
			m.cur.Store(int64(i))
			st := &m.steps[i]
			m.mark()
			lastBefore := m.d.Box.LastPoint()
			isVote := st.Op == "vote" || st.Op == "signfact"
			wasLive := isVote && m.prevKeys[bbrig.SPKey(st.SP, st.IsSC)]
			admitted := isVote && (lastBefore.IsZero() || lastBefore.Before(st.SP, st.IsSC))
			if isVote && !lastBefore.IsZero() && !lastBefore.Before(st.SP, st.IsSC) {
				r.Count("stale_ballots_for_passed_points", 1)
			}
			// what the model says about this vote, before it is cast
			var mustAccept bool
			if isVote && st.Clean && admitted {
				mustAccept = true
				for _, rec := range m.d.Box.VerifRecords() {
					if rec.Key == bbrig.SPKey(st.SP, st.IsSC) && rec.Finished {
						mustAccept = false // already decided
					}
				}
				for _, si := range m.d.Accepted(st.SP, st.IsSC) {
					if si.Node == st.Node {
						mustAccept = false // the node has a vote there already
					}
				}
			}
			var res bbrig.StepResult
			r.Guard("ballotbox:"+st.Op, map[string]any{"case": m.cp, "step": st.Desc}, func() {
				res = m.d.Do(0, st)
			})
			m.settle()
			if res.Stuck != nil {
				r.Count("emitted:stuck:"+strings.ToLower(res.Stuck.Point().Stage().String()), 1)
				m.retainVP(kindStuck, res.Stuck)
			}
			if mustAccept {
				r.Count("clean_votes_judged", 1)
				la := m.d.Box.LastPoint()
				decided := false // the ticker may have decided the record meanwhile (held draw)
				for _, rec := range m.d.Box.VerifRecords() {
					if rec.Key == bbrig.SPKey(st.SP, st.IsSC) && rec.Finished {
						decided = true
					}
				}
				if !res.Voted && res.Err == nil && !decided && (la.IsZero() || la.Before(st.SP, st.IsSC)) {
					m.violation("isolation:clean-vote-refused",
						fmt.Sprintf("step %q: a member's first ballot for %s (right key, valid or no expels, point admitted by the last point %s, record not decided) was refused", st.Desc, st.SP, lastBefore.StagePoint),
						map[string]any{"live_records": recView(m.d.Box.VerifRecords())})
					continue
				}
			}
			_ = m.d.Box.Count()
			m.judge(m.d.Drain())
			m.retainVP(kindLast, m.d.Box.LastVoteproof())
			if m.aborted.Load() {
				continue
			}
			// no record may come to life for a stage point the box had already
			// moved past (isaac.LastPoint.Before is the box's own gate) - after
			// every step
			{
				lastAfter := m.d.Box.LastPoint()
				recs := m.d.Box.VerifRecords()
				for _, rec := range recs {
					if m.prevKeys[rec.Key] || rec.StagePoint.IsZero() {
						continue
					}
					r.Count("new_records_checked", 1)
					if isVote && rec.Key == bbrig.SPKey(st.SP, st.IsSC) {
						// a record starts empty: right after the step that created
						// it, it holds nothing of any node but the voter
						for what, nodes := range recContent(rec) {
							for _, nd := range nodes {
								if nd != st.Node {
									m.violation("structure:new-record-not-empty:"+what,
										fmt.Sprintf("after step %q the new record of key %q already holds %s of %s", st.Desc, rec.Key, what, nd),
										map[string]any{"live_records": recView(recs)})
								}
							}
						}
						if m.aborted.Load() {
							break
						}
					}
					if admitted && rec.Key == bbrig.SPKey(st.SP, st.IsSC) {
						m.mu.Lock()
						m.keyOpens[rec.Key]++
						m.mu.Unlock()
						admitted = false
					}
					if lastBefore.IsZero() || lastBefore.Before(rec.StagePoint, rec.IsSuffrageConfirm) ||
						lastAfter.Before(rec.StagePoint, rec.IsSuffrageConfirm) {
						continue
					}
					m.violation("released:record-created-for-passed-stage-point:"+keyClass(rec.Key),
						fmt.Sprintf("after step %q a record for %s (key %q) is live although the last point was %s (majority=%v) before the step: the box had moved past that stage point",
							st.Desc, rec.StagePoint, rec.Key, lastBefore.StagePoint, lastBefore.IsMajority()),
						map[string]any{"live_records": recView(recs)})
					break
				}
				if m.aborted.Load() {
					continue
				}
			}
			// the last point moves only in countVoterecords (which then runs
			// clean()) or in a SetLastPoint step (which does not)
			cleaned := st.Op != "setlast" && m.d.Box.LastPoint() != lastBefore
			if cleaned {
				cleanups++
				m.mu.Lock()
				m.cleanups++
				m.mu.Unlock()
			}
			lastBefore = m.d.Box.LastPoint()
			m.sample(cleaned, true)
			// sampling (MissingNodes counts) may itself emit and clean
			m.judge(m.d.Drain())
			m.retainVP(kindLast, m.d.Box.LastVoteproof())
			if m.d.Box.LastPoint() != lastBefore && !m.aborted.Load() {
				cleanups++
				m.mu.Lock()
				m.cleanups++
				m.mu.Unlock()
				m.sample(true, true)
			}
			m.prevKeys = map[string]bool{}
			for _, rec := range m.d.Box.VerifRecords() {
				m.prevKeys[rec.Key] = true
			}
			// released at most once per lifetime: a stage point's records reach
			// the pool no more often than a record for it came to life
			m.mu.Lock()
			if admitted && !m.prevKeys[bbrig.SPKey(st.SP, st.IsSC)] && !wasLive {
				// the ballot was admitted, its record is not there any more (or
				// never seen): it may have lived and left within this step
				m.keyOpens[bbrig.SPKey(st.SP, st.IsSC)]++
			}
			var over string
			for k, n := range m.keyReleases {
				if n > m.keyOpens[k] {
					over = fmt.Sprintf("records of stage point key %q were handed to the pool %d times, but a record for it came to life (through a ballot LastPoint.Before admits) only %d times", k, n, m.keyOpens[k])
					m.keyReleases[k] = m.keyOpens[k] // report once
				}
			}
			m.mu.Unlock()
			if over != "" && !m.aborted.Load() {
				m.violation("release:stage-point-released-more-often-than-opened", over, nil)
			}
			// everything the box handed out so far still holds what it held when
			// it was handed out (after every step)
			if !m.aborted.Load() {
				after := fmt.Sprintf("step %d %q", i, st.Desc)
				if isVote {
					after += fmt.Sprintf(" (a ballot for stage point %s)", st.SP)
				}
				m.recheck(after, false)
			}
		}
		if !m.aborted.Load() {
			m.recheck("the end of the case", true)
		}
	})
	r.Count("cleanup_cycles_observed", cleanups)
	return cleanups
}

func runConcurrent(r *vlib.Run, b built, goroutines int) (cleanups int) {
	var ctr atomic.Int64
	b.w.Delay = func(string) {
		switch c := ctr.Add(1); {
		case c%3 == 0:
			runtime.Gosched()
		case c%13 == 0:
			time.Sleep(10 * time.Microsecond)
		}
	}
	m := newMon(r, b)
	defer m.finish()
	m.cp.Phase = "concurrent"
	m.cp.Goroutines = goroutines
	const chunk = 16
	r.WithWatchdog(10*time.Minute, fmt.Sprintf("concurrent case %d", b.cp.Index), func() {
		m.calibrate()
		for lo := 0; lo < len(m.steps); lo += chunk {
			if m.aborted.Load() {
				r.Count("cases_aborted_after_violation", 1)
				return
			}
			hi := lo + chunk
			if hi > len(m.steps) {
				hi = len(m.steps)
			}
			m.cur.Store(int64(hi - 1))
			m.mark()
			lastBefore := m.d.Box.LastPoint()
			var wg sync.WaitGroup
			for g := 0; g < goroutines; g++ {
				wg.Add(1)
				go func(g int) {
					defer wg.Done()
					for i := lo + g; i < hi; i += goroutines {
						st := &m.steps[i]
						r.Guard("ballotbox:"+st.Op, map[string]any{"case": m.cp, "step": st.Desc}, func() {
							if res := m.d.Do(g, st); res.Stuck != nil {
								r.Count("emitted:stuck:"+strings.ToLower(res.Stuck.Point().Stage().String()), 1)
								m.retainVP(kindStuck, res.Stuck)
							}
						})
					}
				}(g)
			}
			wg.Wait()
			// quiescent point
			m.settle()
			_ = m.d.Box.Count()
			m.settle()
			m.judge(m.d.Drain())
			if m.aborted.Load() {
				continue
			}
			if m.d.Box.LastPoint() != lastBefore {
				cleanups++ // at least one
			}
			m.sample(false, false)
			m.judge(m.d.Drain())
			m.retainVP(kindLast, m.d.Box.LastVoteproof())
			if !m.aborted.Load() {
				sps := map[string]bool{}
				for i := lo; i < hi; i++ {
					if op := m.steps[i].Op; op == "vote" || op == "signfact" {
						sps[m.steps[i].SP.String()] = true
					}
				}
				var touched []string
				for k := range sps {
					touched = append(touched, k)
				}
				sort.Strings(touched)
				m.recheck(fmt.Sprintf("the chunk of steps %d..%d run by %d goroutines (ballots for stage points %s)", lo, hi-1, goroutines, strings.Join(touched, ", ")), false)
			}
		}
		if !m.aborted.Load() {
			m.settle()
			m.recheck("the end of the case", true)
		}
	})
	r.SetAdd("interleavings_seen", m.d.OrderFingerprint())
	r.Count("cleanup_cycles_observed", cleanups)
	return cleanups
}

func descs(steps []bbrig.Step, n int) []string {
	out := make([]string, 0, n+1)
	for i := range steps {
		if len(out) >= n {
			out = append(out, fmt.Sprintf("... %d more", len(steps)-i))
			break
		}
		out = append(out, steps[i].Desc)
	}
	return out
}

func TestC05(t *testing.T) {
	r := vlib.Start(t, "C05", vlib.LevelExploration)
	defer r.Finish()
	r.SetRule("case = generated script (3-5 consecutive heights x rounds x INIT / suffrage-confirm / ACCEPT votes, expel heights, draws, deferred suffrage, noise: outsiders, conflicting and old/future ballots, SetLastPoint, stuck requests, MissingNodes) against one real Ballotbox at a time; after every step (single-threaded phase) or every 16-step chunk run by 2-12 goroutines (concurrent phase): hook H1 record list, pool-put stream, Voted and MissingNodes of every touched point, emitted voteproofs; every object the box hands out (counted, embedded and stuck voteproofs, LastVoteproof(), the slices Voted() and MissingNodes() return) is kept with a deep fingerprint taken at hand-out (point, result, threshold, majority, every sign fact's node + fact point + fact hash + signature bytes, expels, hash bytes, IsValid verdict) and the fingerprint is re-taken after every later step / chunk and at the end of the case, through the later cleanup cycles that release its stage point's record and re-issue the record object to another stage point (every other single-threaded case runs on one P so that sync.Pool re-issues the record released last); distinct = (n, threshold, local, script hash, phase, one P or all Ps, goroutines); non-trivial = at least one cleanup cycle happened in the case (the last point moved by counting, which is when clean() runs)")
	r.Assume("only ballots and sign facts that pass IsValid(networkID) are submitted")
	r.Assume("one ballotbox is driven at a time (the record pool and its put hook are process-global); boxes of finished cases are stopped")
	r.Assume("(v) 'nothing below the last point is reachable right after a cleanup' and the exact forms of (i)/(ii) are judged in the single-threaded phase only: with concurrent voters a vote may legitimately create a record for a point the box passes a moment later; the release checks at the pool-put hook and the structural checks are judged in both phases")
	r.Assume("handed out objects are read by the goroutine that received them from the box (channel receive / return value), while no step of the rig is in flight; the box's own ticker keeps running")
	r.Assume("MissingNodes is judged for isolation only: a node with no accepted sign fact for p must be reported missing for p (unless it is the local node); that a node which did vote for p is absent from the report is not demanded here")

	isaacstates.VerifObservePoolPut(func(ptr uintptr, sp base.StagePoint, isSC bool) {
		if m := current.Load(); m != nil {
			m.onPut(ptr, sp, isSC)
		} else {
			r.Count("pool_puts_outside_a_case", 1)
		}
	})
	defer isaacstates.VerifObservePoolPut(nil)

	// build all scripts first (signing and IsValid are the expensive part), in parallel
	n1 := r.N(12, 60)
	n2 := r.N(8, 40)
	t0 := time.Now()
	cases1 := make([]built, n1)
	cases2 := make([]built, n2)
	vlib.Parallel(n1+n2, 14, func(i int) {
		if i < n1 {
			cases1[i] = build(r, 1, i)
		} else {
			cases2[i-n1] = build(r, 2, i-n1)
		}
	})
	time.Sleep(5 * time.Millisecond)
	r.Logf("built %d scripts in %.1fs (cpu %.1fs)", n1+n2, time.Since(t0).Seconds(), cpuSeconds())
	t0 = time.Now()

	samples := 0
	for i := range cases1 {
		if poisoned.Load() {
			r.Count("cases_skipped_after_pool_corruption", 1)
			continue
		}
		b := cases1[i]
		r.Count("rig_invalid_ballots_dropped", len(b.inv))
		// every other case on one P: sync.Pool then hands the record released
		// last straight back to the next stage point
		prevProcs := 0
		if i%2 == 0 {
			prevProcs = runtime.GOMAXPROCS(1)
			r.Count("cases_single_on_one_P", 1)
		}
		c := runSingle(r, b)
		if prevProcs > 0 {
			runtime.GOMAXPROCS(prevProcs)
		}
		procs := "allP"
		if prevProcs > 0 {
			procs = "oneP"
		}
		fp := fmt.Sprintf("single/%s/%d/%s/%v/%s", procs, b.cp.N, b.cp.Threshold, b.cp.LocalIn, scriptHash(b.steps))
		if c > 0 {
			r.Case(fp)
		} else {
			r.Eval(1)
		}
		if c >= 3 {
			r.Count("cases_with_3_or_more_cleanup_cycles", 1)
		}
		r.Count("cases_single", 1)
		if samples < 3 && c > 0 {
			samples++
			cp := b.cp
			cp.Phase = "single"
			r.Sample(map[string]any{"case": cp, "script_head": descs(b.steps, 10), "cleanup_cycles": c})
		}
	}
	r.Logf("single-threaded phase: %d cases in %.1fs (cpu so far %.1fs; re-taking fingerprints of handed out objects %.1fs, of which IsValid %.1fs)", n1, time.Since(t0).Seconds(), cpuSeconds(),
		time.Duration(handoutTime.Load()).Seconds(), time.Duration(handoutValidTime.Load()).Seconds())
	t0 = time.Now()
	samples = 0
	for i := range cases2 {
		if poisoned.Load() {
			r.Count("cases_skipped_after_pool_corruption", 1)
			continue
		}
		b := cases2[i]
		r.Count("rig_invalid_ballots_dropped", len(b.inv))
		gor := 2 + r.Rand(3, i).Intn(11)
		c := runConcurrent(r, b, gor)
		fp := fmt.Sprintf("concurrent/%d/%s/%v/%d/%s", b.cp.N, b.cp.Threshold, b.cp.LocalIn, gor, scriptHash(b.steps))
		if c > 0 {
			r.Case(fp)
		} else {
			r.Eval(1)
		}
		r.Count("cases_concurrent", 1)
		if samples < 2 && c > 0 {
			samples++
			cp := b.cp
			cp.Phase = "concurrent"
			cp.Goroutines = gor
			r.Sample(map[string]any{"case": cp, "script_head": descs(b.steps, 10), "cleanup_cycles": c})
		}
	}

	r.Logf("concurrent phase: %d cases in %.1fs (cpu so far %.1fs; re-taking fingerprints of handed out objects so far %.1fs, of which IsValid %.1fs)", n2, time.Since(t0).Seconds(), cpuSeconds(),
		time.Duration(handoutTime.Load()).Seconds(), time.Duration(handoutValidTime.Load()).Seconds())
	if r.Counter("cleanup_cycles_observed") == 0 || r.Counter("pool_puts_observed") == 0 {
		r.Inconclusive("no cleanup cycle / no record release was observed")
	}
	r.Set("handed_out_seconds_spent_on_fingerprints_and_IsValid", fmt.Sprintf("%.1f (IsValid alone %.1f)", time.Duration(handoutTime.Load()).Seconds(), time.Duration(handoutValidTime.Load()).Seconds()))
	if r.NViolations() == 0 && (r.Counter("handed_out_retained:"+kindCounted) == 0 || r.Counter("handed_out_objects_rechecked_after_their_record_was_reissued:"+kindCounted) == 0) {
		r.Inconclusive("no emitted voteproof was looked at again after the record of its stage point had been re-issued to another stage point")
	}
	if r.Counter("suffrage_confirm_records_seen") == 0 {
		r.Inconclusive("no suffrage-confirm record was ever live")
	}
}
