package c05

import (
	"encoding/binary"
	"fmt"
	"hash/fnv"
	"sort"
	"strings"
	"time"
	"unsafe"

	"github.com/spikeekips/mitum/base"
	"verifharness/c04/bbrig"
)

// A handout is an object the ballotbox has handed out for one stage point: an
// emitted voteproof (counted, embedded, stuck, LastVoteproof()) or a slice an
// accessor returned (Voted(), MissingNodes()). It is that stage point's result;
// nothing that happens later for any other stage point may change what it
// contains. The monitor keeps the object itself (not a copy), a deep
// fingerprint taken when it was handed out, and re-takes the fingerprint after
// every later step / at every quiescent point and at the end of the case.
type handout struct {
	kind  string // counted-voteproof | embedded-voteproof | stuck-voteproof | last-voteproof | Voted-result | MissingNodes-result
	point base.StagePoint
	vp    base.Voteproof
	sfs   []base.BallotSignFact
	addrs []base.Address

	sum0   uint64
	lines0 []string
	valid0 bool   // IsValid(networkID) == nil when handed out (voteproofs only)
	verr0  string // its error text, for the witness
	at     string // what the rig was doing when it was handed out

	dead          bool // already reported
	reissuedNoted bool
	revalidated   bool // IsValid verdict re-taken once after the record of its stage point was re-issued (thorough tier)
}

const (
	kindCounted  = "counted-voteproof"
	kindEmbedded = "embedded-voteproof"
	kindStuck    = "stuck-voteproof"
	kindLast     = "last-voteproof"
	kindVoted    = "Voted-result"
	kindMissing  = "MissingNodes-result"
)

type printer struct {
	h       uint64
	verbose bool
	lines   []string
}

func (p *printer) bytes(b []byte) uint64 {
	f := fnv.New64a()
	_, _ = f.Write(b)
	return f.Sum64()
}

func (p *printer) mix(label string, v uint64) {
	f := fnv.New64a()
	var buf [16]byte
	binary.LittleEndian.PutUint64(buf[:8], p.h)
	binary.LittleEndian.PutUint64(buf[8:], v)
	_, _ = f.Write(buf[:])
	_, _ = f.Write([]byte(label))
	p.h = f.Sum64()
}

// field adds one named field; text is built only for the verbose print.
func (p *printer) field(label string, raw []byte, text func() string) {
	p.mix(label, p.bytes(raw))
	if p.verbose {
		p.lines = append(p.lines, label+" "+text())
	}
}

func hashText(h interface{ String() string }) string {
	if h == nil {
		return "<nil>"
	}
	return h.String()
}

func (p *printer) signFact(label string, sf base.BallotSignFact) {
	if sf == nil {
		p.field(label, nil, func() string { return "<nil sign fact>" })
		return
	}
	var raw []byte
	var fp base.StagePoint
	var fh string
	if f, ok := sf.Fact().(base.BallotFact); ok && f != nil {
		fp = f.Point()
		raw = append(raw, fp.Bytes()...)
		if h := f.Hash(); h != nil {
			raw = append(raw, h.Bytes()...)
			fh = h.String()
		}
	}
	hb := sf.HashBytes() // hint, node, signer, signature bytes, signed at
	raw = append(raw, hb...)
	p.field(label, raw, func() string {
		return fmt.Sprintf("node=%s type=%T fact_point=%s fact_hash=%s node+signer+signature=%016x", sf.Node(), sf, fp, fh, p.bytes(hb))
	})
}

// print takes the deep fingerprint of the object as it is now. A panic while
// reading it (the object was torn) is part of the fingerprint.
func (h *handout) print(verbose bool) (sum uint64, lines []string) {
	p := &printer{verbose: verbose}
	defer func() {
		if e := recover(); e != nil {
			p.field("panic-while-reading", []byte(fmt.Sprint(e)), func() string { return fmt.Sprint(e) })
			sum, lines = p.h, p.lines
		}
	}()
	switch {
	case h.vp != nil:
		vp := h.vp
		pt := vp.Point()
		p.field("point", pt.Bytes(), func() string { return pt.String() })
		p.field("type+id", []byte(fmt.Sprintf("%T", vp)+vp.ID()), func() string { return fmt.Sprintf("%T %s", vp, vp.ID()) })
		res := vp.Result()
		p.field("result", []byte(res.String()), func() string { return res.String() })
		th := vp.Threshold()
		p.field("threshold", th.Bytes(), func() string { return th.String() })
		fin := vp.FinishedAt()
		var tb [8]byte
		binary.LittleEndian.PutUint64(tb[:], uint64(fin.UnixNano()))
		p.field("finished_at", tb[:], func() string { return fin.UTC().Format(time.RFC3339Nano) })
		var mraw []byte
		mtext := "<nil>"
		if mj := vp.Majority(); mj != nil {
			mp := mj.Point()
			mraw = append(mraw, mp.Bytes()...)
			if mh := mj.Hash(); mh != nil {
				mraw = append(mraw, mh.Bytes()...)
				mtext = fmt.Sprintf("point=%s hash=%s", mp, mh)
			}
		}
		p.field("majority", mraw, func() string { return mtext })
		sfs := vp.SignFacts()
		p.field("len(signfacts)", []byte{byte(len(sfs)), byte(len(sfs) >> 8)}, func() string { return fmt.Sprint(len(sfs)) })
		for i := range sfs {
			p.signFact(fmt.Sprintf("signfact[%d]", i), sfs[i])
		}
		if w, ok := vp.(base.HasExpels); ok {
			ops := w.Expels()
			p.field("len(expels)", []byte{byte(len(ops))}, func() string { return fmt.Sprint(len(ops)) })
			for i := range ops {
				op := ops[i]
				if op == nil {
					p.field(fmt.Sprintf("expel[%d]", i), nil, func() string { return "<nil>" })
					continue
				}
				raw := append([]byte{}, op.HashBytes()...)
				raw = append(raw, op.Fact().Hash().Bytes()...)
				p.field(fmt.Sprintf("expel[%d]", i), raw, func() string {
					return fmt.Sprintf("node=%s fact_hash=%s signs=%d bytes=%016x", op.ExpelFact().Node(), op.Fact().Hash(), len(op.NodeSigns()), p.bytes(op.HashBytes()))
				})
			}
		}
		hb := vp.HashBytes()
		p.field("hashbytes", hb, func() string { return fmt.Sprintf("%016x", p.bytes(hb)) })
	case h.kind == kindVoted:
		p.field("len(signfacts)", []byte{byte(len(h.sfs)), byte(len(h.sfs) >> 8)}, func() string { return fmt.Sprint(len(h.sfs)) })
		for i := range h.sfs {
			p.signFact(fmt.Sprintf("signfact[%d]", i), h.sfs[i])
		}
	default:
		p.field("len(nodes)", []byte{byte(len(h.addrs)), byte(len(h.addrs) >> 8)}, func() string { return fmt.Sprint(len(h.addrs)) })
		for i := range h.addrs {
			a := h.addrs[i]
			var raw []byte
			if a != nil {
				raw = a.Bytes()
			}
			p.field(fmt.Sprintf("node[%d]", i), raw, func() string { return fmt.Sprint(a) })
		}
	}
	return p.h, p.lines
}

func (h *handout) validity(networkID base.NetworkID) (ok bool, text string) {
	defer func() {
		if e := recover(); e != nil {
			ok, text = false, fmt.Sprintf("IsValid panicked: %v", e)
		}
	}()
	if err := h.vp.IsValid(networkID); err != nil {
		return false, err.Error()
	}
	return true, ""
}

// vpIdentity tells one emitted voteproof object from another: the voteproof
// id (given once, at construction) and where its sign fact slice lives.
func vpIdentity(vp base.Voteproof) string {
	sfs := vp.SignFacts()
	return fmt.Sprintf("%s/%x/%d", vp.ID(), uintptr(unsafe.Pointer(unsafe.SliceData(sfs))), len(sfs))
}

func (m *caseMon) where() string {
	i := int(m.cur.Load())
	if i >= 0 && i < len(m.steps) {
		if m.exact.Load() {
			return fmt.Sprintf("step %d %q", i, m.steps[i].Desc)
		}
		return fmt.Sprintf("the chunk of concurrent steps ending at step %d %q", i, m.steps[i].Desc)
	}
	return "start"
}

func (m *caseMon) addHandout(h *handout) {
	h.sum0, h.lines0 = h.print(true)
	if h.vp != nil {
		t0 := time.Now()
		h.valid0, h.verr0 = h.validity(m.d.W.NetworkID)
		m.hmu.Lock()
		m.tValid += time.Since(t0)
		m.hmu.Unlock()
		m.r.Count("handed_out_IsValid_verdicts_taken", 1)
	}
	h.at = m.where()
	m.hmu.Lock()
	m.handouts = append(m.handouts, h)
	m.hmu.Unlock()
	m.r.Count("handed_out_retained:"+h.kind, 1)
}

// retainVP keeps an emitted voteproof (once per object). Safe for concurrent use.
func (m *caseMon) retainVP(kind string, vp base.Voteproof) {
	if vp == nil {
		return
	}
	var id string
	func() {
		defer func() {
			if e := recover(); e != nil {
				id = fmt.Sprintf("unreadable/%p", &vp)
			}
		}()
		id = vpIdentity(vp)
	}()
	m.hmu.Lock()
	if m.hseen[id] {
		m.hmu.Unlock()
		m.r.Count("handed_out_same_object_again:"+kind, 1)
		return
	}
	m.hseen[id] = true
	m.hmu.Unlock()
	m.addHandout(&handout{kind: kind, point: vp.Point(), vp: vp})
}

// retainSFs keeps a sign fact slice an accessor returned for p: the first one
// of every distinct content per stage point (an accessor that hands out an
// internal slice hands out the same one again and again).
func (m *caseMon) retainSFs(kind string, p base.StagePoint, sfs []base.BallotSignFact) {
	if len(sfs) < 1 {
		return
	}
	h := &handout{kind: kind, point: p, sfs: sfs}
	m.retainSlice(h)
}

func (m *caseMon) retainAddrs(kind string, p base.StagePoint, addrs []base.Address) {
	if len(addrs) < 1 {
		return
	}
	h := &handout{kind: kind, point: p, addrs: addrs}
	m.retainSlice(h)
}

func (m *caseMon) retainSlice(h *handout) {
	sum, _ := h.print(false)
	id := fmt.Sprintf("%s/%s/%016x", h.kind, h.point, sum)
	m.hmu.Lock()
	if m.hseen[id] {
		m.hmu.Unlock()
		return
	}
	m.hseen[id] = true
	m.hmu.Unlock()
	m.addHandout(h)
}

func lineClass(line string) string {
	label := line
	if i := strings.IndexAny(label, " "); i >= 0 {
		label = label[:i]
	}
	if i := strings.Index(label, "["); i >= 0 {
		label = label[:i] + "s"
	}
	return label
}

// diffLines lists what differs between the fingerprint at hand-out and now.
func diffLines(was, now []string) (diff []string, classes []string) {
	cl := map[string]bool{}
	n := len(was)
	if len(now) > n {
		n = len(now)
	}
	for i := 0; i < n; i++ {
		var a, b string
		if i < len(was) {
			a = was[i]
		}
		if i < len(now) {
			b = now[i]
		}
		if a == b {
			continue
		}
		diff = append(diff, fmt.Sprintf("was: %s | now: %s", a, b))
		switch {
		case b != "":
			cl[lineClass(b)] = true
		default:
			cl[lineClass(a)] = true
		}
	}
	delete(cl, "hashbytes") // follows from the others
	for k := range cl {
		classes = append(classes, k)
	}
	if len(classes) == 0 {
		classes = []string{"hashbytes"}
	}
	sort.Strings(classes)
	return diff, classes
}

// recheck re-takes the fingerprint of everything handed out so far. after:
// the activity that ran since the last look. final: the end of the case (the
// IsValid verdict of every voteproof is re-taken too; in the thorough tier it
// is also re-taken once per voteproof at the first look after the record of
// its stage point was seen re-issued to another stage point). Called from the
// goroutine that drives the case, while no step is in flight.
func (m *caseMon) recheck(after string, final bool) {
	r := m.r
	t0 := time.Now()
	m.hmu.Lock()
	hs := append([]*handout{}, m.handouts...)
	m.hmu.Unlock()
	m.mu.Lock()
	reissued := make(map[string]string, len(m.reissuedTo))
	for k, v := range m.reissuedTo {
		reissued[k] = v
	}
	released := make(map[string]int, len(m.keyReleases))
	for k, v := range m.keyReleases {
		released[k] = v
	}
	m.mu.Unlock()
	r.Count("handed_out_recheck_rounds", 1)
	var n, nAfterRelease, nAfterReissue int
	for _, h := range hs {
		if h.dead {
			continue
		}
		n++
		keyP, keyS := bbrig.SPKey(h.point, false), bbrig.SPKey(h.point, true)
		var recordWent string
		if to, ok := reissued[keyP]; ok {
			recordWent = fmt.Sprintf("the record of %q was released and re-issued to %q", keyP, to)
		} else if to, ok := reissued[keyS]; ok {
			recordWent = fmt.Sprintf("the record of %q was released and re-issued to %q", keyS, to)
		}
		if recordWent != "" {
			nAfterReissue++
			if !h.reissuedNoted {
				h.reissuedNoted = true
				r.Count("handed_out_objects_rechecked_after_their_record_was_reissued:"+h.kind, 1)
			}
		} else if released[keyP]+released[keyS] > 0 {
			nAfterRelease++
			recordWent = "the record of its stage point was released to the pool"
		}
		withValidity := final
		if !final && r.Thorough() && h.vp != nil && h.reissuedNoted && !h.revalidated {
			h.revalidated = true
			withValidity = true
		}
		sum, _ := h.print(false)
		var nowValid bool
		var nowErr string
		validityChanged := false
		if sum == h.sum0 && withValidity && h.vp != nil {
			tv := time.Now()
			nowValid, nowErr = h.validity(m.d.W.NetworkID)
			m.hmu.Lock()
			m.tValid += time.Since(tv)
			m.hmu.Unlock()
			r.Count("handed_out_IsValid_verdicts_retaken", 1)
			validityChanged = nowValid != h.valid0
		}
		if sum == h.sum0 && !validityChanged {
			continue
		}
		h.dead = true
		_, now := h.print(true)
		diff, classes := diffLines(h.lines0, now)
		if validityChanged && len(diff) == 0 {
			classes = []string{"IsValid-verdict"}
		}
		family := "emitted-voteproof-changed-after-emission"
		if h.vp == nil {
			family = "returned-slice-changed-after-return"
		}
		w := map[string]any{
			"kind": h.kind, "stage_point": h.point.String(), "handed_out_at": h.at, "changed_after": after,
			"fingerprint_when_handed_out": h.lines0, "fingerprint_now": now, "difference": diff,
			"record_of_its_stage_point": recordWent,
		}
		if h.vp != nil {
			if !withValidity || sum != h.sum0 {
				nowValid, nowErr = h.validity(m.d.W.NetworkID)
			}
			w["IsValid_when_handed_out"] = map[string]any{"valid": h.valid0, "error": h.verr0}
			w["IsValid_now"] = map[string]any{"valid": nowValid, "error": nowErr}
		}
		first := ""
		if len(diff) > 0 {
			first = diff[0]
		}
		m.violation("isolation:"+family+":"+h.kind+":"+strings.Join(classes, "+"),
			fmt.Sprintf("the %s handed out for %s at %s no longer holds what it held then; first seen after %s (%s): %s",
				h.kind, h.point, h.at, after, recordWent, first), w)
	}
	r.Count("handed_out_rechecks", n)
	r.Count("handed_out_rechecks_after_record_of_their_point_was_released", nAfterRelease+nAfterReissue)
	r.Count("handed_out_rechecks_after_record_of_their_point_was_reissued", nAfterReissue)
	m.hmu.Lock()
	m.tPrint += time.Since(t0)
	m.hmu.Unlock()
}
