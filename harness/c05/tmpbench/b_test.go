package tmpbench

import (
	"testing"
	"time"
	"math/rand"

	"github.com/spikeekips/mitum/base"
	"verifharness/c04/bbrig"
)

func TestB(t *testing.T) {
	t0 := time.Now()
	w := bbrig.NewWorld("b", 5, 67, true, 33)
	for i := 0; i < 20; i++ {
		d := bbrig.NewDriver(w, bbrig.DriverOpts{Interval: time.Millisecond, CountAfter: time.Millisecond, Start: true})
		d.Close()
	}
	t.Logf("20 boxes: %v", time.Since(t0))
	t0 = time.Now()
	g := bbrig.NewGen(w, rand.New(rand.NewSource(1)), bbrig.ScriptOpts{Heights: 3, ExpelProb: 0.5})
	steps := g.Flow()
	t.Logf("script of %d steps built: %v", len(steps), time.Since(t0))
	t0 = time.Now()
	n := 0
	for i := range steps {
		if steps[i].Ballot != nil {
			_ = steps[i].Ballot.IsValid(w.NetworkID)
			n++
		}
	}
	t.Logf("%d IsValid again: %v", n, time.Since(t0))
	t0 = time.Now()
	d := bbrig.NewDriver(w, bbrig.DriverOpts{Interval: time.Millisecond, CountAfter: time.Millisecond, Start: true})
	for i := range steps {
		d.Do(0, &steps[i])
	}
	t.Logf("drive: %v", time.Since(t0))
	t0 = time.Now()
	time.Sleep(500 * time.Millisecond)
	t.Logf("idle 500ms with ticker: %v", time.Since(t0))
	t0 = time.Now()
	for i := 0; i < 1000; i++ {
		d.Box.Voted(base.NewStagePoint(base.NewPoint(34, 0), base.StageINIT), nil)
	}
	t.Logf("1000 Voted: %v", time.Since(t0))
	t0 = time.Now()
	for i := 0; i < 1000; i++ {
		d.Box.VerifRecords()
	}
	t.Logf("1000 VerifRecords: %v", time.Since(t0))
	d.Close()
}
