package c06

import (
	"fmt"
	"runtime"
	"sort"
	"strings"
	"sync"
	"sync/atomic"
	"testing"
	"time"

	"github.com/spikeekips/mitum/base"
	"github.com/spikeekips/mitum/isaac"
	isaacstates "github.com/spikeekips/mitum/isaac/states"
	"github.com/spikeekips/mitum/util"
	"github.com/spikeekips/mitum/util/valuehash"
	"verifharness/vlib"
)

// pos is one consensus position of the bounded domain.
type pos struct {
	H   int64
	R   uint64
	A   bool // stage ACCEPT (else INIT)
	Maj bool
	SC  bool
}

var zero = pos{}

func (p pos) isZero() bool { return p.H == 0 }

func (p pos) stage() base.Stage {
	if p.A {
		return base.StageACCEPT
	}
	return base.StageINIT
}

func (p pos) sp() base.StagePoint {
	return base.NewStagePoint(base.RawPoint(p.H, p.R), p.stage())
}

func (p pos) String() string {
	if p.isZero() {
		return "zero"
	}
	s := fmt.Sprintf("%d/%d/%s", p.H, p.R, p.stage())
	if p.SC {
		s += "-sc"
	}
	if p.Maj {
		return s + "/maj"
	}
	return s + "/nomaj"
}

// kind of position without the concrete height/round
func (p pos) kind() string {
	s := string(p.stage())
	if p.SC {
		s += "-sc"
	}
	return s
}

// cmpSP orders by (height, round, stage).
func cmpSP(a, b pos) int {
	switch {
	case a.H != b.H:
		if a.H < b.H {
			return -1
		}
		return 1
	case a.R != b.R:
		if a.R < b.R {
			return -1
		}
		return 1
	case a.A != b.A:
		if !a.A {
			return -1
		}
		return 1
	}
	return 0
}

func samePosition(a, b pos) bool { return cmpSP(a, b) == 0 && a.SC == b.SC }

func lastPoint(p pos) isaac.LastPoint {
	if p.isZero() {
		return isaac.LastPoint{}
	}
	lp, err := isaac.NewLastPoint(p.sp(), p.Maj, p.SC)
	if err != nil {
		panic(err)
	}
	return lp
}

func fromLastPoint(lp isaac.LastPoint) pos {
	if lp.IsZero() {
		return zero
	}
	return pos{
		H: lp.Height().Int64(), R: lp.Round().Uint64(), A: lp.Stage() == base.StageACCEPT,
		Maj: lp.IsMajority(), SC: lp.IsSuffrageConfirm(),
	}
}

func domain() []pos {
	var d []pos
	for _, h := range []int64{33, 34, 35} {
		for _, r := range []uint64{0, 1, 2} {
			for _, maj := range []bool{true, false} {
				d = append(d, pos{H: h, R: r, Maj: maj})
				if maj {
					d = append(d, pos{H: h, R: r, Maj: maj, SC: true})
				}
				d = append(d, pos{H: h, R: r, A: true, Maj: maj})
			}
		}
	}
	return d
}

type finding struct {
	Sig, What string
	Witness   any
}

// judge applies the statement to one accepted step old -> new that ends the
// history hist (hist[0] is the starting position, hist[len-1] == old).
// via is the update that caused the step (== new except for the voteproofs
// store, where the cap may move to another stored voteproof).
func judge(form string, hist []pos, nw, via pos, scUpdateSeen ...bool) []finding {
	old := hist[len(hist)-1]
	var out []finding
	wit := func() any {
		h := make([]string, len(hist))
		for i := range hist {
			h[i] = hist[i].String()
		}
		return map[string]any{"form": form, "history": h, "update": via.String(), "new_position": nw.String()}
	}
	if old.isZero() {
		return nil
	}
	c := cmpSP(nw, old)
	// height never decreases
	if nw.H < old.H {
		out = append(out, finding{form + ":height-decreased", fmt.Sprintf("%s: position moved %s -> %s (lower height)", form, old, nw), wit()})
		return out
	}
	// within a height: to an earlier (round, stage) only to take a
	// suffrage-confirm result while the current position is not a majority
	if nw.H == old.H && c < 0 {
		if !via.SC || old.Maj {
			out = append(out, finding{
				fmt.Sprintf("%s:backward-step:update=%s:from-majority=%v", form, via.kind(), old.Maj),
				fmt.Sprintf("%s: position moved back %s -> %s by update %s", form, old, nw, via), wit(),
			})
		}
	}
	// never the same position twice, except majority replacing non-majority at
	// the same stage point
	first := -1
	for j := len(hist) - 1; j >= 0; j-- {
		if samePosition(hist[j], nw) {
			first = j
			break
		}
	}
	// exception, read generously: the step replaces a non-majority by a majority
	// at the current stage point, or the previous take of this very position
	// was a non-majority and this one is a majority
	if first >= 0 && !(c == 0 && !old.Maj && nw.Maj) && !(!hist[first].Maj && nw.Maj) {
		dir := "same-point"
		switch {
		case c < 0:
			dir = "backward"
		case c > 0:
			dir = "forward"
		}
		rewind := c < 0
		for j := first + 1; j < len(hist); j++ {
			if cmpSP(hist[j], hist[j-1]) < 0 {
				rewind = true
			}
		}
		var sig string
		switch {
		case c < 0:
			// the step that re-takes the position is itself a step back
			sig = fmt.Sprintf("%s:retaken-by-backward-step:to=%s", form, nw.kind())
		case rewind:
			// re-taken by a forward/same-point step after the history stepped back in between
			sig = form + ":retaken-after-backward-step"
		default:
			sig = fmt.Sprintf("%s:retaken-without-backward-step:step=%s:to=%s", form, dir, nw.kind())
		}
		// every re-take the unchanged code allows goes through a suffrage-confirm
		// step back; one that happens without any suffrage-confirm position in the
		// history is another failure
		hasSC := nw.SC || via.SC || (len(scUpdateSeen) > 0 && scUpdateSeen[0])
		for j := range hist {
			if hist[j].SC {
				hasSC = true
			}
		}
		if !hasSC {
			sig += ":no-sc-in-history"
		}
		out = append(out, finding{sig,
			fmt.Sprintf("%s: position %s taken a second time (first at step %d) by step %s -> %s", form, nw.kind(), first, old, nw), wit()})
	}
	return out
}

// local accumulation (merged into the run under one lock)
type acc struct {
	evals    int
	distinct map[dkey]struct{}
	counts   map[string]int
	finds    map[string]finding
	accepted map[string]int
	rejected map[string]int
}

type dkey struct {
	form      string
	old, cand pos
	ok        bool
}

func newAcc() *acc {
	return &acc{distinct: map[dkey]struct{}{}, counts: map[string]int{}, finds: map[string]finding{}, accepted: map[string]int{}, rejected: map[string]int{}}
}

func (a *acc) step(form string, old, cand pos, ok bool) {
	a.evals++
	a.distinct[dkey{form, old, cand, ok}] = struct{}{}
	if ok {
		a.accepted[form]++
	} else {
		a.rejected[form]++
	}
}

func (a *acc) add(fs []finding) {
	for _, f := range fs {
		a.counts["oracle_alarms"]++
		if _, ok := a.finds[f.Sig]; !ok {
			a.finds[f.Sig] = f
		}
	}
}

func (a *acc) flush(r *vlib.Run, mu *sync.Mutex, all map[string]finding) {
	r.Eval(a.evals)
	for k := range a.distinct {
		r.Distinct(fmt.Sprintf("%s|%s|%s|%v", k.form, k.old, k.cand, k.ok))
	}
	for k, v := range a.accepted {
		r.Count(k+"_accepted_steps", v)
	}
	for k, v := range a.rejected {
		r.Count(k+"_rejected_steps", v)
	}
	for k, v := range a.counts {
		r.Count(k, v)
	}
	mu.Lock()
	for k, f := range a.finds {
		if _, ok := all[k]; !ok {
			all[k] = f
		}
	}
	mu.Unlock()
}

// lower-height candidates must be rejected in both pure forms
func judgeLowerHeight(form string, old, cand pos, ok bool) []finding {
	if !old.isZero() && cand.H < old.H && ok {
		return []finding{{form + ":lower-height-accepted",
			fmt.Sprintf("%s accepted %s while at %s", form, cand, old),
			map[string]any{"form": form, "current": old.String(), "candidate": cand.String()}}}
	}
	return nil
}

func newBox() *isaacstates.Ballotbox {
	return isaacstates.NewBallotbox(base.RandomAddress(""), func() base.Threshold { return base.Threshold(67) },
		func(base.Height) (base.Suffrage, bool, error) { return nil, false, nil })
}

// voteproof objects for the last-voteproofs store
func newVoteproof(p pos) base.Voteproof {
	point := base.RawPoint(p.H, p.R)
	if p.A {
		vp := isaac.NewACCEPTVoteproof(point)
		if p.Maj {
			vp.SetMajority(isaac.NewACCEPTBallotFact(point, valuehash.RandomSHA256(), valuehash.RandomSHA256(), nil))
		}
		vp.SetThreshold(base.Threshold(67)).Finish()
		return vp
	}
	vp := isaac.NewINITVoteproof(point)
	switch {
	case p.SC:
		vp.SetMajority(isaac.NewSuffrageConfirmBallotFact(point, valuehash.RandomSHA256(), valuehash.RandomSHA256(),
			[]util.Hash{valuehash.RandomSHA256()}))
	case p.Maj:
		vp.SetMajority(isaac.NewINITBallotFact(point, valuehash.RandomSHA256(), valuehash.RandomSHA256(), nil))
	}
	vp.SetThreshold(base.Threshold(67)).Finish()
	return vp
}

func posOfVoteproof(vp base.Voteproof) pos {
	if vp == nil {
		return zero
	}
	sp := vp.Point()
	return pos{
		H: sp.Height().Int64(), R: sp.Round().Uint64(), A: sp.Stage() == base.StageACCEPT,
		Maj: vp.Result() == base.VoteResultMajority,
		SC:  vp.Majority() != nil && isaac.IsSuffrageConfirmBallotFact(vp.Majority()),
	}
}

func TestC06(t *testing.T) {
	r := vlib.Start(t, "C06", vlib.LevelExploration)
	defer r.Finish()
	r.SetRule("case = one attempted update (current position, candidate) at one of four boundaries: pure LastPoint.Before/IsNewBallot, pure IsNewVoteproofbyPoint, a real Ballotbox.SetLastPoint, a real LastVoteproofsHandler.Set with real voteproof objects (position = Last().Cap()); positions (height in 33..35, round 0..2, INIT/ACCEPT, majority, suffrage-confirm for INIT); all histories of accepted updates up to the stated depth from every start incl. the zero point, plus random walks; concurrent phase: 8 goroutines Set real voteproofs / SetLastPoint of 8 heights on one handler / box while they and 2 observers sample the position (height never decreases per goroutine, no step back without a suffrage-confirm update, final height = greatest offered); distinct = (boundary, current, candidate, accepted); counting boundary (Ballotbox.count / Ballotbox.Vote): a real Ballotbox of a 4-node suffrage (threshold 67, local node a member) is driven through histories of real signed ballots, each checked with IsValid and carrying the voteproof IsValid asks for — INIT (with the ACCEPT majority of the previous height, or the INIT / ACCEPT draw of the previous round), INIT with an expel, suffrage-confirm (with the ordinary INIT majority expel voteproof of its point, or of an earlier round / lower height with the same previous block and proposal), ACCEPT and ACCEPT with an expel (with the ordinary, expel or suffrage-confirm INIT majority) — a part of the ballots carrying these voteproofs made under a valid threshold below the box's (60 < 67: the box counts the ballot and leaves the voteproof) — (a) every sequence of stage outcomes (INIT majority / expel majority / draw, suffrage-confirm majority / below threshold, the suffrage-confirm majority of the previous round arriving late, ACCEPT majority / draw) up to the stated depth from height 33, ballots of the voters in random order with Count() in between, followed in random order by one ballot of every kind and embedded-voteproof flavour for every round of the reached height and the height below (late ballots), (b) random walks over the same outcomes plus below-threshold stages with random ballots of the heights h-1..h+1 between the ballots; after every Vote (once the goroutines it started are gone) and every Count, Ballotbox.LastPoint() is read and the statement is applied to the sequence of positions; a ballot for a height below the position must not be voted (probed after every move); distinct there = (position relative to the ballot, ballot kind, variant, embedded voteproof, voted, moved)")
	r.Assume("counting boundary: the position is what Ballotbox.LastPoint() returns; re-taking a position after the permitted suffrage-confirm step back, seen through counting, is the behaviour recorded for Ballotbox.SetLastPoint (the count stores through it) and is reported under those two signatures; every other alarm of that boundary carries Ballotbox.count / Ballotbox.Vote and says whether a suffrage-confirm result is in the history")
	r.Assume("counting boundary: the suffrage is known for every height, the ticker daemon is not started and the hold of an INIT draw with uncounted expels is never released (countAfter 24h), so every position move happens inside a Vote / Count step of the history")
	r.Assume("LastVoteproofsHandler.ForceSetLast is a deliberate override and is not driven")
	r.Assume("a suffrage-confirm candidate always has stage INIT (NewLastPoint refuses anything else; suffrage-confirm facts are INIT facts)")
	r.Assume("LastVoteproofsHandler.Set returning true for a voteproof that only fills a missing slot (fillMissing, e.g. the previous height's ACCEPT) is not an accepted position: the position judged against is Last().Cap(); rejection of a lower height = IsNew false and Cap unchanged")
	r.Assume("for the voteproofs store an update judged new and stored is a position taken: offered again at once it must not be new again, and unless it is a suffrage-confirm result taken by a step back it must be what Last().Cap() returns")
	r.Assume("for the voteproofs store a step back is judged by the update that caused it (a suffrage-confirm voteproof while the cap is not a majority), since the cap may land on another stored voteproof")
	r.Assume("a suffrage-confirm position is always a majority (NewLastPointFromVoteproof, the only producer in the real callers, derives suffrage-confirm from the majority fact), so (non-majority, suffrage-confirm) is not generated: 45 positions")
	r.Assume("position = (height, round, stage, suffrage-confirm); the exception of the statement is read generously: a position may be taken again when the step replaces a non-majority by a majority at the current stage point, or when its previous take was a non-majority and the new one is a majority")
	r.Exhaustive(true)
	t0 := time.Now()
	lap := func(name string) { r.Logf("phase %s done at %.1fs", name, time.Since(t0).Seconds()) }

	var mu sync.Mutex
	all := map[string]finding{}

	dom := domain()
	starts := append([]pos{zero}, dom...)

	// ---- (2) pure forms: DFS over accepted histories -----------------------
	depth := r.N(4, 5)
	r.Set("pure_history_depth_accepted_steps", depth)
	forms := []struct {
		name string
		f    func(last isaac.LastPoint, c pos) bool
	}{
		{"LastPoint.Before", func(last isaac.LastPoint, c pos) bool {
			a := isaac.IsNewBallot(last, c.sp(), c.SC)
			if b := last.Before(c.sp(), c.SC); a != b {
				panic("IsNewBallot != Before")
			}
			return a
		}},
		{"IsNewVoteproofbyPoint", func(last isaac.LastPoint, c pos) bool {
			return isaac.IsNewVoteproofbyPoint(last, c.sp(), c.Maj, c.SC)
		}},
	}
	type job struct {
		form  int
		start pos
	}
	var jobs []job
	for fi := range forms {
		for _, s := range starts {
			jobs = append(jobs, job{fi, s})
		}
	}
	vlib.Parallel(len(jobs), 16, func(i int) {
		a := newAcc()
		defer a.flush(r, &mu, all)
		fm := forms[jobs[i].form]
		var dfs func(hist []pos)
		dfs = func(hist []pos) {
			old := hist[len(hist)-1]
			last := lastPoint(old)
			for _, c := range dom {
				ok := fm.f(last, c)
				a.step(fm.name, old, c, ok)
				a.add(judgeLowerHeight(fm.name, old, c, ok))
				if !ok {
					continue
				}
				a.add(judge(fm.name, hist, c, c))
				if len(hist) <= depth-1 {
					dfs(append(hist, c))
				} else {
					a.counts[fm.name+"_histories"]++
				}
			}
		}
		r.Guard(fm.name, jobs[i].start.String(), func() { dfs([]pos{jobs[i].start}) })
	})

	lap("pure")
	// ---- (1) real Ballotbox.SetLastPoint ---------------------------------
	boxDepth := r.N(1, 2)
	r.Set("ballotbox_history_depth_accepted_steps", boxDepth)
	const boxForm = "Ballotbox.SetLastPoint"
	replayBox := func(a *acc, hist []pos) *isaacstates.Ballotbox {
		box := newBox()
		a.counts["ballotboxes_built"]++
		for _, p := range hist {
			if p.isZero() {
				continue
			}
			if !box.SetLastPoint(lastPoint(p)) {
				panic(fmt.Sprintf("replay of accepted history refused at %s", p))
			}
		}
		return box
	}
	boxAttempt := func(a *acc, box *isaacstates.Ballotbox, hist []pos, c pos) bool {
		old := hist[len(hist)-1]
		if got := fromLastPoint(box.LastPoint()); got != old {
			a.add([]finding{{boxForm + ":state-diverged", fmt.Sprintf("LastPoint() = %s, expected %s", got, old), nil}})
		}
		ok := box.SetLastPoint(lastPoint(c))
		a.step(boxForm, old, c, ok)
		after := fromLastPoint(box.LastPoint())
		switch {
		case ok && after != c:
			a.add([]finding{{boxForm + ":accepted-but-not-stored", fmt.Sprintf("SetLastPoint(%s) true at %s, LastPoint() = %s", c, old, after), nil}})
		case !ok && after != old:
			a.add([]finding{{boxForm + ":rejected-but-changed", fmt.Sprintf("SetLastPoint(%s) false at %s, LastPoint() = %s", c, old, after), nil}})
		}
		a.add(judgeLowerHeight(boxForm, old, c, ok))
		if ok {
			a.add(judge(boxForm, hist, c, c))
		}
		return ok
	}
	vlib.Parallel(len(starts), 16, func(i int) {
		a := newAcc()
		defer a.flush(r, &mu, all)
		var explore func(hist []pos)
		explore = func(hist []pos) {
			box := replayBox(a, hist)
			for _, c := range dom {
				if !boxAttempt(a, box, hist, c) {
					continue
				}
				if len(hist) <= boxDepth-1 {
					explore(append(append([]pos{}, hist...), c))
				}
				box = replayBox(a, hist)
			}
		}
		r.Guard(boxForm, starts[i].String(), func() { explore([]pos{starts[i]}) })
	})
	// directed histories (the three shapes the pure enumeration alarms on), so
	// that the real box sees them at every seed
	directed := [][]pos{
		{{H: 33, R: 0, Maj: true, SC: true}, {H: 33, R: 0, A: true}, {H: 33, R: 0, Maj: true, SC: true}},
		{{H: 33, R: 0, A: true}, {H: 33, R: 0, Maj: true, SC: true}, {H: 33, R: 0, A: true}},
		{{H: 33, R: 1, Maj: true, SC: true}, {H: 33, R: 2}, {H: 33, R: 0, Maj: true, SC: true}, {H: 33, R: 1, Maj: true}, {H: 33, R: 1, Maj: true, SC: true}},
		{{H: 33, R: 0, Maj: true}, {H: 33, R: 0, A: true, Maj: true}, {H: 34, R: 0, Maj: true}, {H: 33, R: 0, A: true, Maj: true}, {H: 34, R: 0, Maj: true}},
	}
	func() {
		a := newAcc()
		defer a.flush(r, &mu, all)
		for _, d := range directed {
			box := newBox()
			a.counts["ballotboxes_built"]++
			hist := []pos{zero}
			for _, c := range d {
				if boxAttempt(a, box, hist, c) {
					hist = append(hist, c)
				}
			}
			a.counts["ballotbox_directed_histories"]++
		}
	}()
	lap("box-exhaustive")
	// random walks on one box each (long histories)
	walks := r.N(300, 6000)
	vlib.Parallel(walks, 16, func(i int) {
		a := newAcc()
		defer a.flush(r, &mu, all)
		rng := r.Rand(1, i)
		hist := []pos{zero}
		box := newBox()
		a.counts["ballotboxes_built"]++
		r.Guard(boxForm, i, func() {
			for k := 0; k < 200; k++ {
				c := dom[rng.Intn(len(dom))]
				if rng.Intn(3) == 0 { // stay near the current position
					cur := hist[len(hist)-1]
					if !cur.isZero() {
						c = dom[rng.Intn(len(dom))]
						c.H = cur.H
					}
				}
				if boxAttempt(a, box, hist, c) {
					hist = append(hist, c)
				}
			}
		})
		a.counts["ballotbox_walk_accepted_steps"] += len(hist) - 1
	})

	lap("box-walks")
	// ---- (1b) positions the real Ballotbox takes by itself when it counts ---
	countPhase(r, &mu, all)
	lap("box-count-histories")
	// ---- (3) real LastVoteproofsHandler with real voteproof objects -------
	const hForm = "LastVoteproofsHandler.Set"
	vdom := domain()
	vps := make([][2]base.Voteproof, len(vdom))
	for i := range vdom {
		vps[i] = [2]base.Voteproof{newVoteproof(vdom[i]), newVoteproof(vdom[i])}
		if got := posOfVoteproof(vps[i][0]); got != vdom[i] {
			t.Fatalf("voteproof construction: %s != %s", got, vdom[i])
		}
	}
	r.Set("voteproof_positions", len(vdom))
	// run one attempted sequence on a fresh handler
	runSeq := func(a *acc, seq []int, variant func(k int) int) {
		h := isaac.NewLastVoteproofsHandler()
		hist := []pos{zero}
		var trace []string
		seqHasSC := false
		for k, idx := range seq {
			vp := vps[idx][variant(k)]
			c := vdom[idx]
			before := h.Last().Cap()
			old := posOfVoteproof(before)
			isnew := h.IsNew(vp)
			if lv := h.Last(); lv.IsNew(vp) != isnew {
				a.add([]finding{{hForm + ":IsNew-disagrees-with-Last().IsNew", fmt.Sprintf("at %s candidate %s", old, c), append(trace, c.String())}})
			}
			set := h.Set(vp)
			after := h.Last().Cap()
			nw := posOfVoteproof(after)
			trace = append(trace, fmt.Sprintf("%s:new=%v:set=%v:cap=%s", c, isnew, set, nw))
			moved := after != nil && (before == nil || after.ID() != before.ID())
			a.step(hForm, old, c, moved)
			if isnew {
				a.counts[hForm+"_isnew_true"]++
			}
			if set && !isnew {
				a.counts[hForm+"_set_true_by_fill_missing"]++
			}
			wit := map[string]any{"form": hForm, "trace": append([]string{}, trace...)}
			if isnew && !set {
				a.add([]finding{{hForm + ":IsNew-true-but-Set-false", fmt.Sprintf("at %s candidate %s", old, c), wit}})
			}
			if !isnew && moved {
				a.add([]finding{{hForm + ":cap-moved-by-not-new-voteproof", fmt.Sprintf("cap %s -> %s by %s which IsNew rejected", old, nw, c), wit}})
			}
			if before != nil && c.H < old.H && (isnew || moved) {
				a.add([]finding{{hForm + ":lower-height-accepted", fmt.Sprintf("at %s voteproof %s: IsNew=%v cap moved=%v", old, c, isnew, moved), wit}})
			}
			if after == nil && before != nil {
				a.add([]finding{{hForm + ":cap-lost", fmt.Sprintf("cap nil after %s", c), wit}})
			}
			if c.SC {
				seqHasSC = true
			}
			if isnew && set {
				a.counts[hForm+"_accepted_updates"]++
				scs := "sc-in-history"
				if !seqHasSC {
					scs = "no-sc-in-history"
				}
				// an accepted update is a position taken: offered again it must not be new again
				if h.IsNew(vp) {
					a.counts[hForm+"_accepted_update_still_new"]++
					a.add([]finding{{fmt.Sprintf("%s:accepted-update-is-still-new:update=%s:%s", hForm, c.kind(), scs),
						fmt.Sprintf("%s: voteproof %s was judged new and stored at position %s, the position is now %s and the same voteproof is judged new again", hForm, c, old, nw), wit}})
				}
				// the position judged against must be the accepted update, except that a
				// suffrage-confirm result taken by a step back may leave a later stored ACCEPT as the cap
				if nw != c && !c.SC {
					why := "other"
					if cmpSP(c, nw) > 0 && c.H == nw.H && c.R > nw.R {
						why = "higher-round-ignored"
					}
					a.add([]finding{{fmt.Sprintf("%s:cap-is-not-the-accepted-update:%s:update=%s:%s", hForm, why, c.kind(), scs),
						fmt.Sprintf("%s: voteproof %s was judged new and stored at position %s, but Last().Cap() is %s", hForm, c, old, nw), wit}})
				}
			}
			if moved {
				if nw != c {
					a.counts[hForm+"_cap_moved_to_other_stored_voteproof"]++
				}
				fs := judge(hForm, hist, nw, c, seqHasSC)
				for i := range fs {
					if nw != c {
						fs[i].Sig += ":cap-is-not-the-update"
					}
					fs[i].Witness = wit
				}
				a.add(fs)
				hist = append(hist, nw)
			}
		}
		a.counts[hForm+"_sequences"]++
	}
	seqLen := r.N(3, 4)
	r.Set("voteproofs_store_exhaustive_sequence_length", seqLen)
	nv := len(vdom)
	total := 1
	for i := 0; i < seqLen-1; i++ {
		total *= nv
	}
	// first element fixed per job; the remaining seqLen-1 enumerated
	vlib.Parallel(nv, 16, func(first int) {
		a := newAcc()
		defer a.flush(r, &mu, all)
		seq := make([]int, seqLen)
		seq[0] = first
		r.Guard(hForm, first, func() {
			for x := 0; x < total; x++ {
				y := x
				for k := 1; k < seqLen; k++ {
					seq[k] = y % nv
					y /= nv
				}
				runSeq(a, seq, func(int) int { return 0 })
			}
		})
	})
	lap("store-exhaustive")
	nrand := r.N(10000, 1000000)
	chunk := 500
	vlib.Parallel((nrand+chunk-1)/chunk, 16, func(ci int) {
		a := newAcc()
		defer a.flush(r, &mu, all)
		for i := ci * chunk; i < (ci+1)*chunk && i < nrand; i++ {
			rng := r.Rand(2, i)
			seq := make([]int, 12)
			vr := make([]int, 12)
			// half of the walks stay within one height (that is where
			// backward steps exist)
			oneHeight := rng.Intn(2) == 0
			hsel := int64(33 + rng.Intn(3))
			for k := range seq {
				for {
					seq[k] = rng.Intn(nv)
					if !oneHeight || vdom[seq[k]].H == hsel || rng.Intn(6) == 0 {
						break
					}
				}
				vr[k] = rng.Intn(2)
			}
			r.Guard(hForm, seq, func() { runSeq(a, seq, func(k int) int { return vr[k] }) })
		}
	})

	lap("store-random")
	// ---- (4) concurrent use ----------------------------------------------
	// Both stores carry their own lock and are called from several goroutines
	// of a running node, so the statement must also hold for concurrent
	// updates: whatever the interleaving, every goroutine sees the height of
	// the position never decrease; without suffrage-confirm updates in play
	// the stage point never moves back either; and when all updates are done
	// the position has the greatest height that was offered.
	type cfind struct {
		sig, what string
		wit       any
	}
	var cmu sync.Mutex
	cfinds := map[string]cfind{}
	report := func(sig, what string, wit any) {
		cmu.Lock()
		if _, ok := cfinds[sig]; !ok {
			cfinds[sig] = cfind{sig, what, wit}
		}
		cmu.Unlock()
	}
	// monotone watches one goroutine's samples of a position
	type monotone struct {
		form   string
		withSC bool
		last   pos
		trace  []string
		n      int
	}
	watch := func(m *monotone, now pos) {
		m.n++
		if now == m.last {
			return
		}
		if len(m.trace) < 40 {
			m.trace = append(m.trace, now.String())
		}
		if !m.last.isZero() {
			switch {
			case now.isZero():
				report(m.form+":concurrent:position-lost", fmt.Sprintf("%s: position %s then empty", m.form, m.last), append([]string{}, m.trace...))
			case now.H < m.last.H:
				report(m.form+":concurrent:height-decreased", fmt.Sprintf("%s: one goroutine saw the position at %s and later at %s", m.form, m.last, now), append([]string{}, m.trace...))
			case !m.withSC && cmpSP(now, m.last) < 0:
				report(m.form+":concurrent:moved-back-without-suffrage-confirm", fmt.Sprintf("%s: one goroutine saw the position at %s and later at %s; no suffrage-confirm update exists in this run", m.form, m.last, now), append([]string{}, m.trace...))
			}
		}
		m.last = now
	}
	var cdom []pos // positions offered concurrently: 8 heights
	for h := int64(34); h <= 41; h++ {
		for _, rd := range []uint64{0, 1} {
			for _, maj := range []bool{true, false} {
				cdom = append(cdom, pos{H: h, R: rd, Maj: maj}, pos{H: h, R: rd, A: true, Maj: maj})
				if maj {
					cdom = append(cdom, pos{H: h, R: rd, Maj: true, SC: true})
				}
			}
		}
	}
	cvps := make([]base.Voteproof, len(cdom))
	for i := range cdom {
		cvps[i] = newVoteproof(cdom[i])
	}
	startVP := newVoteproof(pos{H: 33, R: 0, Maj: true})
	trials := r.N(20000, 200000)
	const setters = 8
	var samplesSeen, setsDone int64
	var smu sync.Mutex
	inter := map[string]struct{}{}
	runTrial := func(form string, ti int) {
		rng := r.Rand(6, ti)
		withSC := ti%3 == 2
		// what each setter offers: trial kinds: one voteproof each (a ladder of
		// heights), or a few each
		per := 1 + (ti%4)/2*2
		var offers [setters][]int
		maxH := int64(33)
		for g := 0; g < setters; g++ {
			for k := 0; k < per; k++ {
				var idx int
				for {
					idx = rng.Intn(len(cdom))
					if withSC || !cdom[idx].SC {
						break
					}
				}
				if ti%2 == 0 && k == 0 { // distinct heights, one per setter
					for cdom[idx].H != int64(34+g) || (!withSC && cdom[idx].SC) {
						idx = rng.Intn(len(cdom))
					}
				}
				offers[g] = append(offers[g], idx)
				if cdom[idx].H > maxH {
					maxH = cdom[idx].H
				}
			}
		}
		var h *isaac.LastVoteproofsHandler
		var box *isaacstates.Ballotbox
		read := func() pos { return posOfVoteproof(h.Last().Cap()) }
		if form == hForm {
			h = isaac.NewLastVoteproofsHandler()
			h.Set(startVP)
		} else {
			box = newBox()
			box.SetLastPoint(lastPoint(pos{H: 33, R: 0, Maj: true}))
			read = func() pos { return fromLastPoint(box.LastPoint()) }
		}
		var wg sync.WaitGroup
		start := make(chan struct{})
		var done int32
		mons := make([]*monotone, setters+2)
		for g := 0; g < setters; g++ {
			mons[g] = &monotone{form: form, withSC: withSC}
			wg.Add(1)
			go func(g int) {
				defer wg.Done()
				m := mons[g]
				<-start
				for _, idx := range offers[g] {
					watch(m, read())
					if h != nil {
						h.Set(cvps[idx])
					} else {
						box.SetLastPoint(lastPoint(cdom[idx]))
					}
					watch(m, read())
				}
			}(g)
		}
		var owg sync.WaitGroup
		for o := 0; o < 2; o++ {
			mons[setters+o] = &monotone{form: form, withSC: withSC}
			owg.Add(1)
			go func(m *monotone) {
				defer owg.Done()
				<-start
				for atomic.LoadInt32(&done) == 0 {
					watch(m, read())
					runtime.Gosched()
				}
				watch(m, read())
			}(mons[setters+o])
		}
		close(start)
		wg.Wait()
		atomic.StoreInt32(&done, 1)
		owg.Wait()
		final := read()
		if final.H != maxH {
			var offered []string
			for g := range offers {
				for _, idx := range offers[g] {
					offered = append(offered, cdom[idx].String())
				}
			}
			report(form+":concurrent:final-height-below-greatest-offered", fmt.Sprintf("%s: after %d concurrent updates finished the position is %s, greatest height offered %d", form, setters*per, final, maxH), map[string]any{"offered_by_8_goroutines": offered, "final": final.String()})
		}
		var ns int
		for _, m := range mons {
			ns += m.n
		}
		atomic.AddInt64(&samplesSeen, int64(ns))
		atomic.AddInt64(&setsDone, int64(setters*per))
		smu.Lock()
		if len(inter) < 200000 {
			inter[form+"|"+strings.Join(mons[setters].trace, ">")] = struct{}{}
		}
		smu.Unlock()
	}
	okc := r.WithWatchdog(10*time.Minute, "concurrent-updates", func() {
		vlib.Parallel(trials, 4, func(ti int) {
			r.Guard(hForm+":concurrent", ti, func() { runTrial(hForm, ti) })
		})
		// a Ballotbox costs ~1 MB to build: fewer trials
		vlib.Parallel(trials/10, 4, func(ti int) {
			r.Guard(boxForm+":concurrent", ti, func() { runTrial(boxForm, ti) })
		})
	})
	if !okc {
		return
	}
	r.Eval(int(setsDone))
	r.Count("concurrent_trials", trials+trials/10)
	r.Count("concurrent_updates", int(setsDone))
	r.Count("concurrent_position_samples", int(samplesSeen))
	for k := range inter {
		r.SetAdd("interleavings_seen", k)
	}
	{
		ks := make([]string, 0, len(cfinds))
		for k := range cfinds {
			ks = append(ks, k)
		}
		sort.Strings(ks)
		for _, k := range ks {
			r.Violation(cfinds[k].sig, cfinds[k].what, cfinds[k].wit)
		}
	}
	lap("concurrent")
	// ---- report -----------------------------------------------------------
	sigs := make([]string, 0, len(all))
	for s := range all {
		sigs = append(sigs, s)
	}
	sort.Strings(sigs)
	for _, s := range sigs {
		f := all[s]
		r.Violation(f.Sig, f.What, f.Witness)
	}
	r.Set("alarm_signatures", sigs)
	r.Sample(map[string]any{"boundary": "LastPoint.Before", "current": pos{H: 33, R: 1, Maj: false}.String(), "candidate": pos{H: 33, R: 0, Maj: true, SC: true}.String(),
		"accepted": isaac.IsNewBallot(lastPoint(pos{H: 33, R: 1}), pos{H: 33, R: 0, SC: true}.sp(), true)})
	r.Sample(map[string]any{"boundary": "IsNewVoteproofbyPoint", "current": pos{H: 33, R: 0, Maj: false}.String(), "candidate": pos{H: 33, R: 0, Maj: true}.String(),
		"accepted": isaac.IsNewVoteproofbyPoint(lastPoint(pos{H: 33, R: 0}), pos{H: 33, R: 0}.sp(), true, false)})
	r.Sample(map[string]any{"boundary": "LastPoint.Before", "current": pos{H: 34, R: 0, Maj: true}.String(), "candidate": pos{H: 33, R: 2, A: true, Maj: true}.String(),
		"accepted": isaac.IsNewBallot(lastPoint(pos{H: 34, R: 0, Maj: true}), pos{H: 33, R: 2, A: true}.sp(), false)})
}
