package c06

// The position of a running node's ballotbox is not only moved through
// SetLastPoint: the box moves it itself whenever a count (started by Vote or
// Count) produces voteproofs — voteproofs counted from the ballots, and
// voteproofs embedded in the ballots. This file drives a real Ballotbox with
// histories of real, signed, IsValid-checked ballots and applies the statement
// of C06 to the sequence of positions Ballotbox.LastPoint() shows after every
// Vote / Count step.

import (
	"bytes"
	"fmt"
	"math/rand"
	"runtime"
	"strings"
	"sync"
	"sync/atomic"
	"time"

	"github.com/spikeekips/mitum/base"
	"github.com/spikeekips/mitum/isaac"
	isaacstates "github.com/spikeekips/mitum/isaac/states"
	"github.com/spikeekips/mitum/util"
	"github.com/spikeekips/mitum/util/valuehash"
	"verifharness/vlib"
)

const (
	setLastPointForm = "Ballotbox.SetLastPoint"
	countForm        = "Ballotbox.count"
	voteForm         = "Ballotbox.Vote"
)

// ---- the world: 4 signing nodes, one fixed suffrage, threshold 67 ---------

type cpoint struct {
	H int64
	R uint64
}

func (p cpoint) point() base.Point { return base.RawPoint(p.H, p.R) }
func (p cpoint) String() string    { return fmt.Sprintf("%d/%d", p.H, p.R) }

type cworld struct {
	nid    base.NetworkID
	nodes  []base.LocalNode
	suf    base.Suffrage
	th     base.Threshold
	expels []base.SuffrageExpelOperation // node 3 expelled, signed by 0,1,2

	mu     sync.Mutex
	sfs    map[string]base.BallotSignFact
	vps    map[string]base.Voteproof
	bls    map[string]*cballot
	rigVPs map[string]pos // ID of every voteproof the rig built -> its position

	deferCheck atomic.Bool // ballots are IsValid-checked later, by checkBallot
	invalid    string      // first ballot that did not pass IsValid
}

// cballot is one real ballot with what the monitor needs to know about it.
type cballot struct {
	bl   base.Ballot
	kind string
	desc string // canonical, without the node
	cand pos    // stage point (+ suffrage-confirm) the ballot votes for
	emb  pos    // position of the embedded voteproof
	node int
	key  string
}

var theCWorld = sync.OnceValue(func() *cworld {
	w := &cworld{
		nid:    base.NetworkID([]byte("verif-c06-count-network")),
		th:     base.Threshold(67),
		sfs:    map[string]base.BallotSignFact{},
		vps:    map[string]base.Voteproof{},
		bls:    map[string]*cballot{},
		rigVPs: map[string]pos{},
	}
	nodes := make([]base.Node, 4)
	for i := range nodes {
		priv, err := base.NewMPrivatekeyFromSeed(fmt.Sprintf("verif-c06-count-rig-key-seed-padding-padding-%02d", i))
		if err != nil {
			panic(err)
		}
		l := isaac.NewLocalNode(priv, base.NewStringAddress(fmt.Sprintf("cn%02d", i)))
		w.nodes = append(w.nodes, l)
		nodes[i] = l
	}
	suf, err := isaac.NewSuffrage(nodes)
	if err != nil {
		panic(err)
	}
	w.suf = suf
	fact := isaac.NewSuffrageExpelFact(w.nodes[3].Address(), base.Height(20), base.Height(1000), "verif c06 expel")
	op := isaac.NewSuffrageExpelOperation(fact)
	for i := 0; i < 3; i++ {
		if err := op.NodeSign(w.nodes[i].Privatekey(), w.nid, w.nodes[i].Address()); err != nil {
			panic(err)
		}
	}
	if err := op.IsValid(w.nid); err != nil {
		panic(err)
	}
	w.expels = []base.SuffrageExpelOperation{op}
	return w
})

func (w *cworld) getSuffrage(base.Height) (base.Suffrage, bool, error) { return w.suf, true, nil }

func (w *cworld) exOps() []base.SuffrageExpelOperation {
	return append([]base.SuffrageExpelOperation{}, w.expels...)
}

func (w *cworld) exFacts(ex bool) []util.Hash {
	if !ex {
		return nil
	}
	return []util.Hash{w.expels[0].Fact().Hash()}
}

func cblock(h int64, v string) util.Hash {
	return valuehash.NewSHA256([]byte(fmt.Sprintf("c06-block-%d-%s", h, v)))
}

func cproposal(p cpoint, v string) util.Hash {
	return valuehash.NewSHA256([]byte(fmt.Sprintf("c06-proposal-%d-%d-%s", p.H, p.R, v)))
}

// facts. bind is the point whose previous block / proposal hashes the fact
// carries (== p except for the voteproof a suffrage-confirm ballot of another
// point may carry: IsValid compares these hashes, not the points).
func (w *cworld) initFact(p, bind cpoint, v string, ex bool) isaac.INITBallotFact {
	return isaac.NewINITBallotFact(p.point(), cblock(bind.H-1, "A"), cproposal(bind, v), w.exFacts(ex))
}

func (w *cworld) scFact(p, bind cpoint) isaac.SuffrageConfirmBallotFact {
	return isaac.NewSuffrageConfirmBallotFact(p.point(), cblock(bind.H-1, "A"), cproposal(bind, "A"), w.exFacts(true))
}

func (w *cworld) acceptFact(p cpoint, v string, ex bool) isaac.ACCEPTBallotFact {
	return isaac.NewACCEPTBallotFact(p.point(), cproposal(p, v), cblock(p.H, v), w.exFacts(ex))
}

func (w *cworld) signINIT(n int, fact base.INITBallotFact) isaac.INITBallotSignFact {
	k := fmt.Sprintf("i/%d/%T/%s", n, fact, fact.Hash())
	w.mu.Lock()
	v, ok := w.sfs[k]
	w.mu.Unlock()
	if ok {
		return v.(isaac.INITBallotSignFact)
	}
	sf := isaac.NewINITBallotSignFact(fact)
	if err := sf.NodeSign(w.nodes[n].Privatekey(), w.nid, w.nodes[n].Address()); err != nil {
		panic(err)
	}
	w.mu.Lock()
	defer w.mu.Unlock()
	if v, ok := w.sfs[k]; ok {
		return v.(isaac.INITBallotSignFact)
	}
	w.sfs[k] = sf
	return sf
}

func (w *cworld) signACCEPT(n int, fact base.ACCEPTBallotFact) isaac.ACCEPTBallotSignFact {
	k := fmt.Sprintf("a/%d/%T/%s", n, fact, fact.Hash())
	w.mu.Lock()
	v, ok := w.sfs[k]
	w.mu.Unlock()
	if ok {
		return v.(isaac.ACCEPTBallotSignFact)
	}
	sf := isaac.NewACCEPTBallotSignFact(fact)
	if err := sf.NodeSign(w.nodes[n].Privatekey(), w.nid, w.nodes[n].Address()); err != nil {
		panic(err)
	}
	w.mu.Lock()
	defer w.mu.Unlock()
	if v, ok := w.sfs[k]; ok {
		return v.(isaac.ACCEPTBallotSignFact)
	}
	w.sfs[k] = sf
	return sf
}

func (w *cworld) storeVP(k string, vp base.Voteproof) base.Voteproof {
	if err := vp.IsValid(w.nid); err != nil {
		panic(fmt.Sprintf("rig voteproof %s invalid: %+v", k, err))
	}
	if err := isaac.IsValidVoteproofWithSuffrage(vp, w.suf); err != nil {
		panic(fmt.Sprintf("rig voteproof %s invalid with suffrage: %+v", k, err))
	}
	w.mu.Lock()
	defer w.mu.Unlock()
	if v, ok := w.vps[k]; ok {
		return v
	}
	w.vps[k] = vp
	w.rigVPs[vp.ID()] = posOfVoteproof(vp)
	return vp
}

// rigPos tells whether the voteproof with this ID was built by the rig (i.e. is
// one that ballots carry) and its position.
func (w *cworld) rigPos(id string) (pos, bool) {
	w.mu.Lock()
	defer w.mu.Unlock()
	p, ok := w.rigVPs[id]
	return p, ok
}

func (w *cworld) cachedVP(k string) base.Voteproof {
	w.mu.Lock()
	defer w.mu.Unlock()
	return w.vps[k]
}

// vpINIT: res = maj (ordinary majority) | maj-ex (majority of the expel INIT
// ballots, an expel voteproof) | sc (majority of suffrage-confirm ballots) |
// draw.
func (w *cworld) vpINIT(q cpoint, res string, bind cpoint, lowth bool) base.Voteproof {
	k := fmt.Sprintf("I/%s/%s/%s/%v", q, res, bind, lowth)
	th := w.vpThreshold(lowth)
	if vp := w.cachedVP(k); vp != nil {
		return vp
	}
	var sfs []base.BallotSignFact
	var maj base.BallotFact
	switch res {
	case "maj", "maj-ex":
		f := w.initFact(q, bind, "A", res == "maj-ex")
		maj = f
		for n := 0; n < 3; n++ {
			sfs = append(sfs, w.signINIT(n, f))
		}
	case "sc":
		f := w.scFact(q, bind)
		maj = f
		for n := 0; n < 3; n++ {
			sfs = append(sfs, w.signINIT(n, f))
		}
	case "draw":
		for n := 0; n < 4; n++ {
			sfs = append(sfs, w.signINIT(n, w.initFact(q, bind, fmt.Sprintf("D%d", n), false)))
		}
	default:
		panic(res)
	}
	if res == "maj-ex" || res == "sc" {
		vp := isaac.NewINITExpelVoteproof(q.point())
		vp.SetSignFacts(sfs).SetMajority(maj).SetThreshold(th)
		vp.SetExpels(w.exOps())
		vp.Finish()
		return w.storeVP(k, vp)
	}
	vp := isaac.NewINITVoteproof(q.point())
	vp.SetSignFacts(sfs).SetThreshold(th)
	if maj != nil {
		vp.SetMajority(maj)
	}
	vp.Finish()
	return w.storeVP(k, vp)
}

func (w *cworld) vpACCEPT(q cpoint, res string, lowth bool) base.Voteproof {
	k := fmt.Sprintf("A/%s/%s/%v", q, res, lowth)
	if vp := w.cachedVP(k); vp != nil {
		return vp
	}
	var sfs []base.BallotSignFact
	vp := isaac.NewACCEPTVoteproof(q.point())
	switch res {
	case "maj":
		f := w.acceptFact(q, "A", false)
		for n := 0; n < 3; n++ {
			sfs = append(sfs, w.signACCEPT(n, f))
		}
		vp.SetMajority(f)
	case "draw":
		for n := 0; n < 4; n++ {
			sfs = append(sfs, w.signACCEPT(n, w.acceptFact(q, fmt.Sprintf("D%d", n), false)))
		}
	default:
		panic(res)
	}
	vp.SetSignFacts(sfs).SetThreshold(w.vpThreshold(lowth))
	vp.Finish()
	return w.storeVP(k, vp)
}

// vpThreshold: the threshold a carried voteproof was made under. lowth: a valid
// threshold below the one of the box — the box does not take such a voteproof
// out of a ballot, the ballot itself still counts.
func (w *cworld) vpThreshold(lowth bool) base.Threshold {
	if lowth {
		return base.Threshold(60)
	}
	return w.th
}

var (
	cKinds        = []string{"init", "init-expel", "sc", "sc-other-point", "accept", "accept-expel"}
	cKindFlavors  = map[string]int{"init": 3, "init-expel": 3, "sc": 1, "sc-other-point": 2, "accept": 3, "accept-expel": 2}
	cKindAnyNode  = map[string]bool{"init": true, "accept": true}
	acceptFlavors = []string{"maj", "maj-ex", "sc"}
)

// otherPoint: the point of the voteproof a suffrage-confirm ballot of p carries
// in the sc-other-point kind (an earlier round of the height, or a lower height).
func otherPoint(p cpoint, flavor int) cpoint {
	if flavor%2 == 1 && p.R > 0 {
		return cpoint{p.H, p.R - 1}
	}
	return cpoint{p.H - 1, uint64(flavor % 2)}
}

// ballot builds (once) the ballot of node n for point p. Every ballot carries
// the voteproof IsValid asks for:
//
//	init / init-expel: round 0 -> the ACCEPT majority of the previous height
//	  (flavor = its round); round > 0 -> the INIT draw (flavor 0) or the ACCEPT
//	  draw (flavor 1, 2) of the previous round
//	sc: the ordinary INIT majority (expel) voteproof of its point
//	sc-other-point: the same kind of voteproof of an earlier round / lower
//	  height whose previous block and proposal are those of the ballot
//	accept / accept-expel: the INIT majority of its point: ordinary, expel or
//	  suffrage-confirm one by flavor
func (w *cworld) ballot(kind string, n int, p cpoint, v string, flavor int, lowth bool) *cballot {
	k := fmt.Sprintf("%s/%d/%s/%s/%d/%v", kind, n, p, v, flavor, lowth)
	w.mu.Lock()
	b, ok := w.bls[k]
	w.mu.Unlock()
	if ok {
		return b
	}
	b = &cballot{kind: kind, node: n}
	var embDesc string
	switch kind {
	case "init", "init-expel":
		ex := kind == "init-expel"
		var vp base.Voteproof
		switch {
		case p.R == 0:
			vp = w.vpACCEPT(cpoint{p.H - 1, uint64(flavor)}, "maj", lowth)
			embDesc = fmt.Sprintf("ACCEPT-maj@h-1/%d", flavor)
		case flavor == 0:
			vp = w.vpINIT(cpoint{p.H, p.R - 1}, "draw", cpoint{p.H, p.R - 1}, lowth)
			embDesc = "INIT-draw@r-1"
		default:
			vp = w.vpACCEPT(cpoint{p.H, p.R - 1}, "draw", lowth)
			embDesc = "ACCEPT-draw@r-1"
		}
		var ops []base.SuffrageExpelOperation
		if ex {
			ops = w.exOps()
		}
		b.bl = isaac.NewINITBallot(vp, w.signINIT(n, w.initFact(p, p, v, ex)), ops)
		b.cand = pos{H: p.H, R: p.R}
	case "sc", "sc-other-point":
		q := p
		embDesc = "INIT-maj-ex@same"
		if kind == "sc-other-point" {
			q = otherPoint(p, flavor)
			embDesc = fmt.Sprintf("INIT-maj-ex@%+d/%d", q.H-p.H, q.R)
		}
		b.bl = isaac.NewINITBallot(w.vpINIT(q, "maj-ex", p, lowth), w.signINIT(n, w.scFact(p, p)), nil)
		b.cand = pos{H: p.H, R: p.R, SC: true}
		v = "A"
	case "accept", "accept-expel":
		ex := kind == "accept-expel"
		res := acceptFlavors[flavor%3]
		if ex {
			res = acceptFlavors[1+flavor%2]
		}
		embDesc = "INIT-" + res + "@same"
		var ops []base.SuffrageExpelOperation
		if ex {
			ops = w.exOps()
		}
		ivp := w.vpINIT(p, res, p, lowth).(base.INITVoteproof) //nolint:forcetypeassert //...
		b.bl = isaac.NewACCEPTBallot(ivp, w.signACCEPT(n, w.acceptFact(p, v, ex)), ops)
		b.cand = pos{H: p.H, R: p.R, A: true}
	default:
		panic(kind)
	}
	b.key = k
	if !w.deferCheck.Load() {
		w.checkBallot(b)
	}
	b.emb = posOfVoteproof(b.bl.Voteproof())
	if lowth {
		embDesc += "/low-threshold"
	}
	b.desc = fmt.Sprintf("%s@%s:%s:vp=%s", kind, p, v, embDesc)
	w.mu.Lock()
	defer w.mu.Unlock()
	if x, ok := w.bls[k]; ok {
		return x
	}
	w.bls[k] = b
	return b
}

// checkBallot: the precondition of the ballotbox — what reaches it passed IsValid.
func (w *cworld) checkBallot(b *cballot) {
	if err := b.bl.IsValid(w.nid); err != nil {
		w.mu.Lock()
		if w.invalid == "" {
			w.invalid = fmt.Sprintf("%s: %+v", b.key, err)
		}
		w.mu.Unlock()
	}
}

func (w *cworld) allBallots() []*cballot {
	w.mu.Lock()
	defer w.mu.Unlock()
	bs := make([]*cballot, 0, len(w.bls))
	for _, b := range w.bls {
		bs = append(bs, b)
	}
	return bs
}

// ---- waiting for the goroutines Ballotbox.Vote starts ----------------------
//
// Vote hands the count of the ballot's record to a goroutine it starts. To read
// the position that belongs to one step the monitor waits until the goroutines
// Vote started are gone. Authoritative test: the runtime's goroutine dump shows
// no goroutine "created by …(*Ballotbox).Vote in goroutine <caller>". A dump
// stops the world, so the histories run one after another on one goroutine and
// use the goroutine count as the cheap test (back to what it was before the
// Vote); the dump is asked whenever the count is no evidence, and every
// history that alarms is run again with the dump after every single Vote:
// only what that run shows is reported.

const voteCreatedBy = "created by github.com/spikeekips/mitum/isaac/states.(*Ballotbox).Vote in goroutine "

type voteWaiter struct {
	needle  []byte
	buf     []byte
	strict  bool // goroutine dump after every Vote
	dumps   int
	byCount int
	byDump  int
	busy    int
}

func newVoteWaiter(strict bool) *voteWaiter {
	var b [64]byte
	n := runtime.Stack(b[:], false)
	s := strings.TrimPrefix(string(b[:n]), "goroutine ")
	gid := s
	if i := strings.IndexByte(s, ' '); i > 0 {
		gid = s[:i]
	}
	return &voteWaiter{needle: []byte(voteCreatedBy + gid + "\n"), buf: make([]byte, 1<<16), strict: strict}
}

func (w *voteWaiter) alive() bool {
	for {
		w.dumps++
		n := runtime.Stack(w.buf, true)
		if n < len(w.buf) {
			return bytes.Contains(w.buf[:n], w.needle)
		}
		w.buf = make([]byte, 2*len(w.buf))
	}
}

func pause(i int) {
	if i < 200 {
		runtime.Gosched()
	} else {
		time.Sleep(50 * time.Microsecond)
	}
}

// wait returns when no goroutine started by Vote from this goroutine is left;
// before is runtime.NumGoroutine() read before the Vote. Not bounded here: the
// whole phase runs under a watchdog.
func (w *voteWaiter) wait(before int) {
	for i := 0; ; i++ {
		if !w.strict {
			switch n := runtime.NumGoroutine(); {
			case n == before:
				w.byCount++
				return
			case n > before && i < 20000:
				w.busy++
				pause(i)
				continue
			}
		}
		// strict, or fewer goroutines than before the Vote, or more for a long
		// time: something else started or ended, the count says nothing
		if !w.alive() {
			w.byDump++
			return
		}
		w.busy++
		pause(i)
	}
}

// ---- one history on one real box -------------------------------------------

type cdriver struct {
	w       *cworld
	box     *isaacstates.Ballotbox
	a       *acc
	wt      *voteWaiter
	rng     *rand.Rand
	hist    []pos
	trace   []string
	extra   map[string]struct{}
	votes   int
	probing bool
	dry     bool // only build the ballots the history uses
}

func newCBox(w *cworld) *isaacstates.Ballotbox {
	th := w.th
	box := isaacstates.NewBallotbox(w.nodes[0].Address(), func() base.Threshold { return th }, w.getSuffrage)
	// a held INIT draw (expels not counted yet) is released by the wall clock
	// after countAfter: never in these histories
	box.SetCountAfter(24 * time.Hour)
	return box
}

func newCDriver(w *cworld, a *acc, rng *rand.Rand, extra map[string]struct{}, strict bool) *cdriver {
	a.counts["ballotboxes_built"]++
	a.counts["ballotbox_count_histories"]++
	return &cdriver{w: w, box: newCBox(w), a: a, wt: newVoteWaiter(strict), rng: rng, hist: []pos{zero}, extra: extra}
}

// dry: runs the same generator (it never looks at the box) to build, ahead of
// time and in parallel, the ballots a history will vote.
func newDryCDriver(w *cworld, rng *rand.Rand) *cdriver {
	return &cdriver{w: w, a: newAcc(), rng: rng, hist: []pos{zero}, dry: true}
}

func (d *cdriver) cur() pos { return d.hist[len(d.hist)-1] }

func (d *cdriver) note(s string) {
	d.trace = append(d.trace, s)
}

func (d *cdriver) witness(extra map[string]any) map[string]any {
	h := make([]string, len(d.hist))
	for i := range d.hist {
		h[i] = d.hist[i].String()
	}
	tr := d.trace
	if len(tr) > 40 {
		tr = tr[len(tr)-40:]
	}
	m := map[string]any{"form": countForm, "positions": h, "last_steps": append([]string{}, tr...),
		"suffrage": "4 nodes cn00..cn03, threshold 67, local cn00, cn03 is the node expelled in the expel kinds"}
	for k, v := range extra {
		m[k] = v
	}
	return m
}

// knownRetake: re-taking a position after the permitted suffrage-confirm step
// back is the behaviour already recorded for Ballotbox.SetLastPoint (the count
// stores through it): same signature, no second one for the same thing.
func knownRetake(sig string) string {
	switch sig {
	case countForm + ":retaken-by-backward-step:to=INIT-sc":
		return setLastPointForm + ":retaken-by-backward-step:to=INIT-sc"
	case countForm + ":retaken-after-backward-step":
		return setLastPointForm + ":retaken-after-backward-step"
	}
	return sig
}

// observe reads the position after a step and applies the statement.
func (d *cdriver) observe(step string, b *cballot) (moved bool) {
	old := d.cur()
	nw := fromLastPoint(d.box.LastPoint())
	var fromEmbedded, emitted int
	var source string
drain:
	for {
		select {
		case vp := <-d.box.Voteproof():
			emitted++
			p, rig := d.w.rigPos(vp.ID())
			if rig {
				fromEmbedded++
			}
			if posOfVoteproof(vp) == nw {
				source = "counted"
				if rig && p == nw {
					source = "embedded"
				}
			}
		default:
			break drain
		}
	}
	d.a.counts["ballotbox_count_voteproofs_emitted"] += emitted
	d.a.counts["ballotbox_count_embedded_voteproofs_emitted"] += fromEmbedded
	if nw == old {
		return false
	}
	d.a.step(countForm, old, nw, true)
	mk := "nomaj"
	if nw.Maj {
		mk = "maj"
	}
	d.a.counts["ballotbox_count_moves:to="+nw.kind()+"/"+mk]++
	if source != "" {
		d.a.counts["ballotbox_count_moves_by_"+source+"_voteproof"]++
	}
	c := cmpSP(nw, old)
	switch {
	case old.isZero():
	case nw.H > old.H:
		d.a.counts["ballotbox_count_moves_to_higher_height"]++
	case c < 0:
		d.a.counts["ballotbox_count_moves_back_within_height"]++
	case c == 0:
		d.a.counts["ballotbox_count_moves_at_same_stage_point"]++
	}
	d.note(fmt.Sprintf("   position %s -> %s", old, nw))
	fs := judge(countForm, d.hist, nw, nw)
	for i := range fs {
		if k := knownRetake(fs[i].Sig); k != fs[i].Sig {
			fs[i].Sig = k
			d.a.counts["ballotbox_count_retakes_after_permitted_step_back"]++
		}
		fs[i].Witness = d.witness(map[string]any{"step": step, "new_position": nw.String()})
	}
	d.a.add(fs)
	d.hist = append(d.hist, nw)
	// after each move: a ballot for the height below must be refused
	if !d.probing && nw.H > 30 {
		d.probing = true
		kinds := []string{"accept", "init", "sc", "init-expel", "accept-expel"}
		pk := kinds[d.votes%len(kinds)]
		d.vote(d.w.ballot(pk, 1+d.votes%2, cpoint{nw.H - 1, uint64(d.votes % 2)}, "A", 0, d.votes%3 == 0))
		d.a.counts["ballotbox_count_lower_height_probes_after_move"]++
		d.probing = false
	}
	return true
}

func (d *cdriver) vote(b *cballot) {
	d.votes++
	if d.dry {
		return
	}
	old := d.cur()
	before := runtime.NumGoroutine()
	voted, err := d.box.Vote(b.bl)
	d.wt.wait(before)
	if err != nil {
		panic(fmt.Sprintf("Vote(%s): %+v", b.desc, err))
	}
	d.a.step(voteForm, old, b.cand, voted)
	d.a.counts["ballotbox_count_votes:"+b.kind]++
	if voted {
		d.a.counts["ballotbox_count_votes_voted"]++
	}
	d.note(fmt.Sprintf("Vote %s by cn%02d -> %v", b.desc, b.node, voted))
	fs := judgeLowerHeight(voteForm, old, b.cand, voted)
	for i := range fs {
		fs[i].Witness = d.witness(map[string]any{"ballot": b.desc})
	}
	d.a.add(fs)
	rel := "ahead"
	switch {
	case old.isZero():
		rel = "first"
	case b.cand.H < old.H:
		rel = "lower-height"
		if !voted {
			d.a.counts["ballotbox_count_lower_height_ballots_refused"]++
		}
	case cmpSP(b.cand, old) < 0:
		rel = "earlier-in-height"
	case cmpSP(b.cand, old) == 0:
		rel = "same-stage-point"
	}
	d.a.counts["ballotbox_count_ballots_"+rel]++
	moved := d.observe("Vote "+b.desc, b)
	if rel == "earlier-in-height" && voted {
		d.a.counts["ballotbox_count_late_ballots_of_earlier_round_or_stage_voted"]++
		if b.cand.SC && !old.Maj && !moved {
			// a late suffrage-confirm ballot, taken while the position is not a
			// majority, that stays below the threshold
			d.a.counts["ballotbox_count_late_suffrage_confirm_below_threshold_at_non_majority_position"]++
		}
	}
	if !old.isZero() && !b.emb.isZero() && cmpSP(b.emb, old) < 0 && voted {
		d.a.counts["ballotbox_count_voted_ballots_with_embedded_voteproof_behind_position"]++
	}
	if len(d.extra) < 4000 {
		d.extra[fmt.Sprintf("%s|%s|%s|voted=%v|moved=%v", voteForm, relPos(old, b.cand), b.desc[strings.Index(b.desc, ":")+1:]+"/"+b.kind, voted, moved)] = struct{}{}
	}
}

// relPos: the current position as seen from the ballot's point (no absolute
// heights: the same situation at another height is the same case).
func relPos(old, cand pos) string {
	if old.isZero() {
		return "zero"
	}
	mk := "nomaj"
	if old.Maj {
		mk = "maj"
	}
	return fmt.Sprintf("cur=%s/%s@%+d/%+d", old.kind(), mk, old.H-cand.H, int64(old.R)-int64(cand.R))
}

func (d *cdriver) count() {
	if d.dry {
		return
	}
	ok := d.box.Count()
	d.a.counts["ballotbox_count_Count_calls"]++
	d.note(fmt.Sprintf("Count -> %v", ok))
	d.observe("Count", nil)
}

// ---- histories --------------------------------------------------------------

// cursor: where the (simulated) other nodes of the network are.
type ccursor struct {
	p           cpoint
	stage       int // 0 INIT, 1 suffrage confirm, 2 ACCEPT
	ex          bool
	sc          bool
	prevEnd     int    // how the previous round ended: 0 no result, 1 INIT draw, 2 ACCEPT draw
	acceptRound uint64 // round of the ACCEPT majority of the previous height
}

// outcomes of the stage the cursor is at. late-sc-maj: at the INIT stage of a
// round > 0 the suffrage-confirm ballots of the previous round reach their
// majority late (the nodes then go on with the ACCEPT stage of that round).
// The below-threshold INIT / ACCEPT outcomes only occur in the random walks.
func (c ccursor) outcomes(enum bool) []string {
	var o []string
	switch c.stage {
	case 0:
		o = []string{"init-maj", "init-ex-maj", "init-draw"}
		if c.p.R > 0 {
			o = append(o, "late-sc-maj")
		}
		if !enum {
			o = append(o, "init-below")
		}
	case 1:
		o = []string{"sc-maj", "sc-below-accept", "sc-below-next"}
	default:
		o = []string{"accept-maj", "accept-draw"}
		if !enum {
			o = append(o, "accept-below")
		}
	}
	return o
}

func (c ccursor) initFlavor() int {
	if c.p.R == 0 {
		return int(c.acceptRound)
	}
	if c.prevEnd == 2 {
		return 1
	}
	return 0
}

func (c ccursor) nextRound(end int) ccursor {
	return ccursor{p: cpoint{c.p.H, c.p.R + 1}, prevEnd: end, acceptRound: c.acceptRound}
}

// segment casts the ballots of one stage with the given outcome; between is
// called before every ballot (late ballots, Count).
func (d *cdriver) segment(c ccursor, outcome string, between func()) ccursor {
	rng, w := d.rng, d.w
	d.note("-- " + outcome + " at " + c.p.String())
	split := func(nodes []int) []string { // variants that end in a draw
		if len(nodes) == 4 && rng.Intn(2) == 0 {
			return []string{"A", "A", "B", "B"}
		}
		return []string{"A", "B", "C", "D"}[:len(nodes)]
	}
	perm := func(n int) []int { return rng.Perm(n) }
	// one stage in three: the voters' carried voteproofs were made under a lower
	// threshold than the box's (the box counts the ballots, not those voteproofs)
	lowth := rng.Intn(3) == 0 || outcome == "late-sc-maj" // (a late majority only builds up when the carried voteproofs are not taken)
	if lowth {
		d.note("   (carried voteproofs of this stage: low threshold)")
	}
	cast := func(kind string, nodes []int, vars []string, flavor int) {
		for i, n := range nodes {
			between()
			v := "A"
			if vars != nil {
				v = vars[i]
			}
			d.vote(w.ballot(kind, n, c.p, v, flavor, lowth))
		}
	}
	switch outcome {
	case "init-maj":
		nodes := perm(4)
		if rng.Intn(2) == 0 {
			nodes = nodes[:3]
		}
		cast("init", nodes, nil, c.initFlavor())
		c.stage, c.ex, c.sc = 2, false, false
	case "init-ex-maj":
		cast("init-expel", perm(3), nil, c.initFlavor())
		c.stage, c.ex, c.sc = 1, true, false
	case "init-draw":
		nodes := perm(4)
		if rng.Intn(2) == 0 {
			nodes = nodes[:3]
		}
		cast("init", nodes, split(nodes), c.initFlavor())
		return c.nextRound(1)
	case "init-below":
		cast("init", perm(4)[:1+rng.Intn(2)], nil, c.initFlavor())
		return c.nextRound(0)
	case "sc-maj":
		cast("sc", perm(3), nil, 0)
		c.stage, c.sc = 2, true
	case "late-sc-maj":
		c = ccursor{p: cpoint{c.p.H, c.p.R - 1}, stage: 2, ex: true, sc: true, prevEnd: 0, acceptRound: c.acceptRound}
		cast("sc", perm(3), nil, 0)
	case "sc-below-accept", "sc-below-next":
		cast("sc", perm(3)[:1+rng.Intn(2)], nil, 0)
		if outcome == "sc-below-next" {
			return c.nextRound(0)
		}
		c.stage = 2
	case "accept-maj", "accept-draw", "accept-below":
		kind, flavor, nodes := "accept", 0, perm(4)
		if c.ex {
			flavor = 1
			if c.sc {
				flavor = 2
			}
			if rng.Intn(3) > 0 {
				kind, nodes = "accept-expel", perm(3)
				flavor--
			}
		}
		var vars []string
		switch outcome {
		case "accept-maj":
			if len(nodes) == 4 && rng.Intn(2) == 0 {
				nodes = nodes[:3]
			}
		case "accept-draw":
			if len(nodes) == 4 && rng.Intn(2) == 0 {
				nodes = nodes[:3]
			}
			vars = split(nodes)
		default:
			nodes = nodes[:1+rng.Intn(2)]
		}
		cast(kind, nodes, vars, flavor)
		switch outcome {
		case "accept-maj":
			return ccursor{p: cpoint{c.p.H + 1, 0}, acceptRound: c.p.R}
		case "accept-draw":
			return c.nextRound(2)
		default:
			return c.nextRound(0)
		}
	default:
		panic(outcome)
	}
	return c
}

// randomBallot: any ballot of the window around p.
func (d *cdriver) randomBallot(p cpoint, heights []int64) *cballot {
	rng := d.rng
	kind := cKinds[rng.Intn(len(cKinds))]
	n := rng.Intn(3)
	if cKindAnyNode[kind] {
		n = rng.Intn(4)
	}
	v := "A"
	if rng.Intn(4) == 0 {
		v = "B"
	}
	q := cpoint{heights[rng.Intn(len(heights))], uint64(rng.Intn(3))}
	return d.w.ballot(kind, n, q, v, rng.Intn(cKindFlavors[kind]), rng.Intn(4) == 0)
}

// lateStorm votes, in random order, one ballot of every kind and flavor for
// every point of the height of p and of the height below (the three
// suffrage-confirm ballots of a point by three nodes; a quarter of the ballots
// with a low-threshold carried voteproof).
func (d *cdriver) lateStorm(p cpoint) {
	rng := d.rng
	var bs []*cballot
	for _, h := range []int64{p.H - 1, p.H} {
		for r := uint64(0); r < 3; r++ {
			scNodes := rng.Perm(3) // the three suffrage-confirm ballots of a point: three nodes
			for _, kind := range cKinds {
				for fl := 0; fl < cKindFlavors[kind]; fl++ {
					n := rng.Intn(3)
					switch {
					case cKindAnyNode[kind]:
						n = rng.Intn(4)
					case kind == "sc":
						n = scNodes[0]
					case kind == "sc-other-point":
						n = scNodes[1+fl]
					}
					bs = append(bs, d.w.ballot(kind, n, cpoint{h, r}, "A", fl, rng.Intn(4) == 0))
				}
			}
		}
	}
	rng.Shuffle(len(bs), func(i, j int) { bs[i], bs[j] = bs[j], bs[i] })
	d.note("-- late ballots")
	for _, b := range bs {
		if rng.Intn(8) == 0 {
			d.count()
		}
		d.vote(b)
	}
	d.count()
}

// enumPaths: every sequence of stage outcomes of the given length.
func enumPaths(depth int) [][]string {
	var out [][]string
	var rec func(c ccursor, path []string)
	rec = func(c ccursor, path []string) {
		if len(path) > 0 {
			out = append(out, append([]string{}, path...))
		}
		if len(path) == depth || c.p.R > 2 {
			return
		}
		for _, o := range c.outcomes(true) {
			rec(advance(c, o), append(path, o))
		}
	}
	rec(ccursor{p: cpoint{33, 0}}, nil)
	return out
}

// advance is the cursor movement of segment without casting anything.
func advance(c ccursor, outcome string) ccursor {
	switch outcome {
	case "init-maj":
		c.stage, c.ex, c.sc = 2, false, false
	case "init-ex-maj":
		c.stage, c.ex, c.sc = 1, true, false
	case "init-draw":
		return c.nextRound(1)
	case "init-below", "sc-below-next", "accept-below":
		return c.nextRound(0)
	case "sc-maj":
		c.stage, c.sc = 2, true
	case "late-sc-maj":
		return ccursor{p: cpoint{c.p.H, c.p.R - 1}, stage: 2, ex: true, sc: true, acceptRound: c.acceptRound}
	case "sc-below-accept":
		c.stage = 2
	case "accept-maj":
		return ccursor{p: cpoint{c.p.H + 1, 0}, acceptRound: c.p.R}
	case "accept-draw":
		return c.nextRound(2)
	}
	return c
}

// selfCheckVoteWaiter: the goroutine dump must show a goroutine Vote started
// (here: the new-ballot callback, held on a channel) and must stop showing it.
func selfCheckVoteWaiter(w *cworld) string {
	box := newCBox(w)
	hold := make(chan struct{})
	entered := make(chan struct{}, 1)
	box.SetNewBallotFunc(func(base.Ballot) {
		entered <- struct{}{}
		<-hold
	})
	wt := newVoteWaiter(true)
	if wt.alive() {
		close(hold)
		return "a goroutine started by Vote is reported before any Vote"
	}
	voted, err := box.Vote(w.ballot("init", 1, cpoint{33, 0}, "A", 0, false).bl)
	if err != nil || !voted {
		close(hold)
		return fmt.Sprintf("first ballot not voted: %v %v", voted, err)
	}
	select {
	case <-entered:
	case <-time.After(5 * time.Minute):
		close(hold)
		return "the new-ballot callback was not called"
	}
	if !wt.alive() {
		close(hold)
		return "the goroutine dump does not show the goroutine Vote started"
	}
	close(hold)
	wt.wait(0)
	return ""
}

// ccase is one history: an enumerated sequence of stage outcomes followed by
// the late ballots, or a random walk.
type ccase struct {
	path []string // nil: random walk
	idx  int
}

func (cs ccase) run(r *vlib.Run, d *cdriver) {
	if cs.path != nil {
		c := ccursor{p: cpoint{33, 0}}
		for _, o := range cs.path {
			c = d.segment(c, o, func() {
				if d.rng.Intn(6) == 0 {
					d.count()
				}
			})
		}
		d.count()
		if !d.dry {
			d.a.counts["ballotbox_count_end_of_outcome_sequence:"+d.cur().kind()+"/maj="+fmt.Sprint(d.cur().Maj)]++
		}
		d.lateStorm(c.p)
		return
	}
	c := ccursor{p: cpoint{33, 0}}
	for d.votes < 160 && c.p.H <= 35 && c.p.R <= 2 {
		os := c.outcomes(false)
		o := os[d.rng.Intn(len(os))]
		at := c.p
		c = d.segment(c, o, func() {
			switch k := d.rng.Intn(20); {
			case k < 5:
				d.vote(d.randomBallot(at, []int64{at.H - 1, at.H, at.H, at.H, at.H + 1}))
			case k < 7:
				d.count()
			}
		})
	}
	d.count()
	if !d.dry {
		d.a.counts["ballotbox_count_walks"]++
	}
}

func (cs ccase) rand(r *vlib.Run) *rand.Rand {
	if cs.path != nil {
		return r.Rand(7, cs.idx)
	}
	return r.Rand(8, cs.idx)
}

// countPhase drives the histories.
func countPhase(r *vlib.Run, mu *sync.Mutex, all map[string]finding) {
	w := theCWorld()
	t0 := time.Now()
	r.WithWatchdog(30*time.Minute, "ballotbox-count-histories", func() {
		if why := selfCheckVoteWaiter(w); why != "" {
			r.Inconclusive("cannot wait for the goroutines of Ballotbox.Vote: " + why)
			return
		}
		// (a) every sequence of stage outcomes up to a depth, then one late ballot
		// of every kind for every point of the height and the height below;
		// (b) random walks: outcomes incl. below-threshold ones, late and early
		// ballots of the heights around between the ballots
		depth := r.N(3, 5)
		perms := r.N(2, 8)
		walks := r.N(100, 4000)
		paths := enumPaths(depth)
		r.Set("ballotbox_count_enumerated_outcome_sequences", len(paths))
		r.Set("ballotbox_count_outcome_sequence_depth", depth)
		var cases []ccase
		for i := 0; i < len(paths)*perms; i++ {
			cases = append(cases, ccase{path: paths[i/perms], idx: i})
		}
		for i := 0; i < walks; i++ {
			cases = append(cases, ccase{idx: i})
		}
		// the ballots are built in parallel by running the generators without a
		// box, and IsValid-checked by the same goroutines while the histories
		// already run. The builders stay parked until the phase is over: no
		// goroutine ends while the histories run
		release := make(chan struct{})
		defer close(release)
		var checked sync.WaitGroup
		tocheck := make(chan *cballot, 1<<16)
		{
			const builders = 12
			var wg sync.WaitGroup
			next := make(chan int, len(cases))
			for i := range cases {
				next <- i
			}
			close(next)
			w.deferCheck.Store(true)
			checked.Add(builders)
			for b := 0; b < builders; b++ {
				wg.Add(1)
				go func() {
					func() {
						defer wg.Done()
						for i := range next {
							r.Guard(countForm+":rig", i, func() { cases[i].run(r, newDryCDriver(w, cases[i].rand(r))) })
						}
					}()
					for b := range tocheck {
						w.checkBallot(b)
					}
					checked.Done()
					<-release
				}()
			}
			wg.Wait()
			w.deferCheck.Store(false)
			for _, b := range w.allBallots() {
				tocheck <- b
			}
			close(tocheck)
		}
		r.Logf("count histories: ballots built at %.1fs", time.Since(t0).Seconds())
		w.mu.Lock()
		r.Set("ballotbox_count_distinct_ballots_built", len(w.bls))
		r.Set("ballotbox_count_distinct_voteproofs_built_for_embedding", len(w.vps))
		w.mu.Unlock()

		extra := map[string]struct{}{}
		confirmed := map[string]bool{}
		var samples []any
		total := newAcc()
		for ci, cs := range cases {
			a := newAcc()
			x := map[string]struct{}{}
			d := newCDriver(w, a, cs.rand(r), x, false)
			r.Guard(countForm, cs, func() { cs.run(r, d) })
			for k := range x {
				extra[k] = struct{}{}
			}
			a.counts["ballotbox_count_waits_decided_by_goroutine_count"] += d.wt.byCount
			a.counts["ballotbox_count_waits_decided_by_goroutine_dump"] += d.wt.byDump
			a.counts["ballotbox_count_waits_that_found_vote_goroutines_running"] += d.wt.busy
			if cs.path != nil && len(cs.path) == depth && len(samples) < 2 && len(d.hist) > 3 && ci%perms == 0 {
				tr := d.trace
				if len(tr) > 24 {
					tr = tr[:24]
				}
				samples = append(samples, map[string]any{"boundary": countForm, "first_steps": append([]string{}, tr...)})
			}
			// an alarm of a kind not confirmed yet: the same history again, the
			// goroutine dump consulted after every Vote; only that run is reported
			fresh := false
			for sig := range a.finds {
				if !confirmed[sig] {
					fresh = true
				}
			}
			if fresh {
				a2 := newAcc()
				d2 := newCDriver(w, a2, cs.rand(r), map[string]struct{}{}, true)
				r.Guard(countForm, cs, func() { cs.run(r, d2) })
				a.counts["ballotbox_count_histories_run_again_with_goroutine_dumps"]++
				for sig := range a.finds {
					if _, ok := a2.finds[sig]; !ok && !confirmed[sig] {
						a.counts["ballotbox_count_alarms_not_reproduced_with_goroutine_dumps"]++
						delete(a.finds, sig)
					}
				}
				for sig, f := range a2.finds {
					confirmed[sig] = true
					a.finds[sig] = f
				}
			}
			// merge
			total.evals += a.evals
			for k := range a.distinct {
				total.distinct[k] = struct{}{}
			}
			for k, v := range a.counts {
				total.counts[k] += v
			}
			for k, v := range a.accepted {
				total.accepted[k] += v
			}
			for k, v := range a.rejected {
				total.rejected[k] += v
			}
			for k, f := range a.finds {
				if _, ok := total.finds[k]; !ok {
					total.finds[k] = f
				}
			}
		}
		checked.Wait()
		w.mu.Lock()
		invalid := w.invalid
		w.mu.Unlock()
		if invalid != "" {
			r.Inconclusive("the rig built a ballot that does not pass IsValid (precondition of the ballotbox): " + invalid)
			return
		}
		total.flush(r, mu, all)
		for k := range extra {
			r.Distinct(k)
		}
		for _, s := range samples {
			r.Sample(s)
		}
		if r.Counter("ballotbox_count_moves_by_counted_voteproof") == 0 || r.Counter("ballotbox_count_moves_by_embedded_voteproof") == 0 ||
			r.Counter("ballotbox_count_moves_back_within_height") == 0 ||
			r.Counter("ballotbox_count_late_suffrage_confirm_below_threshold_at_non_majority_position") == 0 {
			r.Inconclusive("the ballotbox histories did not move the position by counted and by embedded voteproofs and by the suffrage-confirm step back, or never voted a late suffrage-confirm ballot at a non-majority position")
		}
	})
}
