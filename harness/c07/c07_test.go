package c07

import (
	"context"
	"errors"
	"fmt"
	"sort"
	"strings"
	"sync"
	"sync/atomic"
	"testing"
	"time"

	"github.com/spikeekips/mitum/base"
	"github.com/spikeekips/mitum/isaac"
	"github.com/spikeekips/mitum/util"
	"github.com/spikeekips/mitum/util/valuehash"
	"verifharness/vlib"
)

var networkID = base.NetworkID([]byte("c07-network"))

// memPool is a minimal isaac.ProposalPool (one per simulated node).
type memPool struct {
	sync.Mutex
	byHash  map[string]base.ProposalSignFact
	byPoint map[string]string
}

func newMemPool() *memPool {
	return &memPool{byHash: map[string]base.ProposalSignFact{}, byPoint: map[string]string{}}
}

func (p *memPool) key(point base.Point, proposer base.Address, prev util.Hash) string {
	return fmt.Sprintf("%d-%d-%s-%s", point.Height(), point.Round(), proposer, prev)
}

func (p *memPool) Proposal(h util.Hash) (base.ProposalSignFact, bool, error) {
	p.Lock()
	defer p.Unlock()
	pr, ok := p.byHash[h.String()]
	return pr, ok, nil
}

func (p *memPool) ProposalBytes(util.Hash) (string, []byte, []byte, bool, error) {
	return "", nil, nil, false, nil
}

func (p *memPool) ProposalByPoint(point base.Point, proposer base.Address, prev util.Hash) (base.ProposalSignFact, bool, error) {
	p.Lock()
	defer p.Unlock()
	h, ok := p.byPoint[p.key(point, proposer, prev)]
	if !ok {
		return nil, false, nil
	}
	pr, ok := p.byHash[h]
	return pr, ok, nil
}

func (p *memPool) SetProposal(pr base.ProposalSignFact) (bool, error) {
	p.Lock()
	defer p.Unlock()
	h := pr.Fact().Hash().String()
	if _, ok := p.byHash[h]; ok {
		return false, nil
	}
	p.byHash[h] = pr
	p.byPoint[p.key(pr.Point(), pr.ProposalFact().Proposer(), pr.ProposalFact().PreviousBlock())] = h
	return true, nil
}

type world struct {
	N      int
	Point  base.Point
	Prev   util.Hash
	locals []base.LocalNode // index order = creation order
	byAddr map[string]base.LocalNode
}

type obs struct {
	Proposer   string   // proposer of the proposal Select returned
	Selections []string // results of the ProposerSelectFunc calls made by the real selector, in order
	Inputs     []int    // sizes of the node slices handed to it
	Asked      []string // nodes the selector requested a proposal from, in order
	LocalMade  bool     // the local ProposalMaker produced a proposal
	Local      string
	Elapsed    time.Duration
	Err        string
	NonMember  string
}

// nodeSel is one simulated node: ONE real BaseProposalSelector instance (with
// its own pool and ProposalMaker) that can be asked for several points, as a
// running node does. listing() supplies the order in which GetNodesFunc hands
// the suffrage back on each call (always a fresh slice: the selector sorts in
// place); dead = address that does not answer requests.
type nodeSel struct {
	w      *world
	local  base.LocalNode
	shared []base.Node // when set, GetNodesFunc returns this very slice on every call (as a cached suffrage does)
	deadFn func() string
	sel   *isaac.BaseProposalSelector
	mu    sync.Mutex
	o     obs
}

func (w *world) newNodeSel(local base.LocalNode, listing func() []int, dead string, minWait, interval time.Duration) *nodeSel {
	ns := &nodeSel{w: w, local: local}
	mu := &ns.mu
	o := &ns.o

	pool := newMemPool()
	args := isaac.NewBaseProposalSelectorArgs()
	args.Pool = pool
	args.Maker = isaac.NewProposalMaker(local, networkID,
		func(context.Context, base.Height) ([][2]util.Hash, error) {
			mu.Lock()
			o.LocalMade = true
			mu.Unlock()
			return nil, nil
		}, pool, nil)
	raw := isaac.NewBlockBasedProposerSelector()
	args.ProposerSelectFunc = func(ctx context.Context, point base.Point, nodes []base.Node, prev util.Hash) (base.Node, error) {
		n, err := raw.Select(ctx, point, nodes, prev)
		mu.Lock()
		defer mu.Unlock()
		o.Inputs = append(o.Inputs, len(nodes))
		if err != nil {
			o.Selections = append(o.Selections, "error:"+err.Error())
			return n, err
		}
		o.Selections = append(o.Selections, n.Address().String())
		in := false
		for i := range nodes {
			if nodes[i].Address().Equal(n.Address()) {
				in = true
			}
		}
		if !in {
			o.NonMember = n.Address().String()
		}
		return n, err
	}
	args.GetNodesFunc = func(base.Height) ([]base.Node, bool, error) {
		if ns.shared != nil {
			return ns.shared, true, nil
		}
		perm := listing()
		nodes := make([]base.Node, len(perm)) // fresh slice: the selector sorts in place
		for i, p := range perm {
			nodes[i] = w.locals[p]
		}
		return nodes, true, nil
	}
	args.RequestFunc = func(_ context.Context, point base.Point, proposer base.Node, prev util.Hash) (base.ProposalSignFact, bool, error) {
		a := proposer.Address().String()
		mu.Lock()
		o.Asked = append(o.Asked, a)
		mu.Unlock()
		if a == dead || (ns.deadFn != nil && a == ns.deadFn()) {
			return nil, false, errors.New("dead node")
		}
		n, ok := w.byAddr[a]
		if !ok {
			return nil, false, errors.New("not a suffrage node")
		}
		sf := isaac.NewProposalSignFact(isaac.NewProposalFact(point, n.Address(), prev, nil))
		if err := sf.Sign(n.Privatekey(), networkID); err != nil {
			return nil, false, err
		}
		return sf, true, nil
	}
	args.MinProposerWait = minWait
	args.RequestProposalInterval = interval
	args.TimeoutRequest = func() time.Duration { return time.Second * 30 }

	ns.sel = isaac.NewBaseProposalSelector(local, args)
	return ns
}

// do runs one real Select on this node's selector instance.
func (ns *nodeSel) do(point base.Point, prev util.Hash) obs {
	ns.mu.Lock()
	ns.o = obs{Local: ns.local.Address().String()}
	ns.mu.Unlock()
	t0 := time.Now()
	pr, err := ns.sel.Select(context.Background(), point, prev, 0)
	ns.mu.Lock()
	defer ns.mu.Unlock()
	o := ns.o
	o.Selections = append([]string{}, o.Selections...)
	o.Inputs = append([]int{}, o.Inputs...)
	o.Asked = append([]string{}, o.Asked...)
	o.Elapsed = time.Since(t0)
	if err != nil {
		o.Err = err.Error()
		return o
	}
	o.Proposer = pr.ProposalFact().Proposer().String()
	return o
}

// one real Select on a fresh selector as node `local`, suffrage listed in order perm
func (w *world) selectAs(local base.LocalNode, perm []int, dead string, minWait, interval time.Duration) obs {
	return w.newNodeSel(local, func() []int { return perm }, dead, minWait, interval).do(w.Point, w.Prev)
}

func newWorld(r *vlib.Run, i int) *world { return newWorldN(r, i, 0) }

// newWorldN: as newWorld, with the suffrage size given when forceN > 0.
func newWorldN(r *vlib.Run, i, forceN int) *world {
	rng := r.Rand(1, i)
	var n int
	switch {
	case i < 64:
		n = i + 1 // every size once
	default:
		n = 1 + rng.Intn(64)
	}
	if forceN > 0 {
		n = forceN
	}
	w := &world{N: n, byAddr: map[string]base.LocalNode{}}
	for k := 0; k < n; k++ {
		var name string
		for {
			// mixed-case, mixed-length names so that the sort order is not the creation order
			l := 3 + rng.Intn(8)
			b := make([]byte, l)
			const cs = "ABCDEFGHIJKLMNOPQRSTUVWXYZabcdefghijklmnopqrstuvwxyz0123456789"
			for x := range b {
				b[x] = cs[rng.Intn(len(cs))]
			}
			name = string(b)
			if rng.Intn(3) == 0 && k > 0 { // shared prefixes
				name = w.locals[rng.Intn(k)].Address().String()[:2] + name
			}
			if _, dup := w.byAddr[base.NewStringAddress(name).String()]; !dup {
				break
			}
		}
		priv, err := base.NewMPrivatekeyFromSeed(fmt.Sprintf("c07-seed-%d-world-%d-node-%d-padding-padding", r.Seed, i, k))
		if err != nil {
			panic(err)
		}
		l := isaac.NewLocalNode(priv, base.NewStringAddress(name))
		w.locals = append(w.locals, l)
		w.byAddr[l.Address().String()] = l
	}
	h := int64(rng.Intn(1 << 20))
	if rng.Intn(8) == 0 {
		h = int64(1<<62) + rng.Int63n(1<<20)
	}
	rd := uint64(rng.Intn(12))
	if rng.Intn(8) == 0 {
		rd = uint64(1<<63) + uint64(rng.Int63n(1<<20))
	}
	w.Point = base.RawPoint(h, rd)
	switch rng.Intn(6) {
	case 0:
		w.Prev = valuehash.NewBytes(make([]byte, 32)) // byte sum 0
	case 1:
		b := make([]byte, 32)
		for x := range b {
			b[x] = 0xff
		}
		w.Prev = valuehash.NewBytes(b) // largest byte sum
	case 2:
		b := make([]byte, 64)
		rng.Read(b)
		w.Prev = valuehash.NewBytes(b)
	default:
		b := make([]byte, 32)
		rng.Read(b)
		w.Prev = valuehash.NewBytes(b)
	}
	return w
}

func TestC07(t *testing.T) {
	r := vlib.Start(t, "C07", vlib.LevelExploration)
	defer r.Finish()
	r.SetRule("case = (suffrage of n real nodes with PRNG addresses, point, previous-block hash); per case the real BaseProposalSelector.Select (ProposerSelectFunc = BlockBasedProposerSelector.Select) runs once per permutation of the suffrage slice, each time as a different member being the local node; pass 2 repeats with the first proposer not answering; cached-listing phase: GetNodesFunc returns one and the same slice on every call, one proposer request fails once on one node, which is then compared over 9 further points with a node that saw no failure (and the listing must still be the suffrage); reuse phase: 4 nodes each keep ONE selector instance over an itinerary of 8-12 points (rounds of a height, next height, back) with the suffrage listed in a new order on every GetNodesFunc call, compared point by point; concurrent phase: 2-16 goroutines released behind a barrier call Select on ONE selector instance (fresh per case, suffrage sizes 2..64) for a set of points (the same point from several goroutines, further rounds of the height, neighbouring heights, the same point after another previous block; points answered before come back), GetNodesFunc returning one shared slice that starts unsorted and is re-shuffled by the harness between batches only while no call is in progress, suffrage nodes that yield/sleep inside Address() in one of 4 schedule modes (none, sparse, dense, with sleeps), proposer requests sometimes slow and for one point per third batch failing once; every answer is compared with what an undisturbed node (own selector called sequentially, private listings) selects for the same (point, previous block), answers for one point must agree, the proposer must be a member and the shared slice must still list every member once; fingerprint = (n, goroutines, mode, batch, point, hash, callers of the point, listing state); plus raw BlockBasedProposerSelector.Select calls; distinct = (n, point, hash, pass); non-trivial = n >= 2")
	r.Assume("suffrage addresses are pairwise distinct (a suffrage cannot hold one address twice)")
	r.Assume("a Select that outlives its own MinProposerWait falls back to the local node by design; such runs are counted as timing fallbacks and not judged")

	nCases := r.N(1200, 20000)
	nPass2 := r.N(300, 4000)
	perms := 8
	type result struct {
		w     *world
		p1    []obs
		p2    []obs
		dead  string
		perms [][]int
	}
	results := make([]*result, nCases)

	const wait1 = 20 * time.Second
	const wait2 = 2 * time.Second

	ok := r.WithWatchdog(20*time.Minute, "selects", func() {
		vlib.Parallel(nCases, 128, func(i int) {
			w := newWorld(r, i)
			rng := r.Rand(2, i)
			res := &result{w: w}
			res.perms = make([][]int, perms)
			for k := range res.perms {
				switch k {
				case 0:
					res.perms[k] = rng.Perm(w.N)
				case 1: // reversed creation order
					p := make([]int, w.N)
					for x := range p {
						p[x] = w.N - 1 - x
					}
					res.perms[k] = p
				case 2: // already sorted by address
					p := make([]int, w.N)
					for x := range p {
						p[x] = x
					}
					sort.Slice(p, func(a, b int) bool {
						return w.locals[p[a]].Address().String() < w.locals[p[b]].Address().String()
					})
					res.perms[k] = p
				default:
					res.perms[k] = rng.Perm(w.N)
				}
			}
			res.p1 = make([]obs, perms)
			var wg sync.WaitGroup
			for k := 0; k < perms; k++ {
				wg.Add(1)
				go func(k int) {
					defer wg.Done()
					r.Guard("BaseProposalSelector.Select", map[string]any{"n": w.N, "point": w.Point.String()}, func() {
						res.p1[k] = w.selectAs(w.locals[(k*7+i)%w.N], res.perms[k], "", wait1, 50*time.Millisecond)
					})
				}(k)
			}
			wg.Wait()
			// the node that stops answering in pass 2 is the proposer of pass 1,
			// taken from a run that did not hit its own wait (a timing fallback
			// returns the local node's proposal, which says nothing about who
			// the proposer is)
			firstProposer := ""
			for k := range res.p1 {
				if o := res.p1[k]; o.Err == "" && len(o.Selections) == 1 && o.Selections[0] == o.Proposer {
					firstProposer = o.Proposer
					break
				}
			}
			if i < nPass2 && w.N >= 2 && firstProposer != "" {
				res.dead = firstProposer
				res.p2 = make([]obs, perms)
				for k := 0; k < perms; k++ {
					wg.Add(1)
					go func(k int) {
						defer wg.Done()
						// the dead node does not run a selector itself
						li := (k*5 + i) % w.N
						if w.locals[li].Address().String() == res.dead {
							li = (li + 1) % w.N
						}
						r.Guard("BaseProposalSelector.Select", map[string]any{"n": w.N, "point": w.Point.String(), "dead": res.dead}, func() {
							res.p2[k] = w.selectAs(w.locals[li], res.perms[k], res.dead, wait2, 100*time.Millisecond)
						})
					}(k)
				}
				wg.Wait()
			}
			results[i] = res
		})
	})
	if !ok {
		return
	}

	// ---- judge -----------------------------------------------------------
	samples := 0
	var fallbacks, judged1, judged2 int
	for i, res := range results {
		if res == nil {
			continue
		}
		w := res.w
		for pass, obsl := range [][]obs{res.p1, res.p2} {
			if obsl == nil {
				continue
			}
			wait := wait1
			if pass == 1 {
				wait = wait2
			}
			fp := fmt.Sprintf("n=%d|%s|%s|pass%d", w.N, w.Point, w.Prev, pass+1)
			if w.N >= 2 {
				r.Case(fp)
			} else {
				r.Eval(1)
			}
			r.Count("selects", len(obsl))
			r.Count(fmt.Sprintf("cases_pass%d", pass+1), 1)
			wit := map[string]any{"n": w.N, "point": w.Point.String(), "previous_block": w.Prev.String(), "pass": pass + 1, "dead": res.dead, "observations": obsl, "permutations": res.perms}
			var ref *obs
			for k := range obsl {
				o := &obsl[k]
				r.SetAdd("selection_call_shapes", fmt.Sprint(o.Inputs))
				if o.NonMember != "" {
					r.Violation("BlockBasedProposerSelector.Select:result-not-in-input", fmt.Sprintf("n=%d: selected %s which is not in the slice it was given", w.N, o.NonMember), wit)
				}
				if o.Err != "" {
					r.Violation("BaseProposalSelector.Select:error:pass"+fmt.Sprint(pass+1), fmt.Sprintf("n=%d point=%s: Select failed although every live node answers: %s", w.N, w.Point, o.Err), wit)
					continue
				}
				if _, in := w.byAddr[o.Proposer]; !in {
					r.Violation("BaseProposalSelector.Select:proposer-not-a-member", fmt.Sprintf("n=%d: proposer %s is not in the suffrage", w.N, o.Proposer), wit)
				}
				for _, s := range o.Selections {
					if _, in := w.byAddr[s]; !in {
						r.Violation("ProposerSelectFunc:selected-not-a-member", fmt.Sprintf("n=%d: %s", w.N, s), wit)
					}
				}
				// Every live node answers at once, so a selected live node is
				// dropped, or the local node's own proposal is returned without
				// the local node being selected, only when a context of the
				// selector expired (its timeout fallback).  That needs the wait
				// to have passed (twice in pass 2: the dead proposer consumes
				// the first one) and is not a matter of this property.
				last := ""
				abnormal := false
				for x, s := range o.Selections {
					if x == len(o.Selections)-1 {
						last = s
					} else if !(pass == 1 && x == 0 && s == res.dead) {
						abnormal = true
					}
				}
				if w.N >= 2 && o.Proposer == o.Local && last != o.Local {
					abnormal = true
				}
				if abnormal {
					excuse := wait
					if pass == 1 {
						excuse = 2 * wait
					}
					if o.Elapsed >= excuse {
						fallbacks++
						continue
					}
					r.Violation("BaseProposalSelector.Select:live-node-dropped-without-timeout:pass"+fmt.Sprint(pass+1),
						fmt.Sprintf("n=%d: local %s, selections %v, proposer %s after %s (< %s)", w.N, o.Local, o.Selections, o.Proposer, o.Elapsed, excuse), wit)
					continue
				}
				if ref == nil {
					ref = o
					continue
				}
				if o.Proposer != ref.Proposer {
					r.Violation(fmt.Sprintf("BaseProposalSelector.Select:proposer-depends-on-order:pass%d", pass+1),
						fmt.Sprintf("n=%d point=%s: proposer %s with one listing of the suffrage, %s with another", w.N, w.Point, ref.Proposer, o.Proposer), wit)
				}
				if strings.Join(o.Selections, ",") != strings.Join(ref.Selections, ",") {
					// the local node being the proposer is never requested, so compare selections, not requests
					r.Violation(fmt.Sprintf("ProposerSelectFunc:selection-sequence-depends-on-order:pass%d", pass+1),
						fmt.Sprintf("n=%d point=%s: selections %v vs %v", w.N, w.Point, ref.Selections, o.Selections), wit)
				}
			}
			if ref != nil {
				if pass == 0 {
					judged1++
				} else {
					judged2++
					if ref.Proposer == res.dead {
						r.Violation("BaseProposalSelector.Select:dead-proposer-returned", fmt.Sprintf("n=%d: %s does not answer but is the proposer", w.N, res.dead), wit)
					}
					if len(ref.Selections) < 2 || ref.Selections[0] != res.dead {
						r.Violation("BaseProposalSelector.Select:pass2-first-selection-differs", fmt.Sprintf("n=%d: first selection %v, pass 1 proposer %s", w.N, ref.Selections, res.dead), wit)
					}
				}
				if samples < 4 && w.N >= 3 && (pass == 1 || samples < 2) {
					samples++
					r.Sample(map[string]any{"n": w.N, "point": w.Point.String(), "previous_block": w.Prev.String(), "pass": pass + 1, "dead": res.dead,
						"proposer_in_all_permutations": ref.Proposer, "selections": ref.Selections, "permutation_0": res.perms[0], "locals": func() []string {
							var l []string
							for k := range obsl {
								l = append(l, obsl[k].Local)
							}
							return l
						}()})
				}
			}
		}
		_ = i
	}
	r.Count("timing_fallbacks_not_judged", fallbacks)
	r.Count("cases_judged_pass1", judged1)
	r.Count("cases_judged_pass2", judged2)
	r.Set("permutations_per_case", perms)
	if judged1 < nCases*9/10 || judged2 < nPass2*8/10 {
		r.Inconclusive(fmt.Sprintf("too many runs hit their own wait (judged %d/%d and %d/%d)", judged1, nCases, judged2, nPass2))
	}

	// ---- reuse: one selector instance per node over many points -----------
	// A running node keeps ONE selector and asks it for round after round and
	// height after height; the suffrage is listed afresh (new order) on every
	// call. All nodes must agree on every point.
	nReuse := r.N(160, 2500)
	const nInst = 4
	type step struct {
		point base.Point
		prev  util.Hash
	}
	type reuseRes struct {
		w     *world
		steps []step
		obs   [][]obs // [step][instance]
	}
	reuse := make([]*reuseRes, nReuse)
	ok = r.WithWatchdog(20*time.Minute, "reuse-selects", func() {
		vlib.Parallel(nReuse, 128, func(i int) {
			w := newWorld(r, 100000+i)
			if w.N < 2 {
				w = newWorld(r, 200000+i)
			}
			rng := r.Rand(4, i)
			res := &reuseRes{w: w}
			// itinerary: rounds of one height, the next height, back, forth ...
			h0 := int64(10 + rng.Intn(1000))
			nsteps := 8 + rng.Intn(5)
			h, rd := h0, uint64(0)
			for k := 0; k < nsteps; k++ {
				b := make([]byte, 32)
				rng.Read(b)
				res.steps = append(res.steps, step{base.RawPoint(h, rd), valuehash.NewBytes(b)})
				switch rng.Intn(5) {
				case 0:
					h, rd = h+1, 0
				case 1:
					if h > h0 {
						h, rd = h-1, rd+1 // back to a height asked before, a later round
					} else {
						rd++
					}
				default:
					rd++
				}
			}
			insts := make([]*nodeSel, nInst)
			for k := range insts {
				prng := r.Rand(5, i, k)
				var listing func() []int
				switch k {
				case 0: // always already sorted by address
					p := make([]int, w.N)
					for x := range p {
						p[x] = x
					}
					sort.Slice(p, func(a, b int) bool {
						return w.locals[p[a]].Address().String() < w.locals[p[b]].Address().String()
					})
					listing = func() []int { return p }
				default: // a new order on every call
					var lmu sync.Mutex
					listing = func() []int {
						lmu.Lock()
						defer lmu.Unlock()
						return prng.Perm(w.N)
					}
				}
				insts[k] = w.newNodeSel(w.locals[(k*3+i)%w.N], listing, "", wait1, 50*time.Millisecond)
			}
			res.obs = make([][]obs, len(res.steps))
			for si := range res.obs {
				res.obs[si] = make([]obs, nInst)
			}
			var wg sync.WaitGroup
			for k := range insts {
				wg.Add(1)
				go func(k int) {
					defer wg.Done()
					r.Guard("BaseProposalSelector.Select", map[string]any{"n": w.N, "phase": "reuse"}, func() {
						for si, st := range res.steps {
							res.obs[si][k] = insts[k].do(st.point, st.prev)
						}
					})
				}(k)
			}
			wg.Wait()
			reuse[i] = res
		})
	})
	if !ok {
		return
	}
	var reuseJudged, reuseFallbacks int
	reuseSampled := false
	for _, res := range reuse {
		if res == nil {
			continue
		}
		w := res.w
		for si, st := range res.steps {
			obsl := res.obs[si]
			r.Case(fmt.Sprintf("reuse|n=%d|%s|%s|step%d", w.N, st.point, st.prev, si))
			r.Count("selects", len(obsl))
			r.Count("reuse_selects", len(obsl))
			kind := "first-call-of-height"
			for sj := 0; sj < si; sj++ {
				if res.steps[sj].point.Height() == st.point.Height() {
					kind = "later-call-of-height"
				}
			}
			r.Count("reuse_points_"+kind, 1)
			var itinerary []string
			for _, x := range res.steps[:si+1] {
				itinerary = append(itinerary, x.point.String())
			}
			wit := map[string]any{"n": w.N, "phase": "one selector instance reused", "itinerary_so_far": itinerary, "point": st.point.String(), "previous_block": st.prev.String(), "observations": obsl}
			var ref *obs
			for k := range obsl {
				o := &obsl[k]
				if o.NonMember != "" {
					r.Violation("BlockBasedProposerSelector.Select:result-not-in-input", fmt.Sprintf("n=%d: selected %s which is not in the slice it was given", w.N, o.NonMember), wit)
				}
				if o.Err != "" {
					r.Violation("BaseProposalSelector.Select:error:reuse", fmt.Sprintf("n=%d point=%s: Select failed although every node answers: %s", w.N, st.point, o.Err), wit)
					continue
				}
				if _, in := w.byAddr[o.Proposer]; !in {
					r.Violation("BaseProposalSelector.Select:proposer-not-a-member", fmt.Sprintf("n=%d: proposer %s is not in the suffrage", w.N, o.Proposer), wit)
				}
				last := ""
				if len(o.Selections) > 0 {
					last = o.Selections[len(o.Selections)-1]
				}
				if len(o.Selections) != 1 || (o.Proposer == o.Local && last != o.Local) {
					if o.Elapsed >= wait1 {
						reuseFallbacks++
						continue
					}
					r.Violation("BaseProposalSelector.Select:live-node-dropped-without-timeout:reuse",
						fmt.Sprintf("n=%d: local %s, selections %v, proposer %s after %s", w.N, o.Local, o.Selections, o.Proposer, o.Elapsed), wit)
					continue
				}
				if ref == nil {
					ref = o
					continue
				}
				if o.Proposer != ref.Proposer || last != ref.Selections[0] {
					r.Violation("BaseProposalSelector.Select:proposer-depends-on-order:reused-selector:"+kind,
						fmt.Sprintf("n=%d point=%s (%s, step %d of one selector instance): proposer %s on one node, %s on another that was given other listings", w.N, st.point, kind, si, ref.Proposer, o.Proposer), wit)
				}
			}
			if ref != nil {
				reuseJudged++
				if !reuseSampled && si >= 3 && kind == "later-call-of-height" {
					reuseSampled = true
					r.Sample(map[string]any{"phase": "one selector instance reused", "n": w.N, "itinerary_so_far": itinerary, "proposer_on_all_nodes": ref.Proposer})
				}
			}
		}
	}
	r.Count("reuse_points_judged", reuseJudged)
	r.Count("reuse_timing_fallbacks_not_judged", reuseFallbacks)
	r.Set("reuse_instances_per_case", nInst)

	// ---- cached listing: GetNodesFunc returns the same slice every time ------
	// A running node hands the selector the node slice of its cached suffrage,
	// the same object on every call. One proposer request fails once on node A;
	// afterwards A must keep agreeing with node B, which saw no failure, for
	// the same and for later points; and the listing A was given must still be
	// the suffrage.
	nShared := r.N(120, 2000)
	const waitS = 1500 * time.Millisecond
	type sharedRes struct {
		w       *world
		steps   []step
		a, b    []obs
		failed  string
		corrupt string
	}
	sres := make([]*sharedRes, nShared)
	ok = r.WithWatchdog(20*time.Minute, "cached-listing-selects", func() {
		vlib.Parallel(nShared, 128, func(i int) {
			var w *world
			for k := 0; ; k++ {
				w = newWorld(r, 300000+i*7+k)
				if w.N >= 3 {
					break
				}
			}
			rng := r.Rand(7, i)
			res := &sharedRes{w: w}
			h0 := int64(10 + rng.Intn(1000))
			mk := func(h int64, rd uint64) step {
				b := make([]byte, 32)
				rng.Read(b)
				return step{base.RawPoint(h, rd), valuehash.NewBytes(b)}
			}
			first := mk(h0, 0)
			res.steps = []step{first, first} // the failing call, then the same point again
			for rd := uint64(1); rd <= 4; rd++ {
				res.steps = append(res.steps, mk(h0, rd))
			}
			for rd := uint64(0); rd <= 3; rd++ {
				res.steps = append(res.steps, mk(h0+1, rd))
			}
			listingOf := func(perm []int) []base.Node {
				nodes := make([]base.Node, w.N)
				for x, p := range perm {
					nodes[x] = w.locals[p]
				}
				return nodes
			}
			check := func(nodes []base.Node) string {
				seen := map[string]int{}
				for _, n := range nodes {
					if n == nil {
						return "nil entry"
					}
					seen[n.Address().String()]++
				}
				var bad []string
				for a := range w.byAddr {
					if seen[a] != 1 {
						bad = append(bad, fmt.Sprintf("%s x%d", a, seen[a]))
					}
				}
				if len(nodes) != w.N {
					bad = append(bad, fmt.Sprintf("len %d", len(nodes)))
				}
				sort.Strings(bad)
				return strings.Join(bad, ", ")
			}
			r.Guard("BaseProposalSelector.Select", map[string]any{"n": w.N, "phase": "cached listing"}, func() {
				// B: no failure; tells who the first proposer is
				bi := rng.Intn(w.N)
				nb := w.newNodeSel(w.locals[bi], nil, "", wait1, 50*time.Millisecond)
				nb.shared = listingOf(rng.Perm(w.N))
				res.b = make([]obs, len(res.steps))
				res.b[0] = nb.do(res.steps[0].point, res.steps[0].prev)
				primary := res.b[0].Proposer
				// A: another member than the first proposer; its request to the first proposer fails during step 0 only
				ai := rng.Intn(w.N)
				for w.locals[ai].Address().String() == primary {
					ai = (ai + 1) % w.N
				}
				var failing atomic.Value
				failing.Store(primary)
				res.failed = primary
				na := w.newNodeSel(w.locals[ai], nil, "", waitS, 100*time.Millisecond)
				na.deadFn = func() string { return failing.Load().(string) }
				na.shared = listingOf(rng.Perm(w.N))
				res.a = make([]obs, len(res.steps))
				for si, st := range res.steps {
					if si == 1 {
						failing.Store("")
					}
					res.a[si] = na.do(st.point, st.prev)
					if c := check(na.shared); c != "" && res.corrupt == "" {
						res.corrupt = fmt.Sprintf("after call %d (%s): %s", si, st.point, c)
					}
					if si > 0 {
						res.b[si] = nb.do(st.point, st.prev)
					}
					if c := check(nb.shared); c != "" && res.corrupt == "" {
						res.corrupt = fmt.Sprintf("node without failure, after call %d: %s", si, c)
					}
				}
			})
			sres[i] = res
		})
	})
	if !ok {
		return
	}
	var sharedJudged, sharedFallbacks int
	for _, res := range sres {
		if res == nil || res.a == nil || res.b == nil {
			continue
		}
		w := res.w
		var itinerary []string
		for _, x := range res.steps {
			itinerary = append(itinerary, x.point.String())
		}
		wit := map[string]any{"n": w.N, "phase": "GetNodesFunc returns one cached slice", "itinerary": itinerary, "request_failed_once_to": res.failed, "node_with_failure": res.a, "node_without_failure": res.b}
		r.Count("cached_listing_cases", 1)
		if res.corrupt != "" {
			r.Violation("BaseProposalSelector.Select:callers-suffrage-listing-altered", fmt.Sprintf("n=%d: the node slice handed over by GetNodesFunc is no longer the suffrage %s", w.N, res.corrupt), wit)
		}
		for si, st := range res.steps {
			r.Case(fmt.Sprintf("cached|n=%d|%s|%s|step%d", w.N, st.point, st.prev, si))
			r.Count("selects", 2)
			a, b := res.a[si], res.b[si]
			if a.Err != "" || b.Err != "" {
				r.Violation("BaseProposalSelector.Select:error:cached-listing", fmt.Sprintf("n=%d point=%s: %s %s", w.N, st.point, a.Err, b.Err), wit)
				continue
			}
			for _, o := range []obs{a, b} {
				if _, in := w.byAddr[o.Proposer]; !in {
					r.Violation("BaseProposalSelector.Select:proposer-not-a-member", fmt.Sprintf("n=%d: proposer %s is not in the suffrage", w.N, o.Proposer), wit)
				}
				if o.NonMember != "" {
					r.Violation("BlockBasedProposerSelector.Select:result-not-in-input", fmt.Sprintf("n=%d: %s", w.N, o.NonMember), wit)
				}
			}
			if si == 0 {
				// the failing call: A falls back to another proposer by design
				if a.Proposer == res.failed && a.Elapsed < waitS {
					r.Violation("BaseProposalSelector.Select:dead-proposer-returned", fmt.Sprintf("n=%d: %s does not answer but is the proposer", w.N, res.failed), wit)
				}
				continue
			}
			abn := false
			for _, o := range []obs{a, b} {
				last := ""
				if len(o.Selections) > 0 {
					last = o.Selections[len(o.Selections)-1]
				}
				if len(o.Selections) != 1 || (o.Proposer == o.Local && last != o.Local) {
					abn = true
					wt := wait1
					if o.Local == a.Local {
						wt = waitS
					}
					if o.Elapsed < wt {
						r.Violation("BaseProposalSelector.Select:live-node-dropped-without-timeout:cached-listing",
							fmt.Sprintf("n=%d: local %s, selections %v, proposer %s after %s", w.N, o.Local, o.Selections, o.Proposer, o.Elapsed), wit)
					}
				}
			}
			if abn {
				sharedFallbacks++
				continue
			}
			sharedJudged++
			if a.Proposer != b.Proposer {
				when := "later-point"
				if si == 1 {
					when = "same-point-again"
				}
				r.Violation("BaseProposalSelector.Select:proposer-differs-after-one-failed-request:"+when,
					fmt.Sprintf("n=%d point=%s (call %d): the node whose request to %s failed once now selects %s, a node that saw no failure selects %s", w.N, st.point, si, res.failed, a.Proposer, b.Proposer), wit)
			}
		}
	}
	r.Count("cached_listing_points_judged", sharedJudged)
	r.Count("cached_listing_timing_fallbacks_not_judged", sharedFallbacks)
	if sharedJudged < nShared*5 {
		r.Inconclusive(fmt.Sprintf("cached-listing phase judged only %d points", sharedJudged))
	}

	// ---- concurrent calls on one selector instance, one shared listing ------
	if !concurrentPhase(r) {
		return
	}

	// ---- raw selector: result is an element of its input -----------------
	raw := isaac.NewBlockBasedProposerSelector()
	nRaw := r.N(200000, 5000000)
	pool := newWorld(r, 63).locals // 64 nodes
	chunk := 5000
	vlib.Parallel((nRaw+chunk-1)/chunk, 16, func(ci int) {
		for i := ci * chunk; i < (ci+1)*chunk && i < nRaw; i++ {
			rng := r.Rand(3, i)
			n := 1 + rng.Intn(64)
			nodes := make([]base.Node, n)
			for k, p := range rng.Perm(64)[:n] {
				nodes[k] = pool[p]
			}
			b := make([]byte, []int{32, 64, 1, 0}[rng.Intn(4)])
			switch rng.Intn(4) {
			case 0:
				for x := range b {
					b[x] = 0xff
				}
			case 1:
			default:
				rng.Read(b)
			}
			point := base.RawPoint(rng.Int63(), rng.Uint64())
			if rng.Intn(4) == 0 {
				point = base.RawPoint(int64(^uint64(0)>>1), ^uint64(0))
			}
			cp := append([]base.Node{}, nodes...)
			r.Guard("BlockBasedProposerSelector.Select", map[string]any{"n": n, "point": point.String(), "hash_len": len(b)}, func() {
				got, err := raw.Select(context.Background(), point, cp, valuehash.NewBytes(b))
				if err != nil {
					r.Violation("BlockBasedProposerSelector.Select:error", err.Error(), map[string]any{"n": n})
					return
				}
				in := false
				for k := range nodes {
					if got != nil && nodes[k].Address().Equal(got.Address()) {
						in = true
					}
				}
				if !in {
					r.Violation("BlockBasedProposerSelector.Select:result-not-in-input", fmt.Sprintf("n=%d", n), map[string]any{"n": n, "point": point.String()})
				}
				// same input again => same answer
				again, _ := raw.Select(context.Background(), point, cp, valuehash.NewBytes(b))
				if again == nil || got == nil || !again.Address().Equal(got.Address()) {
					r.Violation("BlockBasedProposerSelector.Select:not-a-function-of-its-input", fmt.Sprintf("n=%d", n), nil)
				}
			})
		}
	})
	r.Eval(nRaw)
	r.Count("raw_selector_calls", nRaw)
}
