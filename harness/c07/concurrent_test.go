package c07

import (
	"context"
	"errors"
	"fmt"
	"runtime"
	"sort"
	"strings"
	"sync"
	"sync/atomic"
	"time"

	"github.com/spikeekips/mitum/base"
	"github.com/spikeekips/mitum/isaac"
	"github.com/spikeekips/mitum/util"
	"github.com/spikeekips/mitum/util/valuehash"
	"verifharness/vlib"
)

// ---- concurrent phase -------------------------------------------------------
//
// A node has ONE selector instance; consensus handlers, the sync/broadcast
// paths and requests of other nodes ("who proposes point P?") call Select on
// it from several goroutines at once, for the same and for different points,
// and GetNodesFunc hands out one and the same node slice (the cached suffrage)
// on every call. Here 2..16 goroutines, released together behind a barrier,
// call Select on one instance; every answer is compared with what an
// undisturbed node (own selector instance, called sequentially, own private
// listings) selects for the same (point, previous block, suffrage).

const (
	concModes = 4
	// MinProposerWait of the selectors of this phase. Only a call that took
	// at least this long may legitimately have fallen back to another
	// proposer (the selector's own timeout); such calls are not judged.
	concWait = 60 * time.Second
)

// yielder decides, from a counter and the case's PRNG seed only, where the
// suffrage nodes of one case suspend the calling goroutine inside Address():
// a real suspension point in the middle of whatever the selector is doing
// with the listing (the selector calls Address() on the nodes all the time).
// It does not change what Address() returns.
type yielder struct {
	mode   int
	seed   uint64
	ctr    atomic.Uint64
	yields atomic.Int64
	sleeps atomic.Int64
}

func mix64(x uint64) uint64 {
	x += 0x9e3779b97f4a7c15
	x = (x ^ (x >> 30)) * 0xbf58476d1ce4e5b9
	x = (x ^ (x >> 27)) * 0x94d049bb133111eb
	return x ^ (x >> 31)
}

func (y *yielder) maybe() {
	if y.mode == 0 {
		return
	}
	x := mix64(y.seed + y.ctr.Add(1))
	switch y.mode {
	case 1: // sparse
		if x%16 == 0 {
			y.yields.Add(1)
			runtime.Gosched()
		}
	case 2: // dense
		if x%3 == 0 {
			y.yields.Add(1)
			runtime.Gosched()
		}
	default: // yields and a few short sleeps
		switch {
		case x%8 == 0:
			y.yields.Add(1)
			runtime.Gosched()
		case x%256 == 1:
			y.sleeps.Add(1)
			time.Sleep(time.Duration(5+x>>8%40) * time.Microsecond)
		}
	}
}

// yieldNode is a suffrage node as the selector sees it in this phase.
type yieldNode struct {
	base.Node
	y *yielder
}

func (n yieldNode) Address() base.Address {
	n.y.maybe()
	return n.Node.Address()
}

type concCallKey struct{}

// concCall is one Select call of the concurrent phase.
type concCall struct {
	G          int           `json:"goroutine"`
	Key        int           `json:"-"`
	Point      string        `json:"point"`
	Prev       string        `json:"previous_block"`
	Proposer   string        `json:"proposer"`
	Err        string        `json:"error,omitempty"`
	ElapsedStr string        `json:"elapsed"`
	Elapsed    time.Duration `json:"-"`

	mu         sync.Mutex
	Selections []string `json:"selections_made_under_this_calls_context"`
	NonMember  string   `json:"selected_not_a_member,omitempty"`
	served     int64    // order in which the first proposer selection of this call happened
}

type concKey struct {
	point base.Point
	prev  util.Hash
}

func (k concKey) String() string { return k.point.String() + "|" + k.prev.String() }

type concBatch struct {
	G             int
	Reshuffled    bool
	ListingBefore []string
	ListingAfter  []string
	Corrupt       string
	FailOnce      string // key whose first proposer request fails
	Calls         []*concCall
	MaxInFlight   int64
	ServiceOrder  string
}

type concRes struct {
	w       *world
	mode    int
	local   string
	keys    []concKey
	ref     map[string]obs // by key string: what the undisturbed node selected
	refNode string
	batches []*concBatch
	yields  int64
	sleeps  int64
	failed  int64
	slow    int64
}

// concSel: one real BaseProposalSelector whose GetNodesFunc returns `shared`,
// the same slice, on every call.
type concSel struct {
	w        *world
	sel      *isaac.BaseProposalSelector
	shared   []base.Node
	mu       sync.Mutex
	failOnce map[string]bool
	reqs     atomic.Uint64
	failed   atomic.Int64
	slow     atomic.Int64
	served   atomic.Int64
	seed     uint64
}

func (w *world) newConcSel(local base.LocalNode, shared []base.Node, seed uint64) *concSel {
	cs := &concSel{w: w, shared: shared, failOnce: map[string]bool{}, seed: seed}
	pool := newMemPool()
	args := isaac.NewBaseProposalSelectorArgs()
	args.Pool = pool
	args.Maker = isaac.NewProposalMaker(local, networkID,
		func(context.Context, base.Height) ([][2]util.Hash, error) { return nil, nil }, pool, nil)
	raw := isaac.NewBlockBasedProposerSelector()
	args.ProposerSelectFunc = func(ctx context.Context, point base.Point, nodes []base.Node, prev util.Hash) (base.Node, error) {
		n, err := raw.Select(ctx, point, nodes, prev)
		c, _ := ctx.Value(concCallKey{}).(*concCall)
		if c == nil {
			return n, err
		}
		s := ""
		nonmember := ""
		switch {
		case err != nil:
			s = "error:" + err.Error()
		case n == nil:
			s = "nil"
		default:
			// judged against the suffrage, not against `nodes`: while other
			// calls are in progress a broken selector may be rearranging the
			// slice under our eyes, which is not the raw selector's fault
			s = n.Address().String()
			if _, in := w.byAddr[s]; !in {
				nonmember = s
			}
		}
		c.mu.Lock()
		if len(c.Selections) == 0 {
			c.served = cs.served.Add(1)
		}
		c.Selections = append(c.Selections, s)
		if nonmember != "" {
			c.NonMember = nonmember
		}
		c.mu.Unlock()
		return n, err
	}
	args.GetNodesFunc = func(base.Height) ([]base.Node, bool, error) {
		return cs.shared, true, nil // the very same slice, every time
	}
	args.RequestFunc = func(_ context.Context, point base.Point, proposer base.Node, prev util.Hash) (base.ProposalSignFact, bool, error) {
		a := proposer.Address().String()
		k := concKey{point, prev}.String()
		cs.mu.Lock()
		fail := cs.failOnce[k]
		delete(cs.failOnce, k)
		cs.mu.Unlock()
		if fail {
			cs.failed.Add(1)
			return nil, false, errors.New("request failed (once)")
		}
		switch x := mix64(cs.seed ^ cs.reqs.Add(1)<<20); x % 8 {
		case 0: // slow proposer
			cs.slow.Add(1)
			time.Sleep(time.Duration(1+x>>8%3) * time.Millisecond)
		case 1:
			runtime.Gosched()
		}
		n, ok := w.byAddr[a]
		if !ok {
			return nil, false, errors.New("not a suffrage node")
		}
		sf := isaac.NewProposalSignFact(isaac.NewProposalFact(point, n.Address(), prev, nil))
		if err := sf.Sign(n.Privatekey(), networkID); err != nil {
			return nil, false, err
		}
		return sf, true, nil
	}
	args.MinProposerWait = concWait
	args.RequestProposalInterval = 40 * time.Millisecond
	args.TimeoutRequest = func() time.Duration { return 30 * time.Second }
	cs.sel = isaac.NewBaseProposalSelector(local, args)
	return cs
}

func addrsOf(nodes []base.Node) []string {
	l := make([]string, len(nodes))
	for i, n := range nodes {
		switch t := n.(type) {
		case nil:
			l[i] = "<nil>"
		case yieldNode:
			if t.Node == nil {
				l[i] = "<nil>"
			} else {
				l[i] = t.Node.Address().String()
			}
		default:
			l[i] = n.Address().String()
		}
	}
	return l
}

// sameMembers: "" when l lists every suffrage member exactly once.
func (w *world) sameMembers(l []string) string {
	seen := map[string]int{}
	for _, a := range l {
		seen[a]++
	}
	var bad []string
	for a := range w.byAddr {
		if seen[a] != 1 {
			bad = append(bad, fmt.Sprintf("%s x%d", a, seen[a]))
		}
		delete(seen, a)
	}
	for a, c := range seen {
		bad = append(bad, fmt.Sprintf("foreign %s x%d", a, c))
	}
	if len(l) != w.N {
		bad = append(bad, fmt.Sprintf("len %d", len(l)))
	}
	sort.Strings(bad)
	return strings.Join(bad, ", ")
}

// modelProposer: address-sorted members indexed by (byte sum of the previous
// block hash + height + round) mod n. Evidence only (how often the
// undisturbed node agrees with it), never a verdict: the statement does not
// fix the formula.
func (w *world) modelProposer(k concKey) string {
	l := make([]string, 0, w.N)
	for a := range w.byAddr {
		l = append(l, a)
	}
	sort.Strings(l)
	var sum uint64
	for _, b := range k.prev.Bytes() {
		sum += uint64(b)
	}
	sum += uint64(k.point.Height().Int64()) + k.point.Round().Uint64()
	return l[int(sum%uint64(len(l)))]
}

func concurrentPhase(r *vlib.Run) bool {
	nConc := r.N(256, 4000)
	maxBatches := r.N(2, 4)
	maxJobs := r.N(1, 3)
	results := make([]*concRes, nConc)

	ok := r.WithWatchdog(30*time.Minute, "concurrent-selects", func() {
		vlib.Parallel(nConc, 256, func(i int) {
			rng := r.Rand(8, i)
			var n int
			switch {
			case i < 63:
				n = 2 + i // every size once
			case rng.Intn(2) == 0:
				n = 2 + rng.Intn(11)
			default:
				n = 2 + rng.Intn(63)
			}
			w := newWorldN(r, 400000+i, n)
			res := &concRes{w: w, mode: i % concModes, ref: map[string]obs{}}
			y := &yielder{mode: res.mode, seed: rng.Uint64()}

			shared := make([]base.Node, w.N)
			for x, p := range rng.Perm(w.N) {
				shared[x] = yieldNode{Node: w.locals[p], y: y}
			}
			sortedNow := func() bool {
				l := addrsOf(shared)
				return sort.StringsAreSorted(l)
			}
			local := w.locals[rng.Intn(w.N)]
			res.local = local.Address().String()
			cs := w.newConcSel(local, shared, rng.Uint64())

			// the batches' jobs
			G := 2 + rng.Intn(15)
			if i%5 == 0 {
				G = 16
			}
			nBatches := 1 + rng.Intn(maxBatches)
			if maxBatches > 1 && nBatches < 2 && i%2 == 0 {
				nBatches = 2
			}
			h0 := int64(10 + rng.Intn(100000))
			mk := func(h int64, rd uint64) concKey {
				b := make([]byte, 32)
				rng.Read(b)
				return concKey{base.RawPoint(h, rd), valuehash.NewBytes(b)}
			}
			jobs := make([][][]int, nBatches) // [batch][goroutine] -> key indices
			failOnce := make([]int, nBatches)
			for b := 0; b < nBatches; b++ {
				nKeys := 1 + rng.Intn(8)
				switch rng.Intn(6) {
				case 0:
					nKeys = 1 // everybody asks for the same point
				case 1:
					nKeys = G // everybody asks for another point
				}
				if nKeys > G*maxJobs {
					nKeys = G * maxJobs
				}
				var bk []int
				// points asked before come back (already answered, in the pool)
				for x := 0; x < len(res.keys) && len(bk) < nKeys/3; x++ {
					bk = append(bk, rng.Intn(len(res.keys)))
				}
				h, rd := h0+int64(b), uint64(0)
				for len(bk) < nKeys {
					res.keys = append(res.keys, mk(h, rd))
					bk = append(bk, len(res.keys)-1)
					switch rng.Intn(6) {
					case 0: // neighbouring heights
						h, rd = h+1, 0
					case 1:
						if h > 1 {
							h, rd = h-1, rd+1
						}
					case 2: // the same point after another previous block
						last := res.keys[len(res.keys)-1]
						if len(bk) < nKeys {
							res.keys = append(res.keys, mk(last.point.Height().Int64(), last.point.Round().Uint64()))
							bk = append(bk, len(res.keys)-1)
						}
						rd++
					default: // next round of the height
						rd++
					}
				}
				jobs[b] = make([][]int, G)
				// every key has a caller; the rest of the calls go to random keys (several callers per point)
				slot := 0
				for _, k := range bk {
					jobs[b][slot%G] = append(jobs[b][slot%G], k)
					slot++
				}
				for g := 0; g < G; g++ {
					nj := 1 + rng.Intn(maxJobs)
					for len(jobs[b][g]) < nj {
						jobs[b][g] = append(jobs[b][g], bk[rng.Intn(len(bk))])
					}
					rng.Shuffle(len(jobs[b][g]), func(x, z int) { jobs[b][g][x], jobs[b][g][z] = jobs[b][g][z], jobs[b][g][x] })
				}
				failOnce[b] = -1
				if rng.Intn(3) == 0 {
					failOnce[b] = bk[rng.Intn(len(bk))]
				}
			}

			// the undisturbed node: another member, own selector instance, own
			// private listings (a new order on every call), asked sequentially
			refLocal := w.locals[rng.Intn(w.N)]
			res.refNode = refLocal.Address().String()
			refRng := r.Rand(9, i)
			refSel := w.newNodeSel(refLocal, func() []int { return refRng.Perm(w.N) }, "", concWait, 50*time.Millisecond)
			var refWG sync.WaitGroup
			refWG.Add(1)
			keys := append([]concKey{}, res.keys...)
			go func() {
				defer refWG.Done()
				r.Guard("BaseProposalSelector.Select", map[string]any{"n": w.N, "phase": "concurrent: undisturbed node"}, func() {
					for _, k := range keys {
						o := refSel.do(k.point, k.prev)
						res.ref[k.String()] = o
					}
				})
			}()

			for b := 0; b < nBatches; b++ {
				bt := &concBatch{G: G}
				// quiescent: no call on this selector is in progress
				if b == 0 || rng.Intn(4) != 0 {
					bt.Reshuffled = true
					rng.Shuffle(len(shared), func(x, z int) { shared[x], shared[z] = shared[z], shared[x] })
					if sortedNow() { // never start from the order the selector wants
						shared[0], shared[len(shared)-1] = shared[len(shared)-1], shared[0]
					}
				}
				bt.ListingBefore = addrsOf(shared)
				if failOnce[b] >= 0 {
					k := res.keys[failOnce[b]].String()
					bt.FailOnce = k
					cs.mu.Lock()
					cs.failOnce[k] = true
					cs.mu.Unlock()
				}
				var inFlight, maxInFlight atomic.Int64
				start := make(chan struct{})
				var ready, done sync.WaitGroup
				calls := make([][]*concCall, G)
				for g := 0; g < G; g++ {
					for _, k := range jobs[b][g] {
						calls[g] = append(calls[g], &concCall{G: g, Key: k, Point: res.keys[k].point.String(), Prev: res.keys[k].prev.String()})
					}
					ready.Add(1)
					done.Add(1)
					go func(g int) {
						defer done.Done()
						ready.Done()
						<-start
						for _, c := range calls[g] {
							c := c
							k := res.keys[c.Key]
							r.Guard("BaseProposalSelector.Select:concurrent", map[string]any{"n": w.N, "goroutines": G, "point": c.Point}, func() {
								ctx := context.WithValue(context.Background(), concCallKey{}, c)
								t0 := time.Now()
								if f := inFlight.Add(1); f > maxInFlight.Load() {
									maxInFlight.Store(f) // approximate maximum; evidence only
								}
								pr, err := cs.sel.Select(ctx, k.point, k.prev, 0)
								inFlight.Add(-1)
								el := time.Since(t0)
								c.mu.Lock()
								c.Elapsed = el
								c.ElapsedStr = el.String()
								switch {
								case err != nil:
									c.Err = err.Error()
								case pr == nil:
									c.Err = "nil proposal without error"
								default:
									c.Proposer = pr.ProposalFact().Proposer().String()
								}
								c.mu.Unlock()
							})
						}
					}(g)
				}
				ready.Wait()
				close(start)
				done.Wait()
				// quiescent again
				bt.ListingAfter = addrsOf(shared)
				bt.Corrupt = w.sameMembers(bt.ListingAfter)
				bt.MaxInFlight = maxInFlight.Load()
				for g := range calls {
					bt.Calls = append(bt.Calls, calls[g]...)
				}
				order := append([]*concCall{}, bt.Calls...)
				sort.SliceStable(order, func(x, z int) bool { return order[x].served < order[z].served })
				var so []string
				for _, c := range order {
					if c.served > 0 {
						so = append(so, fmt.Sprint(c.G))
					}
				}
				bt.ServiceOrder = strings.Join(so, ",")
				res.batches = append(res.batches, bt)
				if bt.Corrupt != "" {
					// restore so that later batches are judged on their own
					for x, p := range rng.Perm(w.N) {
						shared[x] = yieldNode{Node: w.locals[p], y: y}
					}
				}
			}
			refWG.Wait()
			res.yields, res.sleeps = y.yields.Load(), y.sleeps.Load()
			res.failed, res.slow = cs.failed.Load(), cs.slow.Load()
			results[i] = res
		})
	})
	if !ok {
		return false
	}

	// ---- judge ---------------------------------------------------------------
	var calls, judged, notJudged, refNotJudged, pointsJudged, multiCaller, modelAgree, modelDisagree, differing, altered int
	var maxInFlight int64
	sizes := map[int]bool{}
	sampled := 0
	for _, res := range results {
		if res == nil {
			continue
		}
		w := res.w
		sizes[w.N] = true
		r.Count("concurrent_selector_instances", 1)
		r.Count("concurrent_address_call_yields", int(res.yields))
		r.Count("concurrent_address_call_sleeps", int(res.sleeps))
		r.Count("concurrent_requests_failed_once", int(res.failed))
		r.Count("concurrent_requests_slow", int(res.slow))
		r.SetAdd("concurrent_schedule_modes", fmt.Sprint(res.mode))

		// what the undisturbed node selected, per key
		refOf := map[string]string{}
		for ks, o := range res.ref {
			last := ""
			if len(o.Selections) > 0 {
				last = o.Selections[len(o.Selections)-1]
			}
			switch {
			case o.Err != "":
				r.Violation("BaseProposalSelector.Select:error:undisturbed-node", fmt.Sprintf("n=%d %s: %s", w.N, ks, o.Err), map[string]any{"n": w.N, "key": ks, "observation": o})
			case len(o.Selections) != 1 || (o.Proposer == o.Local && last != o.Local):
				if o.Elapsed < concWait {
					r.Violation("BaseProposalSelector.Select:live-node-dropped-without-timeout:undisturbed-node",
						fmt.Sprintf("n=%d: local %s, selections %v, proposer %s after %s", w.N, o.Local, o.Selections, o.Proposer, o.Elapsed), map[string]any{"n": w.N, "key": ks, "observation": o})
				}
				refNotJudged++
			default:
				refOf[ks] = o.Proposer
			}
		}
		for _, k := range res.keys {
			if p, ok := refOf[k.String()]; ok {
				if p == w.modelProposer(k) {
					modelAgree++
				} else {
					modelDisagree++
				}
			}
		}

		for bi, bt := range res.batches {
			r.Count("concurrent_batches", 1)
			r.SetAdd("concurrent_goroutines_per_batch", fmt.Sprint(bt.G))
			r.SetAdd("concurrent_service_orders", fmt.Sprintf("%d|%s", bt.G, bt.ServiceOrder))
			if bt.MaxInFlight > maxInFlight {
				maxInFlight = bt.MaxInFlight
			}
			listing := "listing-reshuffled-before-batch"
			if !bt.Reshuffled {
				listing = "listing-as-the-selector-left-it"
			}
			r.Count("concurrent_batches_"+listing, 1)
			if bt.FailOnce != "" {
				r.Count("concurrent_batches_with_a_request_failing_once", 1)
			}
			wit := map[string]any{"phase": "concurrent Select calls on one selector instance, GetNodesFunc returns one shared slice",
				"n": w.N, "goroutines": bt.G, "batch": bi, "schedule_mode": res.mode, "local": res.local,
				"listing_before_batch": bt.ListingBefore, "listing_after_batch": bt.ListingAfter, "listing": listing,
				"request_fails_once_for": bt.FailOnce, "calls": bt.Calls, "undisturbed_node": res.refNode, "undisturbed_node_selected": refOf}
			r.Count("concurrent_listing_checks", 1)
			if bt.Corrupt != "" {
				altered++
				r.Violation("BaseProposalSelector.Select:concurrent:callers-suffrage-listing-altered",
					fmt.Sprintf("n=%d, %d goroutines: after the batch the node slice handed over by GetNodesFunc no longer lists the suffrage members once each: %s", w.N, bt.G, bt.Corrupt), wit)
			}
			byKey := map[int][]*concCall{}
			var order []int
			for _, c := range bt.Calls {
				if _, ok := byKey[c.Key]; !ok {
					order = append(order, c.Key)
				}
				byKey[c.Key] = append(byKey[c.Key], c)
			}
			for _, ki := range order {
				k := res.keys[ki]
				cl := byKey[ki]
				r.Case(fmt.Sprintf("concurrent|n=%d|G=%d|mode%d|batch%d|%s|callers=%d|%s", w.N, bt.G, res.mode, bi, k, len(cl), listing))
				if len(cl) > 1 {
					multiCaller++
				}
				ref, haveRef := refOf[k.String()]
				first := ""
				nj := 0
				for _, c := range cl {
					calls++
					if c.NonMember != "" {
						r.Violation("ProposerSelectFunc:selected-not-a-member", fmt.Sprintf("n=%d: %s", w.N, c.NonMember), wit)
					}
					if c.Err != "" {
						r.Violation("BaseProposalSelector.Select:concurrent:error", fmt.Sprintf("n=%d point=%s, %d goroutines: Select failed although every node answers: %s", w.N, c.Point, bt.G, c.Err), wit)
						continue
					}
					if c.Proposer == "" {
						continue // panicked; reported by Guard
					}
					if _, in := w.byAddr[c.Proposer]; !in {
						r.Violation("BaseProposalSelector.Select:proposer-not-a-member", fmt.Sprintf("n=%d: proposer %s is not in the suffrage", w.N, c.Proposer), wit)
					}
					if c.Elapsed >= concWait {
						notJudged++ // may be the selector's own timeout fallback
						continue
					}
					judged++
					nj++
					if first == "" {
						first = c.Proposer
					} else if c.Proposer != first {
						r.Violation("BaseProposalSelector.Select:concurrent:answers-for-one-point-differ",
							fmt.Sprintf("n=%d point=%s, %d goroutines on one selector: %s for one caller, %s for another", w.N, c.Point, bt.G, first, c.Proposer), wit)
					}
					if haveRef && c.Proposer != ref {
						differing++
						r.Violation("BaseProposalSelector.Select:concurrent:proposer-differs-from-undisturbed-node:"+listing,
							fmt.Sprintf("n=%d point=%s: with %d goroutines calling one selector (other points in progress, shared listing) the proposer is %s; a node whose selector is called sequentially selects %s", w.N, c.Point, bt.G, c.Proposer, ref), wit)
					}
				}
				if nj > 0 && haveRef {
					pointsJudged++
				}
			}
			if sampled < 2 && w.N >= 3 && bt.G >= 4 && len(order) >= 2 && bt.Corrupt == "" {
				sampled++
				var cs []map[string]any
				for _, c := range bt.Calls {
					cs = append(cs, map[string]any{"goroutine": c.G, "point": c.Point, "proposer": c.Proposer, "undisturbed_node_selects": refOf[res.keys[c.Key].String()]})
				}
				r.Sample(map[string]any{"phase": "concurrent", "n": w.N, "goroutines": bt.G, "schedule_mode": res.mode, "listing_before_batch": bt.ListingBefore, "calls": cs})
			}
		}
	}
	r.Count("selects", calls)
	r.Count("concurrent_selects", calls)
	r.Count("concurrent_selects_judged", judged)
	r.Count("concurrent_selects_not_judged_took_longer_than_min_proposer_wait", notJudged)
	r.Count("concurrent_undisturbed_node_answers_not_judged", refNotJudged)
	r.Count("concurrent_selects_differing_from_undisturbed_node", differing)
	r.Count("concurrent_batches_leaving_the_listing_altered", altered)
	r.Count("concurrent_points_judged", pointsJudged)
	r.Count("concurrent_points_with_several_callers", multiCaller)
	r.Count("concurrent_undisturbed_node_agrees_with_sorted_index_model", modelAgree)
	r.Count("concurrent_undisturbed_node_differs_from_sorted_index_model", modelDisagree)
	r.Set("concurrent_max_calls_in_flight_on_one_selector", maxInFlight)
	r.Set("concurrent_suffrage_sizes_covered", len(sizes))
	if judged < calls*8/10 || pointsJudged == 0 {
		r.Inconclusive(fmt.Sprintf("concurrent phase judged only %d of %d calls (%d points)", judged, calls, pointsJudged))
	}
	return true
}
