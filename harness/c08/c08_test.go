package c08

// C08: the local node never equivocates.
//
// A real isaacstates.States (stub handlers from hook H2, current state Syncing
// or Broken, consensus allowed, every remote signer in the sync sources) is
// wired to a real Ballotbox and a real DefaultBallotBroadcaster over a real
// TempPool on memory leveldb. Remote suffrage nodes deliver ballots for the
// same stage point with different facts through Ballotbox.Vote (which starts
// the mimic path) and through the mimic function directly; in some rounds the
// real ballot part of the consensus handlers (baseBallotHandler: pool check,
// sign, broadcast timers with re-broadcast) makes the local node's own ballot
// for the same point, and pooled ballots are re-broadcast. The harness wraps
// the BallotBroadcaster so that the "already have one?" check is followed by a
// yield or a short sleep: a callback the production code calls between the
// check and the act, holding no lock.
//
// Oracle: among the ballots handed to the network function (broadcastFunc) and
// signed by the local node, all with the same (stage point, suffrage-confirm
// flag) carry the same fact.

import (
	"context"
	"fmt"
	"math/rand"
	"runtime"
	"sort"
	"strings"
	"sync"
	"sync/atomic"
	"testing"
	"time"

	"github.com/rs/zerolog"
	"github.com/spikeekips/mitum/base"
	"github.com/spikeekips/mitum/isaac"
	isaacdatabase "github.com/spikeekips/mitum/isaac/database"
	isaacstates "github.com/spikeekips/mitum/isaac/states"
	leveldbstorage "github.com/spikeekips/mitum/storage/leveldb"
	"github.com/spikeekips/mitum/util"
	"github.com/spikeekips/mitum/util/encoder"
	jsonenc "github.com/spikeekips/mitum/util/encoder/json"
	"github.com/spikeekips/mitum/util/logging"
	"github.com/spikeekips/mitum/util/valuehash"
	"verifharness/vlib"
)

func goid() uint64 {
	var buf [64]byte
	n := runtime.Stack(buf[:], false)
	var id uint64
	for _, c := range buf[len("goroutine "):n] {
		if c < '0' || c > '9' {
			break
		}
		id = id*10 + uint64(c-'0')
	}
	return id
}

func stackHasSuffix(suffix string) bool {
	pcs := make([]uintptr, 48)
	n := runtime.Callers(2, pcs)
	fr := runtime.CallersFrames(pcs[:n])
	for {
		f, more := fr.Next()
		if strings.HasSuffix(f.Function, suffix) {
			return true
		}
		if !more {
			return false
		}
	}
}

// refEncoder is the real JSON encoder except that ballots are kept by
// reference instead of being serialized. Used only in -race builds, where one
// sonic JSON encoding of a ballot takes seconds.
type refEncoder struct {
	*jsonenc.Encoder
	mu   sync.Mutex
	objs map[string]interface{}
	n    uint64
}

func (e *refEncoder) Marshal(v interface{}) ([]byte, error) {
	if _, ok := v.(base.Ballot); !ok {
		return e.Encoder.Marshal(v)
	}
	e.mu.Lock()
	defer e.mu.Unlock()
	e.n++
	k := fmt.Sprintf("REF:%d", e.n)
	e.objs[k] = v
	return []byte(k), nil
}

func (e *refEncoder) Decode(b []byte) (interface{}, error) {
	if !strings.HasPrefix(string(b), "REF:") {
		return e.Encoder.Decode(b)
	}
	e.mu.Lock()
	defer e.mu.Unlock()
	v, ok := e.objs[string(b)]
	if !ok {
		return nil, util.ErrNotFound.Errorf("unknown reference %q", string(b))
	}
	return v, nil
}

func newEncoders() (*encoder.Encoders, encoder.Encoder, error) {
	var enc encoder.Encoder = jsonenc.NewEncoder()
	if raceEnabled {
		enc = &refEncoder{Encoder: jsonenc.NewEncoder(), objs: map[string]interface{}{}}
	}
	encs := encoder.NewEncoders(enc, enc)
	for _, d := range []encoder.DecodeDetail{
		{Hint: base.MPublickeyHint, Instance: &base.MPublickey{}},
		{Hint: base.StringAddressHint, Instance: base.StringAddress{}},
		{Hint: isaac.INITBallotFactHint, Instance: isaac.INITBallotFact{}},
		{Hint: isaac.ACCEPTBallotFactHint, Instance: isaac.ACCEPTBallotFact{}},
		{Hint: isaac.EmptyProposalINITBallotFactHint, Instance: isaac.EmptyProposalINITBallotFact{}},
		{Hint: isaac.EmptyOperationsACCEPTBallotFactHint, Instance: isaac.EmptyOperationsACCEPTBallotFact{}},
		{Hint: isaac.NotProcessedACCEPTBallotFactHint, Instance: isaac.NotProcessedACCEPTBallotFact{}},
		{Hint: isaac.SuffrageConfirmBallotFactHint, Instance: isaac.SuffrageConfirmBallotFact{}},
		{Hint: isaac.INITBallotSignFactHint, Instance: isaac.INITBallotSignFact{}},
		{Hint: isaac.ACCEPTBallotSignFactHint, Instance: isaac.ACCEPTBallotSignFact{}},
		{Hint: isaac.INITBallotHint, Instance: isaac.INITBallot{}},
		{Hint: isaac.ACCEPTBallotHint, Instance: isaac.ACCEPTBallot{}},
		{Hint: isaac.INITVoteproofHint, Instance: isaac.INITVoteproof{}},
		{Hint: isaac.ACCEPTVoteproofHint, Instance: isaac.ACCEPTVoteproof{}},
		{Hint: isaac.INITExpelVoteproofHint, Instance: isaac.INITExpelVoteproof{}},
		{Hint: isaac.ACCEPTExpelVoteproofHint, Instance: isaac.ACCEPTExpelVoteproof{}},
		{Hint: isaac.SuffrageExpelOperationHint, Instance: isaac.SuffrageExpelOperation{}},
		{Hint: isaac.SuffrageExpelFactHint, Instance: isaac.SuffrageExpelFact{}},
	} {
		if err := encs.AddDetail(d); err != nil {
			return nil, nil, err
		}
	}
	return encs, enc, nil
}

// ---------------------------------------------------------------- stubs for States

type okScript struct {
	mu      sync.Mutex
	entered chan isaacstates.StateType
}

func (*okScript) OnState(isaacstates.StateType, uint64) {}
func (s *okScript) OnEnter(h isaacstates.StateType, _ uint64, _ isaacstates.StateType, _ isaacstates.VerifSwitchContextInfo) (func(), error) {
	return func() {
		select {
		case s.entered <- h:
		default:
		}
	}, nil
}
func (*okScript) OnExit(isaacstates.StateType, uint64, isaacstates.VerifSwitchContextInfo) (func(), error) {
	return func() {}, nil
}
func (*okScript) OnNewVoteproof(isaacstates.StateType, uint64, base.Voteproof) error { return nil }
func (*okScript) OnSetAllowConsensus(isaacstates.StateType, uint64, bool)            {}

// ---------------------------------------------------------------- events

type ev struct {
	Seq   uint64 `json:"seq"`
	Kind  string `json:"kind"` // check | broadcast-call | wire | mimic-start | mimic-end
	Path  string `json:"path"`
	G     uint64 `json:"g"`
	Key   string `json:"key"`
	Fact  string `json:"fact,omitempty"`
	FKind string `json:"fact_kind,omitempty"`
	Found bool   `json:"found,omitempty"`
	Node  string `json:"node,omitempty"`
}

type wireRec struct {
	fact string
	kind string // kind of ballot fact (kinds_test.go)
	path string
	seq  uint64
}

type totals struct {
	mu     sync.Mutex
	counts map[string]int
	marks  map[string]bool
}

func (t *totals) mark(k string) {
	t.mu.Lock()
	t.marks[k] = true
	t.mu.Unlock()
}

func (t *totals) add(k string, n int) {
	t.mu.Lock()
	t.counts[k] += n
	t.mu.Unlock()
}

type rig struct {
	r   *vlib.Run
	tot *totals
	idx int

	networkID base.NetworkID
	local     base.LocalNode
	remotes   []base.LocalNode
	all       []base.LocalNode
	suf       base.Suffrage

	st      *isaacstates.States
	box     *isaacstates.Ballotbox
	pool    *isaacdatabase.TempPool
	storage *leveldbstorage.Storage
	bb      *isaacstates.DefaultBallotBroadcaster
	mimic   func(base.Ballot)
	handler *isaacstates.VerifBallotHandler
	script  *okScript

	mu       sync.Mutex
	rng      *rand.Rand // delays, drawn in call order
	seq      uint64
	events   []ev
	wires    map[string][]wireRec // key -> distinct facts on the wire, signed by local
	paths    map[uint64]string    // goroutine -> path
	started  int
	inflight int

	proposals      sync.Map // point string -> ProposalSignFact
	emptyProposals sync.Map // point string -> the proposal the handler selects has no operations
	hookKinds      bool     // the handler can be given every kind of fact (hook ballot_kinds_verif.go)
	round          string

	// histories across stage points (history_test.go)
	hist       *histState
	doneKeys   map[string]int // finished mimic calls per ballot
	cleanDepth int            // configured depth of the pool's periodic ballot cleaner (evidence only)
}

func (g *rig) keyOf(point base.StagePoint, sc bool) string {
	return fmt.Sprintf("%s/sc=%v", point.String(), sc)
}

func (g *rig) pathOf(gid uint64) string {
	if p, ok := g.paths[gid]; ok {
		return p
	}
	return ""
}

// wrapper around the real broadcaster: BallotBroadcaster given to States
type bbWrap struct{ g *rig }

func (w bbWrap) Ballot(point base.Point, stage base.Stage, sc bool) (base.Ballot, bool, error) {
	g := w.g
	bl, found, err := g.bb.Ballot(point, stage, sc)

	gid := goid()
	path := ""
	if stackHasSuffix("(*baseBallotHandler).makeACCEPTBallot") || stackHasSuffix("(*baseBallotHandler).makeINITBallot") ||
		stackHasSuffix("(*baseBallotHandler).makeSuffrageConfirmBallot") {
		path = "handler"
	}

	g.mu.Lock()
	if path == "" {
		path = g.pathOf(gid)
	}
	g.seq++
	g.events = append(g.events, ev{Seq: g.seq, Kind: "check", Path: path, G: gid, Key: g.keyOf(base.NewStagePoint(point, stage), sc), Found: found})
	x := g.rng.Intn(100)
	d := time.Duration(1+g.rng.Intn(200)) * time.Microsecond
	g.mu.Unlock()

	// the suspension between "already have a ballot?" and the act
	switch {
	case x < 30:
	case x < 60:
		runtime.Gosched()
	default:
		time.Sleep(d)
	}
	return bl, found, err
}

func (w bbWrap) Broadcast(bl base.Ballot) error {
	g := w.g
	gid := goid()
	g.mu.Lock()
	g.seq++
	g.events = append(g.events, ev{Seq: g.seq, Kind: "broadcast-call", Path: g.pathOf(gid), G: gid,
		Key:  g.keyOf(bl.Point(), isaac.IsSuffrageConfirmBallotFact(bl.SignFact().Fact())),
		Fact: bl.SignFact().Fact().Hash().String(), FKind: factKind(bl.SignFact().Fact()), Node: bl.SignFact().Node().String()})
	if h := g.hist; h != nil && bl.SignFact().Node().Equal(g.local.Address()) &&
		h.key == g.keyOf(bl.Point(), isaac.IsSuffrageConfirmBallotFact(bl.SignFact().Fact())) {
		h.offered = append(h.offered, bl)
	}
	g.mu.Unlock()
	err := g.bb.Broadcast(bl)
	if err != nil {
		g.tot.add("broadcast_calls_returning_error", 1)
	}
	return err
}

// broadcastFunc of the real DefaultBallotBroadcaster: the network
func (g *rig) onWire(bl base.Ballot) error {
	gid := goid()
	path := ""
	switch {
	case stackHasSuffix("(*baseBallotHandler).broadcastBallot"):
		path = "handler"
	}
	key := g.keyOf(bl.Point(), isaac.IsSuffrageConfirmBallotFact(bl.SignFact().Fact()))
	fact := bl.SignFact().Fact().Hash().String()
	kind := factKind(bl.SignFact().Fact())
	islocal := bl.SignFact().Node().Equal(g.local.Address())

	g.mu.Lock()
	defer g.mu.Unlock()
	if path == "" {
		path = g.pathOf(gid)
	}
	if path == "" {
		path = "other"
	}
	if islocal {
		g.tot.add("local_ballots_on_wire_kind_"+kind, 1)
	}
	g.seq++
	g.events = append(g.events, ev{Seq: g.seq, Kind: "wire", Path: path, G: gid, Key: key, Fact: fact, FKind: kind, Node: bl.SignFact().Node().String()})
	g.tot.add("ballots_on_wire_"+path, 1)
	if !islocal {
		g.tot.add("ballots_on_wire_not_signed_by_local", 1)
		return nil
	}
	recs := g.wires[key]
	for _, w := range recs {
		if w.fact == fact {
			return nil
		}
	}
	g.wires[key] = append(recs, wireRec{fact: fact, kind: kind, path: path, seq: g.seq})
	if len(recs) > 0 {
		ps := []string{recs[0].path, path}
		sort.Strings(ps)
		stage := bl.Point().Stage().String()
		sc := isaac.IsSuffrageConfirmBallotFact(bl.SignFact().Fact())
		var tail []ev
		for _, e := range g.events {
			if e.Key == key {
				tail = append(tail, e)
			}
		}
		if len(tail) > 60 {
			tail = tail[len(tail)-60:]
		}
		if h := g.hist; h != nil && h.key == key && h.phase == 3 {
			// the conflicting ballot came after ballots of later stage points went
			// through the broadcaster and the pool
			g.r.Violation(fmt.Sprintf("equivocation:after-later-heights:%s+%s:stage=%s:sc=%v:kinds=%s+%s", recs[0].path, path, stage, sc, recs[0].kind, kind),
				fmt.Sprintf("local node %s broadcast two different ballot facts for %s: %s (%s fact, by %s) and, after %d later stage points up to %d heights above were stored, %s (%s fact, by %s); case: %s",
					g.local.Address(), key, recs[0].fact, recs[0].kind, recs[0].path, h.laterStored, h.k, fact, kind, path, g.round),
				map[string]any{"case": g.round, "key": key, "later_stage_points_stored": h.laterStored, "distance_k": h.k, "events_for_key": tail})
			return nil
		}
		// kinds in the order of the broadcast log: kind broadcast first + kind broadcast after it
		g.r.Violation(fmt.Sprintf("equivocation:%s+%s:stage=%s:sc=%v:kinds=%s+%s", ps[0], ps[1], stage, sc, recs[0].kind, kind),
			fmt.Sprintf("local node %s broadcast two different ballot facts for %s: %s (%s fact, by %s) and %s (%s fact, by %s); round: %s",
				g.local.Address(), key, recs[0].fact, recs[0].kind, recs[0].path, fact, kind, path, g.round),
			map[string]any{"round": g.round, "key": key, "events_for_key": tail})
	}
	return nil
}

func (g *rig) mimicAs(path string) func(base.Ballot) {
	return func(bl base.Ballot) {
		gid := goid()
		g.mu.Lock()
		g.paths[gid] = path
		g.started++
		g.inflight++
		g.mu.Unlock()
		defer func() {
			g.mu.Lock()
			delete(g.paths, gid)
			g.inflight--
			if g.doneKeys != nil {
				g.doneKeys[doneKey(bl)]++
			}
			g.mu.Unlock()
		}()
		g.mimic(bl)
	}
}

func newRig(r *vlib.Run, tot *totals, idx int, nremotes int) (*rig, error) {
	g := &rig{r: r, tot: tot, idx: idx, rng: r.Rand(30, idx), wires: map[string][]wireRec{}, paths: map[uint64]string{}}
	g.networkID = base.RandomNetworkID()
	g.local = base.RandomLocalNode()
	suf, all := isaac.NewTestSuffrage(nremotes, g.local)
	g.suf = suf
	g.all = all
	for _, n := range all {
		if !n.Address().Equal(g.local.Address()) {
			g.remotes = append(g.remotes, n)
		}
	}

	encs, enc, err := newEncoders()
	if err != nil {
		return nil, err
	}
	g.storage = leveldbstorage.NewMemStorage()
	pool, err := isaacdatabase.NewTempPool(g.storage, encs, enc, 0)
	if err != nil {
		return nil, err
	}
	g.pool = pool
	_, g.cleanDepth = pool.VerifCleanDepths()
	g.bb = isaacstates.NewDefaultBallotBroadcaster(g.local.Address(), pool, g.onWire)

	g.box = isaacstates.NewBallotbox(g.local.Address(),
		func() base.Threshold { return base.Threshold(67) },
		func(base.Height) (base.Suffrage, bool, error) { return g.suf, true, nil })

	args := isaacstates.NewStatesArgs()
	args.AllowConsensus = true
	args.Ballotbox = g.box
	args.BallotBroadcaster = bbWrap{g: g}
	args.IsInSyncSourcePoolFunc = func(base.Address) bool { return true }
	args.IntervalBroadcastBallot = func() time.Duration { return time.Millisecond * 35 }

	st, err := isaacstates.NewStates(g.networkID, g.local, args)
	if err != nil {
		return nil, err
	}
	_ = st.SetLogging(logging.TestNilLogging)
	g.script = &okScript{entered: make(chan isaacstates.StateType, 64)}
	st.VerifSetStubHandlers(g.script)
	g.st = st
	g.mimic = st.VerifMimicBallotFunc()
	g.box.SetNewBallotFunc(g.mimicAs("mimic-box"))

	if err := st.Start(context.Background()); err != nil {
		return nil, err
	}
	return g, nil
}

// waitState waits until the deferred function of the stub's enter ran for the
// wanted state (it runs after the switch is complete).
func (g *rig) waitState(want isaacstates.StateType) bool {
	deadline := time.After(time.Second * 20)
	for {
		select {
		case s := <-g.script.entered:
			if s == want {
				return true
			}
		case <-deadline:
			return false
		}
	}
}

func (g *rig) hash(rng *rand.Rand) util.Hash {
	b := make([]byte, 32)
	_, _ = rng.Read(b)
	return valuehash.NewSHA256(b)
}

func (g *rig) acceptVoteproof(point base.Point, proposal, newBlock util.Hash) (isaac.ACCEPTVoteproof, error) {
	fact := isaac.NewACCEPTBallotFact(point, proposal, newBlock, nil)
	sfs := make([]base.BallotSignFact, len(g.all))
	for i, n := range g.all {
		sf := isaac.NewACCEPTBallotSignFact(fact)
		if err := sf.NodeSign(n.Privatekey(), g.networkID, n.Address()); err != nil {
			return isaac.ACCEPTVoteproof{}, err
		}
		sfs[i] = sf
	}
	vp := isaac.NewACCEPTVoteproof(point)
	vp.SetMajority(fact).SetSignFacts(sfs).SetThreshold(base.Threshold(67)).Finish()
	return vp, nil
}

// expelVoteproof: INIT expel voteproof at point whose majority expels the last
// remote node, and the matching suffrage confirm fact.
func (g *rig) expelVoteproof(point base.Point, prev, proposal util.Hash, reason string) (
	isaac.INITExpelVoteproof, isaac.SuffrageConfirmBallotFact, error,
) {
	var novp isaac.INITExpelVoteproof
	var nof isaac.SuffrageConfirmBallotFact
	expelled := g.remotes[len(g.remotes)-1]
	op := isaac.NewSuffrageExpelOperation(isaac.NewSuffrageExpelFact(expelled.Address(), point.Height()-1, point.Height()+1, reason))
	var signers []base.LocalNode
	for _, n := range g.all {
		if !n.Address().Equal(expelled.Address()) {
			signers = append(signers, n)
		}
	}
	for _, n := range signers {
		if err := op.NodeSign(n.Privatekey(), g.networkID, n.Address()); err != nil {
			return novp, nof, err
		}
	}
	expels := []base.SuffrageExpelOperation{op}
	expelfacts := []util.Hash{op.Fact().Hash()}
	fact := isaac.NewINITBallotFact(point, prev, proposal, expelfacts)
	sfs := make([]base.BallotSignFact, len(signers))
	for i, n := range signers {
		sf := isaac.NewINITBallotSignFact(fact)
		if err := sf.NodeSign(n.Privatekey(), g.networkID, n.Address()); err != nil {
			return novp, nof, err
		}
		sfs[i] = sf
	}
	vp := isaac.NewINITExpelVoteproof(point)
	vp.SetMajority(fact).SetSignFacts(sfs).SetThreshold(base.Threshold(67))
	vp.SetExpels(expels)
	vp.Finish()
	return vp, isaac.NewSuffrageConfirmBallotFact(point, prev, proposal, expelfacts), nil
}

func (g *rig) initVoteproof(point base.Point, prev, proposal util.Hash) (isaac.INITVoteproof, error) {
	fact := isaac.NewINITBallotFact(point, prev, proposal, nil)
	sfs := make([]base.BallotSignFact, len(g.all))
	for i, n := range g.all {
		sf := isaac.NewINITBallotSignFact(fact)
		if err := sf.NodeSign(n.Privatekey(), g.networkID, n.Address()); err != nil {
			return isaac.INITVoteproof{}, err
		}
		sfs[i] = sf
	}
	vp := isaac.NewINITVoteproof(point)
	vp.SetMajority(fact).SetSignFacts(sfs).SetThreshold(base.Threshold(67)).Finish()
	return vp, nil
}

type roundSpec struct {
	Kind    string `json:"kind"` // INIT | ACCEPT | SC (suffrage confirm, stage INIT)
	Height  int64  `json:"height"`
	Remotes int    `json:"remote_ballots"`
	Facts   int    `json:"distinct_facts"`
	// kind of each distinct fact (in SC rounds: of the plain INIT ballots for the
	// same point) and of the ballot the handler makes
	FactKinds   []string `json:"fact_kinds"`
	HandlerKind string   `json:"handler_kind,omitempty"`
	Direct      []bool   `json:"direct_mimic"`
	Handler     bool     `json:"handler"`
	Rebroad     bool     `json:"rebroadcast"`
	State       string   `json:"state"`
	OtherKeys   int      `json:"other_points"`
}

func (g *rig) runRound(ri int, spec roundSpec) {
	rng := g.r.Rand(31, g.idx, ri)
	point := base.RawPoint(spec.Height, 0)
	stage := base.StageINIT
	if spec.Kind == "ACCEPT" {
		stage = base.StageACCEPT
	}
	sp := base.NewStagePoint(point, stage)
	key := g.keyOf(sp, spec.Kind == "SC")
	g.mu.Lock()
	g.round = fmt.Sprintf("rig %d round %d %+v", g.idx, ri, spec)
	startSeq := g.seq
	started0 := g.started
	g.mu.Unlock()

	// the voteproof every ballot of the round carries
	prevBlock := g.hash(rng)
	var avp isaac.ACCEPTVoteproof
	var ivp isaac.INITVoteproof
	var err error
	ivpProposal := g.hash(rng)
	switch spec.Kind {
	case "INIT", "SC":
		avp, err = g.acceptVoteproof(point.PrevHeight(), g.hash(rng), prevBlock)
	default:
		ivp, err = g.initVoteproof(point, prevBlock, ivpProposal)
	}
	if err != nil {
		g.r.Inconclusive("voteproof: " + err.Error())
		return
	}

	// suffrage confirm: two variants of an expel voteproof for the same point
	// (different expel facts), each with its suffrage confirm fact
	var scvps []isaac.INITExpelVoteproof
	var scfacts []isaac.SuffrageConfirmBallotFact
	if spec.Kind == "SC" {
		scProposal := g.hash(rng)
		for v := 0; v < spec.Facts; v++ {
			vp, f, err := g.expelVoteproof(point, prevBlock, scProposal, fmt.Sprintf("reason-%d-%d", v, rng.Int63()))
			if err != nil {
				g.r.Inconclusive("expel voteproof: " + err.Error())
				return
			}
			scvps = append(scvps, vp)
			scfacts = append(scfacts, f)
		}
	}

	// the distinct facts of the round, each of its kind; several nodes sign the
	// same fact
	facts := make([]base.BallotFact, spec.Facts)
	for i := range facts {
		if stage == base.StageINIT {
			facts[i] = newINITFact(spec.FactKinds[i], point, prevBlock, g.hash(rng))
		} else {
			facts[i] = newACCEPTFact(spec.FactKinds[i], point, ivpProposal, g.hash(rng))
		}
	}
	// fact nil: a ballot for another point p, with a fact of any kind
	mk := func(n base.LocalNode, p base.Point, st base.Stage, fact base.BallotFact) (base.Ballot, error) {
		if st == base.StageINIT {
			v := avp
			if !p.Equal(point) { // other point: own voteproof
				if v, err = g.acceptVoteproof(p.PrevHeight(), g.hash(rng), prevBlock); err != nil {
					return nil, err
				}
			}
			if fact == nil {
				fact = newINITFact(drawKind(rng, "INIT"), p, prevBlock, g.hash(rng))
			}
			sf := isaac.NewINITBallotSignFact(fact.(base.INITBallotFact))
			if err := sf.NodeSign(n.Privatekey(), g.networkID, n.Address()); err != nil {
				return nil, err
			}
			return isaac.NewINITBallot(v, sf, nil), nil
		}
		v := ivp
		if !p.Equal(point) {
			if v, err = g.initVoteproof(p, prevBlock, ivpProposal); err != nil {
				return nil, err
			}
		}
		if fact == nil {
			fact = newACCEPTFact(drawKind(rng, "ACCEPT"), p, ivpProposal, g.hash(rng))
		}
		sf := isaac.NewACCEPTBallotSignFact(fact.(base.ACCEPTBallotFact))
		if err := sf.NodeSign(n.Privatekey(), g.networkID, n.Address()); err != nil {
			return nil, err
		}
		return isaac.NewACCEPTBallot(v, sf, nil), nil
	}

	type delivery struct {
		bl     base.Ballot
		direct bool
	}
	var ds []delivery
	for i := 0; i < spec.Remotes; i++ {
		var bl base.Ballot
		var err error
		if spec.Kind == "SC" && (i < spec.Facts || i%3 != 2) {
			n := g.remotes[i%(len(g.remotes)-1)] // the last remote is the expelled one
			sf := isaac.NewINITBallotSignFact(scfacts[i%len(scfacts)])
			if err = sf.NodeSign(n.Privatekey(), g.networkID, n.Address()); err == nil {
				bl = isaac.NewINITBallot(scvps[i%len(scvps)], sf, nil)
			}
		} else {
			bl, err = mk(g.remotes[i%len(g.remotes)], point, stage, facts[i%len(facts)])
		}
		if err == nil {
			err = bl.IsValid(g.networkID)
		}
		if err != nil {
			g.r.Inconclusive("harness made an invalid ballot: " + err.Error())
			return
		}
		ds = append(ds, delivery{bl: bl, direct: spec.Direct[i]})
	}
	// ballots for other stage points in the same round (from other remotes' view)
	for i := 0; i < spec.OtherKeys; i++ {
		p := base.RawPoint(spec.Height-2-int64(i), 0) // lower than the round's point, above the previous round's
		bl, err := mk(g.remotes[rng.Intn(len(g.remotes))], p, stage, nil)
		if err == nil {
			err = bl.IsValid(g.networkID)
		}
		if err != nil {
			g.r.Inconclusive("harness made an invalid ballot: " + err.Error())
			return
		}
		ds = append(ds, delivery{bl: bl, direct: true})
	}
	rng.Shuffle(len(ds), func(i, j int) { ds[i], ds[j] = ds[j], ds[i] })

	var wg sync.WaitGroup
	var expected atomic.Int64
	startch := make(chan struct{})
	for _, d := range ds {
		wg.Add(1)
		go func(d delivery) {
			defer wg.Done()
			<-startch
			if d.direct {
				expected.Add(1)
				g.mimicAs("mimic-direct")(d.bl)
				return
			}
			voted, err := g.box.Vote(d.bl)
			if err != nil {
				g.tot.add("ballotbox_vote_errors", 1)
			}
			if voted {
				expected.Add(1)
			}
		}(d)
	}
	if spec.Handler {
		wg.Add(1)
		go func() {
			defer wg.Done()
			<-startch
			if rng.Intn(2) == 0 {
				runtime.Gosched()
			}
			var err error
			switch spec.Kind {
			case "SC":
				g.handler.PrepareSuffrageConfirmBallot(scvps[rng.Intn(len(scvps))])
			case "INIT":
				g.setProposalKind(point, spec.HandlerKind)
				g.tot.add("handler_asked_for_kind_"+g.handlerKind(spec.HandlerKind), 1)
				err = g.handler.PrepareNextBlockBallot(avp, g.suf, time.Nanosecond)
			default:
				err = g.handlerACCEPT(ivp, spec.HandlerKind, g.hash(rng))
			}
			if err != nil {
				g.tot.add("handler_prepare_errors", 1)
			}
		}()
	}
	if spec.Rebroad {
		wg.Add(1)
		go func() {
			defer wg.Done()
			<-startch
			gid := goid()
			g.mu.Lock()
			g.paths[gid] = "rebroadcast"
			g.mu.Unlock()
			defer func() {
				g.mu.Lock()
				delete(g.paths, gid)
				g.mu.Unlock()
			}()
			w := bbWrap{g: g}
			for i := 0; i < 40; i++ {
				if bl, found, _ := w.Ballot(point, stage, spec.Kind == "SC"); found {
					_ = w.Broadcast(bl)
					_ = w.Broadcast(bl)
					g.tot.add("rebroadcasts_of_pooled_ballot", 2)
					return
				}
				time.Sleep(time.Microsecond * 50)
			}
		}()
	}
	close(startch)
	wg.Wait()

	// quiescence: every mimic call started by the ballotbox has returned
	deadline := time.Now().Add(time.Second * 20)
	for {
		g.mu.Lock()
		done := g.inflight == 0 && int64(g.started-started0) >= expected.Load()
		g.mu.Unlock()
		if done {
			break
		}
		if time.Now().After(deadline) {
			g.r.Inconclusive("mimic calls did not finish")
			return
		}
		time.Sleep(time.Microsecond * 100)
	}
	if spec.Handler {
		// broadcast timers: first broadcast and at least one re-broadcast
		deadline := time.Now().Add(time.Millisecond * 400)
		for time.Now().Before(deadline) {
			g.mu.Lock()
			n := 0
			for _, e := range g.events {
				if e.Seq > startSeq && e.Kind == "wire" && e.Path == "handler" && e.Key == key {
					n++
				}
			}
			g.mu.Unlock()
			if n >= 2 {
				break
			}
			time.Sleep(time.Millisecond * 2)
		}
		_ = g.handler.StopTimers()
	}

	// evidence for the round
	g.mu.Lock()
	defer g.mu.Unlock()
	type span struct{ check, act uint64 }
	open := map[uint64]uint64{}
	var spans []span
	var order []string
	for _, e := range g.events {
		if e.Seq <= startSeq || e.Key != key {
			continue
		}
		switch e.Kind {
		case "check":
			if !e.Found {
				open[e.G] = e.Seq
			}
			order = append(order, "c:"+e.Path)
		case "wire":
			if c, ok := open[e.G]; ok {
				spans = append(spans, span{c, e.Seq})
				delete(open, e.G)
			}
			order = append(order, "w:"+e.Path)
		}
	}
	overlap := false
	for i := range spans {
		for j := i + 1; j < len(spans); j++ {
			if spans[i].check < spans[j].act && spans[j].check < spans[i].act {
				overlap = true
			}
		}
	}
	handlerCheckOpen := false
	for _, e := range g.events {
		if e.Seq > startSeq && e.Key == key && e.Kind == "check" && e.Path == "handler" && !e.Found {
			handlerCheckOpen = true
		}
	}
	if handlerCheckOpen {
		for _, e := range g.events {
			if e.Seq > startSeq && e.Key == key && e.Kind == "check" && strings.HasPrefix(e.Path, "mimic") && !e.Found {
				overlap = true // handler's check-to-timer window contains a mimic check
			}
		}
	}
	g.tot.add("rounds", 1)
	if overlap {
		g.tot.add("rounds_with_overlapping_check_to_broadcast", 1)
	}
	notfound := 0
	for _, e := range g.events {
		if e.Seq > startSeq && e.Key == key && e.Kind == "check" && !e.Found {
			notfound++
		}
	}
	if notfound >= 2 {
		g.tot.add("rounds_with_two_or_more_signers_past_the_check", 1)
	}
	if len(g.wires[key]) > 0 {
		g.tot.add("stage_points_broadcast_by_local", 1)
	}
	// kinds of fact offered for the round's stage point
	var kinds []string
	if spec.Kind == "SC" {
		kinds = append(kinds, kindSC)
	} else {
		kinds = append(kinds, spec.FactKinds[:spec.Facts]...)
	}
	if spec.Handler && spec.Kind != "SC" {
		kinds = append(kinds, g.handlerKind(spec.HandlerKind))
	}
	sort.Strings(kinds)
	kinds = uniq(kinds)
	if len(kinds) >= 2 {
		g.tot.add("rounds_with_two_or_more_kinds_of_fact_offered", 1)
	}
	g.r.SetAdd("interleavings_seen", strings.Join(order, ","))
	fp := fmt.Sprintf("%s/r%d/f%d/h%v/rb%v/%s/ov%v/kinds=%s/%s", spec.Kind, spec.Remotes, spec.Facts, spec.Handler, spec.Rebroad, spec.State, overlap, strings.Join(kinds, "+"), strings.Join(order, ","))
	if spec.Facts >= 2 || spec.Handler {
		g.r.Case(fp)
	} else {
		g.r.Eval(1)
	}
	// keep memory bounded
	if len(g.events) > 4000 {
		g.events = append([]ev{}, g.events[len(g.events)-500:]...)
	}
}

// runFaultRound: the pool's storage refuses writes while the first local
// ballot A for a point is made (mimic or handler path), then works again and a
// different local ballot B for the same point is made, then re-broadcast.
func (g *rig) runFaultRound(ri int) {
	rng := g.r.Rand(34, g.idx, ri)
	kind := "INIT"
	stage := base.StageINIT
	if rng.Intn(2) == 0 {
		kind, stage = "ACCEPT", base.StageACCEPT
	}
	handlerFirst := rng.Intn(2) == 0
	secondVia := []string{"mimic-direct", "mimic-box", "handler"}[rng.Intn(3)]
	if handlerFirst && secondVia == "handler" {
		secondVia = "mimic-box"
	}
	point := base.RawPoint(int64(1000+10*ri), 0)
	key := g.keyOf(base.NewStagePoint(point, stage), false)
	// kinds of fact of the two remote ballots and of the handler's ballot
	krng := g.r.Rand(40, g.idx, ri)
	kA, kB, kH := drawKind(krng, kind), drawKind(krng, kind), g.handlerKind(drawKind(krng, kind))
	firstKind, secondKind := kA, kB
	if handlerFirst {
		firstKind = kH
	}
	if secondVia == "handler" {
		secondKind = kH
	}
	g.mu.Lock()
	g.round = fmt.Sprintf("fault rig round %d kind=%s first=%v (%s fact) second=%s (%s fact)", ri, kind,
		map[bool]string{true: "handler", false: "mimic-direct"}[handlerFirst], firstKind, secondVia, secondKind)
	startSeq := g.seq
	started0 := g.started
	g.mu.Unlock()

	prevBlock, proposal := g.hash(rng), g.hash(rng)
	var avp isaac.ACCEPTVoteproof
	var ivp isaac.INITVoteproof
	var err error
	if kind == "INIT" {
		avp, err = g.acceptVoteproof(point.PrevHeight(), g.hash(rng), prevBlock)
	} else {
		ivp, err = g.initVoteproof(point, prevBlock, proposal)
	}
	if err != nil {
		g.r.Inconclusive("voteproof: " + err.Error())
		return
	}
	mk := func(n base.LocalNode, h util.Hash, fkind string) base.Ballot {
		var bl base.Ballot
		if kind == "INIT" {
			sf := isaac.NewINITBallotSignFact(newINITFact(fkind, point, prevBlock, h))
			if err = sf.NodeSign(n.Privatekey(), g.networkID, n.Address()); err == nil {
				bl = isaac.NewINITBallot(avp, sf, nil)
			}
		} else {
			sf := isaac.NewACCEPTBallotSignFact(newACCEPTFact(fkind, point, proposal, h))
			if err = sf.NodeSign(n.Privatekey(), g.networkID, n.Address()); err == nil {
				bl = isaac.NewACCEPTBallot(ivp, sf, nil)
			}
		}
		if err == nil {
			err = bl.IsValid(g.networkID)
		}
		return bl
	}
	blA := mk(g.remotes[0], g.hash(rng), kA)
	if err != nil {
		g.r.Inconclusive("harness made an invalid ballot: " + err.Error())
		return
	}
	blB := mk(g.remotes[1%len(g.remotes)], g.hash(rng), kB)
	if err != nil {
		g.r.Inconclusive("harness made an invalid ballot: " + err.Error())
		return
	}
	handlerPrepare := func() {
		var err error
		if kind == "INIT" {
			g.setProposalKind(point, kH)
			g.tot.add("handler_asked_for_kind_"+kH, 1)
			err = g.handler.PrepareNextBlockBallot(avp, g.suf, time.Nanosecond)
		} else {
			err = g.handlerACCEPT(ivp, kH, g.hash(rng))
		}
		if err != nil {
			g.tot.add("handler_prepare_errors", 1)
		}
	}
	countEvents := func(kindOf, path string) int {
		g.mu.Lock()
		defer g.mu.Unlock()
		n := 0
		for _, e := range g.events {
			if e.Seq > startSeq && e.Key == key && e.Kind == kindOf && (path == "" || e.Path == path) {
				n++
			}
		}
		return n
	}
	waitFor := func(d time.Duration, f func() bool) {
		deadline := time.Now().Add(d)
		for time.Now().Before(deadline) && !f() {
			time.Sleep(time.Millisecond)
		}
	}

	// first local ballot while every write of the pool's storage fails
	leveldbstorage.VerifFaultArm(g.storage, 0)
	if handlerFirst {
		handlerPrepare()
		// the broadcast timer tried at least once
		waitFor(time.Millisecond*400, func() bool { return countEvents("broadcast-call", "") > 0 })
	} else {
		g.mimicAs("mimic-direct")(blA)
	}
	failed := 0
	for _, e := range leveldbstorage.VerifFaultReset() {
		if e.Failed {
			failed++
		}
	}
	g.tot.add("fault_writes_refused", failed)
	if countEvents("wire", "") == 0 {
		g.tot.add("fault_rounds_first_ballot_not_broadcast", 1)
	}

	// storage works again: a different local ballot for the same point
	switch secondVia {
	case "mimic-direct":
		g.mimicAs("mimic-direct")(blB)
	case "mimic-box":
		if voted, _ := g.box.Vote(blB); voted {
			waitFor(time.Second*20, func() bool {
				g.mu.Lock()
				defer g.mu.Unlock()
				return g.started > started0 && g.inflight == 0
			})
		} else {
			g.mimicAs("mimic-direct")(blB)
		}
	case "handler":
		handlerPrepare()
	}
	if handlerFirst || secondVia == "handler" {
		waitFor(time.Millisecond*400, func() bool { return countEvents("wire", "handler") >= 1 })
	}
	// re-broadcast of what the pool holds
	w := bbWrap{g: g}
	if bl, found, _ := w.Ballot(point, stage, false); found {
		_ = w.Broadcast(bl)
		g.tot.add("rebroadcasts_of_pooled_ballot", 1)
	}
	if handlerFirst || secondVia == "handler" {
		_ = g.handler.StopTimers()
	}
	waitFor(time.Second*20, func() bool {
		g.mu.Lock()
		defer g.mu.Unlock()
		return g.inflight == 0
	})

	g.mu.Lock()
	defer g.mu.Unlock()
	var order []string
	for _, e := range g.events {
		if e.Seq > startSeq && e.Key == key && (e.Kind == "check" || e.Kind == "wire") {
			order = append(order, e.Kind[:1]+":"+e.Path)
		}
	}
	g.tot.add("fault_rounds", 1)
	if firstKind != secondKind {
		g.tot.add("fault_rounds_with_two_kinds_of_fact", 1)
	}
	g.r.SetAdd("interleavings_seen", "fault:"+strings.Join(order, ","))
	g.r.Case(fmt.Sprintf("fault/%s/%v/%s/kinds=%s+%s/%s", kind, handlerFirst, secondVia, firstKind, secondKind, strings.Join(order, ",")))
	if len(g.events) > 4000 {
		g.events = append([]ev{}, g.events[len(g.events)-500:]...)
	}
}

func genRound(rng *rand.Rand, height int64, nremotes int, state string) roundSpec {
	s := roundSpec{Height: height, State: state}
	s.Kind = "INIT"
	if rng.Intn(2) == 0 {
		s.Kind = "ACCEPT"
	}
	s.Remotes = 2 + rng.Intn(nremotes-1)
	s.Facts = 1 + rng.Intn(s.Remotes)
	if rng.Intn(4) != 0 && s.Facts < 2 {
		s.Facts = 2
	}
	if nremotes >= 3 && rng.Intn(100) < 15 {
		// suffrage confirm ballots (and a few plain INIT ballots for the same point)
		s.Kind = "SC"
		if s.Remotes > nremotes-1 {
			s.Remotes = nremotes - 1
		}
		if s.Facts > 2 {
			s.Facts = 2
		}
	}
	for i := 0; i < s.Remotes; i++ {
		s.Direct = append(s.Direct, rng.Intn(10) < 3)
	}
	s.Handler = rng.Intn(100) < 25
	s.Rebroad = rng.Intn(100) < 30
	s.OtherKeys = rng.Intn(3)
	// kinds of fact: every distinct fact and the handler's ballot draw one of the
	// kinds valid for the stage
	fk := s.Kind
	if fk == "SC" {
		fk = "INIT" // the plain INIT ballots of a suffrage-confirm round
	}
	for i := 0; i < s.Facts; i++ {
		s.FactKinds = append(s.FactKinds, drawKind(rng, fk))
	}
	s.HandlerKind = drawKind(rng, s.Kind)
	return s
}

func runRig(r *vlib.Run, tot *totals, idx, rounds int, mode string) {
	t0 := time.Now()
	defer func() { // slowest rig of each mode, evidence only
		ms := int(time.Since(t0) / time.Millisecond)
		tot.mu.Lock()
		if ms > tot.counts["slowest_rig_ms_"+mode] {
			tot.counts["slowest_rig_ms_"+mode] = ms
		}
		tot.mu.Unlock()
	}()
	rng := r.Rand(32, idx)
	nremotes := 2 + rng.Intn(7)
	if mode == "history" && nremotes < 4 {
		nremotes = 4 // suffrage confirm ballots need an expelled node and two other remote signers
	}
	if mode == "kinds" {
		nremotes = 2 + rng.Intn(3) // two signers are needed; small suffrage = cheap voteproofs
	}
	fault := mode == "fault"
	g, err := newRig(r, tot, idx, nremotes)
	if err != nil {
		r.Inconclusive("rig: " + err.Error())
		return
	}
	defer func() {
		_ = g.st.Stop()
		_ = g.st.VerifDrainSwitchRequests()
	}()

	if !g.waitState(isaacstates.StateBooting) {
		r.Inconclusive("states did not boot")
		return
	}
	state := isaacstates.StateSyncing
	if rng.Intn(4) == 0 {
		state = isaacstates.StateBroken
	}
	if err := g.st.AskMoveState(isaacstates.NewVerifSwitchContext(isaacstates.StateBooting, state, 1)); err != nil || !g.waitState(state) {
		r.Inconclusive(fmt.Sprintf("states did not reach %s", state))
		return
	}

	h, err := g.st.VerifNewBallotHandler(isaacstates.StateConsensus, isaacstates.VerifBallotHandlerArgs{
		ProposalSelectFunc: func(_ context.Context, p base.Point, prev util.Hash, _ time.Duration) (base.ProposalSignFact, error) {
			return g.selectProposal(p, prev)
		},
		NodeInConsensusNodesFunc: func(base.Node, base.Height) (base.Suffrage, bool, error) { return g.suf, true, nil },
		VoteFunc:                 func(bl base.Ballot) (bool, error) { return g.box.Vote(bl) },
		SuffrageVotingFindFunc: func(context.Context, base.Height, base.Suffrage) ([]base.SuffrageExpelOperation, error) {
			return nil, nil
		},
		WaitPreparingINITBallot:    func() time.Duration { return time.Millisecond * 2 },
		MinWaitNextBlockINITBallot: func() time.Duration { return time.Millisecond * 3 },
	})
	if err != nil {
		r.Inconclusive("ballot handler: " + err.Error())
		return
	}
	g.handler = h
	defer h.Exit()
	g.installHandlerKinds() // before the first ballot is made
	if !g.hookKinds {
		tot.add("rigs_without_hook_for_handler_fact_kinds", 1)
	}

	if fault {
		for ri := 0; ri < rounds; ri++ {
			if !r.WithWatchdog(time.Second*60, fmt.Sprintf("fault rig round %d", ri), func() { g.runFaultRound(ri) }) {
				return
			}
		}
		return
	}

	if mode == "kinds" {
		// the directed matrix of kinds of fact: this rig takes every nth case
		all := genKindPairs(r.Rand(42), r.N(1, 6), r.Quick())
		n := r.N(3, 6)
		for ci := idx - 3000; ci < len(all); ci += n {
			spec := all[ci]
			spec.State = string(state)
			if ci == 5 || ci == 6 {
				r.Sample(map[string]any{"rig": idx, "remotes": nremotes, "kind_pair": spec})
			}
			if !r.WithWatchdog(time.Second*180, fmt.Sprintf("kind-pair rig %d case %d", idx, ci), func() { g.runKindPair(ci, spec) }) {
				return
			}
		}
		return
	}

	if mode == "history" {
		for ri := 0; ri < rounds; ri++ {
			spec := genHistory(r.Rand(35, idx, ri), ri, int64(1000+20*ri), nremotes, string(state))
			if idx == 2000 && (ri == 3 || ri == 4) {
				r.Sample(map[string]any{"rig": idx, "remotes": nremotes, "history": spec})
			}
			if !r.WithWatchdog(time.Second*180, fmt.Sprintf("history rig %d case %d", idx, ri), func() { g.runHistory(ri, spec) }) {
				return
			}
		}
		return
	}

	for ri := 0; ri < rounds; ri++ {
		spec := genRound(r.Rand(33, idx, ri), int64(1000+10*ri), nremotes, string(state))
		if idx == 0 && ri < 4 {
			r.Sample(map[string]any{"rig": idx, "remotes": nremotes, "round": spec})
		}
		ok := r.WithWatchdog(time.Second*60, fmt.Sprintf("rig %d round %d", idx, ri), func() { g.runRound(ri, spec) })
		if !ok {
			return
		}
	}
}

func TestC08(t *testing.T) {
	r := vlib.Start(t, "C08", vlib.LevelExploration)
	defer r.Finish()
	r.SetRule("case = one round on a fresh stage point: 2-8 remote suffrage nodes deliver INIT, ACCEPT or suffrage-confirm ballots (1..n distinct facts) concurrently through Ballotbox.Vote or the mimic function, in 25% of rounds the real baseBallotHandler makes and timer-broadcasts the local ballot for the same point, in 30% pooled ballots are re-broadcast, 0-2 ballots for other points; a yield or 1-200us sleep follows every pool check; distinct = (kind, remotes, facts, handler, rebroadcast, state, overlap, observed order of checks and wire broadcasts); non-trivial = at least two distinct facts or the handler takes part; plus 40/400 fault rounds on one extra rig (storage refuses writes during the first local ballot of a point); plus 24/720 history cases on 2/6 extra rigs = history ACROSS stage points: (1) the local ballot for stage point P (INIT/ACCEPT/suffrage-confirm, round 0 or 1, height H) is broadcast through mimic-direct, mimic-box and/or the handler (0-2 remote facts concurrently; refused local ballots are kept), (2) ballots of 1..~10 LATER stage points (later stage/round of H and heights up to H+k, k=1+case%6, in order or shuffled) go through the same broadcaster and pool as the node's own ballots (mimic-direct, mimic-box, handler) or other nodes' ballots (Broadcast + pool.SetBallot), no cleanup step is ever run, (3) a different fact for P is offered through mimic-direct, mimic-box, the handler, re-broadcast of the refused local ballots and of the pooled one, sequentially or concurrently; distinct = (kind, round, path of the first broadcast, refused kept, k, H+k stored, number and paths of later stored stage points, offer paths, concurrent, state); non-trivial (histories_complete) = P was broadcast, a later stage point at H+k is in the pool and at least one offer was made; KINDS OF FACT: in all of the above every ballot offered for a stage point (remote facts, the handler's ballot, later stage points, offers) draws its fact from ALL kinds the node signs for the stage (INIT: init | empty-proposal-init; ACCEPT: accept | empty-operations-accept | not-processed-accept; suffrage-confirm: one kind, a stage point of its own with the flag), the handler makes them the way production does (empty proposal selected + the consensus handler's NewINITBallotFactFunc; the ACCEPT fact the voteproof handler hands to prepareACCEPTBallot), the kinds are part of every fingerprint; plus the directed kind matrix on 3/6 extra rigs, 39/702 cases: every ORDERED pair of kinds of a stage (kind broadcast first x kind offered second, 4 INIT + 9 ACCEPT pairs) x ordered pairs of paths (mimic-direct, mimic-box, handler; quick 3 of 9 per pair of kinds rotating, thorough all 9, 6 repeats), sequentially, then re-broadcast of refused local ballots and of the pooled one; distinct = (stage, round, pair of kinds, pair of paths, state, observed order of checks with their answer and wire broadcasts)")
	r.Assume("every remote signer is in the sync sources and in the suffrage, consensus is allowed, the node is in Syncing or Broken (the preconditions of the mimic path)")
	r.Assume("only ballots handed to the network function are judged; signing without broadcasting is not")
	r.Assume("remote ballots pass Ballot.IsValid (checked by the harness for every generated ballot)")
	r.Assume("fault phase (beyond the property's quantifier, which is schedules only): on one extra rig the pool's leveldb storage refuses every write (hook H3, leveldbstorage.VerifFaultArm) while the first local ballot for a point is made, then works again for a different second one and a re-broadcast; same oracle")

	r.Assume("the pool's periodic cleaner (pool daemon, 33-minute ticker) does not run within a case and the harness never calls a cleanup step: removal of old ballots by expiry is neither produced nor judged")

	r.Assume("the handler is made to sign the special kinds of fact through hook isaac/states/ballot_kinds_verif.go (passthroughs: defaultPrepareACCEPTBallot with a fact, setter of NewINITBallotFactFunc); against a tree without that file the handler makes the ordinary kinds only (handler_makes_every_kind_of_fact=false) and the special kinds come from the mimic path alone")

	if raceEnabled {
		// zerolog marshals the value of Context.Interface() eagerly, even for a
		// disabled logger; one sonic JSON encoding of a ballot takes seconds
		// under the race detector.
		zerolog.InterfaceMarshalFunc = func(interface{}) ([]byte, error) { return []byte(`"-"`), nil }
		r.Assume("-race build: log values are not JSON-encoded and the ballot pool keeps ballots by reference (a harness Encoder wrapping the real JSON encoder); the pool's keys, Exists/Put logic and leveldb storage are real")
	}
	r.Set("json_encoding_of_pooled_ballots", !raceEnabled)

	tot := &totals{counts: map[string]int{}, marks: map[string]bool{}}
	rigs := r.N(8, 16)
	rounds := r.N(25, 313) // 200 / 5008 rounds
	var wg sync.WaitGroup
	for i := 0; i < rigs; i++ {
		wg.Add(1)
		go func(i int) {
			defer wg.Done()
			runRig(r, tot, i, rounds, "rounds")
		}(i)
	}
	// fault phase (one rig: the fault point of the storage hook is process-wide)
	wg.Add(1)
	go func() {
		defer wg.Done()
		runRig(r, tot, 1000, r.N(40, 400), "fault")
	}()
	// histories across stage points: sign P, store later stage points up to
	// k=1..6 heights above, offer a different fact for P through every path
	hrigs := r.N(2, 6)
	hcases := r.N(12, 120) // 24 / 720 histories; k = 1 + case%6
	for i := 0; i < hrigs; i++ {
		wg.Add(1)
		go func(i int) {
			defer wg.Done()
			runRig(r, tot, 2000+i, hcases, "history")
		}(i)
	}
	// directed matrix of kinds of fact: every ordered pair of kinds x pairs of paths
	for i := 0; i < r.N(3, 6); i++ {
		wg.Add(1)
		go func(i int) {
			defer wg.Done()
			runRig(r, tot, 3000+i, 0, "kinds")
		}(i)
	}
	wg.Wait()

	tot.mu.Lock()
	defer tot.mu.Unlock()
	var pairsDone, pairsMissing []string
	for _, k := range allKindPairs() {
		if tot.marks["kindpair:"+k] {
			pairsDone = append(pairsDone, k)
		} else {
			pairsMissing = append(pairsMissing, k)
		}
	}
	r.Set("ordered_kind_pairs_first_broadcast_then_second_offered", pairsDone)
	r.Set("handler_makes_every_kind_of_fact", tot.counts["rigs_without_hook_for_handler_fact_kinds"] == 0)
	r.Set("ordered_kind_pairs_not_driven", pairsMissing)
	if len(pairsMissing) > 0 && tot.counts["rigs_without_hook_for_handler_fact_kinds"] == 0 {
		r.Inconclusive(fmt.Sprintf("ordered pairs of kinds of fact never driven (first kind on the wire, then the second kind offered): %v", pairsMissing))
	}
	keys := make([]string, 0, len(tot.counts))
	for k := range tot.counts {
		keys = append(keys, k)
	}
	sort.Strings(keys)
	for _, k := range keys {
		r.Count(k, tot.counts[k])
	}
	if tot.counts["histories_complete_distance_beyond_pool_clean_depth"] == 0 {
		r.Inconclusive("no history signed a stage point, stored later stage points more heights above than the pool's cleaner keeps and offered a different fact again")
	}
	if tot.counts["rounds_with_two_or_more_signers_past_the_check"] == 0 {
		r.Inconclusive("no round had two signers past the pool check: nothing could refute the property")
	}
}
