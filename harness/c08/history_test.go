package c08

// Histories ACROSS stage points.
//
// The rounds of c08_test.go judge the broadcast log around one stage point. A
// history case looks at what happens to a stage point P the node has already
// signed once the world has moved on:
//
//  1. sign:  the local node broadcasts its ballot for P (height H) through the
//            mimic path (direct / through the ballotbox), the real ballot part
//            of the handlers, or several of them concurrently; local ballots
//            handed to Broadcast but refused (another one was first) are kept.
//  2. later: ballots for LATER stage points (later round/stage of H, heights
//            H+1 … H+k, k = 1..6) go through the same broadcaster and pool: the
//            node's own ballots (mimic direct, mimic through the ballotbox, the
//            handler) and other nodes' ballots (Broadcast + the pool's SetBallot).
//  3. offer: a different ballot fact for the old stage point P is offered
//            through every path that can end in a broadcast: mimic of a lagging
//            sync source (direct, ballotbox), the handler making its ballot for
//            P again, re-broadcast of the refused local ballots of step 1 and
//            of what the pool holds.
//
// Nothing in a history removes ballots from the pool: the pool daemon is not
// started and the harness never runs a cleanup step (expiry by the periodic
// cleaner is legitimate and is neither produced nor judged here). Oracle: the
// same as everywhere (onWire) -- two different ballot facts signed by the local
// node for one (stage point, suffrage-confirm flag) anywhere in the broadcast
// log of the case.

import (
	"fmt"
	"math/rand"
	"sort"
	"strings"
	"sync"
	"time"

	"github.com/spikeekips/mitum/base"
	"github.com/spikeekips/mitum/isaac"
	"github.com/spikeekips/mitum/util"
)

type spSpec struct {
	Height int64  `json:"height"`
	Round  uint64 `json:"round"`
	Kind   string `json:"kind"` // INIT | ACCEPT | SC (suffrage confirm, stage INIT)
}

func (s spSpec) String() string { return fmt.Sprintf("%s@%d.%d", s.Kind, s.Height, s.Round) }

type laterSpec struct {
	spSpec
	Via      string `json:"via"`       // mimic-direct | mimic-box | handler | remote-store
	FactKind string `json:"fact_kind"` // kind of ballot fact (kinds_test.go)
}

type histSpec struct {
	P             spSpec      `json:"stage_point"`
	FirstRemotes  int         `json:"first_remote_ballots"` // distinct facts, delivered concurrently
	FirstDirect   []bool      `json:"first_direct_mimic"`
	FirstHandler  bool        `json:"first_handler"`
	K             int         `json:"distance_k"`
	ShuffledLater bool        `json:"later_out_of_order"`
	Later         []laterSpec `json:"later"`
	Offers        []string    `json:"offers"`
	Concurrent    bool        `json:"offers_concurrent"`
	// kinds of ballot fact (kinds_test.go): of the first remote ballots, of the
	// handler's first ballot and of every offer
	FirstKinds  []string `json:"first_kinds"`
	HandlerKind string   `json:"first_handler_kind,omitempty"`
	OfferKinds  []string `json:"offer_kinds"`
	State       string   `json:"state"`
}

// histState is what onWire / bbWrap.Broadcast know about the running history
// (guarded by rig.mu).
type histState struct {
	key         string
	phase       int // 1 sign, 2 later, 3 offer
	k           int
	laterStored int
	offered     []base.Ballot // local ballots handed to Broadcast for key
}

// pctx: everything needed to make ballots for one stage point.
type pctx struct {
	sp        spSpec
	point     base.Point
	stage     base.Stage
	sc        bool
	key       string
	prevBlock util.Hash
	proposal  util.Hash
	avp       isaac.ACCEPTVoteproof // INIT, round 0: majority of the previous height
	dvp       isaac.INITVoteproof   // INIT, round > 0: draw of the previous round
	ivp       isaac.INITVoteproof   // ACCEPT: majority of the same point
}

func (g *rig) drawINITVoteproof(rng *rand.Rand, point base.Point) (isaac.INITVoteproof, error) {
	sfs := make([]base.BallotSignFact, len(g.all))
	for i, n := range g.all {
		sf := isaac.NewINITBallotSignFact(isaac.NewINITBallotFact(point, g.hash(rng), g.hash(rng), nil))
		if err := sf.NodeSign(n.Privatekey(), g.networkID, n.Address()); err != nil {
			return isaac.INITVoteproof{}, err
		}
		sfs[i] = sf
	}
	vp := isaac.NewINITVoteproof(point)
	vp.SetSignFacts(sfs).SetThreshold(base.Threshold(67)).Finish()
	return vp, nil
}

func (g *rig) newPctx(rng *rand.Rand, sp spSpec) (*pctx, error) {
	c := &pctx{sp: sp, point: base.RawPoint(sp.Height, sp.Round), stage: base.StageINIT, sc: sp.Kind == "SC"}
	if sp.Kind == "ACCEPT" {
		c.stage = base.StageACCEPT
	}
	c.key = g.keyOf(base.NewStagePoint(c.point, c.stage), c.sc)
	c.prevBlock, c.proposal = g.hash(rng), g.hash(rng)
	var err error
	switch {
	case sp.Kind == "ACCEPT":
		c.ivp, err = g.initVoteproof(c.point, c.prevBlock, c.proposal)
	case sp.Kind == "SC":
	case sp.Round == 0:
		c.avp, err = g.acceptVoteproof(c.point.PrevHeight(), g.hash(rng), c.prevBlock)
	default:
		c.dvp, err = g.drawINITVoteproof(rng, c.point.PrevRound())
	}
	return c, err
}

// ballotKind makes a valid ballot for the stage point, signed by node n, with
// a fact of the given kind no earlier call returned.
func (c *pctx) ballotKind(g *rig, rng *rand.Rand, n base.LocalNode, kind string) (base.Ballot, error) {
	var bl base.Ballot
	switch {
	case c.sp.Kind == "ACCEPT":
		sf := isaac.NewACCEPTBallotSignFact(newACCEPTFact(kind, c.point, c.proposal, g.hash(rng)))
		if err := sf.NodeSign(n.Privatekey(), g.networkID, n.Address()); err != nil {
			return nil, err
		}
		bl = isaac.NewACCEPTBallot(c.ivp, sf, nil)
	case c.sp.Kind == "SC":
		vp, fact, err := g.expelVoteproof(c.point, c.prevBlock, c.proposal, fmt.Sprintf("reason-%d-%d", rng.Int63(), rng.Int63()))
		if err != nil {
			return nil, err
		}
		sf := isaac.NewINITBallotSignFact(fact)
		if err := sf.NodeSign(n.Privatekey(), g.networkID, n.Address()); err != nil {
			return nil, err
		}
		bl = isaac.NewINITBallot(vp, sf, nil)
	default:
		sf := isaac.NewINITBallotSignFact(newINITFact(kind, c.point, c.prevBlock, g.hash(rng)))
		if err := sf.NodeSign(n.Privatekey(), g.networkID, n.Address()); err != nil {
			return nil, err
		}
		if c.sp.Round == 0 {
			bl = isaac.NewINITBallot(c.avp, sf, nil)
		} else {
			bl = isaac.NewINITBallot(c.dvp, sf, nil)
		}
	}
	if err := bl.IsValid(g.networkID); err != nil {
		return nil, err
	}
	return bl, nil
}

// signer picks a remote node allowed to sign for the stage point (the last
// remote is the one expelled by suffrage-confirm voteproofs).
func (c *pctx) signer(g *rig, i int) base.LocalNode {
	if c.sp.Kind == "SC" {
		return g.remotes[i%(len(g.remotes)-1)]
	}
	return g.remotes[i%len(g.remotes)]
}

// handlerPrepare lets the real ballot part of the handlers make and
// timer-broadcast the local ballot of the stage point. Whatever the handler
// would sign now differs from what it or anybody else signed before: a new
// proposal is selected / a new block hash / another expel voteproof is given.
// kind: the kind of fact the handler is made to sign (an empty proposal is
// selected; the fact the voteproof handler makes for a proposal without
// operations or a not processed one is handed over).
func (c *pctx) handlerPrepareKind(g *rig, rng *rand.Rand, kind string) {
	var err error
	switch {
	case c.sp.Kind == "ACCEPT":
		err = g.handlerACCEPT(c.ivp, kind, g.hash(rng))
	case c.sp.Kind == "SC":
		vp, _, e := g.expelVoteproof(c.point, c.prevBlock, c.proposal, fmt.Sprintf("reason-h%d-%d", rng.Int63(), rng.Int63()))
		if e != nil {
			g.tot.add("handler_prepare_errors", 1)
			return
		}
		g.handler.PrepareSuffrageConfirmBallot(vp)
	case c.sp.Round == 0:
		g.setProposalKind(c.point, kind)
		g.tot.add("handler_asked_for_kind_"+g.handlerKind(kind), 1)
		err = g.handler.PrepareNextBlockBallot(c.avp, g.suf, time.Nanosecond)
	default:
		g.setProposalKind(c.point, kind)
		g.tot.add("handler_asked_for_kind_"+g.handlerKind(kind), 1)
		err = g.handler.PrepareNextRoundBallot(c.dvp, c.prevBlock, g.suf, time.Nanosecond)
	}
	if err != nil {
		g.tot.add("handler_prepare_errors", 1)
	}
}

func doneKey(bl base.Ballot) string {
	return bl.SignFact().Node().String() + "/" + bl.Point().String() + "/" + bl.SignFact().Fact().Hash().String()
}

func waitCond(d time.Duration, f func() bool) bool {
	deadline := time.Now().Add(d)
	for {
		if f() {
			return true
		}
		if time.Now().After(deadline) {
			return false
		}
		time.Sleep(time.Microsecond * 200)
	}
}

// deliver hands a remote ballot to the node (through the ballotbox, which
// starts the mimic path for voted ballots, or to the mimic function directly)
// and returns after the mimic call for this ballot has returned. A ballot the
// ballotbox does not take is given to the mimic function directly.
func (g *rig) deliver(bl base.Ballot, via string) (string, bool) {
	dk := doneKey(bl)
	g.mu.Lock()
	before := g.doneKeys[dk]
	g.mu.Unlock()
	if via == "mimic-box" {
		voted, err := g.box.Vote(bl)
		if err != nil {
			g.tot.add("ballotbox_vote_errors", 1)
		}
		if !voted {
			via = "mimic-direct"
		}
	}
	if via == "mimic-direct" {
		g.mimicAs("mimic-direct")(bl)
	}
	ok := waitCond(time.Second*60, func() bool {
		g.mu.Lock()
		defer g.mu.Unlock()
		return g.doneKeys[dk] > before
	})
	return via, ok
}

// handlerRound: handler makes its ballot for the stage point; returns after the
// broadcast timer put a ballot of that stage point on the wire (or a generous
// deadline: then the case goes on without it), timers stopped.
func (g *rig) handlerRound(c *pctx, rng *rand.Rand, kind string) bool {
	g.mu.Lock()
	start := g.seq
	g.mu.Unlock()
	c.handlerPrepareKind(g, rng, kind)
	ok := waitCond(time.Second*30, func() bool {
		g.mu.Lock()
		defer g.mu.Unlock()
		for i := len(g.events) - 1; i >= 0; i-- {
			e := g.events[i]
			if e.Seq <= start {
				break
			}
			if e.Kind == "wire" && e.Path == "handler" && e.Key == c.key {
				return true
			}
		}
		return false
	})
	_ = g.handler.StopTimers()
	return ok
}

func (g *rig) asPath(path string, f func()) {
	gid := goid()
	g.mu.Lock()
	g.paths[gid] = path
	g.mu.Unlock()
	defer func() {
		g.mu.Lock()
		delete(g.paths, gid)
		g.mu.Unlock()
	}()
	f()
}

var laterKinds = []struct {
	round uint64
	kind  string
}{{0, "INIT"}, {0, "SC"}, {0, "ACCEPT"}, {1, "INIT"}, {1, "ACCEPT"}}

func laterOrder(s spSpec) int {
	for i, k := range laterKinds {
		if k.round == s.Round && k.kind == s.Kind {
			return i
		}
	}
	return -1
}

func genHistory(rng *rand.Rand, ri int, height int64, nremotes int, state string) histSpec {
	s := histSpec{State: state, K: 1 + ri%6}
	pk := laterKinds[rng.Intn(len(laterKinds))]
	if rng.Intn(3) == 0 {
		pk = laterKinds[0] // plain INIT of round 0 more often
	}
	s.P = spSpec{Height: height, Round: pk.round, Kind: pk.kind}

	s.FirstRemotes = 1 + rng.Intn(2)
	for i := 0; i < s.FirstRemotes; i++ {
		s.FirstDirect = append(s.FirstDirect, rng.Intn(2) == 0)
	}
	switch x := rng.Intn(10); {
	case x < 2: // the handler alone
		s.FirstRemotes, s.FirstDirect, s.FirstHandler = 0, nil, true
	case x < 5:
		s.FirstHandler = true
	}

	vias := func() string {
		switch x := rng.Intn(100); {
		case x < 40:
			return "mimic-direct"
		case x < 60:
			return "mimic-box"
		case x < 85:
			return "remote-store"
		default:
			return "handler"
		}
	}
	// later stage points of the same height
	if rng.Intn(2) == 0 {
		for i := laterOrder(s.P) + 1; i < len(laterKinds); i++ {
			if rng.Intn(2) == 0 {
				s.Later = append(s.Later, laterSpec{spSpec: spSpec{height, laterKinds[i].round, laterKinds[i].kind}, Via: vias()})
			}
		}
	}
	// heights H+1 … H+k; H+k always
	for d := 1; d <= s.K; d++ {
		if d < s.K && rng.Intn(10) >= 6 {
			continue
		}
		n := 1 + rng.Intn(2)
		perm := rng.Perm(len(laterKinds))[:n]
		sort.Ints(perm)
		for _, i := range perm {
			s.Later = append(s.Later, laterSpec{spSpec: spSpec{height + int64(d), laterKinds[i].round, laterKinds[i].kind}, Via: vias()})
		}
	}
	if rng.Intn(4) == 0 {
		s.ShuffledLater = true
		rng.Shuffle(len(s.Later), func(i, j int) { s.Later[i], s.Later[j] = s.Later[j], s.Later[i] })
	}

	for _, o := range []struct {
		path string
		p    int
	}{{"mimic-direct", 80}, {"mimic-box", 50}, {"handler", 50}, {"rebroadcast-refused", 100}, {"rebroadcast-pooled", 40}} {
		if rng.Intn(100) < o.p {
			s.Offers = append(s.Offers, o.path)
		}
	}
	if len(s.Offers) == 1 { // only the (maybe absent) refused one
		s.Offers = append(s.Offers, "mimic-direct")
	}
	rng.Shuffle(len(s.Offers), func(i, j int) { s.Offers[i], s.Offers[j] = s.Offers[j], s.Offers[i] })
	s.Concurrent = rng.Intn(10) < 3
	// kinds of fact: every ballot offered for P, and every later one, draws one
	// of the kinds valid for its stage
	for i := 0; i < s.FirstRemotes; i++ {
		s.FirstKinds = append(s.FirstKinds, drawKind(rng, s.P.Kind))
	}
	s.HandlerKind = drawKind(rng, s.P.Kind)
	for range s.Offers {
		s.OfferKinds = append(s.OfferKinds, drawKind(rng, s.P.Kind))
	}
	for i := range s.Later {
		s.Later[i].FactKind = drawKind(rng, s.Later[i].Kind)
	}
	return s
}

func (g *rig) runHistory(ri int, spec histSpec) {
	rng := g.r.Rand(36, g.idx, ri)
	fail := func(what string, err error) {
		g.r.Inconclusive(fmt.Sprintf("history: %s: %v", what, err))
	}

	c, err := g.newPctx(rng, spec.P)
	if err != nil {
		fail("voteproof", err)
		return
	}
	hs := &histState{key: c.key, phase: 1, k: spec.K}
	g.mu.Lock()
	g.round = fmt.Sprintf("history rig %d case %d %+v", g.idx, ri, spec)
	g.hist = hs
	g.doneKeys = map[string]int{}
	startSeq := g.seq
	g.mu.Unlock()
	defer func() {
		g.mu.Lock()
		g.hist = nil
		g.doneKeys = nil
		g.mu.Unlock()
	}()

	// ---- 1. sign: the local node's ballot for P
	var firsts []base.Ballot
	for i := 0; i < spec.FirstRemotes; i++ {
		bl, err := c.ballotKind(g, rng, c.signer(g, i), spec.FirstKinds[i])
		if err != nil {
			fail("harness made an invalid ballot", err)
			return
		}
		firsts = append(firsts, bl)
	}
	var wg sync.WaitGroup
	startch := make(chan struct{})
	stuck := false
	var stuckmu sync.Mutex
	for i, bl := range firsts {
		wg.Add(1)
		go func(bl base.Ballot, direct bool) {
			defer wg.Done()
			<-startch
			via := "mimic-box"
			if direct {
				via = "mimic-direct"
			}
			if _, ok := g.deliver(bl, via); !ok {
				stuckmu.Lock()
				stuck = true
				stuckmu.Unlock()
			}
		}(bl, spec.FirstDirect[i])
	}
	handlerOnWire := false
	if spec.FirstHandler {
		hrng := g.r.Rand(37, g.idx, ri)
		wg.Add(1)
		go func() {
			defer wg.Done()
			<-startch
			handlerOnWire = g.handlerRound(c, hrng, spec.HandlerKind)
		}()
	}
	close(startch)
	wg.Wait()
	if stuck {
		g.r.Inconclusive("history: mimic call did not finish")
		return
	}
	if spec.FirstHandler && !handlerOnWire {
		g.tot.add("history_handler_ballot_not_on_wire_in_time", 1)
	}

	g.mu.Lock()
	firstPath := ""
	firstFact := ""
	firstKind := ""
	if w := g.wires[c.key]; len(w) > 0 {
		firstPath, firstFact, firstKind = w[0].path, w[0].fact, w[0].kind
	}
	var refused []base.Ballot
	seen := map[string]bool{firstFact: true}
	for _, bl := range hs.offered {
		if h := bl.SignFact().Fact().Hash().String(); !seen[h] {
			seen[h] = true
			refused = append(refused, bl)
		}
	}
	hs.phase = 2
	g.mu.Unlock()
	if firstPath == "" {
		// nothing was broadcast for P: nothing to contradict later
		g.tot.add("histories_without_first_broadcast", 1)
		g.r.Eval(1)
		return
	}

	// ---- 2. later: the world moves on
	var vias []string
	for li, l := range spec.Later {
		lc, err := g.newPctx(rng, l.spSpec)
		if err != nil {
			fail("voteproof", err)
			return
		}
		via := l.Via
		switch via {
		case "handler":
			if !g.handlerRound(lc, rng, l.FactKind) {
				g.tot.add("history_handler_ballot_not_on_wire_in_time", 1)
			}
		case "remote-store":
			bl, err := lc.ballotKind(g, rng, lc.signer(g, li), l.FactKind)
			if err != nil {
				fail("harness made an invalid ballot", err)
				return
			}
			g.asPath("remote", func() {
				_ = bbWrap{g: g}.Broadcast(bl) // not local: goes out as it is
				if _, err := g.pool.SetBallot(bl); err != nil {
					g.tot.add("pool_setballot_errors", 1)
				}
			})
		default:
			bl, err := lc.ballotKind(g, rng, lc.signer(g, li), l.FactKind)
			if err != nil {
				fail("harness made an invalid ballot", err)
				return
			}
			var ok bool
			if via, ok = g.deliver(bl, via); !ok {
				g.r.Inconclusive("history: mimic call did not finish")
				return
			}
		}
		// what the pool holds for the later stage point now (read only)
		if _, found, _ := g.pool.Ballot(lc.point, lc.stage, lc.sc); found {
			g.mu.Lock()
			hs.laterStored++
			g.mu.Unlock()
			g.tot.add("history_later_stage_points_stored_via_"+via, 1)
			g.tot.add("history_later_stage_points_stored_kind_"+l.Kind, 1)
			if l.Height == spec.P.Height {
				g.tot.add("history_later_stage_points_stored_same_height", 1)
			}
			vias = append(vias, via)
		} else {
			g.tot.add("history_later_stage_points_not_stored", 1)
		}
	}
	topStored := false
	for _, l := range spec.Later {
		if l.Height == spec.P.Height+int64(spec.K) {
			lc := base.RawPoint(l.Height, l.Round)
			st := base.StageINIT
			if l.Kind == "ACCEPT" {
				st = base.StageACCEPT
			}
			if _, found, _ := g.pool.Ballot(lc, st, l.Kind == "SC"); found {
				topStored = true
			}
		}
	}
	_, stillHeld, _ := g.pool.Ballot(c.point, c.stage, c.sc)

	g.mu.Lock()
	hs.phase = 3
	laterStored := hs.laterStored
	g.mu.Unlock()

	// ---- 3. offer: a different fact for the old stage point through each path
	var offered, offeredKinds []string
	var offmu sync.Mutex
	offer := func(oi int, path string) {
		orng := g.r.Rand(38, g.idx, ri, oi)
		eff := path
		okind := ""
		switch path {
		case "mimic-direct", "mimic-box":
			okind = spec.OfferKinds[oi]
			// a sync source lagging behind: a node which did not sign in step 1
			bl, err := c.ballotKind(g, orng, c.signer(g, spec.FirstRemotes+oi), spec.OfferKinds[oi])
			if err != nil {
				fail("harness made an invalid ballot", err)
				return
			}
			var ok bool
			if eff, ok = g.deliver(bl, path); !ok {
				g.r.Inconclusive("history: mimic call did not finish")
				return
			}
		case "handler":
			okind = g.handlerKind(spec.OfferKinds[oi])
			if !g.handlerRound(c, orng, spec.OfferKinds[oi]) {
				g.tot.add("history_handler_ballot_not_on_wire_in_time", 1)
			}
		case "rebroadcast-refused":
			if len(refused) == 0 {
				return
			}
			g.asPath(path, func() {
				for _, bl := range refused {
					_ = bbWrap{g: g}.Broadcast(bl)
				}
			})
		case "rebroadcast-pooled":
			g.asPath(path, func() {
				w := bbWrap{g: g}
				if bl, found, _ := w.Ballot(c.point, c.stage, c.sc); found {
					_ = w.Broadcast(bl)
				}
			})
		}
		g.tot.add("history_offers_for_old_stage_point_via_"+eff, 1)
		offmu.Lock()
		offered = append(offered, eff)
		if okind != "" {
			offeredKinds = append(offeredKinds, okind)
		}
		offmu.Unlock()
	}
	if spec.Concurrent {
		var owg sync.WaitGroup
		for oi, path := range spec.Offers {
			if path == "handler" { // one handler: its turn comes after the others
				continue
			}
			owg.Add(1)
			go func(oi int, path string) {
				defer owg.Done()
				offer(oi, path)
			}(oi, path)
		}
		owg.Wait()
		for oi, path := range spec.Offers {
			if path == "handler" {
				offer(oi, path)
			}
		}
	} else {
		for oi, path := range spec.Offers {
			offer(oi, path)
		}
	}
	if !waitCond(time.Second*60, func() bool {
		g.mu.Lock()
		defer g.mu.Unlock()
		return g.inflight == 0
	}) {
		g.r.Inconclusive("history: mimic calls did not finish")
		return
	}

	// ---- evidence
	g.mu.Lock()
	defer g.mu.Unlock()
	wiresAfter := 0
	for _, e := range g.events {
		if e.Seq > startSeq && e.Key == c.key && e.Kind == "wire" {
			wiresAfter++
		}
	}
	g.tot.add("histories", 1)
	g.tot.add(fmt.Sprintf("histories_distance_k=%d", spec.K), 1)
	g.tot.add("histories_first_broadcast_by_"+firstPath, 1)
	g.tot.add("histories_stage_point_kind_"+spec.P.Kind, 1)
	if spec.P.Round > 0 {
		g.tot.add("histories_stage_point_round>0", 1)
	}
	if len(refused) > 0 {
		g.tot.add("histories_with_refused_local_ballot_kept_for_rebroadcast", 1)
	}
	if stillHeld {
		g.tot.add("histories_pool_still_held_first_ballot_at_offer", 1)
	}
	if spec.Concurrent {
		g.tot.add("histories_offers_concurrent", 1)
	}
	if spec.ShuffledLater {
		g.tot.add("histories_later_out_of_order", 1)
	}
	sort.Strings(vias)
	vias = uniq(vias)
	sort.Strings(offered)
	sort.Strings(offeredKinds)
	offeredKinds = uniq(offeredKinds)
	g.tot.add("histories_first_broadcast_kind_"+firstKind, 1)
	for _, k := range offeredKinds {
		if k != firstKind {
			g.tot.add("histories_offering_another_kind_of_fact_than_the_first", 1)
			break
		}
	}
	fp := fmt.Sprintf("history/%s.r%d/first=%s/refused=%v/k=%d/top=%v/later=%d:%s/offers=%s/conc=%v/kinds=%s>%s/%s",
		spec.P.Kind, spec.P.Round, firstPath, len(refused) > 0, spec.K, topStored, laterStored,
		strings.Join(vias, "+"), strings.Join(uniq(offered), "+"), spec.Concurrent, firstKind, strings.Join(offeredKinds, "+"), spec.State)
	if laterStored > 0 && topStored && len(offered) > 0 {
		g.tot.add("histories_complete", 1) // signed, later stage points up to H+k stored, then offered again
		if depth := g.cleanDepth; spec.K > depth {
			g.tot.add("histories_complete_distance_beyond_pool_clean_depth", 1)
		}
		g.r.Case(fp)
	} else {
		g.r.Eval(1)
	}
	g.r.SetAdd("interleavings_seen", fmt.Sprintf("history:first=%s,k=%d,offers=%s", firstPath, spec.K, strings.Join(offered, ",")))
	g.tot.add("history_wire_broadcasts_of_old_stage_point", wiresAfter)
	if len(g.events) > 4000 {
		g.events = append([]ev{}, g.events[len(g.events)-500:]...)
	}
}

func uniq(s []string) []string {
	var out []string
	for i, v := range s {
		if i == 0 || v != s[i-1] {
			out = append(out, v)
		}
	}
	return out
}
