package c08

// Kinds of ballot fact.
//
// One stage point can be voted with several kinds of fact: an INIT stage point
// with the ordinary INIT fact or the empty-proposal INIT fact, an ACCEPT stage
// point with the ordinary ACCEPT fact, the empty-operations ACCEPT fact or the
// not-processed ACCEPT fact (the suffrage-confirm fact is a stage point of its
// own together with the suffrage-confirm flag and has one kind). The local node
// signs every one of them: the handlers make them (NewINITBallotFactFunc of the
// consensus/joining handlers for an empty proposal, voteproofHandler for a
// proposal without operations or one it could not process) and the mimic path
// copies whatever kind a sync source sent.
//
// Every scenario of the monitor draws the facts it offers for one stage point
// from all kinds valid for the stage (c08_test.go, history_test.go); the
// directed matrix in this file walks, on every run, through every ORDERED pair
// of kinds (kind of the ballot broadcast first x kind of the ballot offered
// second) times every pair of paths (mimic-direct, mimic-box, handler), followed
// by the re-broadcast of refused local ballots and of what the pool holds.
// Oracle: the same as everywhere (onWire).

import (
	"context"
	"fmt"
	"math/rand"
	"sort"
	"strings"
	"time"

	"github.com/spikeekips/mitum/base"
	"github.com/spikeekips/mitum/isaac"
	isaacstates "github.com/spikeekips/mitum/isaac/states"
	"github.com/spikeekips/mitum/util"
	"github.com/spikeekips/mitum/util/valuehash"
)

const (
	kindINIT      = "init"
	kindEmptyProp = "empty-proposal-init"
	kindSC        = "suffrage-confirm"
	kindACCEPT    = "accept"
	kindEmptyOps  = "empty-operations-accept"
	kindNotProc   = "not-processed-accept"
)

// factKind names the kind of a ballot fact.
func factKind(f base.Fact) string {
	switch f.(type) {
	case isaac.SuffrageConfirmBallotFact, *isaac.SuffrageConfirmBallotFact:
		return kindSC
	case isaac.EmptyProposalINITBallotFact, *isaac.EmptyProposalINITBallotFact:
		return kindEmptyProp
	case isaac.INITBallotFact, *isaac.INITBallotFact:
		return kindINIT
	case isaac.EmptyOperationsACCEPTBallotFact, *isaac.EmptyOperationsACCEPTBallotFact:
		return kindEmptyOps
	case isaac.NotProcessedACCEPTBallotFact, *isaac.NotProcessedACCEPTBallotFact:
		return kindNotProc
	case isaac.ACCEPTBallotFact, *isaac.ACCEPTBallotFact:
		return kindACCEPT
	default:
		return fmt.Sprintf("%T", f)
	}
}

// stageKinds: the kinds of fact the node signs for a stage point of the given
// kind of round (INIT | ACCEPT | SC); the first one is the ordinary kind.
func stageKinds(roundKind string) []string {
	switch roundKind {
	case "ACCEPT":
		return []string{kindACCEPT, kindEmptyOps, kindNotProc}
	case "SC":
		return []string{kindSC}
	default:
		return []string{kindINIT, kindEmptyProp}
	}
}

func drawKind(rng *rand.Rand, roundKind string) string {
	ks := stageKinds(roundKind)
	return ks[rng.Intn(len(ks))]
}

// newINITFact / newACCEPTFact: the production constructors of each kind (the
// empty-proposal fact draws its own random part, the empty-operations and
// not-processed facts their own random block hash; these values decide nothing).
func newINITFact(kind string, point base.Point, prev, proposal util.Hash) base.INITBallotFact {
	if kind == kindEmptyProp {
		return isaac.NewEmptyProposalINITBallotFact(point, prev, proposal)
	}
	return isaac.NewINITBallotFact(point, prev, proposal, nil)
}

func newACCEPTFact(kind string, point base.Point, proposal, newBlock util.Hash) base.ACCEPTBallotFact {
	switch kind {
	case kindEmptyOps:
		return isaac.NewEmptyOperationsACCEPTBallotFact(point, proposal)
	case kindNotProc:
		return isaac.NewNotProcessedACCEPTBallotFact(point, proposal)
	default:
		return isaac.NewACCEPTBallotFact(point, proposal, newBlock, nil)
	}
}

// ---------------------------------------------------------------- handler kinds

// hook ballot_kinds_verif.go; looked up at run time so that the monitor also
// builds against a tree which does not have the hook file (then the handler
// makes the ordinary kinds only and the evidence says so).
type handlerWithFact interface {
	PrepareACCEPTBallotWithFact(base.INITVoteproof, base.ACCEPTBallotFact, time.Duration) error
}

type handlerWithINITFactFunc interface {
	SetNewINITBallotFactFunc(func(context.Context, base.Point, util.Hash, base.ProposalSignFact, []util.Hash) (base.INITBallotFact, error))
}

// installHandlerKinds gives the ballot handler the NewINITBallotFactFunc of the
// real consensus handler type (empty proposal => empty-proposal INIT fact, as
// configured by launch: IsEmptyProposalNoBlockFunc true, IsEmptyProposalFunc =
// the proposal has no operations).
func (g *rig) installHandlerKinds() {
	var h interface{} = g.handler
	_, okf := h.(handlerWithFact)
	hi, oki := h.(handlerWithINITFactFunc)
	if !okf || !oki {
		return
	}
	cargs := isaacstates.NewConsensusHandlerArgs()
	cargs.IsEmptyProposalNoBlockFunc = func() bool { return true }
	cargs.IsEmptyProposalFunc = func(_ context.Context, pr base.ProposalSignFact) (bool, error) {
		return len(pr.ProposalFact().Operations()) < 1, nil
	}
	_ = isaacstates.NewNewConsensusHandlerType(g.networkID, g.local, cargs) // wraps cargs.NewINITBallotFactFunc
	hi.SetNewINITBallotFactFunc(cargs.NewINITBallotFactFunc)
	g.hookKinds = true
}

// handlerKind: the kind the handler will really make when asked for kind.
func (g *rig) handlerKind(kind string) string {
	if g.hookKinds {
		return kind
	}
	switch kind {
	case kindEmptyProp:
		return kindINIT
	case kindEmptyOps, kindNotProc:
		return kindACCEPT
	}
	return kind
}

// selectProposal is the handler's ProposalSelectFunc: a proposal signed by the
// local node, without operations for the points marked empty.
func (g *rig) selectProposal(p base.Point, prev util.Hash) (base.ProposalSignFact, error) {
	if v, ok := g.proposals.Load(p.String()); ok {
		return v.(base.ProposalSignFact), nil
	}
	var ops [][2]util.Hash
	if _, empty := g.emptyProposals.Load(p.String()); !empty {
		ops = [][2]util.Hash{{valuehash.RandomSHA256(), valuehash.RandomSHA256()}}
	}
	pr := isaac.NewProposalSignFact(isaac.NewProposalFact(p, g.local.Address(), prev, ops))
	if err := pr.Sign(g.local.Privatekey(), g.networkID); err != nil {
		return nil, err
	}
	v, _ := g.proposals.LoadOrStore(p.String(), pr)
	return v.(base.ProposalSignFact), nil
}

// setProposalKind: the next proposal selected for the point is empty (the
// handler then makes the empty-proposal INIT fact) or not.
func (g *rig) setProposalKind(p base.Point, kind string) {
	g.proposals.Delete(p.String())
	if g.handlerKind(kind) == kindEmptyProp {
		g.emptyProposals.Store(p.String(), true)
	} else {
		g.emptyProposals.Delete(p.String())
	}
}

// handlerACCEPT lets the handler make and timer-broadcast its ACCEPT ballot of
// the given kind.
func (g *rig) handlerACCEPT(ivp base.INITVoteproof, kind string, newBlock util.Hash) error {
	kind = g.handlerKind(kind)
	g.tot.add("handler_asked_for_kind_"+kind, 1)
	if kind == kindACCEPT {
		return g.handler.PrepareACCEPTBallot(ivp, newBlock, time.Nanosecond)
	}
	var h interface{} = g.handler
	fact := newACCEPTFact(kind, ivp.Point().Point, ivp.BallotMajority().Proposal(), nil)
	return h.(handlerWithFact).PrepareACCEPTBallotWithFact(ivp, fact, time.Nanosecond)
}

// ---------------------------------------------------------------- directed matrix

type kindPairSpec struct {
	Stage  string `json:"stage"` // INIT | ACCEPT
	Round  uint64 `json:"round"`
	Height int64  `json:"height"`
	First  string `json:"first_kind"`
	Second string `json:"second_kind"`
	Path1  string `json:"first_path"`
	Path2  string `json:"second_path"`
	State  string `json:"state"`
}

var matrixPaths = []string{"mimic-direct", "mimic-box", "handler"}

// genKindPairs: every ordered pair of kinds of both stages (4 + 9 = 13) x every
// ordered pair of paths (9) = 117 cases per repeat, in an order fixed by the
// seed. subset (quick tier): every ordered pair of kinds with 3 of the 9 pairs
// of paths (4 apart in the list of pairs of paths, so with different first and
// second paths), rotating so that every pair of paths is taken 4 or 5 times =
// 39 cases.
func genKindPairs(rng *rand.Rand, repeats int, subset bool) []kindPairSpec {
	var out []kindPairSpec
	for rep := 0; rep < repeats; rep++ {
		var one []kindPairSpec
		rot, pi := rng.Intn(9), 0
		for _, stage := range []string{"INIT", "ACCEPT"} {
			for _, k1 := range stageKinds(stage) {
				for _, k2 := range stageKinds(stage) {
					for i1, p1 := range matrixPaths {
						for i2, p2 := range matrixPaths {
							if d := (i1*3 + i2 - rot - pi + 9*13) % 9; subset && d%4 != 0 {
								continue
							}
							s := kindPairSpec{Stage: stage, First: k1, Second: k2, Path1: p1, Path2: p2}
							if stage == "INIT" && rng.Intn(3) == 0 {
								s.Round = 1
							}
							one = append(one, s)
						}
					}
					pi++
				}
			}
		}
		rng.Shuffle(len(one), func(i, j int) { one[i], one[j] = one[j], one[i] })
		out = append(out, one...)
	}
	for i := range out {
		out[i].Height = int64(1000 + 10*i)
	}
	return out
}

func (g *rig) runKindPair(ci int, spec kindPairSpec) {
	rng := g.r.Rand(43, g.idx, ci)
	c, err := g.newPctx(rng, spSpec{Height: spec.Height, Round: spec.Round, Kind: spec.Stage})
	if err != nil {
		g.r.Inconclusive(fmt.Sprintf("kind pair: voteproof: %v", err))
		return
	}
	hs := &histState{key: c.key, phase: 1}
	g.mu.Lock()
	g.round = fmt.Sprintf("kind-pair rig %d case %d %+v", g.idx, ci, spec)
	g.hist = hs
	g.doneKeys = map[string]int{}
	startSeq := g.seq
	g.mu.Unlock()
	defer func() {
		g.mu.Lock()
		g.hist = nil
		g.doneKeys = nil
		g.mu.Unlock()
	}()

	// one offer of a ballot of the given kind through the given path; returns
	// the kind really offered (the handler without the hook makes ordinary ones)
	offer := func(i int, path, kind string) (string, bool) {
		switch path {
		case "handler":
			if !g.handlerRound(c, rng, kind) {
				g.tot.add("kind_pair_handler_ballot_not_on_wire_in_time", 1)
			}
			return g.handlerKind(kind), true
		default:
			bl, err := c.ballotKind(g, rng, c.signer(g, i), kind)
			if err != nil {
				g.r.Inconclusive(fmt.Sprintf("kind pair: harness made an invalid ballot: %v", err))
				return "", false
			}
			if _, ok := g.deliver(bl, path); !ok {
				g.r.Inconclusive("kind pair: mimic call did not finish")
				return "", false
			}
			return kind, true
		}
	}

	// ---- 1. the first ballot of the stage point
	k1, ok := offer(0, spec.Path1, spec.First)
	if !ok {
		return
	}
	g.mu.Lock()
	firstKind, firstFact := "", ""
	if w := g.wires[c.key]; len(w) > 0 {
		firstKind, firstFact = w[0].kind, w[0].fact
	}
	g.mu.Unlock()
	if firstFact == "" {
		g.tot.add("kind_pair_cases_without_first_broadcast", 1)
		g.r.Eval(1)
		return
	}

	// ---- 2. a ballot of the second kind for the same stage point
	k2, ok := offer(1, spec.Path2, spec.Second)
	if !ok {
		return
	}

	// ---- 3. re-broadcast of the local ballots which were handed to Broadcast
	// and refused, and of what the pool holds
	g.mu.Lock()
	var refused []base.Ballot
	seen := map[string]bool{firstFact: true}
	for _, bl := range hs.offered {
		if h := bl.SignFact().Fact().Hash().String(); !seen[h] {
			seen[h] = true
			refused = append(refused, bl)
		}
	}
	g.mu.Unlock()
	if len(refused) > 0 {
		g.asPath("rebroadcast-refused", func() {
			for _, bl := range refused {
				_ = bbWrap{g: g}.Broadcast(bl)
			}
		})
	}
	g.asPath("rebroadcast-pooled", func() {
		w := bbWrap{g: g}
		if bl, found, _ := w.Ballot(c.point, c.stage, c.sc); found {
			_ = w.Broadcast(bl)
			g.tot.add("kind_pair_rebroadcasts_of_pooled_ballot", 1)
		}
	})
	if !waitCond(time.Second*60, func() bool {
		g.mu.Lock()
		defer g.mu.Unlock()
		return g.inflight == 0
	}) {
		g.r.Inconclusive("kind pair: mimic calls did not finish")
		return
	}

	// ---- evidence
	g.mu.Lock()
	defer g.mu.Unlock()
	var order []string
	stopped := true // the second offer ended at the "already have one" check
	for _, e := range g.events {
		if e.Seq <= startSeq || e.Key != c.key {
			continue
		}
		switch e.Kind {
		case "check":
			order = append(order, fmt.Sprintf("c:%s:%v", e.Path, e.Found))
		case "wire":
			order = append(order, "w:"+e.Path)
		case "broadcast-call":
			if e.Fact != firstFact {
				stopped = false
			}
		}
	}
	pair := k1 + "+" + k2
	g.tot.add("kind_pair_cases", 1)
	g.tot.add("kind_pair_"+pair, 1)
	g.tot.add("kind_pair_paths_"+spec.Path1+">"+spec.Path2, 1)
	if firstKind == k1 {
		g.tot.add("kind_pair_first_kind_on_wire_"+firstKind, 1)
		g.tot.mark("kindpair:" + spec.Stage + ":" + pair)
	} else {
		g.tot.add("kind_pair_first_kind_on_wire_differs", 1)
	}
	if k1 != spec.First || k2 != spec.Second {
		g.tot.add("kind_pair_cases_handler_made_ordinary_kind_hook_missing", 1)
	}
	if stopped {
		g.tot.add("kind_pair_second_offer_stopped_at_pool_check", 1)
	} else {
		g.tot.add("kind_pair_second_offer_reached_broadcaster", 1)
	}
	if len(refused) > 0 {
		g.tot.add("kind_pair_refused_local_ballots_rebroadcast", len(refused))
	}
	g.r.SetAdd("interleavings_seen", "kindpair:"+strings.Join(order, ","))
	g.r.Case(fmt.Sprintf("kindpair/%s.r%d/%s/%s>%s/%s/%s", spec.Stage, spec.Round, pair, spec.Path1, spec.Path2, spec.State, strings.Join(order, ",")))
	if len(g.events) > 4000 {
		g.events = append([]ev{}, g.events[len(g.events)-500:]...)
	}
}

// allKindPairs lists "stage:first+second" for every ordered pair of kinds.
func allKindPairs() []string {
	var out []string
	for _, stage := range []string{"INIT", "ACCEPT"} {
		for _, k1 := range stageKinds(stage) {
			for _, k2 := range stageKinds(stage) {
				out = append(out, stage+":"+k1+"+"+k2)
			}
		}
	}
	sort.Strings(out)
	return out
}
