//go:build race

package c08

const raceEnabled = true
