package c09

// C09: the node state machine takes only allowed transitions.
//
// A real isaacstates.States runs with stub handlers (hook H2,
// isaac/states/states_verif.go) for all seven states. The stubs log every
// enter/exit call the machine makes (the machine calls them while holding its
// own state lock, so the log order is the order of the actual transitions) and
// answer with scripted outcomes. The harness submits switch requests
// (AskMoveState, Hold, voteproofs whose handling asks for a switch), toggles
// SetAllowConsensus, starts handovers and samples Current(), from one or
// several goroutines, and the oracle below judges the log.

import (
	"context"
	"fmt"
	"hash/fnv"
	"math/rand"
	"runtime"
	"sort"
	"strings"
	"sync"
	"sync/atomic"
	"testing"
	"time"

	"github.com/pkg/errors"
	"github.com/spikeekips/mitum/base"
	"github.com/spikeekips/mitum/isaac"
	isaacstates "github.com/spikeekips/mitum/isaac/states"
	"github.com/spikeekips/mitum/network/quicstream"
	"github.com/spikeekips/mitum/util"
	"github.com/spikeekips/mitum/util/logging"
	"verifharness/vlib"
)

type st = isaacstates.StateType

var (
	allStates = isaacstates.VerifAllStates
	sStopped  = isaacstates.StateStopped
	sBooting  = isaacstates.StateBooting
	sJoining  = isaacstates.StateJoining
	sCons     = isaacstates.StateConsensus
	sSyncing  = isaacstates.StateSyncing
	sHandover = isaacstates.StateHandover
	sBroken   = isaacstates.StateBroken
)

func goid() uint64 {
	var buf [64]byte
	n := runtime.Stack(buf[:], false)
	var id uint64
	for _, c := range buf[len("goroutine "):n] {
		if c < '0' || c > '9' {
			break
		}
		id = id*10 + uint64(c-'0')
	}
	return id
}

func stackHas(subs ...string) map[string]bool {
	pcs := make([]uintptr, 48)
	n := runtime.Callers(2, pcs)
	fr := runtime.CallersFrames(pcs[:n])
	out := map[string]bool{}
	for {
		f, more := fr.Next()
		for _, s := range subs {
			if strings.HasSuffix(f.Function, s) {
				out[s] = true
			}
		}
		if !more {
			break
		}
	}
	return out
}

// ---------------------------------------------------------------- log

type event struct {
	Seq     uint64 `json:"seq"`
	Kind    string `json:"kind"`
	G       uint64 `json:"g,omitempty"`
	Handler string `json:"handler,omitempty"`
	Inst    uint64 `json:"inst,omitempty"`
	From    string `json:"from,omitempty"`
	CtxFrom string `json:"ctx_from,omitempty"`
	CtxNext string `json:"ctx_next,omitempty"`
	CtxID   uint64 `json:"ctx_id,omitempty"`
	CtxKind string `json:"ctx_kind,omitempty"`
	Outcome string `json:"outcome,omitempty"`
	Note    string `json:"note,omitempty"`
}

type toggle struct {
	allow      bool
	start, end uint64
	done       bool
}

type reqRec struct {
	id         uint64
	from, next st
	submitSeq  uint64
	origin     string // ask | redirect | voteproof
	staleAtSub bool
	exact      bool // submitted while nothing else was in flight
	effect     bool
}

type enterRec struct {
	seq      uint64
	state    st
	outcome  string
	reported bool
	g        uint64
}

type totals struct {
	mu          sync.Mutex
	reqByPair   map[string]int
	edges       map[string]int
	outcomes    map[string]int
	counts      map[string]int
	interleaved map[string]struct{}
}

func (t *totals) add(m map[string]int, k string, n int) {
	t.mu.Lock()
	m[k] += n
	t.mu.Unlock()
}

type rig struct {
	r    *vlib.Run
	tot  *totals
	name string
	st   *isaacstates.States

	mu        sync.Mutex
	rng       *rand.Rand // outcomes, drawn in call order
	seq       uint64
	actual    st
	curInst   uint64
	log       []event
	nTrans    int // number of enter/exit events (sampler)
	toggles   []toggle
	reqs      map[uint64]*reqRec
	nextID    uint64
	lastEnter map[uint64]*enterRec // per goroutine
	enters    []*enterRec
	reports   []event
	path      []st
	markers   map[string]chan struct{}
	vpKinds   map[string]string
	dead      bool
	brokerOn  bool
	noErrors  bool // directed cases: all outcomes ok

	yieldCtr atomic.Uint64
	yieldOn  atomic.Bool

	// directed gate (Hold against a switch of the states loop)
	gateArmed   atomic.Bool
	gateG       atomic.Uint64
	gateReached chan struct{}
	gateRelease chan struct{}
	gateKind    string

	vpch   chan base.Voteproof
	deadch chan struct{}
}

func (g *rig) nextSeq() uint64 { g.seq++; return g.seq }

func (g *rig) tail(n int) []event {
	if len(g.log) <= n {
		return append([]event{}, g.log...)
	}
	return append([]event{}, g.log[len(g.log)-n:]...)
}

func (g *rig) violation(sig, what string) {
	// g.mu held
	g.r.Violation(sig, what, map[string]any{"script": g.name, "last_events": g.tail(40)})
}

// ---------------------------------------------------------------- stub script (called by States)

func (g *rig) OnState(handler st, inst uint64) {
	if g.gateArmed.Load() && goid() == g.gateG.Load() {
		h := stackHas("(*States).stateSwitchContextLog", "(*States).exitAndEnter", "(*States).switchState", "(*States).SetAllowConsensus")
		var hit bool
		switch g.gateKind {
		case "hold": // between the origin check and the switch
			hit = h["(*States).stateSwitchContextLog"] && h["(*States).switchState"] && !h["(*States).exitAndEnter"]
		case "allow": // SetAllowConsensus looking at the current handler
			hit = h["(*States).SetAllowConsensus"]
		}
		if hit {
			g.gateArmed.Store(false)
			close(g.gateReached)
			select {
			case <-g.gateRelease:
			case <-time.After(time.Second * 2):
			}
		}
		return
	}
	if !g.yieldOn.Load() {
		return
	}
	// a yield point the scheduler could take anyway: state() is a plain getter
	c := g.yieldCtr.Add(1)
	x := (c + 0x9E3779B97F4A7C15) * 0xBF58476D1CE4E5B9
	x ^= x >> 29
	switch {
	case x%61 == 0:
		runtime.Gosched()
	case x%509 == 0:
		time.Sleep(time.Duration(10+x%90) * time.Microsecond)
	}
}

func (g *rig) newCtxLocked(from, next st, origin string) isaacstates.VerifSwitchContext {
	g.nextID++
	id := g.nextID
	g.reqs[id] = &reqRec{id: id, from: from, next: next, submitSeq: g.nextSeq(), origin: origin}
	return isaacstates.NewVerifSwitchContext(from, next, id)
}

func (g *rig) randOther(not st) st {
	for {
		s := allStates[g.rng.Intn(len(allStates))]
		if s != not && !(s == sStopped && g.rng.Intn(40) != 0) {
			return s
		}
	}
}

func (g *rig) OnExit(handler st, inst uint64, sctx isaacstates.VerifSwitchContextInfo) (func(), error) {
	gid := goid()
	g.mu.Lock()
	defer g.mu.Unlock()

	ev := event{Seq: g.nextSeq(), Kind: "exit", G: gid, Handler: string(handler), Inst: inst,
		CtxFrom: string(sctx.From), CtxNext: string(sctx.Next), CtxID: sctx.ID, CtxKind: sctx.Kind}
	g.nTrans++
	if rq := g.reqs[sctx.ID]; rq != nil {
		rq.effect = true
	}

	out := "ok"
	if !g.noErrors {
		switch x := g.rng.Intn(100); {
		case x < 7:
			out = "error"
		case x < 14:
			out = "ignore"
		}
	}
	ev.Outcome = out
	g.log = append(g.log, ev)

	// clause 2: only the handler of the current state is exited, by a context
	// whose origin is that state
	if handler != g.actual || inst != g.curInst {
		g.violation("clause2:exit-of-handler-which-is-not-current",
			fmt.Sprintf("exit called on the %s handler (instance %d) for %s->%s while the machine is in %s (instance %d): a request with a stale origin took effect",
				handler, inst, sctx.From, sctx.Next, g.actual, g.curInst))
	} else if sctx.From != handler {
		g.violation("clause2:exit-with-context-of-other-origin",
			fmt.Sprintf("handler %s exited by a context %s->%s", handler, sctx.From, sctx.Next))
	}

	switch out {
	case "error":
		return nil, errors.Errorf("scripted exit error")
	case "ignore":
		return nil, isaacstates.ErrIgnoreSwitchingState.Errorf("scripted ignore")
	}
	return func() { g.tot.add(g.tot.counts, "exit_deferred_called", 1) }, nil
}

func (g *rig) OnEnter(handler st, inst uint64, from st, sctx isaacstates.VerifSwitchContextInfo) (func(), error) {
	gid := goid()
	g.mu.Lock()
	defer g.mu.Unlock()

	ev := event{Seq: g.nextSeq(), Kind: "enter", G: gid, Handler: string(handler), Inst: inst, From: string(from),
		CtxFrom: string(sctx.From), CtxNext: string(sctx.Next), CtxID: sctx.ID, CtxKind: sctx.Kind}
	g.nTrans++
	if rq := g.reqs[sctx.ID]; rq != nil {
		rq.effect = true
	}

	startup := sctx.Nil && from == isaacstates.StateEmpty && handler == sStopped

	out := "ok"
	var redirect error
	if !startup && !g.noErrors {
		x := g.rng.Intn(100)
		errp := 10
		if handler == sBroken {
			errp = 1
		}
		switch {
		case x < errp:
			out = "error"
		case x < errp+15:
			out = "redirect"
		}
	}

	prev := g.actual
	if !startup {
		// clause 2
		switch {
		case from != prev:
			g.violation("clause2:enter-from-state-which-is-not-current",
				fmt.Sprintf("%s entered from %s (context %s->%s) while the machine is in %s: a request with a stale origin took effect",
					handler, from, sctx.From, sctx.Next, prev))
		case sctx.From != prev || sctx.Next != handler:
			g.violation("clause2:enter-with-context-of-other-origin",
				fmt.Sprintf("%s entered by a context %s->%s while the machine is in %s", handler, sctx.From, sctx.Next, prev))
		}
		// clause 1
		if prev == sStopped && handler != sBooting && handler != sBroken {
			g.violation("clause1:stopped-to-"+string(handler),
				fmt.Sprintf("machine in STOPPED entered %s (context %s->%s, enter from=%s)", handler, sctx.From, sctx.Next, from))
		}
		// clause 3
		if (handler == sJoining || handler == sCons) && from != sHandover {
			g.judgeDisallowed(handler, from, sctx, ev.Seq)
		}
		if (handler == sJoining || handler == sCons) && from == sHandover {
			if ok, dis := g.disallowedAt(g.submitSeqOf(sctx.ID, ev.Seq), ev.Seq); ok && dis {
				g.tot.add(g.tot.counts, "consensus_states_entered_from_handover_while_disallowed", 1)
			}
		}
	}

	if out == "redirect" {
		c := g.newCtxLocked(handler, g.randOther(handler), "redirect")
		redirect = c
		ev.Note = fmt.Sprintf("redirect id=%d to %s", c.ID(), c.Next())
	}
	ev.Outcome = out
	g.log = append(g.log, ev)

	rec := &enterRec{seq: ev.Seq, state: handler, outcome: out, g: gid, reported: startup}
	g.lastEnter[gid] = rec
	if out != "error" {
		g.actual = handler
		g.curInst = inst
		g.path = append(g.path, handler)
		g.enters = append(g.enters, rec)
		if !startup {
			g.tot.add(g.tot.edges, string(prev)+"->"+string(handler), 1)
		}
		if handler == sSyncing && sctx.ID == 0 && strings.Contains(sctx.Kind, "SyncingSwitchContext") && prev != sHandover {
			g.tot.add(g.tot.counts, "redirected_to_syncing_by_the_machine", 1)
		}
	}
	g.tot.add(g.tot.outcomes, "enter_"+out, 1)

	switch out {
	case "error":
		return nil, errors.Errorf("scripted enter error")
	case "redirect":
		return nil, redirect
	}
	return func() { g.tot.add(g.tot.counts, "enter_deferred_called", 1) }, nil
}

func (g *rig) submitSeqOf(id, def uint64) uint64 {
	if rq := g.reqs[id]; rq != nil {
		return rq.submitSeq
	}
	return def
}

// flagAt(want): sure==true only if a SetAllowConsensus(want) call returned
// before submitSeq and every SetAllowConsensus(!want) call that started before
// enterSeq had returned before that call started. (The initial value counts
// as a call which returned at time 0.)
func (g *rig) flagAt(want bool, submitSeq, enterSeq uint64) (sure, value bool) {
	var f *toggle
	for i := range g.toggles {
		t := &g.toggles[i]
		if t.allow == want && t.done && t.end < submitSeq && (f == nil || t.start >= f.start) {
			f = t
		}
	}
	if f == nil {
		return false, false
	}
	for i := range g.toggles {
		t := &g.toggles[i]
		if t.allow != want && t.start < enterSeq && !(t.done && t.end <= f.start) {
			return false, false
		}
	}
	return true, want
}

func (g *rig) disallowedAt(submitSeq, enterSeq uint64) (judged, disallowed bool) {
	sure, _ := g.flagAt(false, submitSeq, enterSeq)
	return sure, sure
}

func (g *rig) judgeDisallowed(handler, from st, sctx isaacstates.VerifSwitchContextInfo, enterSeq uint64) {
	rq := g.reqs[sctx.ID]
	if rq == nil {
		g.tot.add(g.tot.counts, "consensus_state_enters_by_machine_made_context", 1)
		return
	}
	judged, dis := g.disallowedAt(rq.submitSeq, enterSeq)
	switch {
	case judged && dis:
		g.violation("clause3:entered-"+string(handler)+"-while-consensus-not-allowed-without-handover",
			fmt.Sprintf("%s entered from %s by request %d (%s->%s) although SetAllowConsensus(false) had returned before the request and no SetAllowConsensus(true) started since",
				handler, from, rq.id, rq.from, rq.next))
	default:
		if j, _ := g.flagAt(true, rq.submitSeq, enterSeq); j {
			g.tot.add(g.tot.counts, "consensus_state_enters_while_allowed", 1)
		} else {
			g.tot.add(g.tot.counts, "toggle_concurrent_steps_not_judged", 1)
		}
	}
}

func (g *rig) OnNewVoteproof(handler st, inst uint64, vp base.Voteproof) error {
	g.mu.Lock()
	defer g.mu.Unlock()

	kind := g.vpKinds[vp.ID()]
	if kind == "marker" || kind == "" {
		return nil
	}
	ev := event{Seq: g.nextSeq(), Kind: "voteproof", Handler: string(handler), Inst: inst}
	out := "nil"
	var ret error
	switch x := g.rng.Intn(100); {
	case g.noErrors:
	case x < 35:
		c := g.newCtxLocked(handler, g.randOther(handler), "voteproof")
		ret = c
		out = fmt.Sprintf("switch id=%d to %s", c.ID(), c.Next())
	case x < 36 && kind == "last":
		out = "error"
		ret = errors.Errorf("scripted voteproof error")
	}
	ev.Outcome = out
	g.log = append(g.log, ev)
	g.tot.add(g.tot.counts, "voteproofs_handled", 1)
	return ret
}

func (g *rig) OnSetAllowConsensus(handler st, inst uint64, allow bool) {
	g.mu.Lock()
	g.log = append(g.log, event{Seq: g.nextSeq(), Kind: "whenSetAllowConsensus", Handler: string(handler), Inst: inst, Outcome: fmt.Sprint(allow)})
	g.mu.Unlock()
	g.tot.add(g.tot.counts, "when_set_allow_consensus_calls", 1)
}

// WhenStateSwitchedFunc
func (g *rig) onReport(s st) {
	gid := goid()
	g.mu.Lock()
	defer g.mu.Unlock()

	ev := event{Seq: g.nextSeq(), Kind: "report", G: gid, Handler: string(s)}
	g.log = append(g.log, ev)
	g.reports = append(g.reports, ev)
	g.tot.add(g.tot.counts, "reported_switches", 1)

	rec := g.lastEnter[gid]
	switch {
	case rec == nil || rec.outcome != "ok" || rec.reported:
		g.violation("clause4:report-without-a-switch",
			fmt.Sprintf("switch to %s reported although the reporting goroutine made no unreported successful switch", s))
	case rec.state != s:
		g.violation("clause4:reported-state-is-not-the-entered-state",
			fmt.Sprintf("switch reported as %s, the switch just made entered %s", s, rec.state))
	default:
		rec.reported = true
		if g.actual != s {
			g.tot.add(g.tot.counts, "reports_overtaken_by_a_switch_of_another_goroutine", 1)
		}
	}
}

// BallotStuckResolver (the exported way to hand a voteproof to the states loop)
type resolver struct{ ch chan base.Voteproof }

func (resolver) NewPoint(context.Context, base.StagePoint) bool { return true }
func (r resolver) Voteproof() <-chan base.Voteproof             { return r.ch }
func (resolver) Clean()                                         {}
func (resolver) Cancel(base.StagePoint)                         {}

// ---------------------------------------------------------------- rig

func newRig(r *vlib.Run, tot *totals, name string, rng *rand.Rand, allow, noErrors, yield bool) (*rig, <-chan error) {
	local := base.RandomLocalNode()
	networkID := base.RandomNetworkID()

	g := &rig{
		r: r, tot: tot, name: name, rng: rng,
		reqs: map[uint64]*reqRec{}, lastEnter: map[uint64]*enterRec{},
		markers: map[string]chan struct{}{}, vpKinds: map[string]string{},
		vpch: make(chan base.Voteproof), deadch: make(chan struct{}),
		gateReached: make(chan struct{}), gateRelease: make(chan struct{}),
		noErrors: noErrors, gateKind: "hold",
	}
	g.yieldOn.Store(yield)
	g.toggles = append(g.toggles, toggle{allow: allow, done: true})

	args := isaacstates.NewStatesArgs()
	args.AllowConsensus = allow
	args.Ballotbox = isaacstates.NewBallotbox(local.Address(),
		func() base.Threshold { return base.Threshold(67) },
		func(base.Height) (base.Suffrage, bool, error) { return nil, false, nil })
	args.BallotBroadcaster = isaacstates.NewDummyBallotBroadcaster(local.Address(), nil)
	args.BallotStuckResolver = resolver{ch: g.vpch}
	args.WhenStateSwitchedFunc = g.onReport
	args.WhenNewVoteproof = func(vp base.Voteproof) {
		g.mu.Lock()
		ch := g.markers[vp.ID()]
		delete(g.markers, vp.ID())
		g.mu.Unlock()
		if ch != nil {
			close(ch)
		}
	}
	args.NewHandoverYBroker = func(ctx context.Context, ci quicstream.ConnInfo) (*isaacstates.HandoverYBroker, error) {
		ya := isaacstates.NewHandoverYBrokerArgs(networkID)
		ya.AskRequestFunc = func(context.Context, quicstream.ConnInfo) (string, bool, error) {
			return util.UUID().String(), false, nil
		}
		ya.SyncDataFunc = func(_ context.Context, _ quicstream.ConnInfo, readych chan<- struct{}) error {
			readych <- struct{}{}
			return nil
		}
		ya.SendMessageFunc = func(context.Context, quicstream.ConnInfo, isaacstates.HandoverMessage) error { return nil }
		return isaacstates.NewHandoverYBroker(ctx, ya, ci), nil
	}

	sts, err := isaacstates.NewStates(networkID, local, args)
	if err != nil {
		r.Inconclusive("NewStates: " + err.Error())
		return nil, nil
	}
	_ = sts.SetLogging(logging.TestNilLogging)
	sts.VerifSetStubHandlers(g)
	g.st = sts

	errch := sts.Wait(context.Background())
	out := make(chan error, 1)
	go func() {
		e := <-errch
		g.mu.Lock()
		g.dead = true
		g.mu.Unlock()
		switch {
		case e == nil:
		case strings.Contains(e.Error(), "context canceled"):
			tot.add(tot.counts, "states_loop_ended_by_stop", 1)
		case strings.Contains(e.Error(), "states stopped"):
			tot.add(tot.counts, "states_loop_ended_by_switch_to_stopped", 1)
		case strings.Contains(e.Error(), "switch to broken"):
			tot.add(tot.counts, "states_loop_ended_by_failed_switch_to_broken", 1)
		default:
			tot.add(tot.counts, "states_loop_ended_by_other_error", 1)
		}
		close(g.deadch)
		out <- e
	}()
	return g, out
}

func (g *rig) isDead() bool {
	g.mu.Lock()
	defer g.mu.Unlock()
	return g.dead
}

// marker: a voteproof handed to the states loop; returns when the loop has
// handled it (so the loop went around once after the send).
func (g *rig) marker() bool {
	vp := isaac.NewINITVoteproof(base.RawPoint(1, 0))
	ch := make(chan struct{})
	g.mu.Lock()
	g.markers[vp.ID()] = ch
	g.vpKinds[vp.ID()] = "marker"
	g.mu.Unlock()
	select {
	case g.vpch <- vp:
	case <-g.deadch:
		return false
	}
	select {
	case <-ch:
		return true
	case <-g.deadch:
		return false
	}
}

func (g *rig) settle() bool {
	for i := 0; i < 3; i++ {
		runtime.Gosched()
		if !g.marker() {
			return false
		}
	}
	// until two consecutive markers see no new event
	for i := 0; i < 50; i++ {
		g.mu.Lock()
		n := len(g.log)
		g.mu.Unlock()
		if !g.marker() {
			return false
		}
		g.mu.Lock()
		same := n == len(g.log)
		g.mu.Unlock()
		if same {
			return true
		}
	}
	return true
}

// ---------------------------------------------------------------- operations

func (g *rig) sample() st {
	g.mu.Lock()
	n1, a1 := g.nTrans, g.actual
	g.mu.Unlock()
	c := g.st.Current()
	g.mu.Lock()
	n2 := g.nTrans
	if n1 == n2 {
		if c != a1 {
			g.violation("clause4:Current-differs-from-the-entered-state",
				fmt.Sprintf("Current() = %s while the last state entered is %s and no handler call happened in between", c, a1))
		}
		g.tot.add(g.tot.counts, "current_samples_judged", 1)
	} else {
		g.tot.add(g.tot.counts, "current_samples_overlapping_a_switch", 1)
	}
	g.mu.Unlock()
	return c
}

// sample2 reads the state from the log only (never touches States)
func (g *rig) sample2() st {
	g.mu.Lock()
	defer g.mu.Unlock()
	return g.actual
}

func (g *rig) ask(from, next st, withVP, exact bool) {
	g.mu.Lock()
	g.nextID++
	id := g.nextID
	rq := &reqRec{id: id, from: from, next: next, origin: "ask", submitSeq: g.nextSeq(), staleAtSub: from != g.actual, exact: exact}
	g.reqs[id] = rq
	g.log = append(g.log, event{Seq: rq.submitSeq, Kind: "ask", G: goid(), CtxFrom: string(from), CtxNext: string(next), CtxID: id,
		Note: fmt.Sprintf("machine in %s", g.actual)})
	g.mu.Unlock()
	g.tot.add(g.tot.reqByPair, string(from)+"->"+string(next), 1)

	var err error
	if withVP {
		err = g.st.AskMoveState(isaacstates.NewVerifVoteproofSwitchContext(from, next, id, isaac.NewINITVoteproof(base.RawPoint(33, 0))))
	} else {
		err = g.st.AskMoveState(isaacstates.NewVerifSwitchContext(from, next, id))
	}
	if err != nil {
		g.mu.Lock()
		g.violation("AskMoveState:error", fmt.Sprintf("AskMoveState(%s->%s) returned %v", from, next, err))
		g.mu.Unlock()
	}
}

func (g *rig) hold() {
	g.mu.Lock()
	s := g.nextSeq()
	g.log = append(g.log, event{Seq: s, Kind: "hold-call", G: goid(), Note: fmt.Sprintf("machine in %s", g.actual)})
	g.mu.Unlock()
	err := g.st.Hold()
	g.mu.Lock()
	g.log = append(g.log, event{Seq: g.nextSeq(), Kind: "hold-return", G: goid(), Outcome: fmt.Sprint(err)})
	g.mu.Unlock()
	g.tot.add(g.tot.counts, "hold_calls", 1)
}

func (g *rig) setAllow(allow bool) {
	g.mu.Lock()
	g.toggles = append(g.toggles, toggle{allow: allow, start: g.nextSeq()})
	i := len(g.toggles) - 1
	g.log = append(g.log, event{Seq: g.toggles[i].start, Kind: "allow-call", G: goid(), Outcome: fmt.Sprint(allow)})
	g.mu.Unlock()
	isset := g.st.SetAllowConsensus(allow)
	g.mu.Lock()
	g.toggles[i].end = g.nextSeq()
	g.toggles[i].done = true
	g.log = append(g.log, event{Seq: g.toggles[i].end, Kind: "allow-return", G: goid(), Outcome: fmt.Sprintf("%v isset=%v", allow, isset)})
	g.mu.Unlock()
	g.tot.add(g.tot.counts, fmt.Sprintf("toggles_%v", allow), 1)
}

func (g *rig) voteproof(kind string) {
	vp := isaac.NewINITVoteproof(base.RawPoint(2, 0))
	g.mu.Lock()
	g.vpKinds[vp.ID()] = kind
	g.mu.Unlock()
	select {
	case g.vpch <- vp:
		g.tot.add(g.tot.counts, "voteproofs_sent", 1)
	case <-g.deadch:
	}
}

func (g *rig) startHandoverY() {
	if err := g.st.NewHandoverYBroker(quicstream.ConnInfo{}); err != nil {
		g.tot.add(g.tot.counts, "handover_y_start_refused", 1)
		return
	}
	broker := g.st.HandoverYBroker()
	for i := 0; i < 400 && broker != nil; i++ {
		if _, asked, err := broker.Ask(); err != nil || asked {
			break
		}
		time.Sleep(time.Microsecond * 50)
	}
	if broker != nil && broker.IsAsked() {
		g.tot.add(g.tot.counts, "handover_y_started_and_asked", 1)
	}
}

type op struct {
	Kind   string `json:"kind"`
	From   string `json:"from,omitempty"` // "" = the current state at execution
	Next   string `json:"next,omitempty"`
	WithVP bool   `json:"vp,omitempty"`
	Allow  bool   `json:"allow,omitempty"`
}

func genOp(rng *rand.Rand, last bool) op {
	switch x := rng.Intn(100); {
	case x < 62:
		o := op{Kind: "ask", WithVP: rng.Intn(3) == 0}
		if rng.Intn(100) < 35 {
			o.From = string(allStates[rng.Intn(len(allStates))])
		}
		n := allStates[rng.Intn(len(allStates))]
		if n == sStopped && rng.Intn(30) != 0 {
			n = sSyncing
		}
		o.Next = string(n)
		return o
	case x < 76:
		return op{Kind: "allow", Allow: rng.Intn(2) == 0}
	case x < 79:
		return op{Kind: "hold"}
	case x < 88:
		if last {
			return op{Kind: "voteproof-last"}
		}
		return op{Kind: "voteproof"}
	case x < 92:
		return op{Kind: "handover-y"}
	case x < 93:
		return op{Kind: "handover-y-cancel"}
	default:
		return op{Kind: "sample"}
	}
}

func (g *rig) exec(o op, exact bool) {
	switch o.Kind {
	case "ask":
		from := st(o.From)
		if o.From == "" {
			from = g.sample()
		}
		g.ask(from, st(o.Next), o.WithVP, exact)
	case "allow":
		g.setAllow(o.Allow)
	case "hold":
		g.hold()
	case "voteproof":
		g.voteproof("script")
	case "voteproof-last":
		g.voteproof("last")
	case "handover-y":
		g.startHandoverY()
	case "handover-y-cancel":
		_ = g.st.CancelHandoverYBroker()
	case "sample":
		g.sample()
	}
}

type segment struct {
	Goroutines int  `json:"goroutines"`
	Ops        []op `json:"ops"`
}

func genScript(rng *rand.Rand, nops int) []segment {
	var segs []segment
	for left := nops; left > 0; {
		n := 8 + rng.Intn(33)
		if n > left {
			n = left
		}
		left -= n
		s := segment{Goroutines: 1}
		if rng.Intn(100) < 60 {
			s.Goroutines = 2 + rng.Intn(7)
		}
		for i := 0; i < n; i++ {
			s.Ops = append(s.Ops, genOp(rng, left == 0 && i == n-1))
		}
		segs = append(segs, s)
	}
	return segs
}

// finish: quiescence checks, stop, bookkeeping
func (g *rig) finish(errch <-chan error) {
	alive := g.settle()
	if alive {
		g.sample()
	}

	g.mu.Lock()
	g.finalChecks(alive)
	g.mu.Unlock()

	if err := g.st.Stop(); err != nil && !errors.Is(err, util.ErrDaemonAlreadyStopped) {
		g.r.Inconclusive("Stop: " + err.Error())
	}
	select {
	case <-errch:
	case <-time.After(time.Second * 30):
		g.r.Inconclusive("states did not stop")
		return
	}
	if b := g.st.HandoverYBroker(); b != nil {
		_ = g.st.CancelHandoverYBroker()
	}
	if n := g.st.VerifDrainSwitchRequests(); n > 0 {
		g.tot.add(g.tot.counts, "requests_still_queued_at_stop", n)
	}
	g.sample()

	g.mu.Lock()
	defer g.mu.Unlock()
	g.finalChecks(false)
	if g.actual != sStopped {
		g.tot.add(g.tot.counts, "final_switch_to_stopped_refused_by_scripted_exit", 1)
	}

	var stale, staleNoEffect, exactStale, exactStaleNoEffect, withEffect int
	for _, rq := range g.reqs {
		if rq.origin != "ask" {
			continue
		}
		if rq.effect {
			withEffect++
		}
		if rq.staleAtSub {
			stale++
			if !rq.effect {
				staleNoEffect++
			}
			if rq.exact {
				exactStale++
				if !rq.effect {
					exactStaleNoEffect++
				}
			}
		}
	}
	t := g.tot
	t.add(t.counts, "requests_asked", len(g.reqs))
	t.add(t.counts, "requests_with_effect", withEffect)
	t.add(t.counts, "stale_origin_requests", stale)
	t.add(t.counts, "stale_origin_requests_without_effect", staleNoEffect)
	t.add(t.counts, "stale_origin_requests_sequential", exactStale)
	t.add(t.counts, "stale_origin_requests_sequential_without_effect", exactStaleNoEffect)
	t.add(t.counts, "handler_calls_logged", g.nTrans)

	// fingerprints
	h := fnv.New64a()
	for _, e := range g.log {
		fmt.Fprintf(h, "%s/%s/%s/%s;", e.Kind, e.Handler, e.CtxNext, e.Outcome)
	}
	g.r.SetAdd("interleavings_seen", fmt.Sprintf("%x", h.Sum64()))
	ph := fnv.New64a()
	for _, s := range g.path {
		fmt.Fprintf(ph, "%s>", s)
	}
	if len(g.path) > 3 {
		g.r.Case(fmt.Sprintf("path:%x", ph.Sum64()))
	} else {
		g.r.Eval(1)
	}
}

func (g *rig) finalChecks(quiescent bool) {
	// g.mu held
	if len(g.enters) == 0 {
		return
	}
	last := g.enters[len(g.enters)-1]
	if !quiescent && !g.dead {
		return
	}
	if last.outcome == "ok" {
		if !last.reported {
			g.violation("clause4:final-state-never-reported",
				fmt.Sprintf("machine rests in %s after a successful switch, which was never reported", last.state))
			return
		}
		if n := len(g.reports); n > 0 && st(g.reports[n-1].Handler) != last.state {
			if g.reports[n-1].G == last.g {
				g.violation("clause4:last-report-is-not-the-final-state",
					fmt.Sprintf("last reported switch is %s, the machine rests in %s", g.reports[n-1].Handler, last.state))
			} else {
				g.tot.add(g.tot.counts, "final_report_order_crossed_between_goroutines", 1)
			}
		}
	} else {
		g.tot.add(g.tot.counts, "final_state_entered_by_redirect_not_reported", 1)
	}
}

func runScript(r *vlib.Run, tot *totals, idx int) {
	rng := r.Rand(9, idx)
	allow := rng.Intn(2) == 0
	nops := 50 + rng.Intn(251)
	segs := genScript(rng, nops)
	name := fmt.Sprintf("script#%d allow=%v ops=%d", idx, allow, nops)
	if idx < 3 {
		short := segs
		if len(short) > 2 {
			short = short[:2]
		}
		r.Sample(map[string]any{"script": name, "first_segments": short})
	}

	g, errch := newRig(r, tot, name, r.Rand(10, idx), allow, false, true)
	if g == nil {
		return
	}

	ok := r.WithWatchdog(time.Second*90, name, func() {
		if !g.marker() { // states loop is running
			g.finish(errch)
			return
		}
		for si, s := range segs {
			if g.isDead() {
				tot.add(tot.counts, "scripts_cut_short_by_states_stop", 1)
				break
			}
			if s.Goroutines == 1 {
				for _, o := range s.Ops {
					if g.isDead() {
						break
					}
					if !g.settle() {
						break
					}
					g.exec(o, true)
				}
				continue
			}
			var wg sync.WaitGroup
			for k := 0; k < s.Goroutines; k++ {
				wg.Add(1)
				go func(k int) {
					defer wg.Done()
					yr := r.Rand(11, idx, si, k)
					for i := k; i < len(s.Ops); i += s.Goroutines {
						if g.isDead() {
							return
						}
						if yr.Intn(3) == 0 {
							runtime.Gosched()
						}
						g.exec(s.Ops[i], false)
					}
				}(k)
			}
			wg.Wait()
			tot.add(tot.counts, "concurrent_segments", 1)
		}
		g.finish(errch)
	})
	if !ok {
		return
	}
}

// ---------------------------------------------------------------- directed cases

// Hold() called while the states loop switches state: Hold picks up the current
// handler, then the loop completes a switch, then Hold goes on.
func directedHoldRace(r *vlib.Run, tot *totals) {
	g, errch := newRig(r, tot, "directed: Hold() overlapping a switch made by the states loop", r.Rand(20), true, true, false)
	if g == nil {
		return
	}
	r.WithWatchdog(time.Second*60, g.name, func() {
		if !g.settle() {
			r.Inconclusive("directed hold: states loop not running")
			return
		}
		cur := g.sample()
		if cur != sBooting {
			r.Inconclusive("directed hold: not in booting")
			return
		}
		done := make(chan struct{})
		go func() {
			defer close(done)
			g.gateG.Store(goid())
			g.gateArmed.Store(true)
			g.hold()
		}()
		reached := false
		select {
		case <-g.gateReached:
			reached = true
		case <-done:
		case <-time.After(time.Second * 5):
		}
		if reached {
			// Hold sits between its origin check and the switch; the loop switches now
			g.ask(sBooting, sSyncing, false, false)
			deadline := time.Now().Add(time.Second * 2)
			for time.Now().Before(deadline) {
				g.mu.Lock()
				a := g.actual
				g.mu.Unlock()
				if a == sSyncing {
					tot.add(tot.counts, "directed_hold_overlapped_a_switch", 1)
					break
				}
				time.Sleep(time.Millisecond)
			}
			close(g.gateRelease)
		} else {
			tot.add(tot.counts, "directed_hold_gate_not_reached", 1)
		}
		<-done
		g.finish(errch)
	})
	r.Sample(map[string]any{"script": g.name, "steps": []string{"machine in BOOTING", "goroutine A: Hold() read the current handler and passed the origin check",
		"states loop: AskMoveState(BOOTING->SYNCING) switches", "goroutine A: Hold() goes on to exit/enter"}})
}

// SetAllowConsensus(true) under a handover-y broker while the states loop
// wants to switch: SetAllowConsensus holds the state read lock, the loop waits
// for the write lock, cancelling the broker asks for the read lock again.
func directedAllowDuringSwitch(r *vlib.Run, tot *totals) {
	g, errch := newRig(r, tot, "directed: SetAllowConsensus(true) under handover-y overlapping a switch of the states loop", r.Rand(22), false, true, false)
	if g == nil {
		return
	}
	g.gateKind = "allow"
	r.WithWatchdog(time.Second*30, g.name, func() {
		if !g.settle() {
			r.Inconclusive("directed allow: states loop not running")
			return
		}
		g.ask(sBooting, sSyncing, false, true)
		g.settle()
		g.startHandoverY()
		done := make(chan struct{})
		go func() {
			defer close(done)
			g.gateG.Store(goid())
			g.gateArmed.Store(true)
			g.setAllow(true)
		}()
		select {
		case <-g.gateReached:
			g.ask(g.sample2(), sBroken, false, false) // the loop now waits for the state lock
			time.Sleep(time.Millisecond * 50)
			close(g.gateRelease)
			tot.add(tot.counts, "directed_allow_overlapped_a_switch", 1)
		case <-done:
			tot.add(tot.counts, "directed_allow_gate_not_reached", 1)
		}
		<-done
		g.finish(errch)
	})
}

// sequential walk over the rules, all handler outcomes ok
func directedRules(r *vlib.Run, tot *totals) {
	g, errch := newRig(r, tot, "directed: rules walk", r.Rand(21), false, true, false)
	if g == nil {
		return
	}
	derailed := false
	expect := func(want st, what string) {
		if derailed {
			return
		}
		deadline := time.Now().Add(time.Second * 10)
		for {
			g.settle()
			if g.sample() == want {
				tot.add(tot.counts, "directed_steps_confirmed", 1)
				return
			}
			if time.Now().After(deadline) {
				break
			}
			time.Sleep(time.Millisecond)
		}
		derailed = true
		r.Inconclusive(fmt.Sprintf("directed walk: %s: machine in %s, expected %s", what, g.sample(), want))
	}
	r.WithWatchdog(time.Second*60, g.name, func() {
		expect(sBooting, "booting-after-start")
		// not allowed: consensus states are replaced by syncing
		g.ask(sBooting, sCons, true, true)
		expect(sSyncing, "clause3:consensus-request-while-disallowed-goes-to-syncing")
		g.ask(sSyncing, sJoining, false, true)
		expect(sSyncing, "clause3:joining-request-while-disallowed-stays-in-syncing")
		// stale origins
		for _, f := range allStates {
			if f != sSyncing {
				g.ask(f, sBroken, false, true)
				g.ask(f, sBooting, false, true)
			}
		}
		expect(sSyncing, "clause2:stale-origin-requests-have-no-effect")
		// handover: consensus is reached through handover only
		g.startHandoverY()
		g.ask(sSyncing, sCons, true, true)
		expect(sHandover, "handover:consensus-request-under-handover-goes-to-handover")
		g.ask(sHandover, sCons, true, true)
		expect(sCons, "clause3:consensus-entered-by-completing-handover")
		g.setAllow(true)
		g.settle()
		g.ask(g.sample(), sSyncing, false, true)
		expect(sSyncing, "syncing-after-consensus")
		g.ask(sSyncing, sJoining, false, true)
		expect(sJoining, "joining-when-allowed")
		// stopped: only booting or broken
		g.hold()
		expect(sStopped, "hold-stops")
		for _, n := range []st{sJoining, sCons, sSyncing, sHandover} {
			g.ask(sStopped, n, false, true)
		}
		expect(sStopped, "clause1:stopped-goes-only-to-booting-or-broken")
		g.ask(sStopped, sBroken, false, true)
		expect(sBroken, "clause1:stopped-to-broken")
		g.hold()
		expect(sStopped, "hold-stops-again")
		g.ask(sStopped, sBooting, false, true)
		expect(sBooting, "clause1:stopped-to-booting")
		g.finish(errch)
	})
}

func TestC09(t *testing.T) {
	r := vlib.Start(t, "C09", vlib.LevelExploration)
	defer r.Finish()
	r.SetRule("case = one script against a fresh real States with stub handlers: 50-300 operations (switch requests over all 7x7 (from,next) pairs incl. stale origins, SetAllowConsensus toggles, Hold, voteproofs answered by switch requests, handover-y start/cancel, Current() samples) in segments run by 1 goroutine (settled between operations) or 2-8 goroutines; stub outcomes ok/error/redirect/ignore drawn in call order; plus 3 directed cases; distinct = hash of the path of states actually entered; non-trivial = more than 3 states entered")
	r.Assume("handlers are stubs: only States (checkStateSwitchContext, switchState, exitAndEnter, ensureSwitchState, SetAllowConsensus, Hold, handover-y broker bookkeeping) is under test")
	r.Assume("clause 3 is judged only when a SetAllowConsensus(false) call returned before the request was submitted and no SetAllowConsensus(true) call started before the enter was logged; other steps are counted as toggle-concurrent")
	r.Assume("a state entered by a redirecting enter (enter returns another switch context) is not reported by States; a machine resting in such a state is counted, not judged")
	r.Assume("runtime yields are injected in the stub's state() getter, a point where the scheduler may preempt anyway")

	tot := &totals{reqByPair: map[string]int{}, edges: map[string]int{}, outcomes: map[string]int{}, counts: map[string]int{}}

	directedRules(r, tot)
	directedHoldRace(r, tot)
	directedAllowDuringSwitch(r, tot)

	n := r.N(300, 5000)
	vlib.Parallel(n, 12, func(i int) { runScript(r, tot, i) })

	tot.mu.Lock()
	defer tot.mu.Unlock()
	r.Set("requests_by_pair", tot.reqByPair)
	r.Set("pairs_requested", len(tot.reqByPair))
	r.Set("transitions_by_edge", tot.edges)
	r.Set("edges_taken", len(tot.edges))
	r.Set("enter_outcomes", tot.outcomes)
	keys := make([]string, 0, len(tot.counts))
	for k := range tot.counts {
		keys = append(keys, k)
	}
	sort.Strings(keys)
	for _, k := range keys {
		r.Count(k, tot.counts[k])
	}
	r.Count("scripts", n+3)
	if tot.counts["handler_calls_logged"] == 0 || len(tot.edges) < 5 {
		r.Inconclusive("no transitions observed")
	}
}
