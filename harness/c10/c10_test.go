package c10

import (
	"context"
	"fmt"
	"hash/fnv"
	"runtime"
	"sort"
	"strings"
	"sync"
	"testing"
	"time"

	"verifharness/c10/prig"
	"verifharness/vlib"
)

// one processing of one case
type runPlan struct {
	Workers int64
	Procs   int
	Jitter  int // 0 none, 1 light, 2 heavy
}

type runOut struct {
	Plan      runPlan
	Outcome   string
	Fields    [5]string // error, opstree, ststree, suffrage, hash
	Nodes     map[uint64]string
	WOrder    string // order in which SetProcessResult/SetStates reached the recording BlockWriter
	FSOrder   string // order in which SetOperation/SetState reached the recording FSWriter
	OpsTotals map[uint64]int
	SaveErr   string
	DupNodes  int
	NStates   int
}

func mkJitter(seed int64, ci, k, level int) prig.JitterFunc {
	if level == 0 {
		return nil
	}

	base := uint64(seed)*0x9E3779B97F4A7C15 ^ uint64(ci)*0xBF58476D1CE4E5B9 ^ uint64(k)*0x94D049BB133111EB

	return func(site string, key uint64) {
		h := fnv.New64a()
		_, _ = h.Write([]byte(site))
		x := (h.Sum64() ^ base ^ (key+1)*0xD6E8FEB86659FD93)
		x ^= x >> 29
		x *= 0xBF58476D1CE4E5B9
		x ^= x >> 32

		switch v := x % 16; {
		case v < 5:
		case v < 9:
			runtime.Gosched()
		case v < 12:
			time.Sleep(time.Microsecond * time.Duration(1+x>>8%20))
		case v < 15:
			if level > 1 {
				time.Sleep(time.Microsecond * time.Duration(20+x>>8%200))
			} else {
				runtime.Gosched()
			}
		default:
			if level > 1 {
				time.Sleep(time.Microsecond * time.Duration(200+x>>8%800))
			}
		}
	}
}

// plans: every case is processed 4 (quick) / 8 (thorough) times at
// GOMAXPROCS=16; every 4th case additionally 1 / 2 times at GOMAXPROCS=4 and
// every 8th case once at GOMAXPROCS=1 (a run costs about one CPU-second under
// the race detector, so the narrow phases are sampled).
func plans(ci int, quick bool) []runPlan {
	ws := []int64{1, 2, 3, 8, 64}

	n16, n4 := 4, 1
	if !quick {
		n16, n4 = 8, 2
	}

	var procs []int
	for i := 0; i < n16; i++ {
		procs = append(procs, 16)
	}

	if ci%4 == 0 {
		for i := 0; i < n4; i++ {
			procs = append(procs, 4)
		}
	}

	if ci%8 == 0 {
		procs = append(procs, 1)
	}

	out := make([]runPlan, len(procs))
	for k := range procs {
		out[k] = runPlan{Workers: ws[(k+ci)%len(ws)], Procs: procs[k], Jitter: []int{0, 1, 2, 2}[(k+ci/5)%4]}
	}

	// every case sees the sequential worker and the widest one
	out[0].Workers, out[1].Workers = 1, 64
	out[1].Jitter = 2

	return out
}

func TestC10(t *testing.T) {
	r := vlib.Start(t, "C10", vlib.LevelExploration)
	defer r.Finish()

	r.SetRule("case = PRNG prior state (suffrage 1..10, candidates 0..6 some expired, policy, threshold) + 1..40 proposal operations (join/candidate/disjoin/policy, valid and invalid variants) + 0..4 expel operations in the INIT voteproof; each case is processed K times by a fresh real DefaultProposalProcessor+isaacblock.Writer+LeveldbBlockWrite with MaxWorkerSize in {1,2,3,8,64}, GOMAXPROCS in {16,4,1} and us-scale jitter in GetOperationFunc/GetStateFunc/BlockWriter/FSWriter callbacks; distinct = (suffrage size, candidates, threshold, multiset of operation kind/variant); non-trivial = every generated case (at least one operation reaches the processor)")
	r.Assume("operations failing the real op.IsValid(networkID) are answered by GetOperationFunc with ErrInvalidOperationInProcessor, as operations enter the pool only after IsValid")
	r.Assume("the candidate limiter constraint of launch (not in isaac/operation) is not wired; constraint funcs are nil like for join/disjoin/expel/policy in launch.POperationProcessorsMap")
	r.Assume("manifest equality is judged per field (operations tree root, states tree root, suffrage hash, manifest hash) among runs over the very same proposal object; a run that ends in an error must end in an error in every run")

	env, err := prig.NewEnv(r.Rand(0))
	if err != nil {
		t.Fatal(err)
	}

	ncases := r.N(36, 300)
	maxops := 40

	type cs struct {
		c     *prig.Case
		b     *prig.Block
		plans []runPlan
		outs  []*runOut
	}

	cases := make([]*cs, ncases)
	t0 := time.Now()

	vlib.Parallel(ncases, 16, func(i int) {
		rng := r.Rand(1, i)
		mo := maxops

		if i%3 == 0 {
			mo = 8
		}

		c := prig.GenCase(env, rng, 10, mo)
		p := plans(i, r.Quick())
		cases[i] = &cs{c: c, b: c.NewBlock(nil, nil, 0), plans: p, outs: make([]*runOut, len(p))}
	})

	r.Logf("generated %d cases in %.1fs", ncases, time.Since(t0).Seconds())

	defer runtime.GOMAXPROCS(runtime.GOMAXPROCS(0))

	var wdfired sync.Once

	for _, procs := range []int{16, 4, 1} {
		runtime.GOMAXPROCS(procs)
		r.Logf("phase GOMAXPROCS=%d starts at %.1fs", procs, time.Since(t0).Seconds())

		par := map[int]int{16: 16, 4: 8, 1: 4}[procs]

		vlib.Parallel(ncases, par, func(i int) {
			x := cases[i]

			for k, pl := range x.plans {
				if pl.Procs != procs {
					continue
				}

				witness := map[string]any{"case": i, "run": k, "plan": pl, "shape": x.c.Shape()}

				ok := r.WithWatchdog(20*time.Minute, fmt.Sprintf("case %d run %d", i, k), func() {
					r.Guard("Process", witness, func() {
						x.outs[k] = runOnce(r, x.b, i, k, pl)
					})
				})
				if !ok {
					wdfired.Do(func() {})

					return
				}
			}
		})
	}

	// judge
	var observedOrders, multiOrderCases, nontrivial int

	for i, x := range cases {
		var outs []*runOut

		for _, o := range x.outs {
			if o != nil {
				outs = append(outs, o)
			}
		}

		if len(outs) < 2 {
			r.Eval(1)

			continue
		}

		r.Case(x.c.Shape())
		r.Count("runs", len(outs))
		r.Count("operations_proposal", len(x.c.Ops))
		r.Count("operations_expel", len(x.c.Expels))

		for k, v := range x.c.KindCounts() {
			r.Count("op_"+k, v)
		}

		first := outs[0]
		if first.NStates > 0 {
			nontrivial++
		}

		if strings.HasPrefix(first.Outcome, "error:") {
			r.Count("cases_ending_in_error", 1)
			r.SetAdd("error_kinds", first.Outcome)
		}

		worders, fsorders := map[string]bool{}, map[string]bool{}

		for _, o := range outs {
			worders[o.WOrder] = true
			fsorders[o.FSOrder] = true
			r.SetAdd("interleavings_seen", fmt.Sprintf("%d/%s/%s", i, o.WOrder, o.FSOrder))

			if o.SaveErr != "" {
				r.Count("save_errors", 1)
				r.SetAdd("save_error_kinds", o.SaveErr)
			}

			if o.DupNodes > 0 {
				r.Count("index_set_twice", o.DupNodes)
			}

			if len(o.OpsTotals) > 1 {
				r.Count("runs_where_fswriter_saw_varying_operation_totals", 1)
			}
		}

		observedOrders += len(worders)

		if len(worders) > 1 || len(fsorders) > 1 {
			multiOrderCases++
		}

		names := [5]string{"error-vs-manifest", "operations-tree-root", "states-tree-root", "suffrage-hash", "manifest-hash"}

		for _, o := range outs[1:] {
			for f := range names {
				if o.Fields[f] == first.Fields[f] {
					continue
				}

				r.Violation("manifest-differs:"+names[f],
					fmt.Sprintf("case %d: same proposal, operations and prior state gave %s=%q with %+v but %q with %+v",
						i, names[f], first.Fields[f], first.Plan, o.Fields[f], o.Plan),
					map[string]any{"case": i, "shape": x.c.Shape(), "metas": x.c.Metas, "expels": x.c.EMetas, "a": first, "b": o})

				break
			}

			if d := diffNodes(first.Nodes, o.Nodes); d != "" {
				r.Violation("operations-tree-node-differs:"+strings.SplitN(d, " ", 2)[0],
					fmt.Sprintf("case %d: per-index operation result differs between runs: %s (%+v vs %+v)", i, d, first.Plan, o.Plan),
					map[string]any{"case": i, "shape": x.c.Shape(), "metas": x.c.Metas, "a": first, "b": o})
			}
		}

		if i < 4 {
			r.Sample(map[string]any{
				"case": i, "members": len(x.c.Prior.Members), "candidates": len(x.c.Prior.Cands), "threshold": float64(x.c.Prior.T10) / 10,
				"operations": x.c.KindCounts(), "plans": x.plans, "outcome": first.Outcome,
				"distinct_writer_orders": len(worders), "distinct_fswriter_orders": len(fsorders),
				"example_writer_order": first.WOrder,
			})
		}
	}

	r.Set("distinct_blockwriter_arrival_orders_summed_over_cases", observedOrders)
	r.Set("cases_with_more_than_one_arrival_order", multiOrderCases)
	r.Set("cases_changing_state", nontrivial)
	r.Set("runs_per_case", map[string]int{"case%8==0": len(plans(0, r.Quick())), "case%8==4": len(plans(4, r.Quick())), "other": len(plans(1, r.Quick()))})
	r.Set("gomaxprocs_phases", []int{16, 4, 1})

	if multiOrderCases == 0 {
		r.Inconclusive("no case showed more than one arrival order at the recording writers: scheduling was not varied")
	}

	if nontrivial == 0 {
		r.Inconclusive("no case changed any state")
	}
}

func runOnce(r *vlib.Run, b *prig.Block, ci, k int, pl runPlan) *runOut {
	res := b.Run(context.Background(), prig.RunOpts{
		Workers: pl.Workers, Jitter: mkJitter(r.Seed, ci, k, pl.Jitter),
		// Save is not part of the property (and JSON encoding under the race
		// detector is very slow): it is exercised on the first run of every 8th
		// case only, as a consistency check of the recorded trees.
		Save: k == 0 && ci%8 == 0,
	})

	out := &runOut{Plan: pl, Outcome: res.Outcome()}

	if res.Err != nil {
		out.Fields[0] = out.Outcome
	} else {
		m := res.Manifest
		out.Fields = [5]string{"", hs(m.OperationsTree()), hs(m.StatesTree()), hs(m.Suffrage()), hs(m.Hash())}

		if m.StatesTree() != nil {
			out.NStates = 1
		}
	}

	if res.SaveErr != nil {
		out.SaveErr = strings.SplitN(res.SaveErr.Error(), "\n", 2)[0]
	}

	if w := res.Writer; w != nil {
		events, nodes, dup, _ := w.Snapshot()
		out.Nodes, out.DupNodes = nodes, dup
		out.WOrder = strings.Join(events, ",")

		if res.BlockMap != nil { // the FSWriter saw everything only when the block was saved
			fsevents, _, totals := w.FS.Snapshot()
			out.FSOrder = strings.Join(fsevents, ",")
			out.OpsTotals = totals
		}

		w.Release()
	}

	return out
}

func hs(h interface{ String() string }) string {
	if h == nil || fmt.Sprintf("%v", h) == "<nil>" {
		return "<nil>"
	}

	return h.String()
}

func diffNodes(a, b map[uint64]string) string {
	keys := map[uint64]bool{}
	for k := range a {
		keys[k] = true
	}

	for k := range b {
		keys[k] = true
	}

	var ks []uint64
	for k := range keys {
		ks = append(ks, k)
	}

	sort.Slice(ks, func(i, j int) bool { return ks[i] < ks[j] })

	for _, k := range ks {
		x, okx := a[k]
		y, oky := b[k]

		switch {
		case okx != oky:
			return fmt.Sprintf("presence index %d: %q vs %q", k, x, y)
		case x != y:
			xs, ys := strings.SplitN(x, "|", 3), strings.SplitN(y, "|", 3)

			kind := "reason"
			if len(xs) == 3 && len(ys) == 3 && xs[1] != ys[1] {
				kind = "instate"
			}

			return fmt.Sprintf("%s index %d: %q vs %q", kind, k, x, y)
		}
	}

	return ""
}
