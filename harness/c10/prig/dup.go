package prig

import (
	"encoding/json"
	"fmt"
	"time"

	"github.com/spikeekips/mitum/base"
	"github.com/spikeekips/mitum/util"
	"github.com/spikeekips/mitum/util/localtime"
	"github.com/spikeekips/mitum/util/valuehash"
)

// freshSign makes a correct node signature of priv over fact with its own
// signed-at time (now + offset), so that repeated signatures of one node are
// valid but not byte-identical. It is checked with the sign's own Verify.
func freshSign(env *Env, node base.Address, priv base.Privatekey, fact base.Fact, offset time.Duration) base.BaseNodeSign {
	now := localtime.New(localtime.Now().UTC().Add(offset))

	sig, err := priv.Sign(util.ConcatBytesSlice(
		env.NetworkID,
		util.ConcatByters(node, util.BytesToByter(fact.Hash().Bytes())),
		now.Bytes(),
	))
	if err != nil {
		panic(err)
	}

	ns := base.NewBaseNodeSign(node, priv.Publickey(), sig, now.Time)
	if err := ns.Verify(env.NetworkID, fact.Hash().Bytes()); err != nil {
		panic(fmt.Errorf("fresh sign does not verify: %w", err))
	}

	return ns
}

// appendSignsWire rebuilds op through the wire format with extra signs
// appended and the operation hash recomputed.
func appendSignsWire(env *Env, op base.Operation, extra []base.NodeSign) (base.Operation, error) {
	b, err := util.MarshalJSON(op)
	if err != nil {
		return nil, err
	}

	var m map[string]json.RawMessage
	if err := json.Unmarshal(b, &m); err != nil {
		return nil, err
	}

	var signs []json.RawMessage
	if err := json.Unmarshal(m["signs"], &signs); err != nil {
		return nil, err
	}

	n := len(signs) + len(extra)

	for i := range extra {
		sb, err := util.MarshalJSON(extra[i])
		if err != nil {
			return nil, err
		}

		signs = append(signs, sb)
	}

	decode := func() (base.Operation, error) {
		sb, err := json.Marshal(signs)
		if err != nil {
			return nil, err
		}

		m["signs"] = sb

		nb, err := json.Marshal(m)
		if err != nil {
			return nil, err
		}

		i, err := env.Enc.Decode(nb)
		if err != nil {
			return nil, err
		}

		nop, ok := i.(base.Operation)
		if !ok {
			return nil, fmt.Errorf("decoded %T is not an operation", i)
		}

		return nop, nil
	}

	nop, err := decode()
	if err != nil {
		return nil, err
	}

	hb, ok := nop.(interface{ HashBytes() []byte })
	if !ok {
		return nil, fmt.Errorf("no HashBytes on %T", nop)
	}

	h, err := json.Marshal(valuehash.NewSHA256(hb.HashBytes()))
	if err != nil {
		return nil, err
	}

	m["hash"] = h

	if nop, err = decode(); err != nil {
		return nil, err
	}

	if len(nop.Signs()) != n {
		return nil, fmt.Errorf("decoded signs %d != %d", len(nop.Signs()), n)
	}

	return nop, nil
}

// repeatedMemberSigns: r fresh, valid, pairwise different signatures of one
// member.
func repeatedMemberSigns(env *Env, m Member, fact base.Fact, r int) ([]base.NodeSign, []SignMeta) {
	signs := make([]base.NodeSign, r)
	metas := make([]SignMeta, r)

	for i := 0; i < r; i++ {
		signs[i] = freshSign(env, m.Addr, m.Priv, fact, time.Duration(i+1)*7*time.Millisecond)
		metas[i] = SignMeta{Node: m.Addr.String(), Pub: m.Priv.Publickey().String(), SigValid: true}
	}

	return signs, metas
}

// duplicateSigns rebuilds op through the wire format (the only way an
// operation with repeated signers can exist: SetNodeSigns / NodeSign /
// AddNodeSigns refuse them) with its correct member signatures repeated until
// their raw count reaches need, and with the operation hash recomputed so
// that the duplicate check is the only thing IsValid can object to.
func duplicateSigns(env *Env, op base.Operation, metas []SignMeta, p *Prior, need int) (base.Operation, []SignMeta, error) {
	b, err := util.MarshalJSON(op)
	if err != nil {
		return nil, nil, err
	}

	var m map[string]json.RawMessage
	if err := json.Unmarshal(b, &m); err != nil {
		return nil, nil, err
	}

	var signs []json.RawMessage
	if err := json.Unmarshal(m["signs"], &signs); err != nil {
		return nil, nil, err
	}

	if len(signs) != len(metas) {
		return nil, nil, fmt.Errorf("signs %d != metas %d", len(signs), len(metas))
	}

	var midx []int

	for i := range metas {
		for _, mm := range p.Members {
			if metas[i].SigValid && metas[i].Node == mm.Addr.String() && metas[i].Pub == mm.Priv.Publickey().String() {
				midx = append(midx, i)
			}
		}
	}

	if len(midx) == 0 {
		return nil, nil, fmt.Errorf("no member signature to repeat")
	}

	nmetas := append([]SignMeta{}, metas...)

	for cnt, j := len(midx), 0; cnt < need+1; cnt, j = cnt+1, j+1 {
		i := midx[j%len(midx)]
		signs = append(signs, signs[i])
		nmetas = append(nmetas, metas[i])
	}

	decode := func() (base.Operation, error) {
		sb, err := json.Marshal(signs)
		if err != nil {
			return nil, err
		}

		m["signs"] = sb

		nb, err := json.Marshal(m)
		if err != nil {
			return nil, err
		}

		i, err := env.Enc.Decode(nb)
		if err != nil {
			return nil, err
		}

		nop, ok := i.(base.Operation)
		if !ok {
			return nil, fmt.Errorf("decoded %T is not an operation", i)
		}

		return nop, nil
	}

	nop, err := decode()
	if err != nil {
		return nil, nil, err
	}

	hb, ok := nop.(interface{ HashBytes() []byte })
	if !ok {
		return nil, nil, fmt.Errorf("no HashBytes on %T", nop)
	}

	h, err := json.Marshal(valuehash.NewSHA256(hb.HashBytes()))
	if err != nil {
		return nil, nil, err
	}

	m["hash"] = h

	nop, err = decode()
	if err != nil {
		return nil, nil, err
	}

	if len(nop.Signs()) != len(nmetas) {
		return nil, nil, fmt.Errorf("decoded signs %d != %d", len(nop.Signs()), len(nmetas))
	}

	return nop, nmetas, nil
}
