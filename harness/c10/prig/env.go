// Package prig is the shared rig of the C10 / C11 / C17 monitors: it builds a
// real isaac.DefaultProposalProcessor over a real isaacblock.Writer and a real
// LeveldbBlockWrite (memory leveldb), wired with the built-in operation
// processors exactly as launch.POperationProcessorsMap wires them, and gives the
// monitors recording wrappers at the two harness-supplied boundaries
// (isaac.BlockWriter via NewWriterFunc and isaacblock.FSWriter).
package prig

import (
	"fmt"
	"math/rand"
	"sync"

	"github.com/spikeekips/mitum/base"
	"github.com/spikeekips/mitum/isaac"
	isaacblock "github.com/spikeekips/mitum/isaac/block"
	isaacoperation "github.com/spikeekips/mitum/isaac/operation"
	leveldbstorage "github.com/spikeekips/mitum/storage/leveldb"
	"github.com/spikeekips/mitum/util/encoder"
	jsonenc "github.com/spikeekips/mitum/util/encoder/json"
	"github.com/spikeekips/mitum/util/fixedtree"
)

// Env holds what is shared by all cases of one run: encoders with every hinter
// the block write database has to marshal, the network id and the local
// (proposer / block signer) node.
type Env struct {
	Encs      *encoder.Encoders
	Enc       encoder.Encoder
	NetworkID base.NetworkID
	Local     base.LocalNode

	stmu     sync.Mutex
	storages []*leveldbstorage.Storage
}

func (env *Env) acquireStorage() *leveldbstorage.Storage {
	env.stmu.Lock()
	defer env.stmu.Unlock()

	if n := len(env.storages); n > 0 {
		st := env.storages[n-1]
		env.storages = env.storages[:n-1]

		return st
	}

	return leveldbstorage.NewMemStorage()
}

func (env *Env) releaseStorage(st *leveldbstorage.Storage) {
	env.stmu.Lock()
	env.storages = append(env.storages, st)
	env.stmu.Unlock()
}

// hinters: the base / isaac / isaacblock / isaacoperation part of launch.Hinters
// and launch.SupportedProposalOperationFactHinters (copied, so that the rig does
// not depend on the launch package compiling).
var hinters = []encoder.DecodeDetail{
	{Hint: base.BaseOperationProcessReasonErrorHint, Instance: base.BaseOperationProcessReasonError{}},
	{Hint: base.BaseStateHint, Instance: base.BaseState{}},
	{Hint: base.MPrivatekeyHint, Instance: &base.MPrivatekey{}},
	{Hint: base.MPublickeyHint, Instance: &base.MPublickey{}},
	{Hint: base.OperationFixedtreeHint, Instance: base.OperationFixedtreeNode{}},
	{Hint: base.StateFixedtreeHint, Instance: fixedtree.BaseNode{}},
	{Hint: base.StringAddressHint, Instance: base.StringAddress{}},
	{Hint: isaac.ACCEPTBallotFactHint, Instance: isaac.ACCEPTBallotFact{}},
	{Hint: isaac.ACCEPTBallotSignFactHint, Instance: isaac.ACCEPTBallotSignFact{}},
	{Hint: isaac.ACCEPTVoteproofHint, Instance: isaac.ACCEPTVoteproof{}},
	{Hint: isaac.FixedSuffrageCandidateLimiterRuleHint, Instance: isaac.FixedSuffrageCandidateLimiterRule{}},
	{Hint: isaac.INITBallotFactHint, Instance: isaac.INITBallotFact{}},
	{Hint: isaac.INITBallotSignFactHint, Instance: isaac.INITBallotSignFact{}},
	{Hint: isaac.INITVoteproofHint, Instance: isaac.INITVoteproof{}},
	{Hint: isaac.INITExpelVoteproofHint, Instance: isaac.INITExpelVoteproof{}},
	{Hint: isaac.ManifestHint, Instance: isaac.Manifest{}},
	{Hint: isaac.NetworkPolicyHint, Instance: isaac.NetworkPolicy{}},
	{Hint: isaac.NetworkPolicyStateValueHint, Instance: isaac.NetworkPolicyStateValue{}},
	{Hint: isaac.NodeHint, Instance: base.BaseNode{}},
	{Hint: isaac.ProposalFactHint, Instance: isaac.ProposalFact{}},
	{Hint: isaac.ProposalSignFactHint, Instance: isaac.ProposalSignFact{}},
	{Hint: isaac.SuffrageCandidateStateValueHint, Instance: isaac.SuffrageCandidateStateValue{}},
	{Hint: isaac.SuffrageCandidatesStateValueHint, Instance: isaac.SuffrageCandidatesStateValue{}},
	{Hint: isaac.SuffrageNodeStateValueHint, Instance: isaac.SuffrageNodeStateValue{}},
	{Hint: isaac.SuffrageNodesStateValueHint, Instance: isaac.SuffrageNodesStateValue{}},
	{Hint: isaac.SuffrageExpelOperationHint, Instance: isaac.SuffrageExpelOperation{}},
	{Hint: isaac.SuffrageExpelFactHint, Instance: isaac.SuffrageExpelFact{}},
	{Hint: isaacblock.BlockMapHint, Instance: isaacblock.BlockMap{}},
	{Hint: isaacblock.SuffrageProofHint, Instance: isaacblock.SuffrageProof{}},
	{Hint: isaacoperation.NetworkPolicyHint, Instance: isaacoperation.NetworkPolicy{}},
	{Hint: isaacoperation.NetworkPolicyFactHint, Instance: isaacoperation.NetworkPolicyFact{}},
	{Hint: isaacoperation.SuffrageCandidateHint, Instance: isaacoperation.SuffrageCandidate{}},
	{Hint: isaacoperation.SuffrageCandidateFactHint, Instance: isaacoperation.SuffrageCandidateFact{}},
	{Hint: isaacoperation.SuffrageDisjoinHint, Instance: isaacoperation.SuffrageDisjoin{}},
	{Hint: isaacoperation.SuffrageDisjoinFactHint, Instance: isaacoperation.SuffrageDisjoinFact{}},
	{Hint: isaacoperation.SuffrageJoinHint, Instance: isaacoperation.SuffrageJoin{}},
	{Hint: isaacoperation.SuffrageJoinFactHint, Instance: isaacoperation.SuffrageJoinFact{}},
}

// NewEnv builds the environment; the local node's key comes from rng.
func NewEnv(rng *rand.Rand) (*Env, error) {
	enc := jsonenc.NewEncoder()
	encs := encoder.NewEncoders(enc, enc)

	for i := range hinters {
		if err := encs.AddDetail(hinters[i]); err != nil {
			return nil, fmt.Errorf("add hinter %v: %w", hinters[i].Hint, err)
		}
	}

	nid := make([]byte, 12)
	for i := range nid {
		nid[i] = byte('a' + rng.Intn(26))
	}

	return &Env{
		Encs:      encs,
		Enc:       enc,
		NetworkID: base.NetworkID(nid),
		Local:     isaac.NewLocalNode(NewKey(rng), base.NewStringAddress("proposer-local")),
	}, nil
}

// NewKey derives a private key from the PRNG only.
func NewKey(rng *rand.Rand) base.Privatekey {
	const hex = "0123456789abcdef"

	b := make([]byte, 48)
	for i := range b {
		b[i] = hex[rng.Intn(16)]
	}

	k, err := base.NewMPrivatekeyFromSeed(string(b))
	if err != nil {
		panic(err)
	}

	return k
}

// Token is a PRNG-only operation token.
func Token(rng *rand.Rand) base.Token {
	b := make([]byte, 16)
	for i := range b {
		b[i] = byte(rng.Intn(256))
	}

	return base.Token(b)
}
