package prig

import (
	"fmt"
	"math/rand"
	"sort"
	"strings"

	"github.com/spikeekips/mitum/base"
	"github.com/spikeekips/mitum/isaac"
	isaacoperation "github.com/spikeekips/mitum/isaac/operation"
	"github.com/spikeekips/mitum/util"
	"github.com/spikeekips/mitum/util/localtime"
	"github.com/spikeekips/mitum/util/valuehash"
)

// Member is one node of the prior suffrage.
type Member struct {
	Addr  base.Address
	Priv  base.Privatekey
	Start base.Height
}

// Cand is one record of the prior candidates state (Priv = registered key).
type Cand struct {
	Addr     base.Address
	Priv     base.Privatekey
	Start    base.Height
	Deadline base.Height
}

// Prior is the state the block is processed over.
type Prior struct {
	Height    base.Height // height of the block being processed
	SufHeight base.Height
	Members   []Member
	Cands     []Cand
	Policy    isaac.NetworkPolicy
	T10       int // threshold of the join / policy processors, in tenths of a percent-point (670 = 67.0)

	SufState, CandState, PolicyState base.State
	Previous                         base.Manifest
}

// Threshold as the processors get it.
func (p *Prior) Threshold() base.Threshold { return base.Threshold(float64(p.T10) / 10) }

// Need = smallest c with c/n >= T (exact integers).
func (p *Prior) Need() int {
	n := len(p.Members)

	return (n*p.T10 + 999) / 1000
}

// GetState is the prior database.
func (p *Prior) GetState(key string) (base.State, bool, error) {
	switch key {
	case isaac.SuffrageStateKey:
		return p.SufState, true, nil
	case isaac.SuffrageCandidateStateKey:
		if p.CandState == nil {
			return nil, false, nil
		}

		return p.CandState, true, nil
	case isaac.NetworkPolicyStateKey:
		return p.PolicyState, true, nil
	default:
		return nil, false, nil
	}
}

// SignMeta says, independently of the code under test, what one signature of
// an operation is.
type SignMeta struct {
	Node     string // node address string of the sign
	Pub      string // public key string the sign claims as signer
	SigValid bool   // signature bytes were really made with that key over this fact, node and network id
}

// OpMeta is the harness's own description of a generated operation.
type OpMeta struct {
	Kind      string // join | candidate | disjoin | expel | policy
	Variant   string
	Target    string // address string the operation is about ("" for policy)
	TargetPub string // candidate op: the key being registered
	Start     int64
	End       int64 // expel only
	Signs     []SignMeta
	Fetch     string // ok | notfound | known  (what GetOperationFunc answers)
	IsValid   string // "" or the error of the real op.IsValid(networkID) (information; the oracle does not use it)
}

// Case = prior state + one block worth of operations.
type Case struct {
	Env    *Env
	Prior  *Prior
	Ops    []base.Operation // proposal operations
	Metas  []OpMeta
	Expels []base.SuffrageExpelOperation // carried by the INIT voteproof
	EMetas []OpMeta
}

var thresholds10 = []int{510, 600, 667, 670, 670, 670, 750, 800, 1000}

func addr(prefix string, i int, rng *rand.Rand) base.Address {
	return base.NewStringAddress(fmt.Sprintf("%s%02d-%04x", prefix, i, rng.Intn(1<<16)))
}

// GenPrior: suffrage 1..maxMembers, candidates 0..6 (some expired), a policy.
func GenPrior(env *Env, rng *rand.Rand, maxMembers int) *Prior {
	p := &Prior{
		Height:    base.Height(40 + rng.Intn(1000)),
		SufHeight: base.Height(1 + rng.Intn(30)),
		T10:       thresholds10[rng.Intn(len(thresholds10))],
	}

	n := 1 + rng.Intn(maxMembers)
	for i := 0; i < n; i++ {
		p.Members = append(p.Members, Member{
			Addr: addr("m", i, rng), Priv: NewKey(rng),
			Start: base.Height(1 + rng.Intn(int(p.Height)-1)),
		})
	}

	nc := rng.Intn(7)
	for i := 0; i < nc; i++ {
		c := Cand{Addr: addr("c", i, rng), Priv: NewKey(rng)}

		switch rng.Intn(6) {
		case 0: // expired long ago
			c.Start = p.Height - 30
			c.Deadline = p.Height - 1 - base.Height(rng.Intn(5))
		case 1: // last valid height
			c.Start = p.Height - 10
			c.Deadline = p.Height
		case 2: // expired by one
			c.Start = p.Height - 10
			c.Deadline = p.Height - 1
		default:
			c.Start = p.Height - base.Height(rng.Intn(10))
			c.Deadline = p.Height + 1 + base.Height(rng.Intn(50))
		}

		if rng.Intn(12) == 0 && len(p.Members) > 0 { // registered with a member's key
			c.Priv = p.Members[rng.Intn(len(p.Members))].Priv
		}

		p.Cands = append(p.Cands, c)
	}

	pol := isaac.DefaultNetworkPolicy()
	pol.SetMaxOperationsInProposal(uint64(100 + rng.Intn(300)))
	pol.SetSuffrageCandidateLifespan(base.Height(5 + rng.Intn(100)))
	pol.SetMaxSuffrageSize(uint64(20 + rng.Intn(20)))
	p.Policy = pol

	rh := func() util.Hash {
		b := make([]byte, 32)
		for i := range b {
			b[i] = byte(rng.Intn(256))
		}

		return valuehash.NewSHA256(b)
	}

	sufnodes := make([]base.SuffrageNodeStateValue, len(p.Members))
	for i, m := range p.Members {
		sufnodes[i] = isaac.NewSuffrageNodeStateValue(isaac.NewNode(m.Priv.Publickey(), m.Addr), m.Start)
	}

	p.SufState = base.NewBaseState(p.Height-1-base.Height(rng.Intn(5)), isaac.SuffrageStateKey,
		isaac.NewSuffrageNodesStateValue(p.SufHeight, sufnodes), rh(), []util.Hash{rh()})

	if len(p.Cands) > 0 {
		cv := make([]base.SuffrageCandidateStateValue, len(p.Cands))
		for i, c := range p.Cands {
			cv[i] = isaac.NewSuffrageCandidateStateValue(isaac.NewNode(c.Priv.Publickey(), c.Addr), c.Start, c.Deadline)
		}

		p.CandState = base.NewBaseState(p.Height-1, isaac.SuffrageCandidateStateKey,
			isaac.NewSuffrageCandidatesStateValue(cv), rh(), []util.Hash{rh()})
	}

	p.PolicyState = base.NewBaseState(p.Height-1-base.Height(rng.Intn(20)), isaac.NetworkPolicyStateKey,
		isaac.NewNetworkPolicyStateValue(p.Policy), rh(), []util.Hash{rh()})

	p.Previous = isaac.NewManifest(p.Height-1, rh(), rh(), rh(), rh(), p.SufState.Hash(), localtime.Now().UTC())

	return p
}

type signer struct {
	node  base.Address
	priv  base.Privatekey // key that makes the signature bytes
	claim base.Publickey  // nil: claim priv's own public key; else forged claim
}

type nodeOp interface {
	base.Operation
	NodeSign(base.Privatekey, base.NetworkID, base.Address) error
}

// sign applies the signers in order through the operation's own NodeSign (the
// public API real clients use); forged claims are built by hand.
func signOp(env *Env, fact base.Fact, signers []signer, apply func(base.NodeSign) error) ([]SignMeta, error) {
	metas := make([]SignMeta, 0, len(signers))

	for _, s := range signers {
		ns, err := base.NewBaseNodeSignFromFact(s.node, s.priv, env.NetworkID, fact)
		if err != nil {
			return nil, err
		}

		m := SignMeta{Node: s.node.String(), Pub: s.priv.Publickey().String(), SigValid: true}

		var sign base.NodeSign = ns

		if s.claim != nil && !s.claim.Equal(s.priv.Publickey()) {
			sign = base.NewBaseNodeSign(s.node, s.claim, ns.Signature(), ns.SignedAt())
			m.Pub = s.claim.String()
			m.SigValid = false
		}

		if err := apply(sign); err != nil {
			return nil, err
		}

		metas = append(metas, m)
	}

	return metas, nil
}

// gen is the per-case operation generator.
type gen struct {
	env *Env
	p   *Prior
	rng *rand.Rand
	c   *Case
	// fresh nodes invented by the block (unknown candidates, new registrations)
	fresh int
}

func (g *gen) pickMembers(k int) []Member {
	idx := g.rng.Perm(len(g.p.Members))
	if k > len(idx) {
		k = len(idx)
	}

	if k < 0 {
		k = 0
	}

	out := make([]Member, k)
	for i := 0; i < k; i++ {
		out[i] = g.p.Members[idx[i]]
	}

	return out
}

func (g *gen) freshNode() (base.Address, base.Privatekey) {
	g.fresh++

	return addr("x", g.fresh, g.rng), NewKey(g.rng)
}

// memberSigners: k correct member signatures, optionally padded with hostile ones.
func (g *gen) memberSigners(k int, hostile string) []signer {
	var out []signer

	for _, m := range g.pickMembers(k) {
		out = append(out, signer{node: m.Addr, priv: m.Priv})
	}

	rest := g.pickMembersExcluding(out)

	switch hostile {
	case "foreign": // signatures of nodes that are not members
		for i := 0; i < 1+g.rng.Intn(3); i++ {
			a, k := g.freshNode()
			out = append(out, signer{node: a, priv: k})
		}
	case "member-addr-wrong-key": // a member's address with somebody else's key
		for _, m := range rest {
			out = append(out, signer{node: m.Addr, priv: NewKey(g.rng)})
		}
	case "forged": // a member's address and public key over a signature made by another key
		for _, m := range rest {
			out = append(out, signer{node: m.Addr, priv: NewKey(g.rng), claim: m.Priv.Publickey()})
		}
	case "candidates": // other candidates sign
		for _, c := range g.p.Cands {
			out = append(out, signer{node: c.Addr, priv: c.Priv})
		}
	}

	g.rng.Shuffle(len(out), func(i, j int) { out[i], out[j] = out[j], out[i] })

	return out
}

func (g *gen) pickMembersExcluding(used []signer) []Member {
	var out []Member

	for _, m := range g.p.Members {
		found := false

		for _, u := range used {
			if u.node.Equal(m.Addr) {
				found = true
			}
		}

		if !found {
			out = append(out, m)
		}
	}

	return out
}

func dedupSigners(in []signer) []signer {
	seen := map[string]bool{}

	var out []signer

	for _, s := range in {
		if seen[s.node.String()] {
			continue
		}

		seen[s.node.String()] = true
		out = append(out, s)
	}

	return out
}

func (g *gen) add(op base.Operation, m OpMeta) {
	if m.Fetch == "" {
		m.Fetch = "ok"

		switch g.rng.Intn(40) {
		case 0:
			m.Fetch = "notfound"
		case 1:
			m.Fetch = "known"
		}
	}

	if err := op.IsValid(g.env.NetworkID); err != nil {
		m.IsValid = firstLine(err.Error())
	}

	g.c.Ops = append(g.c.Ops, op)
	g.c.Metas = append(g.c.Metas, m)
}

func firstLine(s string) string {
	if i := strings.IndexByte(s, '\n'); i >= 0 {
		s = s[:i]
	}

	if len(s) > 160 {
		s = s[:160]
	}

	return s
}

// countVariants: how many correct member signatures a variant carries.
func (g *gen) signCount(variant string) int {
	need, n := g.p.Need(), len(g.p.Members)

	switch variant {
	case "undersigned":
		return need - 1
	case "exact":
		return need
	case "all":
		return n
	case "none":
		return 0
	default:
		return g.rng.Intn(n + 1)
	}
}

func (g *gen) join() {
	p, rng := g.p, g.rng

	variant := []string{
		"exact", "exact", "all", "all", "undersigned", "undersigned", "random",
		"unknown-candidate", "wrong-start", "self-wrong-key", "no-self", "member-target",
		"pad-foreign", "pad-member-addr-wrong-key", "pad-forged", "pad-candidates", "dup-signs",
		"repeat-fresh-api", "repeat-fresh-wire", "repeat-fresh-api", "repeat-fresh-wire",
	}[rng.Intn(21)]

	// one member signing several times (fresh, valid, non-identical signatures)
	// on top of need-2 other members: distinct members = need-1
	var repeater *Member

	if strings.HasPrefix(variant, "repeat-fresh") {
		if p.Need() < 2 {
			variant = "undersigned"
		}
	}

	var target base.Address
	var selfkey base.Privatekey
	var start base.Height

	switch {
	case variant == "unknown-candidate" || len(p.Cands) == 0:
		target, selfkey = g.freshNode()
		start = p.Height - 1

		if len(p.Cands) == 0 && variant != "unknown-candidate" {
			variant = "unknown-candidate/" + variant
		}
	case variant == "member-target":
		m := p.Members[rng.Intn(len(p.Members))]
		target, selfkey, start = m.Addr, m.Priv, m.Start
	default:
		c := p.Cands[rng.Intn(len(p.Cands))]
		target, selfkey, start = c.Addr, c.Priv, c.Start
	}

	if variant == "wrong-start" {
		start += base.Height(1 + rng.Intn(3))
	}

	if variant == "self-wrong-key" {
		selfkey = NewKey(rng)
	}

	k := g.signCount(strings.TrimPrefix(variant, "unknown-candidate/"))
	hostile := ""

	switch {
	case strings.HasPrefix(variant, "pad-"):
		// fewer correct signatures than needed, the rest is padding that must not count
		k = g.signCount("undersigned")
		hostile = strings.TrimPrefix(variant, "pad-")
	case variant == "dup-signs":
		k = g.signCount("undersigned")
	case strings.HasPrefix(variant, "repeat-fresh"):
		k = p.Need() - 2
	case variant == "unknown-candidate", variant == "wrong-start", variant == "self-wrong-key",
		variant == "no-self", variant == "member-target":
		k = g.signCount("all")
	}

	signers := g.memberSigners(k, hostile)

	if strings.HasPrefix(variant, "repeat-fresh") {
		if rest := g.pickMembersExcluding(signers); len(rest) > 0 {
			repeater = &rest[rng.Intn(len(rest))]
		} else {
			variant = "undersigned"
		}
	}

	if variant != "no-self" {
		signers = append(signers, signer{node: target, priv: selfkey})
		rng.Shuffle(len(signers), func(i, j int) { signers[i], signers[j] = signers[j], signers[i] })
	}

	signers = dedupSigners(signers)
	if len(signers) == 0 {
		a, kk := g.freshNode()
		signers = append(signers, signer{node: a, priv: kk})
	}

	fact := isaacoperation.NewSuffrageJoinFact(Token(rng), target, start)
	op := isaacoperation.NewSuffrageJoin(fact)

	var nss []base.NodeSign

	metas, err := signOp(g.env, fact, signers, func(ns base.NodeSign) error {
		nss = append(nss, ns)

		return nil
	})
	if err != nil {
		panic(err)
	}

	if err := op.SetNodeSigns(nss); err != nil {
		panic(err)
	}

	m := OpMeta{Kind: "join", Variant: variant, Target: target.String(), Start: int64(start), Signs: metas}

	var out base.Operation = op

	if variant == "dup-signs" && k > 0 {
		// the same correct member signatures repeated until the raw count reaches
		// the threshold: distinct members stay below it
		if dup, dmetas, err := duplicateSigns(g.env, op, metas, p, g.p.Need()); err == nil {
			out, m.Signs = dup, dmetas
		} else {
			m.Variant = "dup-signs-failed:" + firstLine(err.Error())
		}
	}

	if repeater != nil {
		extra, emetas := repeatedMemberSigns(g.env, *repeater, fact, 3+rng.Intn(2))

		switch variant {
		case "repeat-fresh-api": // the public API keeps several signs of one node when they arrive together
			if _, err := op.AddNodeSigns(extra); err != nil {
				panic(err)
			}

			out, m.Signs = op, append(m.Signs, emetas...)
		default:
			if w, err := appendSignsWire(g.env, op, extra); err == nil {
				out, m.Signs = w, append(m.Signs, emetas...)
			} else {
				m.Variant = "repeat-fresh-wire-failed:" + firstLine(err.Error())
			}
		}

		if len(out.Signs()) != len(m.Signs) {
			panic(fmt.Sprintf("repeat-fresh: %d signs, %d metas", len(out.Signs()), len(m.Signs)))
		}
	}

	g.add(out, m)
}

func (g *gen) candidate() {
	p, rng := g.p, g.rng

	variant := []string{"new", "new", "new", "member-target", "existing-candidate", "wrong-key", "repeat-target"}[rng.Intn(7)]

	var target base.Address
	var key base.Privatekey

	switch {
	case variant == "member-target":
		m := p.Members[rng.Intn(len(p.Members))]
		target, key = m.Addr, m.Priv
	case variant == "existing-candidate" && len(p.Cands) > 0:
		c := p.Cands[rng.Intn(len(p.Cands))]
		target, key = c.Addr, c.Priv

		if rng.Intn(2) == 0 {
			key = NewKey(rng)
		}
	case variant == "repeat-target" && g.lastCandidateTarget() != nil:
		target, key = g.lastCandidateTarget(), NewKey(rng)
	default:
		target, key = g.freshNode()
	}

	signkey := key
	if variant == "wrong-key" {
		signkey = NewKey(rng)
	}

	fact := isaacoperation.NewSuffrageCandidateFact(Token(rng), target, key.Publickey())
	op := isaacoperation.NewSuffrageCandidate(fact)

	var nss []base.NodeSign

	metas, err := signOp(g.env, fact, []signer{{node: target, priv: signkey}}, func(ns base.NodeSign) error {
		nss = append(nss, ns)

		return nil
	})
	if err != nil {
		panic(err)
	}

	if err := op.SetNodeSigns(nss); err != nil {
		panic(err)
	}

	g.add(op, OpMeta{
		Kind: "candidate", Variant: variant, Target: target.String(), TargetPub: key.Publickey().String(), Signs: metas,
	})
}

func (g *gen) lastCandidateTarget() base.Address {
	for i := len(g.c.Metas) - 1; i >= 0; i-- {
		if g.c.Metas[i].Kind == "candidate" {
			return g.c.Ops[i].Fact().(isaacoperation.SuffrageCandidateFact).Address() //nolint:forcetypeassert //...
		}
	}

	return nil
}

func (g *gen) disjoin() {
	p, rng := g.p, g.rng

	variant := []string{"ok", "ok", "ok", "wrong-start", "wrong-key", "non-member", "candidate-target"}[rng.Intn(7)]

	m := p.Members[rng.Intn(len(p.Members))]
	target, key, start := m.Addr, m.Priv, m.Start

	switch {
	case variant == "wrong-start":
		start += base.Height(1 + rng.Intn(3))
	case variant == "wrong-key":
		key = NewKey(rng)
	case variant == "non-member":
		target, key = g.freshNode()
	case variant == "candidate-target" && len(p.Cands) > 0:
		c := p.Cands[rng.Intn(len(p.Cands))]
		target, key, start = c.Addr, c.Priv, c.Start
	}

	fact := isaacoperation.NewSuffrageDisjoinFact(Token(rng), target, start)
	op := isaacoperation.NewSuffrageDisjoin(fact)

	var nss []base.NodeSign

	metas, err := signOp(g.env, fact, []signer{{node: target, priv: key}}, func(ns base.NodeSign) error {
		nss = append(nss, ns)

		return nil
	})
	if err != nil {
		panic(err)
	}

	if err := op.SetNodeSigns(nss); err != nil {
		panic(err)
	}

	g.add(op, OpMeta{Kind: "disjoin", Variant: variant, Target: target.String(), Start: int64(start), Signs: metas})
}

func (g *gen) policy() {
	p, rng := g.p, g.rng

	variant := []string{
		"exact", "all", "undersigned", "same-policy", "pad-foreign", "pad-forged", "repeat-fresh-api", "repeat-fresh-wire",
	}[rng.Intn(8)]

	if strings.HasPrefix(variant, "repeat-fresh") && p.Need() < 2 {
		variant = "undersigned"
	}

	pol := p.Policy
	if variant != "same-policy" {
		pol.SetMaxOperationsInProposal(p.Policy.MaxOperationsInProposal() + uint64(1+rng.Intn(50)))
		pol.SetMaxSuffrageSize(p.Policy.MaxSuffrageSize() + uint64(rng.Intn(3)))
	}

	k := g.signCount(variant)
	hostile := ""

	switch {
	case variant == "same-policy":
		k = g.signCount("all")
	case strings.HasPrefix(variant, "pad-"):
		k = g.signCount("undersigned")
		hostile = strings.TrimPrefix(variant, "pad-")
	case strings.HasPrefix(variant, "repeat-fresh"):
		k = p.Need() - 2
	}

	signers := dedupSigners(g.memberSigners(k, hostile))

	var repeater *Member

	if strings.HasPrefix(variant, "repeat-fresh") {
		if rest := g.pickMembersExcluding(signers); len(rest) > 0 {
			repeater = &rest[rng.Intn(len(rest))]
		} else {
			variant = "undersigned"
		}
	}

	if len(signers) == 0 && repeater == nil {
		a, kk := g.freshNode()
		signers = append(signers, signer{node: a, priv: kk})
	}

	fact := isaacoperation.NewNetworkPolicyFact(Token(rng), pol)
	op := isaacoperation.NewNetworkPolicy(fact)

	var nss []base.NodeSign

	metas, err := signOp(g.env, fact, signers, func(ns base.NodeSign) error {
		nss = append(nss, ns)

		return nil
	})
	if err != nil {
		panic(err)
	}

	if err := op.SetNodeSigns(nss); err != nil {
		panic(err)
	}

	var out base.Operation = op

	if repeater != nil {
		extra, emetas := repeatedMemberSigns(g.env, *repeater, fact, 3+rng.Intn(2))

		switch variant {
		case "repeat-fresh-api":
			if _, err := op.AddNodeSigns(extra); err != nil {
				panic(err)
			}

			out, metas = op, append(metas, emetas...)
		default:
			if len(nss) == 0 { // the wire form needs at least the first sign in place
				if _, err := op.AddNodeSigns(extra[:1]); err != nil {
					panic(err)
				}

				metas = append(metas, emetas[0])
				extra, emetas = extra[1:], emetas[1:]
			}

			if w, err := appendSignsWire(g.env, op, extra); err == nil {
				out, metas = w, append(metas, emetas...)
			} else {
				variant = "repeat-fresh-wire-failed:" + firstLine(err.Error())
			}
		}
	}

	g.add(out, OpMeta{Kind: "policy", Variant: variant, Signs: metas})
}

func (g *gen) expel() {
	p, rng := g.p, g.rng

	variant := []string{"ok", "ok", "ok", "non-member", "future-start", "expired", "candidate-target"}[rng.Intn(7)]

	m := p.Members[rng.Intn(len(p.Members))]
	target := base.Address(m.Addr)
	start, end := p.Height-base.Height(rng.Intn(3)), p.Height+base.Height(rng.Intn(5))

	switch {
	case variant == "non-member":
		target, _ = g.freshNode()
	case variant == "future-start":
		start, end = p.Height+1, p.Height+5
	case variant == "expired":
		start, end = p.Height-5, p.Height-1
	case variant == "candidate-target" && len(p.Cands) > 0:
		target = p.Cands[rng.Intn(len(p.Cands))].Addr
	}

	if start <= base.GenesisHeight {
		start = base.GenesisHeight + 1
	}

	for i := range g.c.EMetas { // the expel fact's token is node+start+end: keep facts distinct
		if g.c.EMetas[i].Target == target.String() && g.c.EMetas[i].Start == int64(start) && g.c.EMetas[i].End == int64(end) {
			end++
		}
	}

	fact := isaac.NewSuffrageExpelFact(target, start, end, "verif")
	op := isaac.NewSuffrageExpelOperation(fact)

	var signers []signer

	for _, s := range g.memberSigners(1+rng.Intn(len(p.Members)), "") {
		if !s.node.Equal(target) {
			signers = append(signers, s)
		}
	}

	if len(signers) == 0 {
		a, kk := g.freshNode()
		signers = append(signers, signer{node: a, priv: kk})
	}

	var nss []base.NodeSign

	metas, err := signOp(g.env, fact, signers, func(ns base.NodeSign) error {
		nss = append(nss, ns)

		return nil
	})
	if err != nil {
		panic(err)
	}

	if err := op.SetNodeSigns(nss); err != nil {
		panic(err)
	}

	g.c.Expels = append(g.c.Expels, op)
	g.c.EMetas = append(g.c.EMetas, OpMeta{
		Kind: "expel", Variant: variant, Target: target.String(), Start: int64(start), End: int64(end), Signs: metas, Fetch: "voteproof",
	})
}

// GenCase draws a prior state and 1..maxOps proposal operations plus 0..3
// expel operations for the INIT voteproof.
func GenCase(env *Env, rng *rand.Rand, maxMembers, maxOps int) *Case {
	return GenOps(env, rng, GenPrior(env, rng, maxMembers), maxOps)
}

// AtHeight copies the prior state for another block height (same suffrage,
// candidates and policy states; a fresh previous manifest).
func (p *Prior) AtHeight(h base.Height, rng *rand.Rand) *Prior {
	np := *p
	np.Height = h

	rh := func() util.Hash {
		b := make([]byte, 32)
		for i := range b {
			b[i] = byte(rng.Intn(256))
		}

		return valuehash.NewSHA256(b)
	}

	np.Previous = isaac.NewManifest(h-1, rh(), rh(), rh(), rh(), p.SufState.Hash(), localtime.Now().UTC())

	return &np
}

// GenOps draws one block of operations over a given prior state.
func GenOps(env *Env, rng *rand.Rand, p *Prior, maxOps int) *Case {
	c := &Case{Env: env, Prior: p}
	g := &gen{env: env, p: p, rng: rng, c: c}

	nops := 1 + rng.Intn(maxOps)

	// block profile: which kinds dominate
	weights := [][5]int{
		{6, 3, 3, 1, 0}, // join heavy
		{3, 3, 3, 1, 0},
		{2, 6, 2, 1, 0}, // candidate heavy
		{3, 1, 6, 1, 0}, // disjoin heavy
		{1, 1, 1, 4, 0}, // policy heavy (second policy operation)
	}[rng.Intn(5)]
	total := weights[0] + weights[1] + weights[2] + weights[3]

	for i := 0; i < nops; i++ {
		x := rng.Intn(total)

		switch {
		case x < weights[0]:
			g.join()
		case x < weights[0]+weights[1]:
			g.candidate()
		case x < weights[0]+weights[1]+weights[2]:
			g.disjoin()
		default:
			g.policy()
		}
	}

	if rng.Intn(2) == 0 {
		for i := 0; i < 1+rng.Intn(3); i++ {
			g.expel()
		}
	}

	// conflicting operations about one node: a disjoin of a member that also signs a
	// join, and an expel of a member that disjoins
	if rng.Intn(3) == 0 && len(c.Ops) < maxOps {
		for i := range c.Metas {
			if c.Metas[i].Kind == "disjoin" && c.Metas[i].Variant == "ok" {
				fact := isaac.NewSuffrageExpelFact(
					c.Ops[i].Fact().(isaacoperation.SuffrageDisjoinFact).Node(), p.Height, p.Height+1, "conflict") //nolint:forcetypeassert //...

				dup := false

				for j := range c.EMetas {
					if c.EMetas[j].Target == fact.Node().String() {
						dup = true
					}
				}

				if dup {
					break
				}

				op := isaac.NewSuffrageExpelOperation(fact)

				var nss []base.NodeSign

				var signers []signer

				for _, s := range g.memberSigners(len(p.Members), "") {
					if !s.node.Equal(fact.Node()) {
						signers = append(signers, s)
					}
				}

				if len(signers) == 0 {
					break
				}

				metas, err := signOp(env, fact, signers, func(ns base.NodeSign) error {
					nss = append(nss, ns)

					return nil
				})
				if err != nil {
					panic(err)
				}

				_ = op.SetNodeSigns(nss)
				c.Expels = append(c.Expels, op)
				c.EMetas = append(c.EMetas, OpMeta{
					Kind: "expel", Variant: "conflict-with-disjoin", Target: fact.Node().String(),
					Start: int64(p.Height), End: int64(p.Height + 1), Signs: metas, Fetch: "voteproof",
				})

				break
			}
		}
	}

	return c
}

// KindCounts for evidence.
func (c *Case) KindCounts() map[string]int {
	out := map[string]int{}

	for _, m := range c.Metas {
		out[m.Kind+"/"+m.Variant]++
	}

	for _, m := range c.EMetas {
		out[m.Kind+"/"+m.Variant]++
	}

	return out
}

// Shape is a coarse fingerprint of a case for distinct-case counting.
func (c *Case) Shape() string {
	kc := c.KindCounts()
	keys := make([]string, 0, len(kc))

	for k := range kc {
		keys = append(keys, k)
	}

	sort.Strings(keys)

	var b strings.Builder

	fmt.Fprintf(&b, "n%d/c%d/t%d|", len(c.Prior.Members), len(c.Prior.Cands), c.Prior.T10)

	for _, k := range keys {
		fmt.Fprintf(&b, "%s=%d,", k, kc[k])
	}

	return b.String()
}
