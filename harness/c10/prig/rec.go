package prig

import (
	"context"
	"fmt"
	"sync"

	"github.com/spikeekips/mitum/base"
	"github.com/spikeekips/mitum/isaac"
	isaacblock "github.com/spikeekips/mitum/isaac/block"
	isaacdatabase "github.com/spikeekips/mitum/isaac/database"
	leveldbstorage "github.com/spikeekips/mitum/storage/leveldb"
	"github.com/spikeekips/mitum/util"
	"github.com/spikeekips/mitum/util/fixedtree"
)

// JitterFunc is called inside the harness-supplied callbacks (site names the
// callback, k the operation index / state index / key hash) and may sleep or
// yield; nil = no jitter.
type JitterFunc func(site string, k uint64)

func (j JitterFunc) do(site string, k uint64) {
	if j != nil {
		j(site, k)
	}
}

// RecFS is the recording isaacblock.FSWriter.
type RecFS struct {
	env    *Env
	jitter JitterFunc

	mu        sync.Mutex
	Events    []string // "op:<index>" / "st:<index>" in arrival order
	Proposal  base.ProposalSignFact
	Ops       map[uint64]string // index -> operation hash
	OpsTotals map[uint64]int    // "total" argument values seen by SetOperation
	States    map[string]base.State
	StatesIdx map[uint64]string // index -> state key
	OpsTree   *fixedtree.Tree
	StsTree   *fixedtree.Tree
	ManifestV base.Manifest
	IVP       base.INITVoteproof
	AVP       base.ACCEPTVoteproof
	SaveCalls int
	Cancels   int
}

func newRecFS(env *Env, jitter JitterFunc) *RecFS {
	return &RecFS{
		env: env, jitter: jitter,
		Ops: map[uint64]string{}, OpsTotals: map[uint64]int{},
		States: map[string]base.State{}, StatesIdx: map[uint64]string{},
	}
}

func (f *RecFS) SetProposal(_ context.Context, pr base.ProposalSignFact) error {
	f.mu.Lock()
	f.Proposal = pr
	f.mu.Unlock()

	return nil
}

func (f *RecFS) SetOperation(_ context.Context, total, index uint64, op base.Operation) error {
	f.jitter.do("fs.SetOperation", index)

	f.mu.Lock()
	f.Events = append(f.Events, fmt.Sprintf("op:%d", index))
	f.Ops[index] = op.Hash().String()
	f.OpsTotals[total]++
	f.mu.Unlock()

	return nil
}

func (f *RecFS) SetOperationsTree(_ context.Context, tr fixedtree.Tree) error {
	f.mu.Lock()
	f.OpsTree = &tr
	f.mu.Unlock()

	return nil
}

func (f *RecFS) SetState(_ context.Context, _, index uint64, st base.State) error {
	f.jitter.do("fs.SetState", index)

	f.mu.Lock()
	f.Events = append(f.Events, fmt.Sprintf("st:%d", index))
	f.States[st.Key()] = st
	f.StatesIdx[index] = st.Key()
	f.mu.Unlock()

	return nil
}

func (f *RecFS) SetStatesTree(_ context.Context, tr fixedtree.Tree) error {
	f.mu.Lock()
	f.StsTree = &tr
	f.mu.Unlock()

	return nil
}

func (f *RecFS) SetManifest(_ context.Context, m base.Manifest) error {
	f.jitter.do("fs.SetManifest", 0)

	f.mu.Lock()
	f.ManifestV = m
	f.mu.Unlock()

	return nil
}

func (f *RecFS) SetINITVoteproof(_ context.Context, vp base.INITVoteproof) error {
	f.mu.Lock()
	f.IVP = vp
	f.mu.Unlock()

	return nil
}

func (f *RecFS) SetACCEPTVoteproof(_ context.Context, vp base.ACCEPTVoteproof) error {
	f.mu.Lock()
	f.AVP = vp
	f.mu.Unlock()

	return nil
}

// Save builds and signs a block map for the manifest it was given, like
// LocalFSWriter.Save does; it performs no height / existence check of its own,
// so that nothing below ProposalProcessors masks a repeated save.
func (f *RecFS) Save(context.Context) (base.BlockMap, error) {
	f.mu.Lock()
	defer f.mu.Unlock()

	f.SaveCalls++

	if f.ManifestV == nil {
		return nil, fmt.Errorf("recfs: save without manifest")
	}

	m := isaacblock.NewBlockMap()
	m.SetManifest(f.ManifestV)

	items := []base.BlockItemType{base.BlockItemProposal, base.BlockItemVoteproofs}
	if f.OpsTree != nil {
		items = append(items, base.BlockItemOperationsTree)
	}

	if f.StsTree != nil {
		items = append(items, base.BlockItemStatesTree)
	}

	for _, t := range items {
		if err := m.SetItem(isaacblock.NewBlockMapItem(t, "cs-"+string(t))); err != nil {
			return nil, err
		}
	}

	if err := m.Sign(f.env.Local.Address(), f.env.Local.Privatekey(), f.env.NetworkID); err != nil {
		return nil, err
	}

	return m, nil
}

func (f *RecFS) Cancel() error {
	f.mu.Lock()
	f.Cancels++
	f.mu.Unlock()

	return nil
}

// Snapshot copies what the monitors read after the processor is done.
func (f *RecFS) Snapshot() (events []string, states map[string]base.State, totals map[uint64]int) {
	f.mu.Lock()
	defer f.mu.Unlock()

	events = append([]string{}, f.Events...)
	states = map[string]base.State{}

	for k, v := range f.States {
		states[k] = v
	}

	totals = map[uint64]int{}
	for k, v := range f.OpsTotals {
		totals[k] = v
	}

	return events, states, totals
}

// SaveRecord is one call that reached the block writer's Save.
type SaveRecord struct {
	Seq       int64 // global order (WriterHooks.Seq)
	Height    base.Height
	Proposal  util.Hash // fact hash of the writer's proposal
	Manifest  base.Manifest
	AVP       base.ACCEPTVoteproof // as given to SetACCEPTVoteproof (nil if never)
	BlockMap  base.BlockMap
	Err       error
	Merged    bool // mergeDatabase was called during this save
	MergedSeq int64
}

// WriterHooks are callbacks of the recording block writer; all optional.
type WriterHooks struct {
	Jitter JitterFunc
	OnNew  func(*RecWriter)
	// Seq returns the next global sequence number (strictly increasing across
	// all writers of one case); nil = per-writer counter.
	Seq func() int64
	// OnSaved is called after the inner Save returned.
	OnSaved func(*RecWriter, SaveRecord)
}

// RecWriter wraps the real isaacblock.Writer at the isaac.BlockWriter boundary.
type RecWriter struct {
	inner    *isaacblock.Writer
	hooks    *WriterHooks
	Proposal base.ProposalSignFact
	FS       *RecFS
	DB       *isaacdatabase.LeveldbBlockWrite
	env      *Env
	storage  *leveldbstorage.Storage

	mu        sync.Mutex
	Events    []string          // "r<index>" SetProcessResult / "s<index>" SetStates, arrival order
	Nodes     map[uint64]string // index -> facthash|instate|reason
	dupNodes  int
	OpsSize   uint64
	ManifestV base.Manifest
	IVP       base.INITVoteproof
	AVP       base.ACCEPTVoteproof
	Saves     []SaveRecord
	merged    bool
	mergedSeq int64
	seq       int64
	canceled  bool
}

func (w *RecWriter) nextSeq() int64 {
	if w.hooks != nil && w.hooks.Seq != nil {
		return w.hooks.Seq()
	}

	w.seq++

	return w.seq
}

func (w *RecWriter) SetOperationsSize(n uint64) {
	w.mu.Lock()
	w.OpsSize = n
	w.mu.Unlock()

	w.inner.SetOperationsSize(n)
}

func (w *RecWriter) SetProcessResult(
	ctx context.Context, index uint64, ophash, facthash util.Hash, instate bool, reason base.OperationProcessReasonError,
) error {
	w.hooks.Jitter.do("w.SetProcessResult", index)

	var msg string
	if reason != nil {
		msg = reason.Msg()
	}

	w.mu.Lock()
	w.Events = append(w.Events, fmt.Sprintf("r%d", index))

	if _, found := w.Nodes[index]; found {
		w.dupNodes++
	}

	w.Nodes[index] = fmt.Sprintf("%s|%v|%s", facthash, instate, msg)
	w.mu.Unlock()

	return w.inner.SetProcessResult(ctx, index, ophash, facthash, instate, reason)
}

func (w *RecWriter) SetStates(ctx context.Context, index uint64, values []base.StateMergeValue, op base.Operation) error {
	w.hooks.Jitter.do("w.SetStates", index)

	w.mu.Lock()
	w.Events = append(w.Events, fmt.Sprintf("s%d", index))
	w.mu.Unlock()

	return w.inner.SetStates(ctx, index, values, op)
}

func (w *RecWriter) Manifest(ctx context.Context, previous base.Manifest) (base.Manifest, error) {
	m, err := w.inner.Manifest(ctx, previous)

	if err == nil {
		w.mu.Lock()
		w.ManifestV = m
		w.mu.Unlock()
	}

	return m, err
}

func (w *RecWriter) SetINITVoteproof(ctx context.Context, vp base.INITVoteproof) error {
	w.mu.Lock()
	w.IVP = vp
	w.mu.Unlock()

	return w.inner.SetINITVoteproof(ctx, vp)
}

func (w *RecWriter) SetACCEPTVoteproof(ctx context.Context, vp base.ACCEPTVoteproof) error {
	w.mu.Lock()
	w.AVP = vp
	w.mu.Unlock()

	return w.inner.SetACCEPTVoteproof(ctx, vp)
}

func (w *RecWriter) Save(ctx context.Context) (base.BlockMap, error) {
	w.hooks.Jitter.do("w.Save", 0)

	w.mu.Lock()
	rec := SaveRecord{
		Seq:      w.nextSeq(),
		Height:   w.Proposal.Point().Height(),
		Proposal: w.Proposal.Fact().Hash(),
		Manifest: w.ManifestV,
		AVP:      w.AVP,
	}
	w.merged = false
	w.mu.Unlock()

	bm, err := w.inner.Save(ctx)

	w.mu.Lock()
	rec.BlockMap, rec.Err = bm, err
	rec.Merged, rec.MergedSeq = w.merged, w.mergedSeq
	w.Saves = append(w.Saves, rec)
	w.mu.Unlock()

	if w.hooks.OnSaved != nil {
		w.hooks.OnSaved(w, rec)
	}

	return bm, err
}

func (w *RecWriter) Cancel() error {
	w.mu.Lock()
	w.canceled = true
	w.mu.Unlock()

	return w.inner.Cancel()
}

func (w *RecWriter) mergeDatabase(isaac.BlockWriteDatabase) error {
	w.mu.Lock()
	w.merged = true
	w.mergedSeq = w.nextSeq()
	w.mu.Unlock()

	return nil
}

// Snapshot of what was recorded at the BlockWriter boundary.
func (w *RecWriter) Snapshot() (events []string, nodes map[uint64]string, dup int, saves []SaveRecord) {
	w.mu.Lock()
	defer w.mu.Unlock()

	events = append([]string{}, w.Events...)
	nodes = map[uint64]string{}

	for k, v := range w.Nodes {
		nodes[k] = v
	}

	return events, nodes, w.dupNodes, append([]SaveRecord{}, w.Saves...)
}

// Release gives the memory leveldb back to the pool. A writer that was saved
// has drained its save worker (Writer.Save waits for it) and its database is
// closed. A writer that was never saved is simply dropped, exactly as the node
// drops it: no in-tree caller ever calls BlockWriter.Cancel
// (DefaultProposalProcessor.Cancel only cancels its context), and calling
// Writer.Cancel while save-worker jobs are still in flight races with them
// (Writer.close nils the fields the jobs read). The abandoned jobs hold no
// goroutine once they return and write under a per-writer unique key prefix,
// so reusing the storage is safe.
func (w *RecWriter) Release() {
	w.mu.Lock()
	saved := false

	for i := range w.Saves {
		if w.Saves[i].Err == nil {
			saved = true
		}
	}

	st := w.storage
	w.storage = nil
	w.mu.Unlock()

	if saved {
		_ = w.DB.Close()
	}

	if st != nil {
		w.env.releaseStorage(st)
	}
}

// NewWriterFunc returns the isaac.NewBlockWriterFunc handed to the proposal
// processor: real Writer + real LeveldbBlockWrite on a memory leveldb +
// recording FSWriter, as launch.NewBlockWriterFunc builds them. A node has one
// leveldb storage for all its block write databases; the rig keeps a pool of
// leveldbstorage.NewMemStorage() instances, one per writer in flight (opening
// one costs a 4 MiB buffer, which dominates a run under the race detector).
func (env *Env) NewWriterFunc(hooks *WriterHooks, workersize int64) isaac.NewBlockWriterFunc {
	if hooks == nil {
		hooks = &WriterHooks{}
	}

	return func(proposal base.ProposalSignFact, getStateFunc base.GetStateFunc) (isaac.BlockWriter, error) {
		st := env.acquireStorage()
		db := isaacdatabase.NewLeveldbBlockWrite(proposal.Point().Height(), st, env.Encs, env.Enc)
		fs := newRecFS(env, hooks.Jitter)

		w := &RecWriter{
			hooks: hooks, Proposal: proposal, FS: fs, DB: db, env: env, storage: st,
			Nodes: map[uint64]string{},
		}
		w.inner = isaacblock.NewWriter(proposal, getStateFunc, db, w.mergeDatabase, fs, workersize)

		if hooks.OnNew != nil {
			hooks.OnNew(w)
		}

		return w, nil
	}
}
