package prig

import (
	"context"
	"errors"
	"fmt"
	"sync"
	"sync/atomic"

	"github.com/spikeekips/mitum/base"
	"github.com/spikeekips/mitum/isaac"
	isaacoperation "github.com/spikeekips/mitum/isaac/operation"
	"github.com/spikeekips/mitum/util"
	"github.com/spikeekips/mitum/util/hint"
)

// NewOperationProcessorFunc wires the built-in processors with the constructor
// arguments launch.POperationProcessorsMap gives them (threshold =
// isaacparams.Threshold(), lifespan = policy.SuffrageCandidateLifespan(), nil
// constraint functions; the candidate limiter of launch is not part of the
// operation package and is left nil = no limit).
func (p *Prior) NewOperationProcessorFunc() isaac.NewOperationProcessorFunc {
	return func(height base.Height, ht hint.Hint, getStatef base.GetStateFunc) (base.OperationProcessor, error) {
		switch {
		case ht.IsCompatible(isaacoperation.SuffrageCandidateHint):
			return isaacoperation.NewSuffrageCandidateProcessor(
				height, getStatef, nil, nil, p.Policy.SuffrageCandidateLifespan())
		case ht.IsCompatible(isaacoperation.SuffrageJoinHint):
			return isaacoperation.NewSuffrageJoinProcessor(height, p.Threshold(), getStatef, nil, nil)
		case ht.IsCompatible(isaac.SuffrageExpelOperationHint):
			return isaacoperation.NewSuffrageExpelProcessor(height, getStatef, nil, nil)
		case ht.IsCompatible(isaacoperation.SuffrageDisjoinHint):
			return isaacoperation.NewSuffrageDisjoinProcessor(height, getStatef, nil, nil)
		case ht.IsCompatible(isaacoperation.NetworkPolicyHint):
			return isaacoperation.NewNetworkPolicyProcessor(height, p.Threshold(), getStatef, nil, nil)
		default:
			return nil, nil
		}
	}
}

// Block is one concrete proposal over a Case: the operations in a chosen
// order, the signed proposal and the INIT voteproof carrying the expels.
type Block struct {
	Case     *Case
	Order    []int // proposal position -> index into Case.Ops
	EOrder   []int
	Proposal base.ProposalSignFact
	IVP      base.INITVoteproof
	byHash   map[string]int // operation hash -> index into Case.Ops
}

// NewBlock builds and signs the proposal / INIT voteproof for the given order
// (nil = generation order) at the given round.
func (c *Case) NewBlock(order, eorder []int, round uint64) *Block {
	if order == nil {
		order = make([]int, len(c.Ops))
		for i := range order {
			order[i] = i
		}
	}

	if eorder == nil {
		eorder = make([]int, len(c.Expels))
		for i := range eorder {
			eorder[i] = i
		}
	}

	b := &Block{Case: c, Order: order, EOrder: eorder, byHash: map[string]int{}}

	ophs := make([][2]util.Hash, len(order))
	for pos, i := range order {
		ophs[pos] = [2]util.Hash{c.Ops[i].Hash(), c.Ops[i].Fact().Hash()}
		b.byHash[c.Ops[i].Hash().String()] = i
	}

	point := base.NewPoint(c.Prior.Height, base.Round(round))

	pr := isaac.NewProposalSignFact(isaac.NewProposalFact(point, c.Env.Local.Address(), c.Prior.Previous.Hash(), ophs))
	if err := pr.Sign(c.Env.Local.Privatekey(), c.Env.NetworkID); err != nil {
		panic(err)
	}

	b.Proposal = pr

	expels := make([]base.SuffrageExpelOperation, len(eorder))
	efacts := make([]util.Hash, len(eorder))

	for pos, i := range eorder {
		expels[pos] = c.Expels[i]
		efacts[pos] = c.Expels[i].Fact().Hash()
	}

	ifact := isaac.NewINITBallotFact(point, c.Prior.Previous.Hash(), pr.Fact().Hash(), efacts)
	sf := isaac.NewINITBallotSignFact(ifact)

	if err := sf.NodeSign(c.Env.Local.Privatekey(), c.Env.NetworkID, c.Env.Local.Address()); err != nil {
		panic(err)
	}

	if len(expels) > 0 {
		vp := isaac.NewINITExpelVoteproof(point)
		vp.SetMajority(ifact).SetSignFacts([]base.BallotSignFact{sf}).SetThreshold(c.Prior.Threshold())
		vp.SetExpels(expels)
		vp.Finish()
		b.IVP = vp
	} else {
		vp := isaac.NewINITVoteproof(point)
		vp.SetMajority(ifact).SetSignFacts([]base.BallotSignFact{sf}).SetThreshold(c.Prior.Threshold()).Finish()
		b.IVP = vp
	}

	return b
}

// ACCEPT builds a majority ACCEPT voteproof at point naming (proposal, newblock).
func (env *Env) ACCEPT(point base.Point, proposal, newblock util.Hash, th base.Threshold) base.ACCEPTVoteproof {
	fact := isaac.NewACCEPTBallotFact(point, proposal, newblock, nil)
	sf := isaac.NewACCEPTBallotSignFact(fact)

	if err := sf.NodeSign(env.Local.Privatekey(), env.NetworkID, env.Local.Address()); err != nil {
		panic(err)
	}

	vp := isaac.NewACCEPTVoteproof(point)
	vp.SetMajority(fact).SetSignFacts([]base.BallotSignFact{sf}).SetThreshold(th).Finish()

	return vp
}

// GetOperationFunc answers like launch's getProposalOperationFunc does from
// the pool: operations that entered the pool passed IsValid(networkID), so an
// operation failing IsValid is reported as ErrInvalidOperationInProcessor; the
// "notfound" and "known" answers are the two ignore paths.
func (b *Block) GetOperationFunc(jitter JitterFunc) isaac.OperationProcessorGetOperationFunction {
	return func(_ context.Context, oph, _ util.Hash) (base.Operation, error) {
		i, found := b.byHash[oph.String()]
		if !found {
			return nil, isaac.ErrOperationNotFoundInProcessor.Errorf("unknown operation")
		}

		jitter.do("GetOperation", uint64(i))

		m := b.Case.Metas[i]

		switch m.Fetch {
		case "notfound":
			return nil, isaac.ErrOperationNotFoundInProcessor.Errorf("not found")
		case "known":
			return nil, isaac.ErrOperationAlreadyProcessedInProcessor.Errorf("already processed")
		}

		if m.IsValid != "" {
			return nil, isaac.ErrInvalidOperationInProcessor.Errorf("invalid operation")
		}

		return b.Case.Ops[i], nil
	}
}

// Fault makes one harness-supplied callback fail. Site: getoperation (Index =
// operation index), getstate (Index = n-th call), newprocessor (Index = n-th
// call), preprocess / process (Index = n-th call of any built-in processor),
// newwriter, empty (EmptyProposalNoBlock on and every operation already
// known, so that no operation yields a result).
type Fault struct {
	Site  string
	Index int
	Err   error

	count int64
	fired int64
}

// Fired tells whether the fault was injected at least once.
func (f *Fault) Fired() bool { return f != nil && atomic.LoadInt64(&f.fired) > 0 }

func (f *Fault) hit(site string, index int) bool {
	if f == nil || f.Site != site {
		return false
	}

	hit := index == f.Index
	if index < 0 { // count calls
		hit = int(atomic.AddInt64(&f.count, 1))-1 == f.Index
	}

	if hit {
		atomic.StoreInt64(&f.fired, 1)
	}

	return hit
}

type faultProcessor struct {
	base.OperationProcessor
	f *Fault
}

func (p faultProcessor) PreProcess(ctx context.Context, op base.Operation, g base.GetStateFunc) (
	context.Context, base.OperationProcessReasonError, error,
) {
	if p.f.hit("preprocess", -1) {
		return ctx, nil, p.f.Err
	}

	return p.OperationProcessor.PreProcess(ctx, op, g)
}

func (p faultProcessor) Process(ctx context.Context, op base.Operation, g base.GetStateFunc) (
	[]base.StateMergeValue, base.OperationProcessReasonError, error,
) {
	if p.f.hit("process", -1) {
		return nil, nil, p.f.Err
	}

	return p.OperationProcessor.Process(ctx, op, g)
}

// RunOpts of one processing of a block.
type RunOpts struct {
	Workers int64
	Jitter  JitterFunc
	Save    bool // after Process, Save with the matching ACCEPT voteproof
	Fault   *Fault
}

// Result of one processing.
type Result struct {
	Manifest base.Manifest
	Err      error
	Writer   *RecWriter // nil if the processor never created one
	SaveErr  error
	BlockMap base.BlockMap
}

// Outcome is what C10 compares: the manifest fields or the error class.
func (r *Result) Outcome() string {
	if r.Err != nil {
		return "error:" + firstLine(r.Err.Error())
	}

	m := r.Manifest

	return fmt.Sprintf("ops=%v sts=%v suf=%v hash=%v", m.OperationsTree(), m.StatesTree(), m.Suffrage(), m.Hash())
}

// NewProcessor builds the real DefaultProposalProcessor for the block.
func (b *Block) NewProcessor(o RunOpts, hooks *WriterHooks) (*isaac.DefaultProposalProcessor, error) {
	if hooks == nil {
		hooks = &WriterHooks{}
	}

	if hooks.Jitter == nil {
		hooks.Jitter = o.Jitter
	}

	args := isaac.NewDefaultProposalProcessorArgs()
	args.MaxWorkerSize = o.Workers
	newwriter := b.Case.Env.NewWriterFunc(hooks, o.Workers)
	args.NewWriterFunc = func(pr base.ProposalSignFact, g base.GetStateFunc) (isaac.BlockWriter, error) {
		if o.Fault.hit("newwriter", -1) {
			return nil, o.Fault.Err
		}

		return newwriter(pr, g)
	}
	args.GetStateFunc = func(key string) (base.State, bool, error) {
		o.Jitter.do("GetState", uint64(len(key)))

		if o.Fault.hit("getstate", -1) {
			return nil, false, o.Fault.Err
		}

		return b.Case.Prior.GetState(key)
	}

	getop := b.GetOperationFunc(o.Jitter)
	args.GetOperationFunc = func(ctx context.Context, oph, fact util.Hash) (base.Operation, error) {
		if o.Fault != nil {
			i, found := b.byHash[oph.String()]

			switch {
			case found && o.Fault.hit("getoperation", i):
				return nil, o.Fault.Err
			case o.Fault.Site == "empty":
				atomic.StoreInt64(&o.Fault.fired, 1)

				return nil, isaac.ErrOperationAlreadyProcessedInProcessor.Errorf("already processed")
			}
		}

		return getop(ctx, oph, fact)
	}

	newopp := b.Case.Prior.NewOperationProcessorFunc()
	args.NewOperationProcessorFunc = func(h base.Height, ht hint.Hint, g base.GetStateFunc) (base.OperationProcessor, error) {
		if o.Fault.hit("newprocessor", -1) {
			return nil, o.Fault.Err
		}

		opp, err := newopp(h, ht, g)
		if err != nil || opp == nil || o.Fault == nil {
			return opp, err
		}

		return faultProcessor{OperationProcessor: opp, f: o.Fault}, nil
	}
	args.EmptyProposalNoBlockFunc = func() bool { return o.Fault != nil && o.Fault.Site == "empty" }

	return isaac.NewDefaultProposalProcessor(b.Proposal, b.Case.Prior.Previous, args)
}

// Run processes the block once with a fresh processor / writer / database.
func (b *Block) Run(ctx context.Context, o RunOpts) *Result {
	res := &Result{}

	var mu sync.Mutex

	hooks := &WriterHooks{Jitter: o.Jitter, OnNew: func(w *RecWriter) {
		mu.Lock()
		res.Writer = w
		mu.Unlock()
	}}

	pp, err := b.NewProcessor(o, hooks)
	if err != nil {
		res.Err = err

		return res
	}

	res.Manifest, res.Err = pp.Process(ctx, b.IVP)
	if res.Err == nil && res.Manifest == nil {
		res.Err = errors.New("nil manifest without error")
	}

	if res.Err == nil && o.Save {
		avp := b.Case.Env.ACCEPT(b.Proposal.Point(), b.Proposal.Fact().Hash(), res.Manifest.Hash(), b.Case.Prior.Threshold())
		res.BlockMap, res.SaveErr = pp.Save(ctx, avp)
	} else {
		_ = pp.Cancel()
	}

	return res
}
