package c11

import (
	"context"
	"errors"
	"fmt"
	"hash/fnv"
	"runtime"
	"sort"
	"strings"
	"sync"
	"sync/atomic"
	"testing"
	"time"

	"github.com/spikeekips/mitum/base"
	"github.com/spikeekips/mitum/isaac"
	"github.com/spikeekips/mitum/util"
	"github.com/spikeekips/mitum/util/valuehash"
	"verifharness/c10/prig"
	"verifharness/vlib"
)

// one proposal of the case with its reference manifest
type prop struct {
	Label    string // "h<height>r<round>"
	Block    *prig.Block
	Manifest base.Manifest // computed beforehand by a stand-alone processor over the same proposal (nil: processing fails)
}

type action struct {
	Kind  string // process | save | cancel
	Label string // variant
	P     *prop
	// save only
	AVP      base.ACCEPTVoteproof
	FactHash util.Hash
	CtxUS    int // >0: context cancelled after that many microseconds
}

// what happened at the ProposalProcessors boundary
type callRec struct {
	Act      *action
	StartSeq int64
	EndSeq   int64
	BlockMap base.BlockMap
	Manifest base.Manifest
	Err      error
}

func errClass(err error) string {
	switch {
	case err == nil:
		return "ok"
	case errors.Is(err, isaac.ErrProcessorAlreadySaved):
		return "already-saved"
	case errors.Is(err, isaac.ErrNotProposalProcessorProcessed):
		return "not-processed"
	case errors.Is(err, context.Canceled), errors.Is(err, context.DeadlineExceeded):
		return "context"
	default:
		return "other-error"
	}
}

func rhash(rng interface{ Intn(int) int }) util.Hash {
	b := make([]byte, 32)
	for i := range b {
		b[i] = byte(rng.Intn(256))
	}

	return valuehash.NewSHA256(b)
}

func mkJitter(seed int64, ci int) prig.JitterFunc {
	base := uint64(seed)*0x9E3779B97F4A7C15 ^ uint64(ci)*0xBF58476D1CE4E5B9

	return func(site string, key uint64) {
		h := fnv.New64a()
		_, _ = h.Write([]byte(site))
		x := h.Sum64() ^ base ^ (key+1)*0xD6E8FEB86659FD93
		x ^= x >> 29
		x *= 0xBF58476D1CE4E5B9
		x ^= x >> 32

		switch v := x % 8; {
		case v < 3:
		case v < 6:
			runtime.Gosched()
		default:
			time.Sleep(time.Microsecond * time.Duration(1+x>>8%200))
		}
	}
}

func TestC11(t *testing.T) {
	r := vlib.Start(t, "C11", vlib.LevelExploration)
	defer r.Finish()

	r.SetRule("case = one isaac.ProposalProcessors over real DefaultProposalProcessor+isaacblock.Writer+LeveldbBlockWrite, 3..6 consecutive heights each with 1..2 proposals (rounds) of 1..3 built-in operations; per height a PRNG list of Process / Save / Cancel calls (Save with ACCEPT voteproofs that match, name a wrong new block, name a wrong proposal with the right new block, or are replays of lower heights; double saves, re-processing after save, cancelled contexts) issued by 1..6 goroutines, with or without a barrier between heights; distinct = sequence of call kinds; non-trivial = at least one block was saved and at least one Save was refused")
	r.Assume("the caller passes Save(ctx, avp.BallotMajority().Proposal(), avp) as isaac/states/voteproof_handler.go saveBlock does, with a majority ACCEPT voteproof whose point is the point of the proposal it names")
	r.Assume("the guarantee is driven at isaac.ProposalProcessors: 'new block == manifest' is enforced by DefaultProposalProcessor.save (and redundantly by voteproofHandler.handleACCEPTVoteproofAfterProcessingProposal), 'proposal fact' and 'once per height / not at or below a saved height' by ProposalProcessors.save (previousSaved); the FSWriter below is a recording one without LocalFSWriter's own 'height directory already exists' check, so nothing underneath masks a repeated save")
	r.Assume("the matching voteproofs name the manifest a stand-alone processor computed for the same proposal beforehand (other nodes compute the same manifest, C10); the oracle compares against the manifest the saving writer itself produced")

	env, err := prig.NewEnv(r.Rand(0))
	if err != nil {
		t.Fatal(err)
	}

	ncases := r.N(24, 200)

	var nontrivial int64

	vlib.Parallel(ncases, 8, func(ci int) {
		witness := map[string]any{"case": ci}

		ok := r.WithWatchdog(15*time.Minute, fmt.Sprintf("case %d", ci), func() {
			r.Guard("case", witness, func() {
				if runCase(r, env, ci) {
					atomic.AddInt64(&nontrivial, 1)
				}
			})
		})
		_ = ok
	})

	r.Set("cases_with_saved_and_refused_saves", nontrivial)

	// fault cases: processing fails inside one harness-supplied callback, then
	// an ACCEPT majority for that proposal arrives
	nfault := r.N(1, 4) * len(faultSites) * len(faultErrs) * 2

	vlib.Parallel(nfault, 8, func(fi int) {
		r.WithWatchdog(15*time.Minute, fmt.Sprintf("fault case %d", fi), func() {
			r.Guard("fault-case", map[string]any{"fault_case": fi}, func() { runFaultCase(r, env, fi) })
		})
	})

	if r.Counter("writer_saves_committed") == 0 || r.Counter("pps_save_refused") == 0 {
		r.Inconclusive("no block was saved or no save was refused: nothing could refute the property")
	}
}

func runCase(r *vlib.Run, env *prig.Env, ci int) bool {
	rng := r.Rand(1, ci)
	jitter := mkJitter(r.Seed, ci)

	prior0 := prig.GenPrior(env, rng, 5)
	nheights := 3 + rng.Intn(4)

	// proposals and their reference manifests
	var heights [][]*prop

	byFact := map[string]*prop{}

	for hi := 0; hi < nheights; hi++ {
		h := prior0.Height + base.Height(hi)

		var ps []*prop

		nrounds := 1
		if rng.Intn(4) == 0 {
			nrounds = 2
		}

		for round := 0; round < nrounds; round++ {
			c := prig.GenOps(env, rng, prior0.AtHeight(h, rng), 3)
			b := c.NewBlock(nil, nil, uint64(round))
			p := &prop{Label: fmt.Sprintf("h%dr%d", hi, round), Block: b}

			ref := b.Run(context.Background(), prig.RunOpts{Workers: 4})
			if ref.Err == nil {
				p.Manifest = ref.Manifest
			}

			if ref.Writer != nil {
				ref.Writer.Release()
			}

			ps = append(ps, p)
			byFact[b.Proposal.Fact().Hash().String()] = p
		}

		heights = append(heights, ps)
	}

	th := prior0.Threshold()

	matching := func(p *prop) *action {
		nb := util.Hash(rhash(rng))
		if p.Manifest != nil {
			nb = p.Manifest.Hash()
		}

		fh := p.Block.Proposal.Fact().Hash()

		return &action{Kind: "save", Label: "matching", P: p, FactHash: fh, AVP: env.ACCEPT(p.Block.Proposal.Point(), fh, nb, th)}
	}

	// action lists
	var lists [][]*action

	for hi, ps := range heights {
		p0 := ps[0]

		var first, rest []*action

		first = append(first, &action{Kind: "process", Label: "first", P: p0})

		if rng.Intn(10) < 8 {
			rest = append(rest, matching(p0))
		}

		if rng.Intn(10) < 3 { // wrong new block
			fh := p0.Block.Proposal.Fact().Hash()
			rest = append(rest, &action{
				Kind: "save", Label: "wrong-newblock", P: p0, FactHash: fh,
				AVP: env.ACCEPT(p0.Block.Proposal.Point(), fh, rhash(rng), th),
			})
		}

		if rng.Intn(10) < 3 && p0.Manifest != nil { // wrong proposal, right new block
			other := util.Hash(rhash(rng))
			if len(ps) > 1 {
				other = ps[1].Block.Proposal.Fact().Hash()
			}

			rest = append(rest, &action{
				Kind: "save", Label: "wrong-proposal", P: p0, FactHash: other,
				AVP: env.ACCEPT(p0.Block.Proposal.Point(), other, p0.Manifest.Hash(), th),
			})
		}

		if rng.Intn(10) < 3 {
			a := matching(p0)
			a.Label = "matching-again"
			rest = append(rest, a)
		}

		if rng.Intn(10) < 3 {
			rest = append(rest, &action{Kind: "process", Label: "again", P: p0})
		}

		if len(ps) > 1 {
			rest = append(rest, &action{Kind: "process", Label: "other-round", P: ps[1]})

			if rng.Intn(2) == 0 {
				a := matching(ps[1])
				a.Label = "matching-other-round"
				rest = append(rest, a)
			}
		}

		if hi > 0 && rng.Intn(10) < 4 { // replay of a lower height: process it again and save with its own matching voteproof
			old := heights[rng.Intn(hi)][0]
			rest = append(rest, &action{Kind: "process", Label: "replay-lower-height", P: old})
			a := matching(old)
			a.Label = "replay-lower-height"
			rest = append(rest, a)
		}

		if rng.Intn(4) == 0 {
			rest = append(rest, &action{Kind: "cancel", Label: "cancel"})
		}

		for _, a := range rest {
			if rng.Intn(12) == 0 {
				a.CtxUS = 1 + rng.Intn(3000)
			}
		}

		list := append(first, rest...)

		switch rng.Intn(10) {
		case 0, 1, 2: // process first, then the refused variants, then the matching ones
			sort.SliceStable(rest, func(i, j int) bool {
				return strings.HasPrefix(rest[i].Label, "wrong") && !strings.HasPrefix(rest[j].Label, "wrong")
			})

			list = append(first, rest...)
		case 3, 4, 5: // process first, the rest in generation order (matching save first)
		case 6, 7:
			rng.Shuffle(len(rest), func(i, j int) { rest[i], rest[j] = rest[j], rest[i] })
			list = append(first, rest...)
		default:
			rng.Shuffle(len(list), func(i, j int) { list[i], list[j] = list[j], list[i] })
		}

		lists = append(lists, list)
	}

	barrier := rng.Intn(10) < 7
	ngor := 1 + rng.Intn(6)

	if !barrier {
		var all []*action
		for _, l := range lists {
			all = append(all, l...)
		}

		lists = [][]*action{all}
	}

	// the system under test
	var seq int64

	var wmu sync.Mutex

	var writers []*prig.RecWriter

	hooks := &prig.WriterHooks{
		Jitter: jitter,
		Seq:    func() int64 { return atomic.AddInt64(&seq, 1) },
		OnNew: func(w *prig.RecWriter) {
			wmu.Lock()
			writers = append(writers, w)
			wmu.Unlock()
		},
	}

	pps := isaac.NewProposalProcessors(
		func(pr base.ProposalSignFact, _ base.Manifest) (isaac.ProposalProcessor, error) {
			p, found := byFact[pr.Fact().Hash().String()]
			if !found {
				return nil, fmt.Errorf("unknown proposal")
			}

			return p.Block.NewProcessor(prig.RunOpts{Workers: 4, Jitter: jitter}, hooks)
		},
		func(_ context.Context, _ base.Point, facthash util.Hash) (base.ProposalSignFact, error) {
			jitter("getproposal", 0)

			p, found := byFact[facthash.String()]
			if !found {
				return nil, fmt.Errorf("proposal not found")
			}

			return p.Block.Proposal, nil
		},
	)
	pps.SetRetryLimit(1).SetRetryInterval(time.Millisecond)

	var cmu sync.Mutex

	var calls []*callRec

	var order []string

	do := func(a *action) {
		ctx := context.Background()

		if a.CtxUS > 0 {
			var cancel func()

			ctx, cancel = context.WithTimeout(ctx, time.Microsecond*time.Duration(a.CtxUS))
			defer cancel()
		}

		rec := &callRec{Act: a, StartSeq: atomic.AddInt64(&seq, 1)}

		cmu.Lock()
		order = append(order, "+"+a.Kind+"/"+a.Label)
		cmu.Unlock()

		switch a.Kind {
		case "process":
			pr := a.P.Block.Proposal

			f, err := pps.Process(ctx, pr.Point(), pr.Fact().Hash(), a.P.Block.Case.Prior.Previous, a.P.Block.IVP)
			rec.Err = err

			if err == nil && f != nil {
				rec.Manifest, rec.Err = f(ctx)
			}
		case "save":
			rec.BlockMap, rec.Err = pps.Save(ctx, a.FactHash, a.AVP)
		case "cancel":
			rec.Err = pps.Cancel()
		}

		rec.EndSeq = atomic.AddInt64(&seq, 1)

		cmu.Lock()
		calls = append(calls, rec)
		order = append(order, "-"+a.Kind+"/"+a.Label+"="+errClass(rec.Err))
		cmu.Unlock()
	}

	for _, list := range lists {
		ch := make(chan *action)

		var wg sync.WaitGroup

		for g := 0; g < ngor; g++ {
			wg.Add(1)

			go func() {
				defer wg.Done()

				for a := range ch {
					r.Guard("ProposalProcessors."+a.Kind, map[string]any{"case": ci, "action": a.Kind + "/" + a.Label}, func() { do(a) })
				}
			}()
		}

		for _, a := range list {
			ch <- a
		}

		close(ch)
		wg.Wait()
	}

	_ = pps.Cancel()

	// ---- judge ----
	wmu.Lock()
	ws := append([]*prig.RecWriter{}, writers...)
	wmu.Unlock()

	var saves []prig.SaveRecord

	for _, w := range ws {
		_, _, _, s := w.Snapshot()
		saves = append(saves, s...)
	}

	sort.Slice(saves, func(i, j int) bool { return saves[i].Seq < saves[j].Seq })

	describe := func() map[string]any {
		var ss []string
		for _, s := range saves {
			ss = append(ss, fmt.Sprintf("seq=%d height=%d proposal=%s merged=%v err=%v", s.Seq, s.Height, byFact[s.Proposal.String()].Label, s.Merged, s.Err))
		}

		return map[string]any{"case": ci, "goroutines": ngor, "barrier": barrier, "calls_in_observed_order": order, "writer_saves": ss}
	}

	lastCommitted := base.NilHeight

	for _, s := range saves {
		r.Count("writer_save_calls", 1)

		switch {
		case s.Manifest == nil:
			r.Violation("writer-save:without-manifest", fmt.Sprintf("case %d: block writer Save reached at height %d without a computed manifest", ci, s.Height), describe())
		case s.AVP == nil || s.AVP.BallotMajority() == nil:
			r.Violation("writer-save:without-accept-majority", fmt.Sprintf("case %d: block writer Save reached at height %d without an ACCEPT majority", ci, s.Height), describe())
		default:
			if !s.AVP.BallotMajority().NewBlock().Equal(s.Manifest.Hash()) {
				r.Violation("writer-save:accept-newblock-differs-from-manifest",
					fmt.Sprintf("case %d: height %d saved for manifest %s while the ACCEPT majority's new block is %s",
						ci, s.Height, s.Manifest.Hash(), s.AVP.BallotMajority().NewBlock()), describe())
			}

			if !s.AVP.BallotMajority().Proposal().Equal(s.Proposal) {
				r.Violation("writer-save:accept-proposal-differs-from-processed-proposal",
					fmt.Sprintf("case %d: height %d saved for proposal %s while the ACCEPT majority names %s",
						ci, s.Height, s.Proposal, s.AVP.BallotMajority().Proposal()), describe())
			}
		}

		if s.Err != nil {
			r.Count("writer_saves_failed", 1)
		}

		if !s.Merged {
			continue
		}

		r.Count("writer_saves_committed", 1)

		switch {
		case s.Height == lastCommitted:
			r.Violation("writer-save:second-block-at-same-height", fmt.Sprintf("case %d: height %d saved twice", ci, s.Height), describe())
		case s.Height < lastCommitted:
			r.Violation("writer-save:height-below-already-saved", fmt.Sprintf("case %d: height %d saved after height %d", ci, s.Height, lastCommitted), describe())
		}

		if s.Height > lastCommitted {
			lastCommitted = s.Height
		}
	}

	var refused, returned int

	for _, c := range calls {
		r.Count("call_"+c.Act.Kind+"/"+c.Act.Label+"="+errClass(c.Err), 1)

		if c.Act.Kind != "save" {
			continue
		}

		if c.Err != nil || c.BlockMap == nil {
			refused++

			if c.Err != nil && strings.Contains(c.Err.Error(), "different manifest hash with majority") {
				r.Count("pps_save_refused_by_manifest_hash_check", 1)
			}

			r.Count("pps_save_refused", 1)

			continue
		}

		returned++

		r.Count("pps_save_returned_blockmap", 1)

		if !c.BlockMap.Manifest().Hash().Equal(c.Act.AVP.BallotMajority().NewBlock()) {
			r.Violation("pps-save:returned-block-differs-from-accept-newblock",
				fmt.Sprintf("case %d: Save(%s) returned block %s, ACCEPT majority says %s", ci, c.Act.Label,
					c.BlockMap.Manifest().Hash(), c.Act.AVP.BallotMajority().NewBlock()), describe())
		}

		n := 0

		for _, s := range saves {
			if s.Merged && s.Err == nil && s.Seq > c.StartSeq && s.Seq < c.EndSeq && s.Manifest != nil &&
				s.Manifest.Hash().Equal(c.BlockMap.Manifest().Hash()) {
				n++
			}
		}

		if n != 1 {
			r.Violation(fmt.Sprintf("pps-save:returned-blockmap-with-%d-writer-saves", n),
				fmt.Sprintf("case %d: Save(%s) returned a block map but %d writer-level saves happened inside the call", ci, c.Act.Label, n), describe())
		}
	}

	var kinds []string
	for _, l := range lists {
		for _, a := range l {
			kinds = append(kinds, a.Kind[:1]+"/"+a.Label)
		}
	}

	r.Eval(1)

	nontrivial := returned > 0 && refused > 0
	if nontrivial {
		r.Distinct(fmt.Sprintf("g%d/b%v/%s", ngor, barrier, strings.Join(kinds, ",")))
	}

	r.SetAdd("interleavings_seen", strings.Join(order, " "))
	r.Count("heights", nheights)
	r.Count("proposals", len(byFact))

	if ci < 4 {
		r.Sample(describe())
	}

	for _, w := range ws {
		w.Release()
	}

	return nontrivial
}

var faultSites = []string{"getoperation", "getstate", "newprocessor", "preprocess", "process", "newwriter", "empty"}

var faultErrs = []struct {
	Name string
	Err  error
}{
	{"plain", errors.New("injected failure")},
	{"ignore", isaac.ErrIgnoreErrorProposalProcessor.Errorf("injected, to be ignored")},
	{"ignore-wrapped", fmt.Errorf("injected: %w", isaac.ErrIgnoreErrorProposalProcessor.Errorf("inner"))},
	{"context-canceled", context.Canceled},
	{"not-processed", isaac.ErrNotProposalProcessorProcessed.Errorf("injected")},
}

// runFaultCase: one proposal whose processing fails at one callback (or ends
// with "empty operations"), driven through ProposalProcessors or on the
// DefaultProposalProcessor directly, followed by Save with an ACCEPT majority
// naming that proposal (new block = the manifest a fault-free processor
// computes, or a random hash). Oracle as for the ordinary cases: no call may
// reach the block writer's Save without the manifest the node computed for the
// proposal and an ACCEPT majority naming exactly that manifest.
func runFaultCase(r *vlib.Run, env *prig.Env, fi int) {
	rng := r.Rand(2, fi)

	site := faultSites[fi%len(faultSites)]
	fe := faultErrs[(fi/len(faultSites))%len(faultErrs)]
	via := []string{"pps", "direct"}[(fi/(len(faultSites)*len(faultErrs)))%2]

	c := prig.GenOps(env, rng, prig.GenPrior(env, rng, 5), 4)
	for i := range c.Metas { // every operation is fetched
		c.Metas[i].Fetch = "ok"
	}

	if site == "empty" {
		c.Expels, c.EMetas = nil, nil
	}

	b := c.NewBlock(nil, nil, 0)

	var refm base.Manifest

	if ref := b.Run(context.Background(), prig.RunOpts{Workers: 4}); ref.Writer != nil {
		if ref.Err == nil {
			refm = ref.Manifest
		}

		ref.Writer.Release()
	}

	newblock, avpkind := util.Hash(rhash(rng)), "random-newblock"
	if refm != nil && rng.Intn(2) == 0 {
		newblock, avpkind = refm.Hash(), "reference-newblock"
	}

	pr := b.Proposal
	avp := env.ACCEPT(pr.Point(), pr.Fact().Hash(), newblock, c.Prior.Threshold())

	index := rng.Intn(2)
	switch site {
	case "getoperation":
		index = rng.Intn(len(c.Ops))
	case "newwriter":
		index = 0
	}

	var wmu sync.Mutex

	var writers []*prig.RecWriter

	var faults []*prig.Fault

	hooks := &prig.WriterHooks{OnNew: func(w *prig.RecWriter) {
		wmu.Lock()
		writers = append(writers, w)
		wmu.Unlock()
	}}

	newProcessor := func() (*isaac.DefaultProposalProcessor, error) {
		f := &prig.Fault{Site: site, Index: index, Err: fe.Err}

		wmu.Lock()
		faults = append(faults, f)
		wmu.Unlock()

		return b.NewProcessor(prig.RunOpts{Workers: 4, Fault: f}, hooks)
	}

	var perr, serr error

	var pm base.Manifest

	var bm base.BlockMap

	ctx := context.Background()

	switch via {
	case "pps":
		pps := isaac.NewProposalProcessors(
			func(base.ProposalSignFact, base.Manifest) (isaac.ProposalProcessor, error) { return newProcessor() },
			func(context.Context, base.Point, util.Hash) (base.ProposalSignFact, error) { return pr, nil },
		)
		pps.SetRetryLimit(1).SetRetryInterval(time.Millisecond)

		f, err := pps.Process(ctx, pr.Point(), pr.Fact().Hash(), c.Prior.Previous, b.IVP)
		perr = err

		if err == nil && f != nil {
			pm, perr = f(ctx)
		}

		bm, serr = pps.Save(ctx, pr.Fact().Hash(), avp)
	default:
		pp, err := newProcessor()
		if err != nil {
			panic(err)
		}

		pm, perr = pp.Process(ctx, b.IVP)
		bm, serr = pp.Save(ctx, avp)
	}

	fired := false

	wmu.Lock()
	ws := append([]*prig.RecWriter{}, writers...)

	for _, f := range faults {
		fired = fired || f.Fired()
	}
	wmu.Unlock()

	witness := map[string]any{
		"fault_case": fi, "site": site, "index": index, "error": fe.Name, "via": via, "accept": avpkind, "fault_fired": fired,
		"process_manifest": pm != nil, "process_error": fmt.Sprintf("%v", firstLine(perr)), "save_returned_blockmap": bm != nil, "save_error": firstLine(serr),
		"operations": c.KindCounts(),
	}

	nsaves := 0

	for _, w := range ws {
		_, _, _, saves := w.Snapshot()

		for _, s := range saves {
			nsaves++

			r.Count("fault_writer_save_calls", 1)

			switch {
			case s.Manifest == nil:
				r.Violation("writer-save:without-manifest",
					fmt.Sprintf("fault case %d (%s fails with %s, via %s): the block writer's Save was reached although processing produced no manifest", fi, site, fe.Name, via), witness)
			case s.AVP == nil || s.AVP.BallotMajority() == nil:
				r.Violation("writer-save:without-accept-majority", fmt.Sprintf("fault case %d", fi), witness)
			case !s.AVP.BallotMajority().NewBlock().Equal(s.Manifest.Hash()):
				r.Violation("writer-save:accept-newblock-differs-from-manifest",
					fmt.Sprintf("fault case %d: saved for manifest %s, ACCEPT majority new block %s", fi, s.Manifest.Hash(), s.AVP.BallotMajority().NewBlock()), witness)
			case !s.AVP.BallotMajority().Proposal().Equal(s.Proposal):
				r.Violation("writer-save:accept-proposal-differs-from-processed-proposal", fmt.Sprintf("fault case %d", fi), witness)
			}
		}
	}

	if bm != nil && serr == nil {
		r.Count("fault_save_returned_blockmap", 1)

		switch {
		case pm == nil:
			r.Violation("save:returned-blockmap-although-process-gave-no-manifest",
				fmt.Sprintf("fault case %d (%s fails with %s, via %s): Save returned a block map, Process had returned error %q", fi, site, fe.Name, via, firstLine(perr)), witness)
		case !bm.Manifest().Hash().Equal(pm.Hash()) || !bm.Manifest().Hash().Equal(newblock):
			r.Violation("save:returned-block-differs-from-computed-manifest-or-accept-newblock", fmt.Sprintf("fault case %d", fi), witness)
		case nsaves != 1:
			r.Violation(fmt.Sprintf("pps-save:returned-blockmap-with-%d-writer-saves", nsaves), fmt.Sprintf("fault case %d", fi), witness)
		}
	} else {
		r.Count("fault_save_refused", 1)
	}

	r.Eval(1)
	r.Count("fault_cases", 1)
	r.Count(fmt.Sprintf("fault_%s/%s:process=%s", site, via, map[bool]string{true: "manifest", false: "error"}[pm != nil]), 1)

	if fired {
		r.Count("fault_cases_where_fault_fired", 1)

		if pm == nil {
			r.Count("fault_cases_without_manifest_followed_by_save", 1)
		}

		r.Distinct(fmt.Sprintf("fault/%s/%s/%s/%s", site, fe.Name, via, avpkind))
	}

	if fi%23 == 0 {
		r.Sample(witness)
	}

	for _, w := range ws {
		w.Release()
	}
}

func firstLine(err error) string {
	if err == nil {
		return ""
	}

	return strings.SplitN(err.Error(), "\n", 2)[0]
}
