package c12

import (
	"fmt"
	"sort"
	"testing"
	"unicode/utf8"

	"github.com/spikeekips/mitum/util"
	"github.com/spikeekips/mitum/util/fixedtree"
	"github.com/spikeekips/mitum/util/hint"
	"github.com/spikeekips/mitum/util/valuehash"
	"verifharness/vlib"
)

var treeHint = hint.MustNewHint("test-tree-v0.0.1")

// ---------------------------------------------------------------- reference
// The fixed tree is a complete binary tree in array order (the in-tree test
// table of proof_test.go: children of i are 2i+1 and 2i+2). The reference uses
// integers only; the code under test uses float log/pow.

func refParent(i int) int { return (i - 1) / 2 }

// refHashes = "every node's hash matches its key and children", bottom-up.
func refHashes(keys []string) []util.Hash {
	n := len(keys)
	hs := make([]util.Hash, n)
	for i := n - 1; i >= 0; i-- {
		b := []byte(keys[i])
		if l := 2*i + 1; l < n {
			b = append(b, hs[l].Bytes()...)
		}
		if r := 2*i + 2; r < n {
			b = append(b, hs[r].Bytes()...)
		}
		hs[i] = valuehash.NewSHA256(b)
	}
	return hs
}

func build(keys []string) (fixedtree.Tree, error) {
	w, err := fixedtree.NewWriter(treeHint, uint64(len(keys)))
	if err != nil {
		return fixedtree.Tree{}, err
	}
	for i := range keys {
		if err := w.Add(uint64(i), fixedtree.NewBaseNode(keys[i])); err != nil {
			return fixedtree.Tree{}, err
		}
	}
	return w.Tree()
}

const keyAlphabet = "abcdefghijklmnopqrstuvwxyzABCDEFGHIJKLMNOPQRSTUVWXYZ0123456789-_/:. "

// ---------------------------------------------------------------- one tree

type treeCase struct {
	Size      int    `json:"size"`
	Via       string `json:"via"`
	Profile   string `json:"key_profile"`
	TreeNo    int    `json:"tree_no"`
	Keys      int    `json:"keys_checked,omitempty"`
	FirstKey  string `json:"first_key,omitempty"`
	MinKeyLen int    `json:"min_key_len"`
	MaxKeyLen int    `json:"max_key_len"`
	Root      string `json:"root,omitempty"`
}

type witness struct {
	Size     int      `json:"size"`
	TreeNo   int      `json:"tree_no"`
	Profile  string   `json:"key_profile,omitempty"`
	KeyLen   int      `json:"key_len,omitempty"`
	Site     string   `json:"key_change_site,omitempty"` // site@offset/keylen of a key change
	Keys     []string `json:"keys,omitempty"`            // all keys when the tree is small
	KeyIndex int      `json:"key_index"`
	Key      string   `json:"key,omitempty"`
	Mutation string   `json:"mutation,omitempty"`
	Pos      int      `json:"pos"`
	Pos2     int      `json:"pos2,omitempty"`
	Proof    []string `json:"proof,omitempty"`
	Mutated  []string `json:"mutated,omitempty"`
	Err      string   `json:"err,omitempty"`
}

func nodeStrings(ns []fixedtree.Node) []string {
	out := make([]string, len(ns))
	for i, n := range ns {
		switch {
		case n == nil:
			out[i] = "<nil>"
		case n.IsEmpty():
			out[i] = "<empty>"
		default:
			out[i] = fmt.Sprintf("%v %s", n.Hash(), showKey(n.Key()))
		}
	}
	return out
}

func errString(err error) string {
	if err == nil {
		return ""
	}
	return err.Error()
}

func flipHash(rng interface{ Intn(int) int }, h util.Hash) util.Hash {
	var a [32]byte
	copy(a[:], h.Bytes())
	bit := rng.Intn(256)
	a[bit/8] ^= 1 << uint(bit%8)
	return valuehash.L32(a)
}

type checker struct {
	r *vlib.Run
}

func (c *checker) wit(keys []string, treeNo int, prof string) witness {
	w := witness{Size: len(keys), TreeNo: treeNo, Profile: prof}
	if len(keys) <= 16 {
		w.Keys = showKeys(keys)
	}
	return w
}

// keySig: the signature of a failure about one key names the length class of
// that key; maxSig names the length class of the longest key among the nodes
// whose hashes commit to the changed field. The signatures of listed known
// findings stay as they are listed.
func (c *checker) keySig(base string, l int) string {
	if c.r.IsKnown(base) {
		return base
	}
	return base + ":" + lenBucket(l)
}

func (c *checker) maxSig(base string, l int) string {
	if c.r.IsKnown(base) {
		return base
	}
	return base + ":max" + lenBucket(l)
}

// proofAccepted: the proof is accepted as a proof of key under the trusted
// root; this is the only way a verifier can use it.
func proofAccepted(p fixedtree.Proof, key string, root util.Hash) (accepted bool, why string) {
	if err := p.IsValid(nil); err != nil {
		return false, "IsValid: " + err.Error()
	}
	if err := p.Prove(key); err != nil {
		return false, "Prove: " + err.Error()
	}
	ns := p.Nodes()
	last := ns[len(ns)-1]
	if last == nil || last.IsEmpty() || last.Hash() == nil || !last.Hash().Equal(root) {
		return false, "root differs"
	}
	return true, ""
}

func role(pos int, n fixedtree.Node, L int, key string, ancestors map[string]bool) string {
	var s string
	switch {
	case n != nil && !n.IsEmpty() && n.Key() == key:
		s = "proven"
		if pos == L-1 {
			s = "proven-root"
		}
	case pos == L-1:
		s = "root"
	case pos < 2:
		s = "child-of-proven"
	case n != nil && !n.IsEmpty() && ancestors[n.Key()]:
		s = "path"
	default:
		s = "sibling"
	}
	if n == nil || n.IsEmpty() {
		s += "-empty"
	}
	return s
}

// checkTree runs the whole oracle on one key list. exhaustive: every key's
// proof, every proof position and every tree node; otherwise nKeys sampled keys
// and nMut sampled mutations. allSites: every key change is tried at every site
// of the key (first, 25%, 50%, 75%, last byte; append; truncate), otherwise the
// sites rotate from one key change to the next.
func (c *checker) checkTree(treeNo int, via, prof string, keys []string, exhaustive, allSites bool, nKeys, nMut int) {
	r := c.r
	n := len(keys)
	rng := r.Rand(12, treeNo, n)
	base := c.wit(keys, treeNo, prof)
	tp := fmt.Sprintf("n=%d/kp=%s", n, prof)
	taken := map[string]bool{}
	longest, shortest, nonUTF8 := 0, 0, 0
	lenCount := map[string]int{}
	for i, k := range keys {
		taken[k] = true
		if len(k) > len(keys[longest]) {
			longest = i
		}
		if len(k) < len(keys[shortest]) {
			shortest = i
		}
		if !utf8.ValidString(k) {
			nonUTF8++
		}
		lenCount[lenClassOf(len(k))]++
	}
	for cl, cnt := range lenCount {
		r.Count("keys_of_length_class_"+cl, cnt)
	}
	r.Count("keys_not_valid_utf8", nonUTF8)
	r.Count("trees_of_key_profile_"+prof, 1)
	if len(lenCount) >= 3 {
		r.Count("trees_mixing_3_or_more_key_length_classes", 1)
	}
	treeMax := len(keys[longest])
	// longest key on the way from node i up to the root: the nodes whose hashes commit to node i
	pathMax := func(i int) int {
		m := len(keys[i])
		for a := i; a > 0; {
			a = refParent(a)
			if len(keys[a]) > m {
				m = len(keys[a])
			}
		}
		return m
	}

	// one key change. site "" = next site of the rotation.
	rotation := append(append([]string{}, mutSites...), "random")
	siteNo := rng.Intn(len(rotation))
	change := func(key, site string) (out, where string, ok bool) {
		if site == "" {
			site = rotation[siteNo%len(rotation)]
			siteNo++
		}
		out, off, ok := mutateKeyAt(rng, key, site, taken)
		if !ok && site != "random" {
			site = "random"
			out, off, ok = mutateKeyAt(rng, key, site, taken)
		}
		if !ok {
			r.Count("key_changes_skipped_no_free_key", 1)
			return "", "", false
		}
		r.Count("key_changes_at_"+site, 1)
		r.Count("key_changes_of_"+lenBucket(len(key)), 1)
		return out, fmt.Sprintf("%s@%d/%d", site, off, len(key)), true
	}
	sitesOf := func(key string, all bool) []string {
		if all {
			return sitesFor(len(key))
		}
		return []string{""}
	}

	tr, err := build(keys)
	r.Count("trees_built", 1)
	if err != nil {
		w := base
		w.Err = err.Error()
		r.Violation(c.maxSig("Writer.Tree:error-on-valid-keys", treeMax), fmt.Sprintf("Writer.Tree() failed for %d distinct non-empty keys: %v", n, err), w)
		return
	}
	r.Case(fmt.Sprintf("built/%s/t=%d", tp, treeNo))
	if err := tr.IsValid(nil); err != nil {
		w := base
		w.Err = err.Error()
		r.Violation(c.maxSig("Tree.IsValid:rejects-writer-built-tree", treeMax), fmt.Sprintf("tree of %d nodes built by Writer does not validate: %v", n, err), w)
		return
	}
	if tr.Len() != n {
		r.Violation("Writer.Tree:length-differs", fmt.Sprintf("tree has %d nodes, %d were added", tr.Len(), n), base)
		return
	}

	// every node's hash matches its key and children (integer reference);
	// bottom-up, so the node reported is one whose children are right
	ref := refHashes(keys)
	for i := n - 1; i >= 0; i-- {
		nd := tr.Node(uint64(i))
		if nd == nil || nd.Key() != keys[i] || nd.Hash() == nil || !nd.Hash().Equal(ref[i]) {
			w := base
			w.KeyIndex, w.Key, w.KeyLen = i, showKey(keys[i]), len(keys[i])
			var got interface{} = "<nil node>"
			if nd != nil {
				got = nd.Hash()
			}
			nch := 0
			for _, ch := range []int{2*i + 1, 2*i + 2} {
				if ch < n {
					nch++
				}
			}
			r.Violation(c.keySig(fmt.Sprintf("Writer.Tree:node-hash-not-hash-of-key-and-children:%d-children", nch), len(keys[i])),
				fmt.Sprintf("size %d node %d (key of %d bytes, %d children; the hashes of all nodes below it are right): hash %v, reference H(key|left|right) = %v", n, i, len(keys[i]), nch, got, ref[i]), w)
			if nd == nil || nd.Key() != keys[i] || nd.Hash() == nil {
				return
			}
			// the tree validates itself with hashes that are not the reference's: the
			// mutation oracles below still judge it by what it accepts
			break
		}
	}
	r.Count("node_hashes_compared_with_reference", n)
	root := tr.Root()
	nodes := append([]fixedtree.Node{}, tr.Nodes()...)

	// ---- proofs
	var keyIdx []int
	special := map[int]bool{} // sampled trees: the longest and the shortest key get every site
	if exhaustive || nKeys >= n {
		for i := 0; i < n; i++ {
			keyIdx = append(keyIdx, i)
		}
	} else {
		seen := map[int]bool{}
		add := func(i int) {
			if i >= 0 && i < n && !seen[i] {
				seen[i] = true
				keyIdx = append(keyIdx, i)
			}
		}
		// level boundaries (float log/pow) and the non-full last level
		add(0)
		add(n - 1)
		add(refParent(n - 1))
		add(refParent(n-1) + 1)
		for p := 2; p-1 < n; p *= 2 {
			add(p - 2)
			add(p - 1)
			add(p)
		}
		add(longest)
		add(shortest)
		special[longest], special[shortest] = true, true
		for len(keyIdx) < nKeys {
			add(rng.Intn(n))
		}
		sort.Ints(keyIdx)
	}

	perKeyMut := 0
	if !exhaustive && len(keyIdx) > 0 {
		perKeyMut = (nMut/2 + len(keyIdx) - 1) / len(keyIdx)
	}

	for _, ki := range keyIdx {
		key := keys[ki]
		kb := lenBucket(len(key))
		w := base
		w.KeyIndex, w.Key, w.KeyLen = ki, showKey(key), len(key)
		p, err := tr.Proof(key)
		r.Count("proofs_extracted", 1)
		if err != nil {
			w.Err = err.Error()
			r.Violation(c.keySig("Tree.Proof:fails-for-key-in-valid-tree", len(key)), fmt.Sprintf("size %d key index %d: %v", n, ki, err), w)
			continue
		}
		pn := p.Nodes()
		L := len(pn)
		w.Proof = nodeStrings(pn)
		proofMax := 0
		for _, x := range pn {
			if x != nil && !x.IsEmpty() && len(x.Key()) > proofMax {
				proofMax = len(x.Key())
			}
		}
		r.Case(fmt.Sprintf("proof/%s/k=%d/%s", tp, ki, kb))
		if err := p.IsValid(nil); err != nil {
			w.Err = err.Error()
			r.Violation(c.maxSig("Proof.IsValid:rejects-extracted-proof", proofMax), fmt.Sprintf("size %d key index %d: %v", n, ki, err), w)
			continue
		}
		if err := p.Prove(key); err != nil {
			w.Err = err.Error()
			r.Violation(c.maxSig("Proof.Prove:rejects-extracted-proof", proofMax), fmt.Sprintf("size %d key index %d: %v", n, ki, err), w)
			continue
		}
		if last := pn[L-1]; last == nil || last.Hash() == nil || !last.Hash().Equal(root) {
			r.Violation("Proof:last-node-is-not-tree-root", fmt.Sprintf("size %d key index %d: proof ends in %v, tree root %v", n, ki, last, root), w)
			continue
		}
		r.Count("proofs_verified", 1)
		r.Count("proofs_verified_of_"+kb, 1)
		// the proof must be about this key: the proven node is in it with the tree's hash
		provenPos := -1
		for pos, x := range pn {
			if x != nil && !x.IsEmpty() && x.Key() == key && x.Hash().Equal(nodes[ki].Hash()) {
				provenPos = pos
			}
		}
		if provenPos < 0 {
			r.Violation(c.keySig("Proof:does-not-contain-proven-node", len(key)), fmt.Sprintf("size %d key index %d", n, ki), w)
			continue
		}

		ancestors := map[string]bool{}
		for a := ki; a > 0; {
			a = refParent(a)
			ancestors[keys[a]] = true
		}

		tryMut := func(kind string, pos, pos2 int, site string) {
			m := append([]fixedtree.Node{}, pn...)
			var rl, where string
			sigLen, sigOfKey := proofMax, false
			switch kind {
			case "key":
				if m[pos].IsEmpty() {
					return
				}
				rl = role(pos, pn[pos], L, key, ancestors)
				nk, wh, ok := change(m[pos].Key(), site)
				if !ok {
					return
				}
				where = wh
				sigLen, sigOfKey = len(m[pos].Key()), true
				m[pos] = fixedtree.NewBaseNode(nk).SetHash(m[pos].Hash())
			case "hash":
				if m[pos].IsEmpty() {
					return
				}
				rl = role(pos, pn[pos], L, key, ancestors)
				m[pos] = fixedtree.NewBaseNode(m[pos].Key()).SetHash(flipHash(rng, m[pos].Hash()))
			case "emptiness":
				rl = role(pos, pn[pos], L, key, ancestors)
				if m[pos].IsEmpty() {
					var a [32]byte
					for i := range a {
						a[i] = byte(rng.Intn(256))
					}
					m[pos] = fixedtree.NewBaseNode(fmt.Sprintf("filled-%d", rng.Intn(1<<30))).SetHash(valuehash.L32(a))
				} else {
					m[pos] = fixedtree.EmptyBaseNode()
				}
			case "swap":
				if pn[pos].Equal(pn[pos2]) {
					return // not a change
				}
				rl = role(pos, pn[pos], L, key, ancestors) + "+" + role(pos2, pn[pos2], L, key, ancestors)
				if pos/2 == pos2/2 {
					rl += ":same-pair"
				}
				m[pos], m[pos2] = m[pos2], m[pos]
			}
			ww := w
			ww.Mutation, ww.Pos, ww.Pos2, ww.Site = kind, pos, pos2, where
			ww.Mutated = nodeStrings(m)
			var sig string
			if sigOfKey {
				sig = c.keySig("Proof:accepts-mutated:"+kind+":"+rl, sigLen)
				r.Case(fmt.Sprintf("pm/%s/k=%d/%s/%d/%s", tp, ki, kind, pos, where))
			} else {
				sig = c.maxSig("Proof:accepts-mutated:"+kind+":"+rl, sigLen)
				r.Case(fmt.Sprintf("pm/%s/k=%d/%s/%d/%d/max%s", tp, ki, kind, pos, pos2, lenBucket(proofMax)))
			}
			r.Count("proof_mutations_"+kind, 1)
			r.Guard(sig, ww, func() {
				if ok, _ := proofAccepted(fixedtree.NewProof(m), key, root); ok {
					r.Violation(sig,
						fmt.Sprintf("size %d, proof of key index %d (%s): %s mutation %s at proof position %d (%s) still passes IsValid, Prove(key) and carries the tree root", n, ki, showKey(key), kind, where, pos, rl), ww)
				} else {
					r.Count("proof_mutations_rejected", 1)
				}
			})
		}

		// forged membership: a proof built from this honest proof is presented
		// for a key K' that is in no node of the tree. Whatever its structure,
		// it must not be accepted under the trusted root.
		//   relabel         node at pos gets key K', keeps its hash (the other proof nodes stay)
		//   fabricate-leaf  node at pos (also an empty one) replaced by (K', H(K'))
		// K' is the key of that node (of the proven node for an empty one)
		// changed at one site. drop > 0: the first drop pairs are cut off, so
		// the node sits in a pair position the honest extraction never puts the
		// proven key in (first pair, or a lone root) and its children are not in
		// the proof.
		tryForge := func(kind string, pos, drop int, site string) {
			if pos < 2*drop {
				return
			}
			src := pn[pos]
			if kind == "relabel" && src.IsEmpty() {
				return
			}
			var from string
			if !src.IsEmpty() {
				from = src.Key()
			} else {
				from = key
			}
			fake, where, ok := change(from, site)
			if !ok {
				return
			}
			m := append([]fixedtree.Node{}, pn...)
			switch kind {
			case "relabel":
				m[pos] = fixedtree.NewBaseNode(fake).SetHash(src.Hash())
			case "fabricate-leaf":
				m[pos] = fixedtree.NewBaseNode(fake).SetHash(valuehash.NewSHA256([]byte(fake)))
			}
			m = m[2*drop:]
			rl := role(pos, pn[pos], L, key, ancestors)
			if drop > 0 {
				rl += ":leading-pairs-dropped"
			}
			r.Case(fmt.Sprintf("fg/%s/k=%d/%s/%d/%d/%s", tp, ki, kind, pos, drop, where))
			r.Count("forged_proofs_"+kind, 1)
			ww := w
			ww.Mutation, ww.Pos, ww.Pos2, ww.Site = "forge-"+kind+" claimed key "+showKey(fake), pos, drop, where
			ww.Mutated = nodeStrings(m)
			sig := c.keySig("Proof:forged-membership:"+kind+":"+rl, len(from))
			r.Guard(sig, ww, func() {
				if ok, _ := proofAccepted(fixedtree.NewProof(m), fake, root); ok {
					r.Violation(sig,
						fmt.Sprintf("size %d: key %s (a key of the tree changed at %s) is in no node of the tree, but the proof of key index %d with position %d (%s) changed by %s and %d leading pairs dropped passes IsValid, Prove of that key and carries the tree root", n, showKey(fake), where, ki, pos, rl, kind, drop), ww)
				} else {
					r.Count("forged_proofs_rejected", 1)
				}
			})
		}

		all := allSites || special[ki]
		if exhaustive {
			for pos := 0; pos < L; pos++ {
				for drop := 0; 2*drop <= pos; drop++ {
					tryForge("relabel", pos, drop, "")
					tryForge("fabricate-leaf", pos, drop, "")
				}
				if all && !pn[pos].IsEmpty() {
					for _, s := range sitesFor(len(pn[pos].Key())) {
						tryForge("relabel", pos, 0, s)
					}
				}
			}
		} else {
			for j := 0; j < perKeyMut+2; j++ {
				pos := rng.Intn(L)
				drop := 0
				if rng.Intn(2) == 0 {
					drop = rng.Intn(pos/2 + 1)
				}
				tryForge([]string{"relabel", "fabricate-leaf"}[rng.Intn(2)], pos, drop, "")
			}
			// always: the leaf-in-first-pair and lone-root shapes
			tryForge("relabel", 0, 0, "")
			tryForge("relabel", L-1, (L-1)/2, "")
			if L >= 5 {
				tryForge("relabel", 2, 1, "")
				tryForge("relabel", 3, 1, "")
			}
			// always: the proven key itself changed in its last byte only;
			// for the longest and the shortest key of the tree at every site
			for _, s := range sitesOf(key, all) {
				if s == "" {
					s = "last"
				}
				tryForge("relabel", provenPos, 0, s)
			}
		}

		if exhaustive {
			for pos := 0; pos < L; pos++ {
				if all && !pn[pos].IsEmpty() {
					for _, s := range sitesFor(len(pn[pos].Key())) {
						tryMut("key", pos, 0, s)
					}
				} else {
					tryMut("key", pos, 0, "")
				}
				tryMut("hash", pos, 0, "")
				tryMut("emptiness", pos, 0, "")
				for pos2 := pos + 1; pos2 < L; pos2++ {
					tryMut("swap", pos, pos2, "")
				}
			}
		} else {
			for j := 0; j < perKeyMut; j++ {
				kind := []string{"key", "hash", "emptiness", "swap"}[rng.Intn(4)]
				pos := rng.Intn(L)
				pos2 := 0
				if kind == "swap" {
					pos2 = rng.Intn(L)
					if pos2 == pos {
						continue
					}
					if pos2 < pos {
						pos, pos2 = pos2, pos
					}
				}
				tryMut(kind, pos, pos2, "")
			}
			// always: the last byte only of the root's key and of the proven key
			tryMut("key", L-1, 0, "last")
			if provenPos != L-1 {
				tryMut("key", provenPos, 0, "last")
			}
		}
	}

	// ---- tree node mutations and root sensitivity
	var mutIdx []int
	if exhaustive {
		for i := 0; i < n; i++ {
			mutIdx = append(mutIdx, i)
		}
	} else {
		seen := map[int]bool{}
		for _, i := range []int{0, 1, n - 1, refParent(n - 1), longest, shortest} {
			if i >= 0 && i < n && !seen[i] {
				seen[i] = true
				mutIdx = append(mutIdx, i)
			}
		}
		for len(mutIdx) < nMut/6 && len(mutIdx) < n {
			i := rng.Intn(n)
			if !seen[i] {
				seen[i] = true
				mutIdx = append(mutIdx, i)
			}
		}
	}
	for _, i := range mutIdx {
		var pl string
		switch {
		case i == 0:
			pl = "root"
		case 2*i+1 >= n:
			pl = "leaf"
		default:
			pl = "inner"
		}
		pm := pathMax(i)
		w := base
		w.KeyIndex, w.Key, w.KeyLen = i, showKey(keys[i]), len(keys[i])

		// hash of node i changed
		{
			m := append([]fixedtree.Node{}, nodes...)
			m[i] = fixedtree.NewBaseNode(keys[i]).SetHash(flipHash(rng, nodes[i].Hash()))
			ww := w
			ww.Mutation = "tree-hash"
			sig := c.maxSig("Tree.IsValid:accepts-mutated:hash:"+pl, pm)
			r.Case(fmt.Sprintf("tm/%s/i=%d/hash/max%s", tp, i, lenBucket(pm)))
			r.Count("tree_mutations_hash", 1)
			r.Guard(sig, ww, func() {
				mt, err := fixedtree.NewTree(treeHint, m)
				if err != nil {
					r.Count("tree_mutations_rejected", 1)
					return
				}
				if err := mt.IsValid(nil); err == nil {
					r.Violation(sig, fmt.Sprintf("size %d: hash of node %d (%s) changed, Tree.IsValid still nil", n, i, pl), ww)
				} else {
					r.Count("tree_mutations_rejected", 1)
				}
			})
		}

		// key of node i changed at one site: (a) in the valid tree, hash kept,
		// judged by Tree.IsValid; (b) tree rebuilt by the Writer, judged by the root
		sites := sitesOf(keys[i], allSites)
		if special[i] && !allSites {
			// sampled trees (every full-tree operation is O(n)): first, middle and last byte
			sites = []string{"first", "mid", "last"}
			if len(keys[i]) < 3 {
				sites = []string{"last", ""}
			}
		}
		for _, site := range sites {
			nk, where, ok := change(keys[i], site)
			if !ok {
				continue
			}
			m := append([]fixedtree.Node{}, nodes...)
			m[i] = fixedtree.NewBaseNode(nk).SetHash(nodes[i].Hash())
			ww := w
			ww.Mutation, ww.Site = "tree-key -> "+showKey(nk), where
			sig := c.keySig("Tree.IsValid:accepts-mutated:key:"+pl, len(keys[i]))
			r.Case(fmt.Sprintf("tm/%s/i=%d/key/%s", tp, i, where))
			r.Count("tree_mutations_key", 1)
			r.Guard(sig, ww, func() {
				mt, err := fixedtree.NewTree(treeHint, m)
				if err != nil {
					r.Count("tree_mutations_rejected", 1)
					return
				}
				if err := mt.IsValid(nil); err == nil {
					r.Violation(sig, fmt.Sprintf("size %d: key of node %d (%s, %d bytes) changed at %s, hash kept, Tree.IsValid still nil", n, i, pl, len(keys[i]), where), ww)
				} else {
					r.Count("tree_mutations_rejected", 1)
				}
			})

			k2 := append([]string{}, keys...)
			k2[i] = nk
			rw := w
			rw.Mutation, rw.Site = "rebuild-with-key "+showKey(nk), where
			r.Case(fmt.Sprintf("rk/%s/i=%d/%s/max%s", tp, i, where, lenBucket(pm)))
			r.Count("root_sensitivity_rebuilds", 1)
			r.Guard("Root:rebuild", rw, func() {
				t2, err := build(k2)
				if err != nil {
					rw.Err = err.Error()
					r.Violation(c.maxSig("Writer.Tree:error-on-valid-keys", treeMax), fmt.Sprintf("rebuild failed: %v", err), rw)
					return
				}
				if t2.Root().Equal(root) {
					r.Violation(c.maxSig("Root:unchanged-after-key-change:"+pl, pm),
						fmt.Sprintf("size %d: key of node %d (%s, %d bytes) changed at %s, root still %v; the longest key on the way from that node to the root has %d bytes", n, i, pl, len(keys[i]), where, root, pm), rw)
				}
			})
		}

		// the same rebuild, but the Writer is fed nodes that already carry hashes:
		// "from-tree" = the nodes of the valid tree with node i relabelled (its stale hash kept),
		// "foreign"   = every node carries a hash that belongs to nothing.
		nk, where, ok := change(keys[i], "")
		if !ok {
			continue
		}
		k2 := append([]string{}, keys...)
		k2[i] = nk
		ref2 := refHashes(k2)
		for _, variant := range []string{"from-tree", "foreign"} {
			src := make([]fixedtree.Node, n)
			for j := range src {
				switch {
				case variant == "foreign":
					src[j] = fixedtree.NewBaseNode(k2[j]).SetHash(flipHash(rng, ref[(j+1)%n]))
				case j == i:
					src[j] = fixedtree.NewBaseNode(k2[j]).SetHash(nodes[j].Hash())
				default:
					src[j] = nodes[j]
				}
			}
			vw := w
			vw.Mutation, vw.Site = "rebuild-"+variant+"-with-key "+showKey(nk), where
			r.Case(fmt.Sprintf("rh/%s/i=%d/%s/%s", tp, i, variant, where))
			r.Count("rebuilds_from_hashed_nodes_"+variant, 1)
			sigp := "Writer.rebuild-from-hashed-nodes:" + variant + ":"
			r.Guard(sigp+"panic", vw, func() {
				wr, err := fixedtree.NewWriter(treeHint, uint64(n))
				if err == nil {
					for j := range src {
						if err = wr.Add(uint64(j), src[j]); err != nil {
							break
						}
					}
				}
				var t2 fixedtree.Tree
				if err == nil {
					t2, err = wr.Tree()
				}
				if err != nil {
					vw.Err = err.Error()
					r.Violation(c.maxSig(sigp+"error", treeMax), fmt.Sprintf("size %d: Writer failed on nodes that carry hashes: %v", n, err), vw)
					return
				}
				if err := t2.IsValid(nil); err != nil {
					vw.Err = err.Error()
					r.Violation(c.maxSig(sigp+"built-tree-invalid:"+pl, pm), fmt.Sprintf("size %d: tree built by the Writer from hashed nodes (key of node %d, %s, changed at %s) does not validate: %v", n, i, pl, where, err), vw)
					return
				}
				if t2.Root().Equal(root) {
					r.Violation(c.maxSig(sigp+"root-unchanged-after-key-change:"+pl, pm), fmt.Sprintf("size %d: key of node %d (%s, %d bytes) changed at %s, root still %v", n, i, pl, len(keys[i]), where, root), vw)
					return
				}
				for j := n - 1; j >= 0; j-- {
					if nd := t2.Node(uint64(j)); nd == nil || nd.Key() != k2[j] || nd.Hash() == nil || !nd.Hash().Equal(ref2[j]) {
						r.Violation(c.keySig(sigp+"node-hash-not-hash-of-key-and-children", len(k2[j])), fmt.Sprintf("size %d node %d (key of %d bytes) after rebuild: node %v, reference %v", n, j, len(k2[j]), nd, ref2[j]), vw)
						return
					}
				}
				// proofs against the new root: the changed key, root, last, and all keys of small trees
				pk := []int{i, 0, n - 1}
				if n <= 24 {
					pk = pk[:0]
					for j := 0; j < n; j++ {
						pk = append(pk, j)
					}
				}
				for _, j := range pk {
					p, err := t2.Proof(k2[j])
					if err == nil {
						err = p.IsValid(nil)
					}
					if err == nil {
						err = p.Prove(k2[j])
					}
					if err == nil {
						if ns := p.Nodes(); !ns[len(ns)-1].Hash().Equal(t2.Root()) {
							err = fmt.Errorf("proof does not end in the new root")
						}
					}
					if err != nil {
						vw.Err = err.Error()
						r.Violation(c.keySig(sigp+"proof-of-key-fails-against-new-root", len(k2[j])), fmt.Sprintf("size %d: after rebuild with key of node %d changed, proof of key index %d: %v", n, i, j, err), vw)
						return
					}
					r.Count("proofs_verified_after_rebuild", 1)
				}
				r.Count("rebuilds_from_hashed_nodes_ok", 1)
			})
		}
	}
}

func TestC12(t *testing.T) {
	r := vlib.Start(t, "C12", vlib.LevelExploration)
	defer r.Finish()
	r.SetRule("case = one oracle evaluation on a tree built by the real fixedtree.Writer from PRNG keys: tree built+validated+compared node by node with an integer reference (children 2i+1, 2i+2); one key's extracted proof (IsValid, Prove(key), last node == Tree.Root); one single mutation of that proof (key/hash/emptiness of one proof node, swap of two non-equal proof nodes) judged by IsValid && Prove(key) && root==tree root; one forged membership proof (a proof node relabelled to, or replaced by a self-consistent leaf of, a key K' that is in no tree node, optionally with leading pairs dropped so K' sits in the first pair or is a lone root) judged by IsValid && Prove(K') && root==tree root; one tree-node key/hash mutation judged by Tree.IsValid; one rebuild with one key changed judged by the root; the same rebuild with the Writer fed nodes that already carry hashes (nodes of the valid tree with one relabelled, or all with foreign hashes) judged by Tree.IsValid, the integer reference, new root != old root and the proofs of the changed/root/last (all, n<=24) keys against the new root. " +
		"KEYS: every tree has a key profile kp: text-short#i / text-hashlike#i / text-1..40#i (random text + '#index'), len-1..65, len-95..257, len-all (key lengths 1, 2..8, 31/32/33, 63/64/65, 95/96/97, 127/128/129, 255/256/257, 1000, 5000 bytes dealt from a shuffled deck, so lengths are mixed within one tree), len-all-binary (the same with arbitrary bytes: NUL, 0xff, invalid UTF-8), prefix-last / prefix-middle (1..3 groups of keys of 33..1000 bytes with nested common prefixes that differ only in their last / only in middle byte(s)), suffix-chain (a key = its parent's or another node's key + a suffix of 1..129 bytes). " +
		"KEY CHANGES: every changed key (tree-node key mutation, rebuild, proof-node key mutation, forged key K') is an existing key changed at ONE site: one byte (one bit flipped or another byte) at offset first / 25% / 50% / 75% / last / random, one byte appended, or the last byte cut off; never a key of the tree. In key-class trees (via=key-classes) every site is tried for every node and every proof position; in every sampled tree the longest and the shortest key are always among the proven and the mutated ones (every site for the forged proven key, first/middle/last byte for the tree-node key mutation and the rebuild) and every proven key and every proof's root key is also changed in its last byte only; elsewhere the sites rotate from one key change to the next." +
		"sizes 1..E exhaustive over every key, every proof position and every tree node (half of them with a text-*#i profile, half with a key-class profile); every key-class profile additionally on a fixed list of small sizes, exhaustive with every site; larger sizes sampled (all 2^k-1, 2^k, 2^k+1 included), profile drawn per tree. distinct = (size, key profile, key index, mutation kind, positions, site@offset/keylen). Signatures end in the length class of the changed key (keylen<32|<64|<128|<256|>=256) or of the longest key among the nodes that commit to the changed field (maxkeylen...).")
	r.Assume("keys within one tree are distinct and non-empty (users key nodes by unique hashes); any byte string of length >= 1 is a legal key")
	r.Assume("a mutated proof counts as rejected if Proof.IsValid fails, Prove(key) fails, or its last node's hash differs from the trusted tree root")
	c := &checker{r: r}

	type job struct {
		no         int
		via        string
		prof       string
		size       int
		exhaustive bool
		allSites   bool
	}
	var jobs []job
	prng := r.Rand(12, 2)
	// half of the trees keep the text+'#index' keys, half get a key-class profile
	drawProfile := func() string {
		if prng.Intn(2) == 0 {
			return legacyProfiles[prng.Intn(len(legacyProfiles))]
		}
		return classProfiles[prng.Intn(len(classProfiles))]
	}
	E := 64
	for n := 1; n <= E; n++ {
		jobs = append(jobs, job{len(jobs), "exhaustive-small", drawProfile(), n, true, false})
	}
	r.Set("exhaustive_sizes", fmt.Sprintf("1..%d", E))
	// boundary sizes
	seen := map[int]bool{}
	var bsizes []int
	for p := 128; p <= 2048; p *= 2 {
		for _, s := range []int{p - 1, p, p + 1} {
			if s > E && s <= 2000 && !seen[s] {
				seen[s] = true
				bsizes = append(bsizes, s)
			}
		}
	}
	for _, s := range []int{65, 66, 1999, 2000} {
		if !seen[s] {
			seen[s] = true
			bsizes = append(bsizes, s)
		}
	}
	nLarge := r.N(40, 400)
	rng := r.Rand(12, 0)
	var sizes []int
	sizes = append(sizes, bsizes...)
	for len(sizes) < nLarge {
		sizes = append(sizes, 65+rng.Intn(2000-65+1))
	}
	if r.Thorough() {
		// beyond the stated 2000-node bound, informative for the float level arithmetic
		sizes = append(sizes, 4095, 4096, 4097, 65535, 65536, 65537, 100003)
	}
	nFirstLarge := len(jobs)
	for _, s := range sizes {
		prof := drawProfile()
		if s > 2000 && prof != profLenLow {
			prof = legacyProfiles[prng.Intn(len(legacyProfiles))] // keeps the >2000-node extras small in memory
		}
		jobs = append(jobs, job{len(jobs), "sampled-large", prof, s, false, false})
	}
	r.Set("large_tree_sizes", len(sizes))
	r.Set("boundary_sizes", bsizes)
	// every key-class profile on small trees: exhaustive over keys, positions,
	// nodes AND sites of every key change
	kcSizes := []int{1, 2, 3, 4, 5, 7, 8, 11, 16}
	if r.Thorough() {
		kcSizes = []int{1, 2, 3, 4, 5, 6, 7, 8, 9, 10, 11, 12, 15, 16, 17, 21, 31, 32, 33, 47}
	}
	nFirstKC := len(jobs)
	for _, prof := range classProfiles {
		for _, s := range kcSizes {
			jobs = append(jobs, job{len(jobs), "key-classes", prof, s, true, true})
		}
	}
	r.Set("key_class_profiles", classProfiles)
	r.Set("key_class_sizes_exhaustive_with_every_site", kcSizes)

	samples := make([]treeCase, len(jobs))
	vlib.Parallel(len(jobs), 16, func(i int) {
		j := jobs[i]
		keys := genKeys(r.Rand(12, 1, j.no, j.size), j.size, j.prof)
		minL, maxL := len(keys[0]), len(keys[0])
		for _, k := range keys {
			if len(k) < minL {
				minL = len(k)
			}
			if len(k) > maxL {
				maxL = len(k)
			}
		}
		tc := treeCase{Size: j.size, Via: j.via, Profile: j.prof, TreeNo: j.no, FirstKey: showKey(keys[0]), MinKeyLen: minL, MaxKeyLen: maxL}
		r.Guard("checkTree", tc, func() {
			c.checkTree(j.no, j.via, j.prof, keys, j.exhaustive, j.allSites, 64, 256)
		})
		if tr, err := build(keys); err == nil {
			tc.Root = tr.Root().String()
		}
		samples[i] = tc
	})
	for _, i := range []int{2, E - 1, nFirstLarge, nFirstKC + 4, nFirstKC + 3*len(kcSizes) + 6, len(jobs) - 1} {
		if i < len(samples) {
			r.Sample(samples[i])
		}
	}
	if r.Counter("proofs_verified") == 0 || r.Counter("proof_mutations_rejected") == 0 || r.Counter("tree_mutations_rejected") == 0 || r.Counter("forged_proofs_rejected") == 0 || r.Counter("rebuilds_from_hashed_nodes_ok") == 0 {
		r.Inconclusive("no proof verified or no mutation judged")
	}
	// the key dimension must have been driven: long keys, last-byte-only changes
	if r.Counter("key_changes_at_last") == 0 || r.Counter("key_changes_of_keylen>=256") == 0 || r.Counter("keys_of_length_class_5000") == 0 || r.Counter("keys_not_valid_utf8") == 0 {
		r.Inconclusive("key classes not driven: no last-byte change, no key of >=256 bytes changed, no 5000-byte key or no non-UTF-8 key")
	}
}
