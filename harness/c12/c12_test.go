package c12

import (
	"fmt"
	"sort"
	"testing"

	"github.com/spikeekips/mitum/util"
	"github.com/spikeekips/mitum/util/fixedtree"
	"github.com/spikeekips/mitum/util/hint"
	"github.com/spikeekips/mitum/util/valuehash"
	"verifharness/vlib"
)

var treeHint = hint.MustNewHint("test-tree-v0.0.1")

// ---------------------------------------------------------------- reference
// The fixed tree is a complete binary tree in array order (the in-tree test
// table of proof_test.go: children of i are 2i+1 and 2i+2). The reference uses
// integers only; the code under test uses float log/pow.

func refParent(i int) int { return (i - 1) / 2 }

// refHashes = "every node's hash matches its key and children", bottom-up.
func refHashes(keys []string) []util.Hash {
	n := len(keys)
	hs := make([]util.Hash, n)
	for i := n - 1; i >= 0; i-- {
		b := []byte(keys[i])
		if l := 2*i + 1; l < n {
			b = append(b, hs[l].Bytes()...)
		}
		if r := 2*i + 2; r < n {
			b = append(b, hs[r].Bytes()...)
		}
		hs[i] = valuehash.NewSHA256(b)
	}
	return hs
}

func build(keys []string) (fixedtree.Tree, error) {
	w, err := fixedtree.NewWriter(treeHint, uint64(len(keys)))
	if err != nil {
		return fixedtree.Tree{}, err
	}
	for i := range keys {
		if err := w.Add(uint64(i), fixedtree.NewBaseNode(keys[i])); err != nil {
			return fixedtree.Tree{}, err
		}
	}
	return w.Tree()
}

const keyAlphabet = "abcdefghijklmnopqrstuvwxyzABCDEFGHIJKLMNOPQRSTUVWXYZ0123456789-_/:. "

// ---------------------------------------------------------------- one tree

type treeCase struct {
	Size     int    `json:"size"`
	Via      string `json:"via"`
	TreeNo   int    `json:"tree_no"`
	Keys     int    `json:"keys_checked,omitempty"`
	FirstKey string `json:"first_key,omitempty"`
	Root     string `json:"root,omitempty"`
}

type witness struct {
	Size     int      `json:"size"`
	TreeNo   int      `json:"tree_no"`
	Keys     []string `json:"keys,omitempty"` // all keys when the tree is small
	KeyIndex int      `json:"key_index"`
	Key      string   `json:"key,omitempty"`
	Mutation string   `json:"mutation,omitempty"`
	Pos      int      `json:"pos"`
	Pos2     int      `json:"pos2,omitempty"`
	Proof    []string `json:"proof,omitempty"`
	Mutated  []string `json:"mutated,omitempty"`
	Err      string   `json:"err,omitempty"`
}

func nodeStrings(ns []fixedtree.Node) []string {
	out := make([]string, len(ns))
	for i, n := range ns {
		switch {
		case n == nil:
			out[i] = "<nil>"
		case n.IsEmpty():
			out[i] = "<empty>"
		default:
			out[i] = fmt.Sprintf("%v %s", n.Hash(), n.Key())
		}
	}
	return out
}

func errString(err error) string {
	if err == nil {
		return ""
	}
	return err.Error()
}

func flipHash(rng interface{ Intn(int) int }, h util.Hash) util.Hash {
	var a [32]byte
	copy(a[:], h.Bytes())
	bit := rng.Intn(256)
	a[bit/8] ^= 1 << uint(bit%8)
	return valuehash.L32(a)
}

func mutateKey(rng interface{ Intn(int) int }, key string, taken map[string]bool) string {
	for try := 0; try < 16; try++ {
		b := []byte(key)
		p := rng.Intn(len(b))
		c := keyAlphabet[rng.Intn(len(keyAlphabet))]
		if c == b[p] {
			continue
		}
		b[p] = c
		if !taken[string(b)] {
			return string(b)
		}
	}
	return key + "~mutated"
}

type checker struct {
	r *vlib.Run
}

func (c *checker) wit(keys []string, treeNo int) witness {
	w := witness{Size: len(keys), TreeNo: treeNo}
	if len(keys) <= 16 {
		w.Keys = keys
	}
	return w
}

// proofAccepted: the proof is accepted as a proof of key under the trusted
// root; this is the only way a verifier can use it.
func proofAccepted(p fixedtree.Proof, key string, root util.Hash) (accepted bool, why string) {
	if err := p.IsValid(nil); err != nil {
		return false, "IsValid: " + err.Error()
	}
	if err := p.Prove(key); err != nil {
		return false, "Prove: " + err.Error()
	}
	ns := p.Nodes()
	last := ns[len(ns)-1]
	if last == nil || last.IsEmpty() || last.Hash() == nil || !last.Hash().Equal(root) {
		return false, "root differs"
	}
	return true, ""
}

func role(pos int, n fixedtree.Node, L int, key string, ancestors map[string]bool) string {
	var s string
	switch {
	case n != nil && !n.IsEmpty() && n.Key() == key:
		s = "proven"
		if pos == L-1 {
			s = "proven-root"
		}
	case pos == L-1:
		s = "root"
	case pos < 2:
		s = "child-of-proven"
	case n != nil && !n.IsEmpty() && ancestors[n.Key()]:
		s = "path"
	default:
		s = "sibling"
	}
	if n == nil || n.IsEmpty() {
		s += "-empty"
	}
	return s
}

// checkTree runs the whole oracle on one key list. keyIdx: which keys get their
// proof checked; proofMut: for which of those all (exhaustive=true) or nMut
// sampled single mutations are tried; treeMut: which tree nodes are mutated.
func (c *checker) checkTree(treeNo int, via string, keys []string, exhaustive bool, nKeys, nMut int) {
	r := c.r
	n := len(keys)
	rng := r.Rand(12, treeNo, n)
	base := c.wit(keys, treeNo)
	taken := map[string]bool{}
	for _, k := range keys {
		taken[k] = true
	}

	tr, err := build(keys)
	r.Count("trees_built", 1)
	if err != nil {
		w := base
		w.Err = err.Error()
		r.Violation("Writer.Tree:error-on-valid-keys", fmt.Sprintf("Writer.Tree() failed for %d distinct non-empty keys: %v", n, err), w)
		return
	}
	r.Case(fmt.Sprintf("built/n=%d/t=%d", n, treeNo))
	if err := tr.IsValid(nil); err != nil {
		w := base
		w.Err = err.Error()
		r.Violation("Tree.IsValid:rejects-writer-built-tree", fmt.Sprintf("tree of %d nodes built by Writer does not validate: %v", n, err), w)
		return
	}
	if tr.Len() != n {
		r.Violation("Writer.Tree:length-differs", fmt.Sprintf("tree has %d nodes, %d were added", tr.Len(), n), base)
		return
	}

	// every node's hash matches its key and children (integer reference)
	ref := refHashes(keys)
	for i := 0; i < n; i++ {
		nd := tr.Node(uint64(i))
		if nd == nil || nd.Key() != keys[i] || nd.Hash() == nil || !nd.Hash().Equal(ref[i]) {
			w := base
			w.KeyIndex = i
			r.Violation("Writer.Tree:node-hash-not-hash-of-key-and-children",
				fmt.Sprintf("size %d node %d: hash %v, reference H(key|left|right) = %v", n, i, nd, ref[i]), w)
			return
		}
	}
	r.Count("node_hashes_compared_with_reference", n)
	root := tr.Root()
	nodes := append([]fixedtree.Node{}, tr.Nodes()...)

	// ---- proofs
	var keyIdx []int
	if exhaustive || nKeys >= n {
		for i := 0; i < n; i++ {
			keyIdx = append(keyIdx, i)
		}
	} else {
		seen := map[int]bool{}
		add := func(i int) {
			if i >= 0 && i < n && !seen[i] {
				seen[i] = true
				keyIdx = append(keyIdx, i)
			}
		}
		// level boundaries (float log/pow) and the non-full last level
		add(0)
		add(n - 1)
		add(refParent(n - 1))
		add(refParent(n-1) + 1)
		for p := 2; p-1 < n; p *= 2 {
			add(p - 2)
			add(p - 1)
			add(p)
		}
		for len(keyIdx) < nKeys {
			add(rng.Intn(n))
		}
		sort.Ints(keyIdx)
	}

	perKeyMut := 0
	if !exhaustive && len(keyIdx) > 0 {
		perKeyMut = (nMut/2 + len(keyIdx) - 1) / len(keyIdx)
	}

	for _, ki := range keyIdx {
		key := keys[ki]
		w := base
		w.KeyIndex, w.Key = ki, key
		p, err := tr.Proof(key)
		r.Count("proofs_extracted", 1)
		if err != nil {
			w.Err = err.Error()
			r.Violation("Tree.Proof:fails-for-key-in-valid-tree", fmt.Sprintf("size %d key index %d: %v", n, ki, err), w)
			continue
		}
		pn := p.Nodes()
		L := len(pn)
		w.Proof = nodeStrings(pn)
		r.Case(fmt.Sprintf("proof/n=%d/k=%d", n, ki))
		if err := p.IsValid(nil); err != nil {
			w.Err = err.Error()
			r.Violation("Proof.IsValid:rejects-extracted-proof", fmt.Sprintf("size %d key index %d: %v", n, ki, err), w)
			continue
		}
		if err := p.Prove(key); err != nil {
			w.Err = err.Error()
			r.Violation("Proof.Prove:rejects-extracted-proof", fmt.Sprintf("size %d key index %d: %v", n, ki, err), w)
			continue
		}
		if last := pn[L-1]; last == nil || last.Hash() == nil || !last.Hash().Equal(root) {
			r.Violation("Proof:last-node-is-not-tree-root", fmt.Sprintf("size %d key index %d: proof ends in %v, tree root %v", n, ki, last, root), w)
			continue
		}
		r.Count("proofs_verified", 1)
		// the proof must be about this key: the proven node is in it with the tree's hash
		found := false
		for _, x := range pn {
			if x != nil && !x.IsEmpty() && x.Key() == key && x.Hash().Equal(ref[ki]) {
				found = true
			}
		}
		if !found {
			r.Violation("Proof:does-not-contain-proven-node", fmt.Sprintf("size %d key index %d", n, ki), w)
			continue
		}

		ancestors := map[string]bool{}
		for a := ki; a > 0; {
			a = refParent(a)
			ancestors[keys[a]] = true
		}

		tryMut := func(kind string, pos, pos2 int) {
			m := append([]fixedtree.Node{}, pn...)
			var rl string
			switch kind {
			case "key":
				if m[pos].IsEmpty() {
					return
				}
				rl = role(pos, pn[pos], L, key, ancestors)
				m[pos] = fixedtree.NewBaseNode(mutateKey(rng, m[pos].Key(), taken)).SetHash(m[pos].Hash())
			case "hash":
				if m[pos].IsEmpty() {
					return
				}
				rl = role(pos, pn[pos], L, key, ancestors)
				m[pos] = fixedtree.NewBaseNode(m[pos].Key()).SetHash(flipHash(rng, m[pos].Hash()))
			case "emptiness":
				rl = role(pos, pn[pos], L, key, ancestors)
				if m[pos].IsEmpty() {
					var a [32]byte
					for i := range a {
						a[i] = byte(rng.Intn(256))
					}
					m[pos] = fixedtree.NewBaseNode(fmt.Sprintf("filled-%d", rng.Intn(1<<30))).SetHash(valuehash.L32(a))
				} else {
					m[pos] = fixedtree.EmptyBaseNode()
				}
			case "swap":
				if pn[pos].Equal(pn[pos2]) {
					return // not a change
				}
				rl = role(pos, pn[pos], L, key, ancestors) + "+" + role(pos2, pn[pos2], L, key, ancestors)
				if pos/2 == pos2/2 {
					rl += ":same-pair"
				}
				m[pos], m[pos2] = m[pos2], m[pos]
			}
			r.Case(fmt.Sprintf("pm/n=%d/k=%d/%s/%d/%d", n, ki, kind, pos, pos2))
			r.Count("proof_mutations_"+kind, 1)
			ww := w
			ww.Mutation, ww.Pos, ww.Pos2 = kind, pos, pos2
			ww.Mutated = nodeStrings(m)
			sig := "Proof:accepts-mutated:" + kind + ":" + rl
			r.Guard(sig, ww, func() {
				if ok, _ := proofAccepted(fixedtree.NewProof(m), key, root); ok {
					r.Violation(sig,
						fmt.Sprintf("size %d, proof of key index %d (%q): %s mutation at proof position %d (%s) still passes IsValid, Prove(key) and carries the tree root", n, ki, key, kind, pos, rl), ww)
				} else {
					r.Count("proof_mutations_rejected", 1)
				}
			})
		}

		// forged membership: a proof built from this honest proof is presented
		// for a key K' that is in no node of the tree. Whatever its structure,
		// it must not be accepted under the trusted root.
		//   relabel         node at pos gets key K', keeps its hash (the other proof nodes stay)
		//   fabricate-leaf  node at pos (also an empty one) replaced by (K', H(K'))
		// drop > 0: the first drop pairs are cut off, so the node sits in a
		// pair position the honest extraction never puts the proven key in
		// (first pair, or a lone root) and its children are not in the proof.
		tryForge := func(kind string, pos, drop int) {
			if pos < 2*drop {
				return
			}
			src := pn[pos]
			if kind == "relabel" && src.IsEmpty() {
				return
			}
			var from string
			if !src.IsEmpty() {
				from = src.Key()
			} else {
				from = key
			}
			fake := mutateKey(rng, from, taken)
			if taken[fake] {
				return
			}
			m := append([]fixedtree.Node{}, pn...)
			switch kind {
			case "relabel":
				m[pos] = fixedtree.NewBaseNode(fake).SetHash(src.Hash())
			case "fabricate-leaf":
				m[pos] = fixedtree.NewBaseNode(fake).SetHash(valuehash.NewSHA256([]byte(fake)))
			}
			m = m[2*drop:]
			rl := role(pos, pn[pos], L, key, ancestors)
			if drop > 0 {
				rl += ":leading-pairs-dropped"
			}
			r.Case(fmt.Sprintf("fg/n=%d/k=%d/%s/%d/%d", n, ki, kind, pos, drop))
			r.Count("forged_proofs_"+kind, 1)
			ww := w
			ww.Mutation, ww.Pos, ww.Pos2 = "forge-"+kind+" claimed key "+fake, pos, drop
			ww.Mutated = nodeStrings(m)
			sig := "Proof:forged-membership:" + kind + ":" + rl
			r.Guard(sig, ww, func() {
				if ok, _ := proofAccepted(fixedtree.NewProof(m), fake, root); ok {
					r.Violation(sig,
						fmt.Sprintf("size %d: key %q is in no node of the tree, but the proof of key index %d with position %d (%s) changed by %s and %d leading pairs dropped passes IsValid, Prove(%q) and carries the tree root", n, fake, ki, pos, rl, kind, drop, fake), ww)
				} else {
					r.Count("forged_proofs_rejected", 1)
				}
			})
		}

		if exhaustive {
			for pos := 0; pos < L; pos++ {
				for drop := 0; 2*drop <= pos; drop++ {
					tryForge("relabel", pos, drop)
					tryForge("fabricate-leaf", pos, drop)
				}
			}
		} else {
			for j := 0; j < perKeyMut+2; j++ {
				pos := rng.Intn(L)
				drop := 0
				if rng.Intn(2) == 0 {
					drop = rng.Intn(pos/2 + 1)
				}
				tryForge([]string{"relabel", "fabricate-leaf"}[rng.Intn(2)], pos, drop)
			}
			// always: the leaf-in-first-pair and lone-root shapes
			tryForge("relabel", 0, 0)
			tryForge("relabel", L-1, (L-1)/2)
			if L >= 5 {
				tryForge("relabel", 2, 1)
				tryForge("relabel", 3, 1)
			}
		}

		if exhaustive {
			for pos := 0; pos < L; pos++ {
				tryMut("key", pos, 0)
				tryMut("hash", pos, 0)
				tryMut("emptiness", pos, 0)
				for pos2 := pos + 1; pos2 < L; pos2++ {
					tryMut("swap", pos, pos2)
				}
			}
		} else {
			for j := 0; j < perKeyMut; j++ {
				kind := []string{"key", "hash", "emptiness", "swap"}[rng.Intn(4)]
				pos := rng.Intn(L)
				pos2 := 0
				if kind == "swap" {
					pos2 = rng.Intn(L)
					if pos2 == pos {
						continue
					}
					if pos2 < pos {
						pos, pos2 = pos2, pos
					}
				}
				tryMut(kind, pos, pos2)
			}
		}
	}

	// ---- tree node mutations and root sensitivity
	var mutIdx []int
	if exhaustive {
		for i := 0; i < n; i++ {
			mutIdx = append(mutIdx, i)
		}
	} else {
		seen := map[int]bool{}
		for _, i := range []int{0, 1, n - 1, refParent(n - 1)} {
			if i >= 0 && i < n && !seen[i] {
				seen[i] = true
				mutIdx = append(mutIdx, i)
			}
		}
		for len(mutIdx) < nMut/6 && len(mutIdx) < n {
			i := rng.Intn(n)
			if !seen[i] {
				seen[i] = true
				mutIdx = append(mutIdx, i)
			}
		}
	}
	for _, i := range mutIdx {
		var pl string
		switch {
		case i == 0:
			pl = "root"
		case 2*i+1 >= n:
			pl = "leaf"
		default:
			pl = "inner"
		}
		w := base
		w.KeyIndex, w.Key = i, keys[i]
		for _, kind := range []string{"key", "hash"} {
			m := append([]fixedtree.Node{}, nodes...)
			if kind == "key" {
				m[i] = fixedtree.NewBaseNode(mutateKey(rng, keys[i], taken)).SetHash(nodes[i].Hash())
			} else {
				m[i] = fixedtree.NewBaseNode(keys[i]).SetHash(flipHash(rng, nodes[i].Hash()))
			}
			ww := w
			ww.Mutation = "tree-" + kind
			sig := "Tree.IsValid:accepts-mutated:" + kind + ":" + pl
			r.Case(fmt.Sprintf("tm/n=%d/i=%d/%s", n, i, kind))
			r.Count("tree_mutations_"+kind, 1)
			r.Guard(sig, ww, func() {
				mt, err := fixedtree.NewTree(treeHint, m)
				if err != nil {
					r.Count("tree_mutations_rejected", 1)
					return
				}
				if err := mt.IsValid(nil); err == nil {
					r.Violation(sig, fmt.Sprintf("size %d: %s of node %d (%s) changed, Tree.IsValid still nil", n, kind, i, pl), ww)
				} else {
					r.Count("tree_mutations_rejected", 1)
				}
			})
		}
		// root changes whenever a node's key changes (tree rebuilt by the Writer)
		k2 := append([]string{}, keys...)
		k2[i] = mutateKey(rng, keys[i], taken)
		ww := w
		ww.Mutation = "rebuild-with-key " + k2[i]
		r.Case(fmt.Sprintf("rk/n=%d/i=%d", n, i))
		r.Count("root_sensitivity_rebuilds", 1)
		r.Guard("Root:rebuild", ww, func() {
			t2, err := build(k2)
			if err != nil {
				ww.Err = err.Error()
				r.Violation("Writer.Tree:error-on-valid-keys", fmt.Sprintf("rebuild failed: %v", err), ww)
				return
			}
			if t2.Root().Equal(root) {
				r.Violation("Root:unchanged-after-key-change:"+pl, fmt.Sprintf("size %d: key of node %d (%s) changed, root still %v", n, i, pl, root), ww)
			}
		})

		// the same rebuild, but the Writer is fed nodes that already carry hashes:
		// "from-tree" = the nodes of the valid tree with node i relabelled (its stale hash kept),
		// "foreign"   = every node carries a hash that belongs to nothing.
		ref2 := refHashes(k2)
		for _, variant := range []string{"from-tree", "foreign"} {
			src := make([]fixedtree.Node, n)
			for j := range src {
				switch {
				case variant == "foreign":
					src[j] = fixedtree.NewBaseNode(k2[j]).SetHash(flipHash(rng, ref[(j+1)%n]))
				case j == i:
					src[j] = fixedtree.NewBaseNode(k2[j]).SetHash(nodes[j].Hash())
				default:
					src[j] = nodes[j]
				}
			}
			vw := w
			vw.Mutation = "rebuild-" + variant + "-with-key " + k2[i]
			r.Case(fmt.Sprintf("rh/n=%d/i=%d/%s", n, i, variant))
			r.Count("rebuilds_from_hashed_nodes_"+variant, 1)
			sigp := "Writer.rebuild-from-hashed-nodes:" + variant + ":"
			r.Guard(sigp+"panic", vw, func() {
				wr, err := fixedtree.NewWriter(treeHint, uint64(n))
				if err == nil {
					for j := range src {
						if err = wr.Add(uint64(j), src[j]); err != nil {
							break
						}
					}
				}
				var t2 fixedtree.Tree
				if err == nil {
					t2, err = wr.Tree()
				}
				if err != nil {
					vw.Err = err.Error()
					r.Violation(sigp+"error", fmt.Sprintf("size %d: Writer failed on nodes that carry hashes: %v", n, err), vw)
					return
				}
				if err := t2.IsValid(nil); err != nil {
					vw.Err = err.Error()
					r.Violation(sigp+"built-tree-invalid:"+pl, fmt.Sprintf("size %d: tree built by the Writer from hashed nodes (key of node %d, %s, changed) does not validate: %v", n, i, pl, err), vw)
					return
				}
				if t2.Root().Equal(root) {
					r.Violation(sigp+"root-unchanged-after-key-change:"+pl, fmt.Sprintf("size %d: key of node %d (%s) changed, root still %v", n, i, pl, root), vw)
					return
				}
				for j := 0; j < n; j++ {
					if nd := t2.Node(uint64(j)); nd == nil || nd.Key() != k2[j] || nd.Hash() == nil || !nd.Hash().Equal(ref2[j]) {
						r.Violation(sigp+"node-hash-not-hash-of-key-and-children", fmt.Sprintf("size %d node %d after rebuild: %v, reference %v", n, j, nd, ref2[j]), vw)
						return
					}
				}
				// proofs against the new root: the changed key, root, last, and all keys of small trees
				pk := []int{i, 0, n - 1}
				if n <= 24 {
					pk = pk[:0]
					for j := 0; j < n; j++ {
						pk = append(pk, j)
					}
				}
				for _, j := range pk {
					p, err := t2.Proof(k2[j])
					if err == nil {
						err = p.IsValid(nil)
					}
					if err == nil {
						err = p.Prove(k2[j])
					}
					if err == nil {
						if ns := p.Nodes(); !ns[len(ns)-1].Hash().Equal(t2.Root()) {
							err = fmt.Errorf("proof does not end in the new root")
						}
					}
					if err != nil {
						vw.Err = err.Error()
						r.Violation(sigp+"proof-of-key-fails-against-new-root", fmt.Sprintf("size %d: after rebuild with key of node %d changed, proof of key index %d: %v", n, i, j, err), vw)
						return
					}
					r.Count("proofs_verified_after_rebuild", 1)
				}
				r.Count("rebuilds_from_hashed_nodes_ok", 1)
			})
		}
	}
}

func genKeys(rng interface{ Intn(int) int }, n int) []string {
	keys := make([]string, n)
	style := rng.Intn(3)
	for i := range keys {
		var l int
		switch style {
		case 0:
			l = 1 + rng.Intn(6) // short keys
		case 1:
			l = 32 + rng.Intn(16) // hash-string like
		default:
			l = 1 + rng.Intn(40)
		}
		b := make([]byte, l)
		for j := range b {
			b[j] = keyAlphabet[rng.Intn(len(keyAlphabet))]
		}
		// "#i" makes keys distinct (the tree's users key nodes by unique fact/state hashes)
		keys[i] = fmt.Sprintf("%s#%d", b, i)
	}
	return keys
}

func TestC12(t *testing.T) {
	r := vlib.Start(t, "C12", vlib.LevelExploration)
	defer r.Finish()
	r.SetRule("case = one oracle evaluation on a tree built by the real fixedtree.Writer from PRNG keys: tree built+validated+compared node by node with an integer reference (children 2i+1, 2i+2); one key's extracted proof (IsValid, Prove(key), last node == Tree.Root); one single mutation of that proof (key/hash/emptiness of one proof node, swap of two non-equal proof nodes) judged by IsValid && Prove(key) && root==tree root; one forged membership proof (a proof node relabelled to, or replaced by a self-consistent leaf of, a key K' that is in no tree node, optionally with leading pairs dropped so K' sits in the first pair or is a lone root) judged by IsValid && Prove(K') && root==tree root; one tree-node key/hash mutation judged by Tree.IsValid; one rebuild with one key changed judged by the root; the same rebuild with the Writer fed nodes that already carry hashes (nodes of the valid tree with one relabelled, or all with foreign hashes) judged by Tree.IsValid, the integer reference, new root != old root and the proofs of the changed/root/last (all, n<=24) keys against the new root. sizes 1..E exhaustive over every key, every proof position and every tree node; larger sizes sampled (all 2^k-1, 2^k, 2^k+1 included). distinct = (size, key index, mutation kind, positions)")
	r.Assume("keys within one tree are distinct and non-empty (users key nodes by unique hashes)")
	r.Assume("a mutated proof counts as rejected if Proof.IsValid fails, Prove(key) fails, or its last node's hash differs from the trusted tree root")
	c := &checker{r: r}

	type job struct {
		no         int
		via        string
		size       int
		exhaustive bool
	}
	var jobs []job
	E := 64
	for n := 1; n <= E; n++ {
		jobs = append(jobs, job{len(jobs), "exhaustive-small", n, true})
	}
	r.Set("exhaustive_sizes", fmt.Sprintf("1..%d", E))
	// boundary sizes
	seen := map[int]bool{}
	var bsizes []int
	for p := 128; p <= 2048; p *= 2 {
		for _, s := range []int{p - 1, p, p + 1} {
			if s > E && s <= 2000 && !seen[s] {
				seen[s] = true
				bsizes = append(bsizes, s)
			}
		}
	}
	for _, s := range []int{65, 66, 1999, 2000} {
		if !seen[s] {
			seen[s] = true
			bsizes = append(bsizes, s)
		}
	}
	nLarge := r.N(40, 400)
	rng := r.Rand(12, 0)
	var sizes []int
	sizes = append(sizes, bsizes...)
	for len(sizes) < nLarge {
		sizes = append(sizes, 65+rng.Intn(2000-65+1))
	}
	if r.Thorough() {
		// beyond the stated 2000-node bound, informative for the float level arithmetic
		sizes = append(sizes, 4095, 4096, 4097, 65535, 65536, 65537, 100003)
	}
	for _, s := range sizes {
		jobs = append(jobs, job{len(jobs), "sampled-large", s, false})
	}
	r.Set("large_tree_sizes", len(sizes))
	r.Set("boundary_sizes", bsizes)

	samples := make([]treeCase, len(jobs))
	vlib.Parallel(len(jobs), 16, func(i int) {
		j := jobs[i]
		keys := genKeys(r.Rand(12, 1, j.no, j.size), j.size)
		tc := treeCase{Size: j.size, Via: j.via, TreeNo: j.no, FirstKey: keys[0]}
		r.Guard("checkTree", tc, func() {
			c.checkTree(j.no, j.via, keys, j.exhaustive, 64, 256)
		})
		if tr, err := build(keys); err == nil {
			tc.Root = tr.Root().String()
		}
		samples[i] = tc
	})
	for _, i := range []int{0, 2, 33, E - 1, E, len(jobs) - 1} {
		if i < len(samples) {
			r.Sample(samples[i])
		}
	}
	if r.Counter("proofs_verified") == 0 || r.Counter("proof_mutations_rejected") == 0 || r.Counter("tree_mutations_rejected") == 0 || r.Counter("forged_proofs_rejected") == 0 || r.Counter("rebuilds_from_hashed_nodes_ok") == 0 {
		r.Inconclusive("no proof verified or no mutation judged")
	}
}
