package c12

import (
	"fmt"
	"math/rand"
	"unicode/utf8"
)

// ---------------------------------------------------------------- key classes
// The statement quantifies over any key. Keys are Go strings, so any byte
// content and any length >= 1 is a legal key. The generator below makes the
// key LENGTH and the key CONTENT a dimension of every tree.

// length classes: 1 byte, short, the three lengths around every multiple of 32
// up to 128 and around 256 (block/buffer boundaries of anything that hashes or
// copies keys), 1000 and 5000 bytes.
type lenClass struct {
	name   string
	lo, hi int
	w      int // copies in one deck
}

var lenClasses = []lenClass{
	{"1", 1, 1, 3}, {"short", 2, 8, 4},
	{"31", 31, 31, 2}, {"32", 32, 32, 2}, {"33", 33, 33, 2},
	{"63", 63, 63, 2}, {"64", 64, 64, 2}, {"65", 65, 65, 2},
	{"95", 95, 95, 2}, {"96", 96, 96, 2}, {"97", 97, 97, 2},
	{"127", 127, 127, 2}, {"128", 128, 128, 2}, {"129", 129, 129, 2},
	{"255", 255, 255, 2}, {"256", 256, 256, 2}, {"257", 257, 257, 2},
	{"1000", 1000, 1000, 2}, {"5000", 5000, 5000, 1},
}

// lenClassOf names the length class of an actual key (evidence counters).
func lenClassOf(l int) string {
	for _, c := range lenClasses {
		if l >= c.lo && l <= c.hi {
			return c.name
		}
	}
	return "other"
}

// lenBucket is the coarse length class used in violation signatures.
func lenBucket(l int) string {
	switch {
	case l < 32:
		return "keylen<32"
	case l < 64:
		return "keylen<64"
	case l < 128:
		return "keylen<128"
	case l < 256:
		return "keylen<256"
	default:
		return "keylen>=256"
	}
}

// key profiles (one per tree)
const (
	profLegacyShort = "text-short#i"    // 1..6 random bytes + "#index"
	profLegacyHash  = "text-hashlike#i" // 32..47 random bytes + "#index"
	profLegacyVar   = "text-1..40#i"    // 1..40 random bytes + "#index"
	profLenLow      = "len-1..65"       // lengths 1, 2..8, 31/32/33, 63/64/65 mixed in one tree
	profLenHigh     = "len-95..257"     // lengths 95/96/97, 127/128/129, 255/256/257 mixed in one tree
	profLenMixed    = "len-all"         // every length class (1..5000) mixed in one tree
	profLenMixedBin = "len-all-binary"  // the same with arbitrary bytes (non-UTF-8, NUL)
	profPrefixLast  = "prefix-last"     // keys share a long prefix and differ only in their last byte(s)
	profPrefixMid   = "prefix-middle"   // keys share everything but byte(s) in the middle
	profSuffixChain = "suffix-chain"    // a key is another key of the tree (often its parent's) plus a suffix
)

var legacyProfiles = []string{profLegacyShort, profLegacyHash, profLegacyVar}
var classProfiles = []string{profLenLow, profLenHigh, profLenMixed, profLenMixedBin, profPrefixLast, profPrefixMid, profSuffixChain}

func randText(rng *rand.Rand, l int) []byte {
	b := make([]byte, l)
	for j := range b {
		b[j] = keyAlphabet[rng.Intn(len(keyAlphabet))]
	}
	return b
}

// randBin: arbitrary bytes; NUL, 0xff and a lone continuation byte are put in
// when there is room, so the key is not valid UTF-8.
func randBin(rng *rand.Rand, l int) []byte {
	b := make([]byte, l)
	for j := range b {
		b[j] = byte(rng.Intn(256))
	}
	for _, c := range []byte{0xff, 0x00, 0x80} {
		if l >= 4 {
			b[rng.Intn(l)] = c
		}
	}
	return b
}

func deckOf(rng *rand.Rand, pick func(lenClass) bool) []lenClass {
	var d []lenClass
	for _, c := range lenClasses {
		if pick(c) {
			for k := 0; k < c.w; k++ {
				d = append(d, c)
			}
		}
	}
	rng.Shuffle(len(d), func(i, j int) { d[i], d[j] = d[j], d[i] })
	return d
}

// encodeDisc writes v in d digits of base len(digits).
func encodeDisc(v, d int, binary bool) []byte {
	out := make([]byte, d)
	base := len(keyAlphabet)
	if binary {
		base = 256
	}
	for k := d - 1; k >= 0; k-- {
		if binary {
			out[k] = byte(v % base)
		} else {
			out[k] = keyAlphabet[v%base]
		}
		v /= base
	}
	return out
}

// genKeys returns n distinct non-empty keys of the given profile.
func genKeys(rng *rand.Rand, n int, prof string) []string {
	keys := make([]string, n)
	taken := make(map[string]bool, n)
	put := func(i int, k string) bool {
		if k == "" || taken[k] {
			return false
		}
		taken[k] = true
		keys[i] = k
		return true
	}
	// a key of exactly l bytes; when the class is exhausted (1-byte keys in a
	// big tree) the next length is used
	fresh := func(i, l int, binary bool) {
		for try := 0; ; try++ {
			var b []byte
			if binary {
				b = randBin(rng, l)
			} else {
				b = randText(rng, l)
			}
			if put(i, string(b)) {
				return
			}
			if try%8 == 7 {
				l++
			}
		}
	}

	switch prof {
	case profLegacyShort, profLegacyHash, profLegacyVar:
		for i := range keys {
			var l int
			switch prof {
			case profLegacyShort:
				l = 1 + rng.Intn(6)
			case profLegacyHash:
				l = 32 + rng.Intn(16)
			default:
				l = 1 + rng.Intn(40)
			}
			// "#i" makes keys distinct (the tree's users key nodes by unique fact/state hashes)
			put(i, fmt.Sprintf("%s#%d", randText(rng, l), i))
		}
	case profLenLow, profLenHigh, profLenMixed, profLenMixedBin:
		pick := func(c lenClass) bool {
			switch prof {
			case profLenLow:
				return c.hi <= 65
			case profLenHigh:
				return c.lo >= 95 && c.hi <= 257
			}
			return true
		}
		var deck []lenClass
		for i := range keys {
			if len(deck) == 0 {
				deck = deckOf(rng, pick)
			}
			c := deck[0]
			deck = deck[1:]
			fresh(i, c.lo+rng.Intn(c.hi-c.lo+1), prof == profLenMixedBin)
		}
	case profPrefixLast, profPrefixMid:
		binary := rng.Intn(2) == 0
		base := len(keyAlphabet)
		if binary {
			base = 256
		}
		groups := 1 + rng.Intn(3)
		if groups > n {
			groups = n
		}
		per := (n + groups - 1) / groups
		d := 1
		for cap := base; cap < 2*per; cap *= base {
			d++
		}
		// total key lengths of the groups: increasing, so the prefix of a group
		// is the prefix of the next one, extended
		lens := []int{33, 64, 65, 96, 97, 128, 129, 256, 257, 1000}
		rng.Shuffle(len(lens), func(i, j int) { lens[i], lens[j] = lens[j], lens[i] })
		lens = lens[:groups]
		for i := 1; i < len(lens); i++ {
			for j := i; j > 0 && lens[j] < lens[j-1]; j-- {
				lens[j], lens[j-1] = lens[j-1], lens[j]
			}
		}
		prefixes := make([][]byte, groups)
		var cur []byte
		for g := range prefixes {
			ext := lens[g] - d - len(cur)
			if binary {
				cur = append(append([]byte{}, cur...), randBin(rng, ext)...)
			} else {
				cur = append(append([]byte{}, cur...), randText(rng, ext)...)
			}
			prefixes[g] = cur
		}
		off := rng.Intn(1 << 20)
		for i := range keys {
			g := i % groups
			p := prefixes[g]
			disc := encodeDisc(off+i/groups, d, binary)
			var k []byte
			if prof == profPrefixLast {
				k = append(append(k, p...), disc...)
			} else {
				m := len(p) / 2
				k = append(append(append(k, p[:m]...), disc...), p[m:]...)
			}
			if !put(i, string(k)) {
				panic("harness: prefix profile made a duplicate key")
			}
		}
	case profSuffixChain:
		binary := rng.Intn(2) == 0
		deck := deckOf(rng, func(c lenClass) bool { return c.hi <= 257 })
		fresh(0, deck[0].lo+rng.Intn(deck[0].hi-deck[0].lo+1), binary)
		for i := 1; i < n; i++ {
			for {
				j := refParent(i)
				if rng.Intn(2) == 0 {
					j = rng.Intn(i)
				}
				var sl int
				switch rng.Intn(8) {
				case 0, 1, 2, 3:
					sl = 1
				case 4, 5, 6:
					sl = 1 + rng.Intn(3)
				default:
					sl = []int{31, 32, 33, 63, 64, 65, 127, 128, 129}[rng.Intn(9)]
				}
				if len(keys[j])+sl > 6000 {
					j, sl = 0, 1+rng.Intn(3)
				}
				var s []byte
				if binary {
					s = randBin(rng, sl)
				} else {
					s = randText(rng, sl)
				}
				if put(i, keys[j]+string(s)) {
					break
				}
			}
		}
	default:
		panic("harness: unknown key profile " + prof)
	}
	return keys
}

// ---------------------------------------------------------------- key mutations
// A key is changed in exactly one place. site says where.
var mutSites = []string{"first", "q1", "mid", "q3", "last", "append", "truncate"}

func siteOffset(site string, l int) int {
	switch site {
	case "first":
		return 0
	case "q1":
		return l / 4
	case "mid":
		return l / 2
	case "q3":
		return (3 * l) / 4
	case "last":
		return l - 1
	}
	return -1
}

// sitesFor: the sites that are different changes for a key of l bytes (for a
// 1-byte key first/q1/mid/q3/last are the same byte).
func sitesFor(l int) []string {
	var out []string
	seen := map[int]bool{}
	for _, s := range mutSites {
		switch s {
		case "append":
		case "truncate":
			if l < 2 {
				continue
			}
		default:
			o := siteOffset(s, l)
			if seen[o] {
				continue
			}
			seen[o] = true
		}
		out = append(out, s)
	}
	return out
}

// mutateKeyAt changes key at the site: one byte replaced (one bit flipped, or
// another byte), one byte appended, or the last byte cut off. "random" = one
// byte at a random offset. ok=false: no such change gives a key that is
// non-empty, different and not a key of the tree.
func mutateKeyAt(rng *rand.Rand, key string, site string, taken map[string]bool) (out string, off int, ok bool) {
	l := len(key)
	for try := 0; try < 24; try++ {
		b := []byte(key)
		switch site {
		case "append":
			off = l
			if rng.Intn(2) == 0 {
				b = append(b, keyAlphabet[rng.Intn(len(keyAlphabet))])
			} else {
				b = append(b, byte(rng.Intn(256)))
			}
		case "truncate":
			if l < 2 {
				return "", 0, false
			}
			off = l - 1
			b = b[:l-1]
		default:
			if site == "random" {
				off = rng.Intn(l)
			} else {
				off = siteOffset(site, l)
			}
			switch rng.Intn(3) {
			case 0:
				b[off] ^= 1
			case 1:
				b[off] ^= 1 << uint(rng.Intn(8))
			default:
				b[off] = keyAlphabet[rng.Intn(len(keyAlphabet))]
			}
		}
		if s := string(b); s != key && s != "" && !taken[s] {
			return s, off, true
		}
		if site == "truncate" {
			return "", 0, false
		}
	}
	return "", 0, false
}

// showKey: keys in witnesses and samples; long or non-printable keys are abbreviated.
func showKey(k string) string {
	printable := utf8.ValidString(k)
	if printable {
		for _, c := range k {
			if c < 0x20 || c == 0x7f {
				printable = false
				break
			}
		}
	}
	if len(k) <= 80 && printable {
		return k
	}
	if len(k) <= 48 {
		return fmt.Sprintf("len=%d:%q", len(k), k)
	}
	return fmt.Sprintf("len=%d:%q...%q", len(k), k[:20], k[len(k)-20:])
}

func showKeys(ks []string) []string {
	out := make([]string, len(ks))
	for i, k := range ks {
		out[i] = showKey(k)
	}
	return out
}
