//go:build test

// Package blkrig produces real blocks on a local FS for the monitors C13, C15,
// C16 and C18: every block goes through the repository's own
// isaacblock.Writer -> DefaultStatesMerger -> LocalFSWriter path, so its item
// files, fixed trees, manifest, block map and suffrage proof are the real
// thing. It can also write a block from explicitly given components through
// LocalFSWriter only (used to build tampered variants whose checksums are
// recomputed and whose map is re-signed by the serving node).
package blkrig

import (
	"context"
	"fmt"
	"math/rand"
	"os"
	"sort"
	"sync"

	"github.com/pkg/errors"
	"github.com/spikeekips/mitum/base"
	"github.com/spikeekips/mitum/isaac"
	isaacblock "github.com/spikeekips/mitum/isaac/block"
	isaacdatabase "github.com/spikeekips/mitum/isaac/database"
	leveldbstorage "github.com/spikeekips/mitum/storage/leveldb"
	"github.com/spikeekips/mitum/util"
	"github.com/spikeekips/mitum/util/encoder"
	jsonenc "github.com/spikeekips/mitum/util/encoder/json"
	"github.com/spikeekips/mitum/util/fixedtree"
	"github.com/spikeekips/mitum/util/valuehash"
)

// Rig holds encoders, the block-signing local node and the network id.
type Rig struct {
	Encs      *encoder.Encoders
	Enc       encoder.Encoder
	Local     base.LocalNode
	NetworkID base.NetworkID
	Threshold base.Threshold
}

func must(err error) {
	if err != nil {
		panic(err)
	}
}

// New builds the encoders with every hint the block items need (the same
// registrations the repository's BaseTestDatabase / BaseTestLocalBlockFS make).
func New() *Rig {
	enc := jsonenc.NewEncoder()
	encs := encoder.NewEncoders(enc, enc)

	must(encs.AddHinter(base.DummyManifest{}))
	must(encs.AddHinter(base.DummyBlockMap{}))

	for _, d := range []encoder.DecodeDetail{
		{Hint: base.MPublickeyHint, Instance: &base.MPublickey{}},
		{Hint: base.StringAddressHint, Instance: base.StringAddress{}},
		{Hint: base.DummyNodeHint, Instance: base.BaseNode{}},
		{Hint: base.DummyStateValueHint, Instance: base.DummyStateValue{}},
		{Hint: base.BaseStateHint, Instance: base.BaseState{}},
		{Hint: isaac.SuffrageNodeStateValueHint, Instance: isaac.SuffrageNodeStateValue{}},
		{Hint: isaac.SuffrageNodesStateValueHint, Instance: isaac.SuffrageNodesStateValue{}},
		{Hint: isaac.ProposalFactHint, Instance: isaac.ProposalFact{}},
		{Hint: isaac.ProposalSignFactHint, Instance: isaac.ProposalSignFact{}},
		{Hint: isaacblock.BlockMapHint, Instance: isaacblock.BlockMap{}},
		{Hint: isaac.INITVoteproofHint, Instance: isaac.INITVoteproof{}},
		{Hint: isaac.ACCEPTVoteproofHint, Instance: isaac.ACCEPTVoteproof{}},
		{Hint: isaac.DummyOperationFactHint, Instance: isaac.DummyOperationFact{}},
		{Hint: isaac.DummyOperationHint, Instance: isaac.DummyOperation{}},
		{Hint: base.OperationFixedtreeHint, Instance: base.OperationFixedtreeNode{}},
		{Hint: base.StateFixedtreeHint, Instance: fixedtree.BaseNode{}},
		{Hint: base.BaseOperationProcessReasonErrorHint, Instance: base.BaseOperationProcessReasonError{}},
		{Hint: isaac.INITBallotFactHint, Instance: isaac.INITBallotFact{}},
		{Hint: isaac.ACCEPTBallotFactHint, Instance: isaac.ACCEPTBallotFact{}},
		{Hint: isaac.INITBallotSignFactHint, Instance: isaac.INITBallotSignFact{}},
		{Hint: isaac.ACCEPTBallotSignFactHint, Instance: isaac.ACCEPTBallotSignFact{}},
		{Hint: isaac.ManifestHint, Instance: isaac.Manifest{}},
		{Hint: isaac.BlockItemFileHint, Instance: isaac.BlockItemFile{}},
		{Hint: isaac.BlockItemFilesHint, Instance: isaac.BlockItemFiles{}},
		{Hint: isaacblock.SuffrageProofHint, Instance: isaacblock.SuffrageProof{}},
	} {
		must(encs.AddDetail(d))
	}

	return &Rig{
		Encs:      encs,
		Enc:       enc,
		Local:     base.RandomLocalNode(),
		NetworkID: base.RandomNetworkID(),
		Threshold: base.Threshold(100),
	}
}

// Readers opens the repository's block item readers on root.
func (r *Rig) Readers(root string) *isaac.BlockItemReaders {
	readers := isaac.NewBlockItemReaders(root, r.Encs, nil)
	must(readers.Add(isaacblock.LocalFSWriterHint, isaacblock.NewDefaultItemReaderFunc(3)))

	return readers
}

// Voteproofs signs an INIT and an ACCEPT voteproof by signers.
func (r *Rig) Voteproofs(
	point base.Point, prev, proposal, newblock util.Hash, signers []base.LocalNode,
) (base.INITVoteproof, base.ACCEPTVoteproof, error) {
	if len(signers) < 1 {
		signers = []base.LocalNode{r.Local}
	}

	ifact := isaac.NewINITBallotFact(point, prev, proposal, nil)
	isfs := make([]base.BallotSignFact, len(signers))

	for i := range signers {
		sf := isaac.NewINITBallotSignFact(ifact)
		if err := sf.NodeSign(signers[i].Privatekey(), r.NetworkID, signers[i].Address()); err != nil {
			return nil, nil, err
		}

		isfs[i] = sf
	}

	ivp := isaac.NewINITVoteproof(point)
	ivp.SetMajority(ifact).SetSignFacts(isfs).SetThreshold(r.Threshold).Finish()

	afact := isaac.NewACCEPTBallotFact(point, proposal, newblock, nil)
	asfs := make([]base.BallotSignFact, len(signers))

	for i := range signers {
		sf := isaac.NewACCEPTBallotSignFact(afact)
		if err := sf.NodeSign(signers[i].Privatekey(), r.NetworkID, signers[i].Address()); err != nil {
			return nil, nil, err
		}

		asfs[i] = sf
	}

	avp := isaac.NewACCEPTVoteproof(point)
	avp.SetMajority(afact).SetSignFacts(asfs).SetThreshold(r.Threshold).Finish()

	return ivp, avp, nil
}

// NewOperation makes a signed dummy operation (signed by the rig's local node,
// which also signs the block maps, as genesis operations must be).
func (r *Rig) NewOperation() base.Operation {
	fact := isaac.NewDummyOperationFact(util.UUID().Bytes(), valuehash.RandomSHA256())
	op, err := isaac.NewDummyOperation(fact, r.Local.Privatekey(), r.NetworkID)
	must(err)

	return op
}

// NewProposal makes a signed proposal.
func (r *Rig) NewProposal(point base.Point, prev util.Hash, ops []base.Operation) base.ProposalSignFact {
	ophs := make([][2]util.Hash, len(ops))
	for i := range ops {
		ophs[i] = [2]util.Hash{ops[i].Hash(), ops[i].Fact().Hash()}
	}

	pr := isaac.NewProposalSignFact(isaac.NewProposalFact(point, r.Local.Address(), prev, ophs))
	must(pr.Sign(r.Local.Privatekey(), r.NetworkID))

	return pr
}

// SuffrageValue makes a suffrage nodes state value.
func SuffrageValue(sufheight, start base.Height, nodes []base.Node) base.StateValue {
	sn := make([]base.SuffrageNodeStateValue, len(nodes))
	for i := range nodes {
		sn[i] = isaac.NewSuffrageNodeStateValue(nodes[i], start)
	}

	return isaac.NewSuffrageNodesStateValue(sufheight, sn)
}

// Block is a block as its components (decoded back from the files the real
// writer produced, or put together by a monitor for a tampered variant).
type Block struct {
	Height     base.Height
	Round      base.Round
	Proposal   base.ProposalSignFact
	Ops        []base.Operation
	OpsTree    fixedtree.Tree
	States     []base.State
	StatesTree fixedtree.Tree
	IVP        base.INITVoteproof
	AVP        base.ACCEPTVoteproof
	Manifest   base.Manifest
	Map        base.BlockMap
	// SufState/SufProof: set when the block changed the suffrage; SufProof is
	// the proof the real Writer handed to the block write database.
	SufState base.State
	SufProof base.SuffrageProof
}

// Point of the block.
func (b *Block) Point() base.Point { return base.NewPoint(b.Height, b.Round) }

// Clone copies the component references (slices copied).
func (b *Block) Clone() *Block {
	n := *b
	n.Ops = append([]base.Operation{}, b.Ops...)
	n.States = append([]base.State{}, b.States...)

	return &n
}

// Spec says what the next block of a chain contains.
type Spec struct {
	NOps int // in-state operations, each creating/updating NStatesPerOp dummy states
	// NStatesPerOp dummy states per operation; a share of them updates keys
	// of earlier blocks (so that State.Previous links are exercised)
	NStatesPerOp int
	// FailedOps: additional operations recorded as not-in-state (tree only).
	FailedOps int
	// Suffrage: change the suffrage in this block.
	Suffrage bool
	// SufHeightDelta: suffrage height = previous + delta (1 when honest;
	// other values are used by C13 for consistently-built "not +1" blocks).
	SufHeightDelta    int64
	SufHeightDeltaSet bool
	NNodes            int
	Round          base.Round
}

// Chain is a growing chain of real blocks under Root.
type Chain struct {
	R      *Rig
	Root   string
	Blocks []*Block
	// Proofs: suffrage proofs by suffrage height (as produced by the Writer)
	Proofs []base.SuffrageProof

	// jump is added to the height of every further block (Jump)
	jump int64

	mu      sync.Mutex
	mst     *leveldbstorage.Storage
	states  map[string]base.State
	keys    []string
	lastSuf base.State
}

// NewChain starts an empty chain whose blocks are stored under root.
func (r *Rig) NewChain(root string) *Chain {
	must(os.MkdirAll(root, 0o700))

	return &Chain{R: r, Root: root, states: map[string]base.State{}, mst: leveldbstorage.NewMemStorage()}
}

func (c *Chain) getState(key string) (base.State, bool, error) {
	c.mu.Lock()
	defer c.mu.Unlock()

	st, found := c.states[key]

	return st, found, nil
}

// Jump leaves n heights out: the next block is n heights further up (its
// manifest still names the last written block as previous). Used for suffrage
// proofs whose block is far above their suffrage height.
func (c *Chain) Jump(n int64) { c.jump += n }

// Close releases the chain's scratch database (files stay).
func (c *Chain) Close() { _ = c.mst.Close() }

// LastSuffrageState returns the latest suffrage state of the chain.
func (c *Chain) LastSuffrageState() base.State { return c.lastSuf }

type captureBWDB struct {
	isaac.BlockWriteDatabase
	proof base.SuffrageProof
}

func (d *captureBWDB) SetSuffrageProof(p base.SuffrageProof) error {
	d.proof = p

	return d.BlockWriteDatabase.SetSuffrageProof(p)
}

// Add builds the next block through the real Writer and LocalFSWriter, then
// decodes its components back through the real readers.
func (c *Chain) Add(spec Spec, rng *rand.Rand) (*Block, error) {
	r := c.R
	ctx := context.Background()
	height := base.Height(int64(len(c.Blocks)) + c.jump)
	point := base.NewPoint(height, spec.Round)

	var prevManifest base.Manifest
	var prevHash util.Hash

	if len(c.Blocks) > 0 {
		prevManifest = c.Blocks[len(c.Blocks)-1].Manifest
		prevHash = prevManifest.Hash()
	}

	nops := spec.NOps
	if spec.Suffrage && nops < 1 {
		nops = 1
	}

	total := nops + spec.FailedOps
	ops := make([]base.Operation, total)

	for i := range ops {
		ops[i] = r.NewOperation()
	}

	pr := r.NewProposal(point, prevHash, ops)

	inner := isaacdatabase.NewLeveldbBlockWrite(height, c.mst, r.Encs, r.Enc)
	bwdb := &captureBWDB{BlockWriteDatabase: inner}

	defer func() {
		_ = inner.Cancel()
	}()

	fsw, err := isaacblock.NewLocalFSWriter(c.Root, height, r.Enc, r.Enc, r.Local, r.NetworkID)
	if err != nil {
		return nil, err
	}

	w := isaacblock.NewWriter(pr, c.getState, bwdb, func(isaac.BlockWriteDatabase) error { return nil }, fsw, 8)
	w.SetOperationsSize(uint64(total))

	var newkeys []string

	for i := 0; i < nops; i++ {
		var stvs []base.StateMergeValue

		for j := 0; j < spec.NStatesPerOp; j++ {
			var key string

			if len(c.keys) > 0 && rng.Intn(3) == 0 {
				key = c.keys[rng.Intn(len(c.keys))]
			} else {
				key = fmt.Sprintf("k-%d-%d-%d-%s", height, i, j, util.UUID().String())
				newkeys = append(newkeys, key)
			}

			stvs = append(stvs, base.NewBaseStateMergeValue(key, base.NewDummyStateValue(util.UUID().String()), nil))
		}

		if spec.Suffrage && i == 0 {
			delta := int64(1)
			if spec.SufHeightDeltaSet {
				delta = spec.SufHeightDelta
			}

			sufheight := base.GenesisHeight
			if c.lastSuf != nil {
				v, _ := base.LoadSuffrageNodesStateValue(c.lastSuf)
				sufheight = v.Height() + base.Height(delta)
			}

			nn := spec.NNodes
			if nn < 1 {
				nn = 1
			}

			nodes := make([]base.Node, nn)
			nodes[0] = r.Local

			for k := 1; k < nn; k++ {
				nodes[k] = base.RandomNode()
			}

			stvs = append(stvs, base.NewBaseStateMergeValue(isaac.SuffrageStateKey, SuffrageValue(sufheight, height, nodes), nil))
		}

		if len(stvs) > 0 {
			if err := w.SetStates(ctx, uint64(i), stvs, ops[i]); err != nil {
				return nil, err
			}
		}

		if err := w.SetProcessResult(ctx, uint64(i), ops[i].Hash(), ops[i].Fact().Hash(), len(stvs) > 0, nil); err != nil {
			return nil, err
		}
	}

	for i := nops; i < total; i++ {
		if err := w.SetProcessResult(ctx, uint64(i), ops[i].Hash(), ops[i].Fact().Hash(), false,
			base.NewBaseOperationProcessReasonf("failed-%d", i)); err != nil {
			return nil, err
		}
	}

	manifest, err := w.Manifest(ctx, prevManifest)
	if err != nil {
		return nil, err
	}

	ivp, avp, err := r.Voteproofs(point, prevHash, pr.Fact().Hash(), manifest.Hash(), nil)
	if err != nil {
		return nil, err
	}

	if err := w.SetINITVoteproof(ctx, ivp); err != nil {
		return nil, err
	}

	if err := w.SetACCEPTVoteproof(ctx, avp); err != nil {
		return nil, err
	}

	if _, err := w.Save(ctx); err != nil {
		return nil, err
	}

	b, err := r.Load(r.Readers(c.Root), height)
	if err != nil {
		return nil, errors.WithMessage(err, "load written block")
	}

	b.Round = spec.Round
	b.SufProof = bwdb.proof

	// NOTE keep the operation objects as they were made: a decoded operation
	// re-marshals to the raw line it was read from (including its newline),
	// which would put blank lines into item files written from it again.
	orig := map[string]base.Operation{}
	for i := range ops {
		orig[ops[i].Hash().String()] = ops[i]
	}

	for i := range b.Ops {
		if o, found := orig[b.Ops[i].Hash().String()]; found {
			b.Ops[i] = o
		}
	}

	c.mu.Lock()
	for i := range b.States {
		st := b.States[i]
		c.states[st.Key()] = st

		if st.Key() == isaac.SuffrageStateKey {
			b.SufState = st
			c.lastSuf = st
		}
	}
	c.keys = append(c.keys, newkeys...)
	c.mu.Unlock()

	if b.SufProof != nil {
		c.Proofs = append(c.Proofs, b.SufProof)
	}

	c.Blocks = append(c.Blocks, b)

	return b, nil
}

// Load decodes every item of the block at height through the real readers.
func (r *Rig) Load(readers *isaac.BlockItemReaders, height base.Height) (*Block, error) {
	b := &Block{Height: height}

	switch m, found, err := isaac.BlockItemReadersDecode[base.BlockMap](readers.Item, height, base.BlockItemMap, nil); {
	case err != nil:
		return nil, err
	case !found:
		return nil, errors.Errorf("map not found, %d", height)
	default:
		b.Map = m
		b.Manifest = m.Manifest()
	}

	var rerr error

	b.Map.Items(func(item base.BlockMapItem) bool {
		switch item.Type() {
		case base.BlockItemProposal:
			b.Proposal, _, rerr = isaac.BlockItemReadersDecode[base.ProposalSignFact](readers.Item, height, item.Type(), nil)
		case base.BlockItemOperationsTree:
			b.OpsTree, _, rerr = isaac.BlockItemReadersDecode[fixedtree.Tree](readers.Item, height, item.Type(), nil)
		case base.BlockItemStatesTree:
			b.StatesTree, _, rerr = isaac.BlockItemReadersDecode[fixedtree.Tree](readers.Item, height, item.Type(), nil)
		case base.BlockItemVoteproofs:
			var vps [2]base.Voteproof

			vps, _, rerr = isaac.BlockItemReadersDecode[[2]base.Voteproof](readers.Item, height, item.Type(), nil)
			if rerr == nil {
				b.IVP, _ = vps[0].(base.INITVoteproof)
				b.AVP, _ = vps[1].(base.ACCEPTVoteproof)
			}
		case base.BlockItemOperations:
			_, b.Ops, _, rerr = isaac.BlockItemReadersDecodeItems[base.Operation](readers.Item, height, item.Type(), nil, nil)
		case base.BlockItemStates:
			_, b.States, _, rerr = isaac.BlockItemReadersDecodeItems[base.State](readers.Item, height, item.Type(), nil, nil)
		}

		return rerr == nil
	})

	if rerr != nil {
		return nil, rerr
	}

	if b.Proposal != nil {
		b.Round = b.Proposal.Point().Round()
	}

	for i := range b.States {
		if b.States[i] != nil && b.States[i].Key() == isaac.SuffrageStateKey {
			b.SufState = b.States[i]
		}
	}

	return b, nil
}

// WriteBlock writes the components of b as one block under root through
// LocalFSWriter only: item files are written as given, checksums recomputed
// and the block map (carrying b.Manifest unchanged) signed by the rig's node.
func (r *Rig) WriteBlock(root string, b *Block) (base.BlockMap, error) {
	ctx := context.Background()

	must(os.MkdirAll(root, 0o700))

	fsw, err := isaacblock.NewLocalFSWriter(root, b.Height, r.Enc, r.Enc, r.Local, r.NetworkID)
	if err != nil {
		return nil, err
	}

	for i := range b.Ops {
		if err := fsw.SetOperation(ctx, uint64(len(b.Ops)), uint64(i), b.Ops[i]); err != nil {
			return nil, err
		}
	}

	if b.OpsTree.Len() > 0 {
		if err := fsw.SetOperationsTree(ctx, b.OpsTree); err != nil {
			return nil, err
		}
	}

	for i := range b.States {
		if err := fsw.SetState(ctx, uint64(len(b.States)), uint64(i), b.States[i]); err != nil {
			return nil, err
		}
	}

	if b.StatesTree.Len() > 0 {
		if err := fsw.SetStatesTree(ctx, b.StatesTree); err != nil {
			return nil, err
		}
	}

	if err := fsw.SetProposal(ctx, b.Proposal); err != nil {
		return nil, err
	}

	if err := fsw.SetManifest(ctx, b.Manifest); err != nil {
		return nil, err
	}

	if err := fsw.SetINITVoteproof(ctx, b.IVP); err != nil {
		return nil, err
	}

	if err := fsw.SetACCEPTVoteproof(ctx, b.AVP); err != nil {
		return nil, err
	}

	return fsw.Save(ctx)
}

// StatesTreeOf builds a states fixed tree over the hashes of sts (in order).
func StatesTreeOf(sts []base.State) (fixedtree.Tree, error) {
	w, err := fixedtree.NewWriter(base.StateFixedtreeHint, uint64(len(sts)))
	if err != nil {
		return fixedtree.Tree{}, err
	}

	for i := range sts {
		if err := w.Add(uint64(i), fixedtree.NewBaseNode(sts[i].Hash().String())); err != nil {
			return fixedtree.Tree{}, err
		}
	}

	return w.Tree()
}

// OpsTreeOf builds an operations fixed tree (all in state) over ops.
func OpsTreeOf(ops []base.Operation) (fixedtree.Tree, error) {
	w, err := fixedtree.NewWriter(base.OperationFixedtreeHint, uint64(len(ops)))
	if err != nil {
		return fixedtree.Tree{}, err
	}

	for i := range ops {
		if err := w.Add(uint64(i), base.NewInStateOperationFixedtreeNode(ops[i].Fact().Hash(), "")); err != nil {
			return fixedtree.Tree{}, err
		}
	}

	return w.Tree()
}

// NewImportDB returns an empty center database on memory storage.
func (r *Rig) NewImportDB() (*isaacdatabase.Center, error) {
	st := leveldbstorage.NewMemStorage()

	perm, err := isaacdatabase.NewLeveldbPermanent(leveldbstorage.NewMemStorage(), r.Encs, r.Enc, 1)
	if err != nil {
		return nil, err
	}

	return isaacdatabase.NewCenter(st, r.Encs, r.Enc, perm,
		func(height base.Height) (isaac.BlockWriteDatabase, error) {
			return isaacdatabase.NewLeveldbBlockWrite(height, st, r.Encs, r.Enc), nil
		},
	)
}

// SortedItemTypes lists the item types of a map, sorted.
func SortedItemTypes(m base.BlockMap) []base.BlockItemType {
	var ts []base.BlockItemType

	m.Items(func(item base.BlockMapItem) bool {
		ts = append(ts, item.Type())

		return true
	})

	sort.Slice(ts, func(i, j int) bool { return ts[i] < ts[j] })

	return ts
}
