package c13

import (
	"fmt"
	"path/filepath"
	"testing"

	"github.com/spikeekips/mitum/base"
	"github.com/spikeekips/mitum/isaac"
	isaacblock "github.com/spikeekips/mitum/isaac/block"
	"github.com/spikeekips/mitum/util"
	"github.com/spikeekips/mitum/util/fixedtree"
	"github.com/spikeekips/mitum/util/valuehash"
	"verifharness/c13/blkrig"
	"verifharness/vlib"
)

// one evaluated proof
type pcase struct {
	Kind       string // honest | forgery kind
	World      int
	Height     int64 // block height of the carried map
	SufHeight  int64
	TreeLen    int // nodes in the states tree the path was taken from
	PathLen    int
	Broken     string // the binding that was broken ("" for honest)
	MustReject bool
}

type verdict struct {
	IsValid string
	Prove   string
}

func errs(err error) string {
	if err == nil {
		return ""
	}

	s := err.Error()
	if len(s) > 160 {
		s = s[:160]
	}

	return s
}

func randomSufState(height, sufheight base.Height, previous util.Hash, n int) base.State {
	nodes := make([]base.Node, n)
	for i := range nodes {
		nodes[i] = base.RandomNode()
	}

	return base.NewBaseState(height, isaac.SuffrageStateKey, blkrig.SuffrageValue(sufheight, height, nodes), previous,
		[]util.Hash{valuehash.RandomSHA256()})
}

// foreignTreeWith builds a states tree of n nodes containing key at position pos.
func foreignTreeWith(key string, n, pos int) fixedtree.Tree {
	w, err := fixedtree.NewWriter(base.StateFixedtreeHint, uint64(n))
	if err != nil {
		panic(err)
	}

	for i := 0; i < n; i++ {
		k := valuehash.RandomSHA256().String()
		if i == pos {
			k = key
		}

		if err := w.Add(uint64(i), fixedtree.NewBaseNode(k)); err != nil {
			panic(err)
		}
	}

	tr, err := w.Tree()
	if err != nil {
		panic(err)
	}

	return tr
}

func TestC13(t *testing.T) {
	r := vlib.Start(t, "C13", vlib.LevelExploration)
	defer r.Finish()
	r.SetRule("case = one SuffrageProof (block map, suffrage state, fixed-tree path) judged by IsValid(networkID) then Prove(previous); honest proofs are the ones the real isaacblock.Writer handed to the database for blocks written by Writer+LocalFSWriter (also after an encode/decode round trip); each forgery breaks exactly one named binding of such a proof (foreign tree, re-rooted path, sub-tree root, foreign map of the same height, map of another height, swapped state, tampered path node, real proof material of any node of the block's tree (leaf, parent, ancestor, sibling, other) with one node in any pair position re-labelled to a forged state's hash, wrong previous state, suffrage height not +1); distinct = (kind, world, block height, tree size, path length); non-trivial = every case (all carry a real signed block map)")
	r.Assume("a forgery counts as rejected when IsValid or Prove returns an error; a panic of Prove is reported separately")
	r.Assume("honest proofs must be accepted for the forgeries' rejections to mean anything: an honest rejection makes the run inconclusive, it is not a violation (the statement is 'accepted only if')")

	worlds := r.N(3, 24)
	nblocks := r.N(9, 14)

	judge := func(pc pcase, p base.SuffrageProof, previous base.State, rig *blkrig.Rig) {
		fp := fmt.Sprintf("%s/w%d/h%d/t%d/p%d/%s", pc.Kind, pc.World, pc.Height, pc.TreeLen, pc.PathLen, pc.Broken)
		r.Case(fp)
		r.Count("proofs_"+pc.Kind, 1)

		var v verdict
		var accepted bool

		panicked := r.Guard("Prove:"+pc.Kind, pc, func() {
			if err := p.IsValid(rig.NetworkID); err != nil {
				v.IsValid = errs(err)
				r.Count("rejected_by_isvalid", 1)

				return
			}

			if err := p.Prove(previous); err != nil {
				v.Prove = errs(err)
				r.Count("rejected_by_prove", 1)

				return
			}

			accepted = true
		})

		r.Sample(map[string]any{"case": pc, "verdict": v, "accepted": accepted})

		switch {
		case panicked:
		case pc.MustReject && accepted:
			r.Count("forgeries_accepted", 1)
			r.Violation("accepted:"+pc.Kind,
				fmt.Sprintf("forged suffrage proof accepted by IsValid+Prove: %s (block height %d, suffrage height %d, path of %d nodes from a tree of %d)",
					pc.Broken, pc.Height, pc.SufHeight, pc.PathLen, pc.TreeLen),
				map[string]any{"case": pc})
		case !pc.MustReject && !accepted:
			r.Inconclusive(fmt.Sprintf("honest proof rejected (%s): isvalid=%q prove=%q", pc.Kind, v.IsValid, v.Prove))
		case !pc.MustReject:
			r.Count("honest_accepted", 1)
		default:
			r.Count("forgeries_rejected", 1)
		}
	}

	for w := 0; w < worlds; w++ {
		rng := r.Rand(13, w)
		rig := blkrig.New()

		// chain A (judged), chain B (foreign chain, same heights change the
		// suffrage), chain C (a consistently built block whose suffrage height
		// is not previous+1)
		specs := make([]blkrig.Spec, nblocks)
		for i := range specs {
			specs[i] = blkrig.Spec{
				NOps:         1 + rng.Intn(3),
				NStatesPerOp: 1 + rng.Intn(4),
				Suffrage:     i == 0 || rng.Intn(5) < 3,
				NNodes:       1 + rng.Intn(4),
			}
		}

		build := func(name string, specs []blkrig.Spec) *blkrig.Chain {
			c := rig.NewChain(filepath.Join(r.WorkDir(), fmt.Sprintf("w%d-%s", w, name)))

			for i := range specs {
				if _, err := c.Add(specs[i], rng); err != nil {
					t.Fatalf("build chain %s block %d: %+v", name, i, err)
				}
			}

			c.Close()

			return c
		}

		ca := build("a", specs)
		cb := build("b", specs)

		cspecs := append([]blkrig.Spec{}, specs...)
		badi := 1 + rng.Intn(nblocks-1)
		cspecs[badi].Suffrage = true
		cspecs[badi].SufHeightDeltaSet = true
		cspecs[badi].SufHeightDelta = []int64{2, 0, 3, -1}[rng.Intn(4)]
		cc := build("c", cspecs[:badi+1])

		// suffrage blocks of A
		var sufblocks []*blkrig.Block

		for _, b := range ca.Blocks {
			if b.SufProof != nil {
				sufblocks = append(sufblocks, b)
			}
		}

		r.Count("real_blocks_written", len(ca.Blocks)+len(cb.Blocks)+len(cc.Blocks))

		for k, b := range sufblocks {
			var previous base.State
			if k > 0 {
				previous = sufblocks[k-1].SufState
			}

			real := b.SufProof
			path := real.Proof()
			sh := real.SuffrageHeight().Int64()
			mk := func(kind, broken string, must bool, tlen int, p fixedtree.Proof) pcase {
				return pcase{
					Kind: kind, World: w, Height: b.Height.Int64(), SufHeight: sh,
					TreeLen: tlen, PathLen: len(p.Nodes()), Broken: broken, MustReject: must,
				}
			}

			tlen := b.StatesTree.Len()

			// --- honest
			judge(mk("honest", "", false, tlen, path), real, previous, rig)

			// honest after encode/decode (what a remote node would send)
			if bs, err := rig.Enc.Marshal(real); err == nil {
				var dec isaacblock.SuffrageProof
				if hinter, err := rig.Enc.Decode(bs); err == nil {
					if i, ok := hinter.(isaacblock.SuffrageProof); ok {
						dec = i
						judge(mk("honest-decoded", "", false, tlen, dec.Proof()), dec, previous, rig)
					}
				}
			}

			var prevhash util.Hash
			if previous != nil {
				prevhash = previous.Hash()
			}

			// --- foreign tree: forged state + internally consistent path of another tree
			{
				n := 1 + rng.Intn(9)
				forged := randomSufState(b.Height, base.Height(sh), prevhash, 1+rng.Intn(3))
				tr := foreignTreeWith(forged.Hash().String(), n, rng.Intn(n))
				fpath, err := tr.Proof(forged.Hash().String())
				if err != nil {
					t.Fatalf("foreign tree proof: %+v", err)
				}

				judge(mk("foreign-tree", "state is not in the block's states tree; path is from an unrelated tree whose root is not manifest.StatesTree()", true, n, fpath),
					isaacblock.NewSuffrageProof(b.Map, forged, fpath), previous, rig)
			}

			// --- re-rooted path: the real state, path from another tree containing its hash
			{
				n := 2 + rng.Intn(9)
				tr := foreignTreeWith(b.SufState.Hash().String(), n, rng.Intn(n))
				fpath, err := tr.Proof(b.SufState.Hash().String())
				if err != nil {
					t.Fatalf("rerooted proof: %+v", err)
				}

				judge(mk("rerooted-path", "path is valid but leads to a root different from manifest.StatesTree()", true, n, fpath),
					isaacblock.NewSuffrageProof(b.Map, b.SufState, fpath), previous, rig)
			}

			// --- sub-tree root: real path cut below the root
			if nodes := path.Nodes(); len(nodes) >= 5 {
				// layout: pairs of siblings bottom-up, then the root; drop the
				// root and put one node of the highest pair in its place
				lower := nodes[:len(nodes)-3]

				for _, keep := range []int{len(nodes) - 3, len(nodes) - 2} {
					if nodes[keep] == nil || nodes[keep].IsEmpty() {
						continue
					}

					sub := append(append([]fixedtree.Node{}, lower...), nodes[keep])

					sp := fixedtree.NewProof(sub)
					if sp.IsValid(nil) != nil || sp.Prove(b.SufState.Hash().String()) != nil {
						continue
					}

					judge(mk("subtree-root", "path stops at an inner node: its last node is not manifest.StatesTree()", true, tlen, sp),
						isaacblock.NewSuffrageProof(b.Map, b.SufState, sp), previous, rig)

					break
				}
			}

			// --- foreign map of the same height (block of another chain)
			judge(mk("foreign-map-same-height", "map is of another chain's block at the same height; state is not in that block's states tree", true, tlen, path),
				isaacblock.NewSuffrageProof(cb.Blocks[b.Height].Map, b.SufState, path), previous, rig)

			// --- map of another height
			{
				oh := (int(b.Height) + 1 + rng.Intn(nblocks-1)) % nblocks
				judge(mk("map-other-height", "map of another block height", true, tlen, path),
					isaacblock.NewSuffrageProof(ca.Blocks[oh].Map, b.SufState, path), previous, rig)
			}

			// --- swapped states
			for _, st := range b.States {
				if st.Key() != isaac.SuffrageStateKey {
					op, err := b.StatesTree.Proof(st.Hash().String())
					if err != nil {
						t.Fatalf("proof of other state: %+v", err)
					}

					judge(mk("swapped-state-same-block", "state is another (non-suffrage) state of the block with its own real path", true, tlen, op),
						isaacblock.NewSuffrageProof(b.Map, st, op), previous, rig)

					break
				}
			}

			if len(sufblocks) > 1 {
				o := sufblocks[(k+1+rng.Intn(len(sufblocks)-1))%len(sufblocks)]

				judge(mk("swapped-state-other-block", "suffrage state of another block with this block's path", true, tlen, path),
					isaacblock.NewSuffrageProof(b.Map, o.SufState, path), previous, rig)
				judge(mk("swapped-state-and-path-other-block", "suffrage state and path of another block under this block's map", true, o.StatesTree.Len(), o.SufProof.Proof()),
					isaacblock.NewSuffrageProof(b.Map, o.SufState, o.SufProof.Proof()), previous, rig)

				rewrapped := base.NewBaseState(b.Height, isaac.SuffrageStateKey,
					blkrig.SuffrageValue(base.Height(sh), b.Height, []base.Node{base.RandomNode()}), prevhash, b.SufState.Operations())
				judge(mk("swapped-state-forged", "forged suffrage state (right heights, right previous) with the real state's path", true, tlen, path),
					isaacblock.NewSuffrageProof(b.Map, rewrapped, path), previous, rig)
			}

			// --- tampered path node
			if nodes := path.Nodes(); len(nodes) >= 3 {
				tn := append([]fixedtree.Node{}, nodes...)
				// replace one non-empty node other than the state's own by a node with another hash
				var idx []int

				for i := range tn {
					if tn[i] != nil && !tn[i].IsEmpty() && tn[i].Key() != b.SufState.Hash().String() {
						idx = append(idx, i)
					}
				}

				if len(idx) > 0 {
					i := idx[rng.Intn(len(idx))]
					tn[i] = fixedtree.NewBaseNode(tn[i].Key()).SetHash(valuehash.RandomSHA256())

					judge(mk("tampered-path-node", "one node of the real path carries another hash", true, tlen, path),
						isaacblock.NewSuffrageProof(b.Map, b.SufState, fixedtree.NewProof(tn)), previous, rig)
				}
			}

			// --- structurally different proofs for the claimed key: the real
			// proof material of every node of the block's states tree (the
			// suffrage leaf itself, its parent, ancestors, sibling, unrelated
			// nodes), with ONE node re-labelled with the hash of a forged state
			// (right heights, right previous) while keeping its node hash; the
			// forged state is in no position of the states tree
			{
				forged := randomSufState(b.Height, base.Height(sh), prevhash, 1+rng.Intn(3))
				fkey := forged.Hash().String()
				leafkey := b.SufState.Hash().String()

				tnodes := b.StatesTree.Nodes()
				leafidx := -1

				for i := range tnodes {
					if tnodes[i].Key() == leafkey {
						leafidx = i
					}
				}

				rel := func(i int) string {
					switch {
					case i == leafidx:
						return "self"
					case leafidx > 0 && i == (leafidx-1)/2:
						return "parent"
					case leafidx > 0 && (i == leafidx+1 || i == leafidx-1) && (i-1)/2 == (leafidx-1)/2:
						return "sibling"
					}

					for a := leafidx; a > 0; {
						a = (a - 1) / 2
						if a == i {
							return "ancestor"
						}
					}

					if leafidx >= 0 && (i-1)/2 == leafidx {
						return "child"
					}

					return "other"
				}

				type cand struct {
					owner, pos int
					nodes      []fixedtree.Node
				}

				var cands []cand

				for oi := range tnodes {
					op, err := b.StatesTree.Proof(tnodes[oi].Key())
					if err != nil {
						continue
					}

					on := op.Nodes()
					for pos := range on {
						if on[pos] == nil || on[pos].IsEmpty() {
							continue
						}

						cands = append(cands, cand{owner: oi, pos: pos, nodes: on})
					}
				}

				// every candidate whose re-labelled node is the suffrage leaf;
				// a PRNG sample of the others
				maxother := r.N(40, 200)
				rng.Shuffle(len(cands), func(i, j int) { cands[i], cands[j] = cands[j], cands[i] })

				others := 0

				for _, c := range cands {
					isleaf := c.nodes[c.pos].Key() == leafkey
					if !isleaf {
						if others >= maxother {
							continue
						}

						others++
					}

					fn := append([]fixedtree.Node{}, c.nodes...)
					fn[c.pos] = fixedtree.NewBaseNode(fkey).SetHash(c.nodes[c.pos].Hash())
					fp := fixedtree.NewProof(fn)

					pair := c.pos / 2
					if c.pos == len(fn)-1 {
						pair = -1 // root position
					}

					target := "other-node"
					if isleaf {
						target = "suffrage-leaf"
					}

					kind := fmt.Sprintf("relabelled:%s-proof:%s:pair%d", rel(c.owner), target, pair)
					judge(mk(kind, fmt.Sprintf("real proof material of tree node %d (%s of the suffrage leaf %d); node at position %d re-labelled with the hash of a forged state, node hash kept; the forged state is not in the states tree",
						c.owner, rel(c.owner), leafidx, c.pos), true, tlen, fp),
						isaacblock.NewSuffrageProof(b.Map, forged, fp), previous, rig)
				}
			}

			// --- wrong previous states
			if k > 0 {
				if k > 1 {
					judge(mk("prev-older", "previous state is the one before the true previous", true, tlen, path), real, sufblocks[k-2].SufState, rig)
				}

				judge(mk("prev-self", "previous state is the proof's own state", true, tlen, path), real, b.SufState, rig)

				if k+1 < len(sufblocks) {
					judge(mk("prev-newer", "previous state is a later suffrage state", true, tlen, path), real, sufblocks[k+1].SufState, rig)
				}

				pv, _ := base.LoadSuffrageNodesStateValue(previous)
				judge(mk("prev-unrelated", "previous state has the right heights but is another state", true, tlen, path),
					real, randomSufState(previous.Height(), pv.Height(), previous.Previous(), 2), rig)
				judge(mk("prev-nil-nongenesis", "nil previous state for a non-genesis block", true, tlen, path), real, nil, rig)
			} else {
				judge(mk("prev-nonnil-genesis", "non-nil previous state for the genesis block", true, tlen, path),
					real, randomSufState(base.GenesisHeight, base.GenesisHeight, nil, 1), rig)
			}
		}

		// --- suffrage height not +1: consistently built real block
		{
			var cprev base.State
			var bad *blkrig.Block

			for _, b := range cc.Blocks {
				if b.SufProof == nil {
					continue
				}

				if int(b.Height) == badi {
					bad = b

					break
				}

				cprev = b.SufState
			}

			if bad != nil && cprev != nil {
				pv, _ := base.LoadSuffrageNodesStateValue(cprev)
				pc := pcase{
					Kind: "sufheight-not+1", World: w, Height: bad.Height.Int64(), SufHeight: bad.SufProof.SuffrageHeight().Int64(),
					TreeLen: bad.StatesTree.Len(), PathLen: len(bad.SufProof.Proof().Nodes()), MustReject: true,
					Broken: fmt.Sprintf("real block whose suffrage height %d does not follow the previous %d", bad.SufProof.SuffrageHeight(), pv.Height()),
				}

				judge(pc, bad.SufProof, cprev, rig)
			}
		}
	}

	if r.Counter("honest_accepted") < 1 {
		r.Inconclusive("no honest proof was accepted")
	}
}
