package c14

import (
	"context"
	"fmt"
	"hash/fnv"
	"sync"
	"testing"
	"time"

	"github.com/spikeekips/mitum/base"
	"github.com/spikeekips/mitum/isaac"
	isaacblock "github.com/spikeekips/mitum/isaac/block"
	"github.com/spikeekips/mitum/util"
	"github.com/spikeekips/mitum/util/valuehash"
	"verifharness/vlib"
)

// C14: base.BatchIsValidMaps(prev, to, limit, fetch, callback) returns nil
// exactly when the maps that fetch served for the requested heights prev+1..to
// are linked: served(h).previous == hash(served(h-1)) (hash(prev) for the
// first), for every batch limit and arrival order. Runs under -race.

const chainLen = 262

var networkID = base.NetworkID([]byte("c14 network"))

type chains struct {
	c [3][]base.BlockMap // three unrelated, internally linked chains over heights 0..chainLen-1
}

func buildChains(r *vlib.Run) (*chains, error) {
	cs := &chains{}
	for ci := range cs.c {
		rng := r.Rand(14, 0, ci)
		priv, err := base.NewMPrivatekeyFromSeed(fmt.Sprintf("c14-deterministic-privatekey-seed-chain-%04d-0123456789", ci))
		if err != nil {
			return nil, err
		}
		local := base.NewStringAddress(fmt.Sprintf("c14-node-%d", ci))
		hash := func() util.Hash {
			b := make([]byte, 32)
			rng.Read(b)
			return valuehash.NewSHA256(b)
		}
		t0 := time.Date(2024, 1, 2, 3, 4, 5, 0, time.UTC)
		var prev util.Hash
		for h := 0; h < chainLen; h++ {
			manifest := isaac.NewManifest(base.Height(h), prev, hash(), hash(), hash(), hash(), t0.Add(time.Duration(h)*time.Second))
			m := isaacblock.NewBlockMap()
			for _, ty := range []base.BlockItemType{
				base.BlockItemProposal, base.BlockItemOperations, base.BlockItemOperationsTree,
				base.BlockItemStates, base.BlockItemStatesTree, base.BlockItemVoteproofs,
			} {
				if err := m.SetItem(isaacblock.NewBlockMapItem(ty, fmt.Sprintf("checksum-%d-%d-%s", ci, h, ty))); err != nil {
					return nil, err
				}
			}
			m.SetManifest(manifest)
			if err := m.Sign(local, priv, networkID); err != nil {
				return nil, err
			}
			if err := m.IsValid(networkID); err != nil {
				return nil, fmt.Errorf("built map chain %d height %d is not valid: %w", ci, h, err)
			}
			cs.c[ci] = append(cs.c[ci], m)
			prev = manifest.Hash()
		}
	}
	return cs, nil
}

// which map is served for a requested height
type ref struct {
	Chain  int   `json:"chain"`
	Height int64 `json:"height"`
}

type tcase struct {
	Idx    int     `json:"idx"`
	Kind   string  `json:"kind"`
	Start  int64   `json:"first_height"` // first requested height (0 => genesis start, prev == nil)
	To     int64   `json:"to"`
	Limit  int64   `json:"batch_limit"`
	Order  string  `json:"arrival"`
	Prev   *ref    `json:"prev"`
	Detail string  `json:"detail"`
	Breaks []int64 `json:"unlinked_at"` // requested heights h where served(h) does not link to served(h-1)

	plan map[int64]ref // overrides; default is chain 0 at the requested height
	base int           // chain the run is taken from
}

func (c *tcase) served(h int64) ref {
	if v, ok := c.plan[h]; ok {
		return v
	}
	return ref{Chain: c.base, Height: h}
}

func genCase(r *vlib.Run, idx int) *tcase {
	rng := r.Rand(14, 1, idx)
	c := &tcase{Idx: idx, plan: map[int64]ref{}}
	c.Limit = int64(1 + rng.Intn(50))
	var n int64
	switch x := rng.Intn(10); {
	case x < 3: // around multiples of the batch limit
		k := int64(1 + rng.Intn(4))
		n = k*c.Limit + int64(rng.Intn(3)-1)
	case x < 5:
		n = int64(1 + rng.Intn(int(c.Limit)))
	case x < 6:
		n = int64(1 + rng.Intn(5))
	default:
		n = int64(1 + rng.Intn(200))
	}
	n = max(1, min(n, 200))
	if rng.Intn(4) == 0 {
		c.Start = 0
	} else {
		c.Start = int64(1 + rng.Intn(chainLen-int(n)-2))
	}
	c.To = c.Start + n - 1
	if c.Start > 0 {
		c.Prev = &ref{Chain: 0, Height: c.Start - 1}
	}
	c.Order = []string{"in-order", "reverse", "random", "free", "free", "free-delays"}[rng.Intn(6)]
	in := func() int64 { return c.Start + rng.Int63n(n) } // a requested height
	other := 1 + rng.Intn(2)

	kinds := []string{"linked", "linked", "linked", "linked-other-chain", "wrong-previous-to-end", "single-foreign-map", "foreign-segment", "duplicate-height", "map-from-outside-range", "swap", "swap-adjacent", "wrong-prev-argument"}
	c.Kind = kinds[rng.Intn(len(kinds))]
	switch c.Kind {
	case "linked":
	case "linked-other-chain":
		c.base = other
		if c.Prev != nil {
			c.Prev.Chain = other
		}
	case "wrong-previous-to-end":
		h := in()
		if h == 0 { // a foreign genesis followed by its own chain is a linked chain; break later
			h = min(c.To, 1)
		}
		if h == 0 {
			c.Kind = "linked"
			break
		}
		for x := h; x <= c.To; x++ {
			c.plan[x] = ref{Chain: other, Height: x}
		}
		c.Detail = fmt.Sprintf("from height %d on the maps come from chain %d", h, other)
	case "single-foreign-map":
		h := in()
		if n == 1 && c.Start == 0 { // a lone foreign genesis is a linked chain
			c.Kind = "linked"
			break
		}
		c.plan[h] = ref{Chain: other, Height: h}
		c.Detail = fmt.Sprintf("height %d served from chain %d", h, other)
	case "foreign-segment":
		a, b := in(), in()
		if a > b {
			a, b = b, a
		}
		if a == c.Start && b == c.To && c.Start == 0 {
			c.Kind = "linked-other-chain"
			c.base = other
			break
		}
		for x := a; x <= b; x++ {
			c.plan[x] = ref{Chain: other, Height: x}
		}
		c.Detail = fmt.Sprintf("heights %d..%d served from chain %d", a, b, other)
	case "duplicate-height":
		if n < 2 {
			c.Kind = "linked"
			break
		}
		h, h2 := in(), in()
		for h2 == h {
			h2 = in()
		}
		c.plan[h] = ref{Chain: 0, Height: h2}
		c.Detail = fmt.Sprintf("request for %d answered with the map of height %d (which is also served for %d): nothing served for %d", h, h2, h2, h)
	case "map-from-outside-range":
		h := in()
		var h2 int64
		if c.Start > 0 && rng.Intn(2) == 0 {
			h2 = rng.Int63n(c.Start)
		} else {
			h2 = c.To + 1 + rng.Int63n(int64(chainLen)-c.To-1)
		}
		c.plan[h] = ref{Chain: 0, Height: h2}
		c.Detail = fmt.Sprintf("request for %d answered with the map of height %d", h, h2)
	case "swap", "swap-adjacent":
		if n < 2 {
			c.Kind = "linked"
			break
		}
		a, b := in(), in()
		if c.Kind == "swap-adjacent" {
			a = c.Start + rng.Int63n(n-1)
			b = a + 1
		}
		for a == b {
			b = in()
		}
		c.plan[a] = ref{Chain: 0, Height: b}
		c.plan[b] = ref{Chain: 0, Height: a}
		c.Detail = fmt.Sprintf("requests for %d and %d answered with each other's map", a, b)
	case "wrong-prev-argument":
		if c.Prev == nil {
			c.Kind = "linked"
			break
		}
		c.Prev.Chain = other
		c.Detail = fmt.Sprintf("prev argument is the height %d map of chain %d", c.Prev.Height, other)
	}
	return c
}

// oracle: requested heights at which the served map does not link
func (c *tcase) unlinked(cs *chains) []int64 {
	var out []int64
	get := func(x ref) base.BlockMap { return cs.c[x.Chain][x.Height] }
	for h := c.Start; h <= c.To; h++ {
		m := get(c.served(h))
		var prevHash util.Hash
		switch {
		case h > c.Start:
			prevHash = get(c.served(h - 1)).Manifest().Hash()
		case c.Prev != nil:
			prevHash = get(*c.Prev).Manifest().Hash()
		}
		switch {
		case prevHash == nil: // first map of a run from genesis: nothing to link to; it has to be a genesis map
			if m.Manifest().Height() != base.GenesisHeight {
				out = append(out, h)
			}
		case m.Manifest().Previous() == nil || !m.Manifest().Previous().Equal(prevHash):
			out = append(out, h)
		}
	}
	return out
}

type monitor struct {
	mu       sync.Mutex
	served   map[int64]ref
	fetches  []int64 // order fetch returned
	cbs      []int64 // claimed heights in callback order
	gates    map[int64]chan struct{}
	order    []int64
	released int
	gateTO   int
	late     int // fetch/callback after BatchIsValidMaps returned
	finished bool
}

func (mo *monitor) releaseNext() { // mu held
	if mo.released < len(mo.order) {
		close(mo.gates[mo.order[mo.released]])
		mo.released++
	}
}

func runCase(r *vlib.Run, cs *chains, c *tcase) {
	rng := r.Rand(14, 2, c.Idx)
	n := c.To - c.Start + 1
	c.Breaks = c.unlinked(cs)
	linked := len(c.Breaks) == 0

	mo := &monitor{served: map[int64]ref{}, gates: map[int64]chan struct{}{}}
	gated := c.Order == "in-order" || c.Order == "reverse" || c.Order == "random"
	delays := map[int64]time.Duration{}
	if gated {
		// arrival order per batch (batches as util.BatchWork cuts them)
		for i := int64(0); i < n; i += c.Limit {
			end := min(i+c.Limit, n)
			var hs []int64
			for x := i; x < end; x++ {
				hs = append(hs, c.Start+x)
			}
			switch c.Order {
			case "reverse":
				for a, b := 0, len(hs)-1; a < b; a, b = a+1, b-1 {
					hs[a], hs[b] = hs[b], hs[a]
				}
			case "random":
				rng.Shuffle(len(hs), func(a, b int) { hs[a], hs[b] = hs[b], hs[a] })
			}
			mo.order = append(mo.order, hs...)
		}
		for _, h := range mo.order {
			mo.gates[h] = make(chan struct{})
		}
		mo.mu.Lock()
		mo.releaseNext()
		mo.mu.Unlock()
	} else if c.Order == "free-delays" {
		for h := c.Start; h <= c.To; h++ {
			delays[h] = time.Duration(rng.Intn(300)) * time.Microsecond
		}
	}

	var prev base.BlockMap
	if c.Prev != nil {
		prev = cs.c[c.Prev.Chain][c.Prev.Height]
	}

	// a linked chain follows the planned arrival order to the end, so a gate
	// only times out there when the machine is overloaded: wait long; on an
	// unlinked chain validation stops early and gates of never-released
	// heights time out by design: wait short
	gateWait := 5 * time.Second
	if linked {
		gateWait = 3 * time.Minute
	}
	fetch := func(ctx context.Context, height base.Height) (base.BlockMap, error) {
		h := height.Int64()
		if gated {
			g := mo.gates[h]
			if g == nil {
				return nil, fmt.Errorf("c14: height %d was never meant to be requested", h)
			}
			select {
			case <-g:
			case <-ctx.Done():
				return nil, ctx.Err()
			case <-time.After(gateWait): // only fires when the plan of arrivals cannot be followed
				mo.mu.Lock()
				mo.gateTO++
				mo.mu.Unlock()
			}
		} else if d := delays[h]; d > 0 {
			time.Sleep(d)
		}
		sv := c.served(h)
		mo.mu.Lock()
		if mo.finished {
			mo.late++
		}
		mo.served[h] = sv
		mo.fetches = append(mo.fetches, h)
		mo.mu.Unlock()
		return cs.c[sv.Chain][sv.Height], nil
	}
	callback := func(m base.BlockMap) error {
		mo.mu.Lock()
		if mo.finished {
			mo.late++
		}
		mo.cbs = append(mo.cbs, m.Manifest().Height().Int64())
		if gated {
			mo.releaseNext()
		}
		mo.mu.Unlock()
		return nil
	}

	var err error
	var panicked bool
	ok := r.WithWatchdog(20*time.Minute, fmt.Sprintf("BatchIsValidMaps case %d", c.Idx), func() {
		panicked = r.Guard("BatchIsValidMaps", c, func() {
			err = base.BatchIsValidMaps(context.Background(), prev, base.Height(c.To), c.Limit, fetch, callback)
		})
	})
	if !ok || panicked {
		return
	}
	mo.mu.Lock()
	mo.finished = true
	servedN, cbN, gateTO := len(mo.served), len(mo.cbs), mo.gateTO
	fh := fnv.New64a()
	for _, h := range mo.cbs {
		fmt.Fprintf(fh, "%d,", h-c.Start)
	}
	cbOrder := append([]int64{}, mo.cbs...)
	missing := int64(-1)
	for h := c.Start; h <= c.To; h++ {
		if _, ok := mo.served[h]; !ok {
			missing = h
			break
		}
	}
	mo.mu.Unlock()

	// where the first break sits relative to the batches
	pos := "none"
	if !linked {
		off := c.Breaks[0] - c.Start
		switch {
		case off%c.Limit == 0:
			pos = "first-of-batch"
		case (off+1)%c.Limit == 0 || c.Breaks[0] == c.To:
			pos = "last-of-batch"
		default:
			pos = "inside-batch"
		}
	}
	r.Case(fmt.Sprintf("%s|n=%d|limit=%d|genesis=%v|%s|%s", c.Kind, n, c.Limit, c.Start == 0, c.Order, pos))
	r.Count("cases_"+c.Kind, 1)
	r.Count("arrival_"+c.Order, 1)
	r.Count("maps_served", servedN)
	r.Count("callbacks", cbN)
	r.SetAdd("interleavings_seen", fmt.Sprintf("%d/%d/%016x", n, c.Limit, fh.Sum64()))
	if n > c.Limit {
		r.Count("cases_multi_batch", 1)
	}
	if gateTO > 0 {
		r.Count("gate_timeouts", gateTO)
		if linked {
			r.Inconclusive(fmt.Sprintf("case %d: arrival-order gate timed out on a linked chain (harness picture of the batches is wrong?)", c.Idx))
		}
	}
	if gated && err == nil {
		same := len(cbOrder) == len(mo.order)
		for i := 0; same && i < len(cbOrder); i++ {
			same = c.served(mo.order[i]).Height == cbOrder[i]
		}
		if same {
			r.Count("gated_arrival_order_as_planned", 1)
		} else {
			r.Count("gated_arrival_order_differs", 1)
		}
	}
	if c.Idx < 4 || (c.Idx < 60 && !linked && len(c.Breaks) == 1 && c.Idx%7 == 0) {
		r.Sample(map[string]any{"case": c, "linked": linked, "result_nil": err == nil})
	}

	switch {
	case err == nil && !linked:
		r.Count("result_nil", 1)
		sameBatch := ""
		if c.Kind == "swap" || c.Kind == "swap-adjacent" || c.Kind == "duplicate-height" {
			var hs []int64
			for h := range c.plan {
				hs = append(hs, h, c.plan[h].Height)
			}
			sameBatch = ":same-batch"
			for _, h := range hs[1:] {
				if (h-c.Start)/c.Limit != (hs[0]-c.Start)/c.Limit {
					sameBatch = ":across-batches"
				}
			}
		}
		r.Violation(fmt.Sprintf("BatchIsValidMaps:accepted-unlinked:%s:break-%s%s", c.Kind, pos, sameBatch),
			fmt.Sprintf("case %d: returned nil, but the served maps are not linked at requested height(s) %v (%s); first=%d to=%d limit=%d arrival=%s", c.Idx, c.Breaks, c.Detail, c.Start, c.To, c.Limit, c.Order), c)
	case err == nil && missing >= 0:
		r.Count("result_nil", 1)
		r.Violation("BatchIsValidMaps:accepted-without-fetching-every-height",
			fmt.Sprintf("case %d: returned nil but height %d was never fetched", c.Idx, missing), c)
	case err == nil:
		r.Count("result_nil", 1)
		if cbN != int(n) {
			r.Count("accepted_with_callback_count_not_n", 1)
		}
	case linked:
		r.Count("result_error", 1)
		r.Violation(fmt.Sprintf("BatchIsValidMaps:rejected-linked:%s:arrival-%s", c.Kind, c.Order),
			fmt.Sprintf("case %d: linked chain first=%d to=%d limit=%d arrival=%s rejected: %v", c.Idx, c.Start, c.To, c.Limit, c.Order, err), c)
	default:
		r.Count("result_error", 1)
	}
}

func TestC14(t *testing.T) {
	r := vlib.Start(t, "C14", vlib.LevelExploration)
	defer r.Finish()
	r.SetRule("case = (kind, run length n in 1..200 biased to k*limit-1/k*limit/k*limit+1, batch limit 1..50, genesis or non-genesis start, arrival order) over three unrelated chains of 262 real signed isaacblock.BlockMaps (isaac.Manifest with Previous() links; BlockMap.IsValid passes); kinds: linked, linked-other-chain, wrong-previous-to-end, single-foreign-map, foreign-segment, duplicate-height (hole), map-from-outside-range, swap, swap-adjacent, wrong-prev-argument; arrival: gates in fetch released by the callback stream give in-order / reverse / random order inside each batch, 'free' leaves it to the scheduler (with or without per-height sleeps); oracle on what fetch served per requested height; distinct = (kind, n, limit, genesis, arrival, position of first break in its batch)")
	r.Assume("only genuine maps are served (never a forged map whose previous hash is right but whose height is wrong), so 'previous hash links' and 'height is the requested one' never disagree about a case")
	r.Assume("fetch never fails; callback never fails")

	cs, err := buildChains(r)
	if err != nil {
		r.Inconclusive("build chains: " + err.Error())
		return
	}
	n := r.N(2400, 40000)
	// directed cases first (deterministic reproduction of listed findings)
	directed := []*tcase{
		{Kind: "duplicate-height", Start: 11, To: 20, Limit: 10, Order: "in-order", Prev: &ref{0, 10}, plan: map[int64]ref{15: {0, 16}}, Detail: "request for 15 answered with the map of height 16: nothing served for 15"},
		{Kind: "swap-adjacent", Start: 11, To: 20, Limit: 10, Order: "in-order", Prev: &ref{0, 10}, plan: map[int64]ref{15: {0, 16}, 16: {0, 15}}, Detail: "requests for 15 and 16 answered with each other's map"},
		{Kind: "duplicate-height", Start: 0, To: 7, Limit: 3, Order: "reverse", plan: map[int64]ref{4: {0, 3}}, Detail: "request for 4 answered with the map of height 3 (genesis start)"},
	}
	for i, c := range directed {
		c.Idx = 1000000 + i
		runCase(r, cs, c)
	}
	vlib.Parallel(n, 16, func(i int) {
		runCase(r, cs, genCase(r, i))
	})
}
