package c15

import (
	"context"
	"fmt"
	"io"
	"path/filepath"
	"sort"
	"sync"
	"testing"
	"time"

	"github.com/pkg/errors"
	"github.com/spikeekips/mitum/base"
	"github.com/spikeekips/mitum/isaac"
	isaacblock "github.com/spikeekips/mitum/isaac/block"
	"github.com/spikeekips/mitum/util/valuehash"
	"verifharness/c13/blkrig"
	"verifharness/vlib"
)

type stubCase struct {
	From, Count, Limit int64
	// fault injection: 0 none, 1 Save fails, 2 deferred merge fails, 3 batch merge fails
	Fault   int
	FaultAt int64 // height (fault 1,2) or ordinal of the batch-merge call (fault 3)
}

// recorder of what the importers created by ImportBlocks were asked to do
type rec struct {
	mu          sync.Mutex
	created     map[int64]int
	saved       map[int64]int
	merged      map[int64]int
	cancelled   map[int64]int
	batchMerges int
	// heights whose deferred merge ran after the last batch-merge callback
	pending  map[int64]bool
	sequence []string
}

func newRec() *rec {
	return &rec{created: map[int64]int{}, saved: map[int64]int{}, merged: map[int64]int{}, cancelled: map[int64]int{}, pending: map[int64]bool{}}
}

var errInjected = errors.New("injected fault")

func runStub(maps map[int64]base.BlockMap, c stubCase) (*rec, error) {
	rc := newRec()
	from, to := base.Height(c.From), base.Height(c.From+c.Count-1)

	err := isaacblock.ImportBlocks(
		context.Background(),
		from, to,
		c.Limit,
		nil,
		func(_ context.Context, h base.Height) (base.BlockMap, bool, error) {
			m, found := maps[h.Int64()]

			return m, found, nil
		},
		func(context.Context, base.Height, base.BlockItemType, func(io.Reader, bool, string) error) error {
			return nil
		},
		func(m base.BlockMap) (isaac.BlockImporter, error) {
			h := m.Manifest().Height().Int64()

			rc.mu.Lock()
			rc.created[h]++
			rc.mu.Unlock()

			return &isaacblock.DummyBlockImporter{
				Savef: func(context.Context) (func(context.Context) error, error) {
					rc.mu.Lock()
					defer rc.mu.Unlock()

					if c.Fault == 1 && c.FaultAt == h {
						return nil, errInjected
					}

					rc.saved[h]++

					return func(context.Context) error {
						rc.mu.Lock()
						defer rc.mu.Unlock()

						if c.Fault == 2 && c.FaultAt == h {
							return errInjected
						}

						rc.merged[h]++
						rc.pending[h] = true
						rc.sequence = append(rc.sequence, fmt.Sprintf("m%d", h))

						return nil
					}, nil
				},
				CancelImportf: func(context.Context) error {
					rc.mu.Lock()
					rc.cancelled[h]++
					rc.mu.Unlock()

					return nil
				},
			}, nil
		},
		nil,
		func(context.Context) error {
			rc.mu.Lock()
			defer rc.mu.Unlock()

			rc.batchMerges++

			if c.Fault == 3 && c.FaultAt == int64(rc.batchMerges) {
				return errInjected
			}

			rc.pending = map[int64]bool{}
			rc.sequence = append(rc.sequence, "B")

			return nil
		},
	)

	return rc, err
}

func TestC15(t *testing.T) {
	r := vlib.Start(t, "C15", vlib.LevelExploration)
	defer r.Finish()
	r.SetRule("stub level: case = (from, count, batch limit[, injected fault]) given to the real isaacblock.ImportBlocks with recording BlockImporters (Save / deferred merge / CancelImport per height) and a recording batch-merge callback; ALL (count, limit) in 1..40 x 1..40 from genesis plus PRNG cases with other start heights and injected Save/merge faults; full stack: real blocks (Writer+LocalFSWriter) imported by the real BlockImporter into an empty Center database and local fs; distinct = (level, from, count, limit, fault kind); non-trivial = every case (each calls ImportBlocks)")
	r.Assume("the oracle is one-sided as the statement: only a nil result of ImportBlocks is judged (then every height from A to B was saved once, merged once, none cancelled, the batch-merge callback ran after the last merge); for the full stack: Center.LastBlockMap is B, every BlockMap(h) is stored and the block map file of every height is in the destination fs")

	// block maps by height, made once
	maps := map[int64]base.BlockMap{}
	for h := int64(0); h < 160; h++ {
		maps[h] = base.NewDummyBlockMap(base.NewDummyManifest(base.Height(h), valuehash.RandomSHA256()))
	}

	judge := func(level string, c stubCase, rc *rec, err error) {
		r.Case(fmt.Sprintf("%s/%d/%d/%d/f%d", level, c.From, c.Count, c.Limit, c.Fault))

		if err != nil {
			r.Count("returned_error", 1)

			return
		}

		r.Count("returned_nil", 1)

		var unsaved, unmerged, dup, cancelled, pending []int64

		for h := c.From; h < c.From+c.Count; h++ {
			switch {
			case rc.saved[h] < 1:
				unsaved = append(unsaved, h)
			case rc.saved[h] > 1 || rc.merged[h] > 1:
				dup = append(dup, h)
			}

			if rc.saved[h] >= 1 && rc.merged[h] < 1 {
				unmerged = append(unmerged, h)
			}

			if rc.cancelled[h] > 0 {
				cancelled = append(cancelled, h)
			}

			if rc.pending[h] {
				pending = append(pending, h)
			}
		}

		shape := "last-batch-partial"
		if c.Count%c.Limit == 0 {
			shape = "last-batch-full"
		}

		if c.Fault != 0 {
			shape += fmt.Sprintf(":fault%d", c.Fault)
		}

		w := map[string]any{
			"case": c, "unsaved": unsaved, "unmerged": unmerged, "saved_twice": dup, "cancelled": cancelled,
			"merged_after_last_batch_merge": pending, "batch_merges": rc.batchMerges,
		}

		switch {
		case len(unsaved) > 0:
			r.Violation("ImportBlocks:nil-but-unsaved:"+shape,
				fmt.Sprintf("ImportBlocks(%d..%d, limit %d) returned nil but %d heights were never saved (first %d, last %d)",
					c.From, c.From+c.Count-1, c.Limit, len(unsaved), unsaved[0], unsaved[len(unsaved)-1]), w)
		case len(unmerged) > 0:
			r.Violation("ImportBlocks:nil-but-unmerged:"+shape,
				fmt.Sprintf("ImportBlocks(%d..%d, limit %d) returned nil but %d saved heights were never merged (first %d)",
					c.From, c.From+c.Count-1, c.Limit, len(unmerged), unmerged[0]), w)
		case len(dup) > 0:
			r.Violation("ImportBlocks:nil-but-saved-twice:"+shape,
				fmt.Sprintf("ImportBlocks(%d..%d, limit %d) saved/merged a height more than once (first %d)", c.From, c.From+c.Count-1, c.Limit, dup[0]), w)
		case len(cancelled) > 0:
			r.Violation("ImportBlocks:nil-but-cancelled:"+shape,
				fmt.Sprintf("ImportBlocks(%d..%d, limit %d) returned nil after cancelling height %d", c.From, c.From+c.Count-1, c.Limit, cancelled[0]), w)
		case len(pending) > 0:
			r.Violation("ImportBlocks:nil-but-no-batch-merge:"+shape,
				fmt.Sprintf("ImportBlocks(%d..%d, limit %d) returned nil but the batch-merge callback did not run after height %d was merged",
					c.From, c.From+c.Count-1, c.Limit, pending[0]), w)
		}
	}

	runGuarded := func(c stubCase) {
		var rc *rec
		var err error

		ok := r.WithWatchdog(60*time.Second, "ImportBlocks(stub)", func() {
			r.Guard("ImportBlocks", c, func() {
				rc, err = runStub(maps, c)
			})
		})
		if !ok || rc == nil {
			return
		}

		rc.mu.Lock()
		defer rc.mu.Unlock()

		judge("stub", c, rc, err)
	}

	// exhaustive (count, limit)
	var exh []stubCase

	for count := int64(1); count <= 40; count++ {
		for limit := int64(1); limit <= 40; limit++ {
			exh = append(exh, stubCase{From: 0, Count: count, Limit: limit})
		}
	}

	vlib.Parallel(len(exh), 8, func(i int) { runGuarded(exh[i]) })
	r.Exhaustive(true)
	r.Set("exhaustive_count_limit_grid", "1..40 x 1..40 from genesis")

	var multiples int

	for _, c := range exh {
		if c.Count%c.Limit == 0 {
			multiples++
		}
	}

	r.Set("grid_cases_count_multiple_of_limit", multiples)

	// other start heights + injected faults
	n := r.N(600, 12000)
	extra := make([]stubCase, n)

	for i := range extra {
		rng := r.Rand(15, i)
		c := stubCase{From: int64(rng.Intn(100)), Count: 1 + int64(rng.Intn(40)), Limit: 1 + int64(rng.Intn(40))}

		if rng.Intn(3) == 0 {
			c.Limit = []int64{c.Count, c.Count * 2, max64(1, c.Count/2), 333}[rng.Intn(4)]
		}

		switch rng.Intn(4) {
		case 1, 2:
			c.Fault = 1 + rng.Intn(2)
			c.FaultAt = c.From + int64(rng.Intn(int(c.Count)))

			if rng.Intn(3) == 0 {
				c.FaultAt = c.From + c.Count - 1
			}
		case 3:
			c.Fault = 3
			nb := (c.Count + c.Limit - 1) / c.Limit
			c.FaultAt = 1 + int64(rng.Intn(int(nb)))

			if rng.Intn(2) == 0 {
				c.FaultAt = nb
			}
		}

		extra[i] = c
	}

	vlib.Parallel(len(extra), 8, func(i int) { runGuarded(extra[i]) })

	for i := 0; i < 3; i++ {
		r.Sample(map[string]any{"level": "stub", "case": extra[i]})
	}

	// ---- full stack
	fullStack(t, r)
}

func max64(a, b int64) int64 {
	if a > b {
		return a
	}

	return b
}

type fullCase struct {
	Count, Limit int64
}

func fullStack(t *testing.T, r *vlib.Run) {
	rig := blkrig.New()
	srcroot := filepath.Join(r.WorkDir(), "src")
	chain := rig.NewChain(srcroot)
	nmax := r.N(12, 40)

	for i := 0; i < nmax; i++ {
		rng := r.Rand(15, 1000, i)
		if _, err := chain.Add(blkrig.Spec{
			NOps: 1 + rng.Intn(2), NStatesPerOp: 1 + rng.Intn(3), Suffrage: i == 0 || rng.Intn(4) == 0, NNodes: 1 + rng.Intn(3),
		}, rng); err != nil {
			t.Fatalf("build source chain: %+v", err)
		}
	}

	chain.Close()
	r.Count("real_blocks_written", nmax)

	srcreaders := rig.Readers(srcroot)

	cases := []fullCase{{1, 1}, {3, 1}, {4, 2}, {5, 5}, {6, 3}, {6, 6}, {7, 3}, {8, 4}, {9, 3}, {10, 333}, {12, 4}, {12, 5}}

	if r.Thorough() {
		cases = nil

		for i := 0; i < 120; i++ {
			rng := r.Rand(15, 2000, i)
			count := 1 + int64(rng.Intn(nmax))
			limit := 1 + int64(rng.Intn(nmax))

			if rng.Intn(2) == 0 {
				// a divisor of count
				var ds []int64

				for d := int64(1); d <= count; d++ {
					if count%d == 0 {
						ds = append(ds, d)
					}
				}

				limit = ds[rng.Intn(len(ds))]
			}

			cases = append(cases, fullCase{count, limit})
		}
	}

	vlib.Parallel(len(cases), 6, func(i int) {
		c := cases[i]
		dstroot := filepath.Join(r.WorkDir(), fmt.Sprintf("dst-%d", i))

		db, err := rig.NewImportDB()
		if err != nil {
			r.Inconclusive(fmt.Sprintf("import db: %v", err))

			return
		}

		defer db.Close()

		dstreaders := rig.Readers(dstroot)
		to := base.Height(c.Count - 1)

		var lastvps bool
		var ierr error

		ok := r.WithWatchdog(5*time.Minute, "ImportBlocks(full)", func() {
			r.Guard("ImportBlocks:full", c, func() {
				ierr = isaacblock.ImportBlocks(
					context.Background(),
					base.GenesisHeight, to,
					c.Limit,
					dstreaders,
					func(_ context.Context, h base.Height) (base.BlockMap, bool, error) {
						return isaac.BlockItemReadersDecode[base.BlockMap](srcreaders.Item, h, base.BlockItemMap, nil)
					},
					func(_ context.Context, h base.Height, item base.BlockItemType, f func(io.Reader, bool, string) error) error {
						switch _, found, err := srcreaders.Item(h, item, func(ir isaac.BlockItemReader) error {
							return f(ir.Reader(), true, ir.Reader().Format)
						}); {
						case err != nil:
							return err
						case !found:
							return f(nil, false, "")
						default:
							return nil
						}
					},
					func(m base.BlockMap) (isaac.BlockImporter, error) {
						bwdb, err := db.NewBlockWriteDatabase(m.Manifest().Height())
						if err != nil {
							return nil, err
						}

						return isaacblock.NewBlockImporter(dstroot, rig.Encs, m, bwdb,
							func(context.Context) error { return db.MergeBlockWriteDatabase(bwdb) }, rig.NetworkID)
					},
					func(_ [2]base.Voteproof, found bool) error {
						lastvps = found

						return nil
					},
					func(context.Context) error { return db.MergeAllPermanent() },
				)
			})
		})
		if !ok {
			return
		}

		r.Case(fmt.Sprintf("full/0/%d/%d/f0", c.Count, c.Limit))
		r.Sample(map[string]any{"level": "full", "case": c, "err": fmt.Sprint(ierr)})

		if ierr != nil {
			r.Count("full_returned_error", 1)
			r.Inconclusive(fmt.Sprintf("full-stack import of honest blocks failed (count %d limit %d): %v", c.Count, c.Limit, ierr))

			return
		}

		r.Count("full_returned_nil", 1)

		shape := "last-batch-partial"
		if c.Count%c.Limit == 0 {
			shape = "last-batch-full"
		}

		last := int64(-1)
		if m, found, err := db.LastBlockMap(); err == nil && found {
			last = m.Manifest().Height().Int64()
		}

		var missingdb, missingfs []int64

		for h := base.GenesisHeight; h <= to; h++ {
			if m, found, err := db.BlockMap(h); err != nil || !found || !m.Manifest().Hash().Equal(chain.Blocks[h].Manifest.Hash()) {
				missingdb = append(missingdb, h.Int64())
			}

			if _, found, err := isaac.BlockItemReadersDecode[base.BlockMap](dstreaders.Item, h, base.BlockItemMap, nil); err != nil || !found {
				missingfs = append(missingfs, h.Int64())
			}
		}

		sort.Slice(missingdb, func(i, j int) bool { return missingdb[i] < missingdb[j] })

		w := map[string]any{"case": c, "last_in_db": last, "missing_in_db": missingdb, "missing_in_fs": missingfs, "last_voteproofs_found": lastvps}

		switch {
		case last != to.Int64() || len(missingdb) > 0:
			r.Violation("ImportBlocks:full:nil-but-not-in-database:"+shape,
				fmt.Sprintf("ImportBlocks(0..%d, limit %d) of real blocks returned nil; database last height %d, %d heights missing", to, c.Limit, last, len(missingdb)), w)
		case len(missingfs) > 0:
			r.Violation("ImportBlocks:full:nil-but-not-in-localfs:"+shape,
				fmt.Sprintf("ImportBlocks(0..%d, limit %d) of real blocks returned nil; %d heights missing in destination fs (first %d)", to, c.Limit, len(missingfs), missingfs[0]), w)
		}
	})
}
