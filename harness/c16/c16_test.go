package c16

import (
	"context"
	"fmt"
	"io"
	"math/rand"
	"os"
	"path/filepath"
	"sort"
	"strings"
	"testing"
	"time"

	"github.com/spikeekips/mitum/base"
	"github.com/spikeekips/mitum/isaac"
	isaacblock "github.com/spikeekips/mitum/isaac/block"
	isaacdatabase "github.com/spikeekips/mitum/isaac/database"
	leveldbstorage "github.com/spikeekips/mitum/storage/leveldb"
	"github.com/spikeekips/mitum/util"
	"github.com/spikeekips/mitum/util/fixedtree"
	"github.com/spikeekips/mitum/util/valuehash"
	"verifharness/c13/blkrig"
	"verifharness/vlib"
)

type icase struct {
	Kind    string // honest | tamper kind
	World   int
	Height  int64
	NOps    int
	NStates int
	Honest  bool
	Broken  string
	// cases in which the served items do not match the served map
	Item   string `json:",omitempty"` // the item type whose checksum in the served map does not match what is served
	Tamper string `json:",omitempty"`
	Map    string `json:",omitempty"` // genuine | resigned-for-others | recomputed-signature-stale | recomputed-for-others-signature-stale
	Via    string `json:",omitempty"` // importer | importblocks
	Where  string `json:",omitempty"` // scan: the place of the damage
}

type outcome struct {
	Stored      bool
	ImportError string
	Validator   string   // error of IsValidBlockFromLocalFS on the imported files ("" = passed)
	Oracle      []string // clauses of the statement the imported block breaks (independent recomputation)
	OracleError string   // why the imported files could not be read back (Oracle = ["unreadable"])
}

// refusalReason: the innermost message of an error of the importer, without
// the values in it (evidence only, never part of a verdict).
func refusalReason(s string) string {
	if i := strings.LastIndex(s, ": "); i >= 0 {
		s = s[i+2:]
	}

	for _, sep := range []string{",", "=", "\"", "'"} {
		if i := strings.Index(s, sep); i > 0 {
			s = s[:i]
		}
	}

	if len(s) > 60 {
		s = s[:60]
	}

	return strings.TrimSpace(s)
}

func errs(err error) string {
	if err == nil {
		return ""
	}

	s := err.Error()
	if i := strings.Index(s, "\n"); i > 0 {
		s = s[:i]
	}

	if len(s) > 200 {
		s = s[:200]
	}

	return s
}

// serve imports the block at height h stored under srcroot (the "sync source")
// through the real BlockImporter into dstroot. m overrides the served map.
func serve(
	rig *blkrig.Rig, srcroot, dstroot string, h base.Height, m base.BlockMap, skip map[base.BlockItemType]bool,
) (stored bool, _ error) {
	src := rig.Readers(srcroot)

	if m == nil {
		switch i, found, err := isaac.BlockItemReadersDecode[base.BlockMap](src.Item, h, base.BlockItemMap, nil); {
		case err != nil:
			return false, err
		case !found:
			return false, fmt.Errorf("served map not found")
		default:
			m = i
		}
	}

	// the callers of the importer (syncer, import command) validate the served map
	if err := m.IsValid(rig.NetworkID); err != nil {
		return false, fmt.Errorf("served map is not valid: %w", err)
	}

	mst := leveldbstorage.NewMemStorage()
	defer mst.Close()

	bwdb := isaacdatabase.NewLeveldbBlockWrite(h, mst, rig.Encs, rig.Enc)
	defer bwdb.Close()

	im, err := isaacblock.NewBlockImporter(dstroot, rig.Encs, m, bwdb, func(context.Context) error { return nil }, rig.NetworkID)
	if err != nil {
		return false, err
	}

	var ierr error

	m.Items(func(item base.BlockMapItem) bool {
		if skip[item.Type()] {
			// the source never delivers this item
			return true
		}

		switch _, found, err := src.Item(h, item.Type(), func(ir isaac.BlockItemReader) error {
			return im.WriteItem(ir.Type(), ir)
		}); {
		case err != nil:
			ierr = err
		case !found:
			ierr = fmt.Errorf("item %q not served", item.Type())
		}

		return ierr == nil
	})

	if ierr != nil {
		_ = im.CancelImport(context.Background())

		return false, ierr
	}

	deferred, err := im.Save(context.Background())
	if err != nil {
		_ = im.CancelImport(context.Background())

		return false, err
	}

	if err := deferred(context.Background()); err != nil {
		return false, err
	}

	return true, nil
}

// serveViaImportBlocks imports the one block through the real ImportBlocks;
// the item function of the source returns nil for the skipped items without
// ever calling the reader callback (notfound: it reports them as not found).
func serveViaImportBlocks(
	rig *blkrig.Rig, srcroot, dstroot string, h base.Height, skip map[base.BlockItemType]bool, notfound bool,
) (stored bool, _ error) {
	src := rig.Readers(srcroot)
	dst := rig.Readers(dstroot)

	mst := leveldbstorage.NewMemStorage()
	defer mst.Close()

	err := isaacblock.ImportBlocks(
		context.Background(),
		h, h,
		1,
		dst,
		func(_ context.Context, height base.Height) (base.BlockMap, bool, error) {
			switch m, found, err := isaac.BlockItemReadersDecode[base.BlockMap](src.Item, height, base.BlockItemMap, nil); {
			case err != nil, !found:
				return nil, found, err
			default:
				return m, true, m.IsValid(rig.NetworkID)
			}
		},
		func(_ context.Context, height base.Height, item base.BlockItemType, f func(io.Reader, bool, string) error) error {
			if skip[item] {
				if notfound {
					return f(nil, false, "")
				}

				return nil
			}

			switch _, found, err := src.Item(height, item, func(ir isaac.BlockItemReader) error {
				return f(ir.Reader(), true, ir.Reader().Format)
			}); {
			case err != nil:
				return err
			case !found:
				return f(nil, false, "")
			default:
				return nil
			}
		},
		func(m base.BlockMap) (isaac.BlockImporter, error) {
			bwdb := isaacdatabase.NewLeveldbBlockWrite(m.Manifest().Height(), mst, rig.Encs, rig.Enc)

			return isaacblock.NewBlockImporter(dstroot, rig.Encs, m, bwdb, func(context.Context) error { return nil }, rig.NetworkID)
		},
		nil,
		nil,
	)

	return err == nil, err
}

func treeKeys(tr fixedtree.Tree) (keys []string, instate map[string]bool) {
	instate = map[string]bool{}

	_ = tr.Traverse(func(_ uint64, n fixedtree.Node) (bool, error) {
		keys = append(keys, n.Key())

		if on, ok := n.(base.OperationFixedtreeNode); ok {
			instate[on.Operation().String()] = on.InState()
		}

		return true, nil
	})

	return keys, instate
}

// oracle recomputes, from the imported files only, the clauses of the statement.
func oracle(b *blkrig.Block) (broken []string) {
	m := b.Manifest

	// operations <-> operations tree <-> manifest root
	{
		_, instate := treeKeys(b.OpsTree)
		inops := map[string]bool{}
		bad := false

		for _, op := range b.Ops {
			if op == nil {
				bad = true

				continue
			}

			k := op.Fact().Hash().String()
			if _, found := instate[k]; !found || inops[k] {
				bad = true
			}

			inops[k] = true
		}

		for k, in := range instate {
			if in && !inops[k] {
				bad = true
			}
		}

		switch {
		case b.OpsTree.Len() < 1 && (len(b.Ops) > 0 || m.OperationsTree() != nil):
			bad = true
		case b.OpsTree.Len() > 0:
			if b.OpsTree.IsValid(nil) != nil || !b.OpsTree.Root().Equal(m.OperationsTree()) {
				bad = true
			}
		}

		if bad {
			broken = append(broken, "operations")
		}
	}

	// states <-> states tree <-> manifest root
	{
		keys, _ := treeKeys(b.StatesTree)
		intree := map[string]bool{}

		for _, k := range keys {
			intree[k] = true
		}

		seen := map[string]bool{}
		bad := len(keys) != len(b.States)

		for _, st := range b.States {
			if st == nil {
				bad = true

				continue
			}

			k := st.Hash().String()
			if !intree[k] || seen[k] || st.Height() != m.Height() {
				bad = true
			}

			seen[k] = true
		}

		switch {
		case b.StatesTree.Len() < 1 && (len(b.States) > 0 || m.StatesTree() != nil):
			bad = true
		case b.StatesTree.Len() > 0:
			if b.StatesTree.IsValid(nil) != nil || !b.StatesTree.Root().Equal(m.StatesTree()) {
				bad = true
			}
		}

		if bad {
			broken = append(broken, "states")
		}
	}

	// proposal
	if b.Proposal == nil || !b.Proposal.Fact().Hash().Equal(m.Proposal()) || b.Proposal.Point().Height() != m.Height() {
		broken = append(broken, "proposal")
	}

	// voteproofs
	switch {
	case b.IVP == nil || b.AVP == nil:
		broken = append(broken, "voteproofs-missing")
	default:
		if b.IVP.Point().Height() != m.Height() || b.AVP.Point().Height() != m.Height() ||
			!b.IVP.Point().Point.Equal(b.AVP.Point().Point) {
			broken = append(broken, "voteproofs-point")
		}

		if maj := b.AVP.BallotMajority(); maj == nil || !maj.NewBlock().Equal(m.Hash()) {
			broken = append(broken, "accept-majority")
		}
	}

	return broken
}

// mapWithout re-signs the block map (same manifest, same checksums) without
// the given item types.
func mapWithout(rig *blkrig.Rig, m base.BlockMap, drop ...base.BlockItemType) (base.BlockMap, error) {
	nm := isaacblock.NewBlockMap()

	var serr error

	m.Items(func(item base.BlockMapItem) bool {
		for _, d := range drop {
			if item.Type() == d {
				return true
			}
		}

		serr = nm.SetItem(isaacblock.NewBlockMapItem(item.Type(), item.Checksum()))

		return serr == nil
	})

	if serr != nil {
		return nil, serr
	}

	nm.SetManifest(m.Manifest())

	if err := nm.Sign(rig.Local.Address(), rig.Local.Privatekey(), rig.NetworkID); err != nil {
		return nil, err
	}

	return nm, nil
}

func newStates(h base.Height, n int) []base.State {
	sts := make([]base.State, n)
	for i := range sts {
		sts[i] = base.NewBaseState(h, "forged-"+util.UUID().String(), base.NewDummyStateValue(util.UUID().String()),
			valuehash.RandomSHA256(), []util.Hash{valuehash.RandomSHA256()})
	}

	return sts
}

type variant struct {
	kind, broken string
	make         func(b *blkrig.Block) bool // mutates a clone; false = not applicable
}

func variants(rig *blkrig.Rig) []variant {
	ops := func(n int) []base.Operation {
		o := make([]base.Operation, n)
		for i := range o {
			o[i] = rig.NewOperation()
		}

		return o
	}

	firstPlain := func(b *blkrig.Block) int {
		for i, st := range b.States {
			if st.Key() != isaac.SuffrageStateKey {
				return i
			}
		}

		return -1
	}

	return []variant{
		{"states-foreign-tree", "all states replaced by other states with their own consistent states tree (root != manifest.StatesTree)", func(b *blkrig.Block) bool {
			b.States = newStates(b.Height, len(b.States))
			tr, err := blkrig.StatesTreeOf(b.States)
			if err != nil {
				return false
			}

			b.StatesTree = tr

			return true
		}},
		{"suffrage-state-replaced", "the suffrage state replaced by another node set, states tree rebuilt over the served states (root != manifest.StatesTree)", func(b *blkrig.Block) bool {
			if b.SufState == nil {
				return false
			}

			for i, st := range b.States {
				if st.Key() == isaac.SuffrageStateKey {
					v, _ := base.LoadSuffrageNodesStateValue(st)
					b.States[i] = base.NewBaseState(b.Height, isaac.SuffrageStateKey,
						blkrig.SuffrageValue(v.Height(), b.Height, []base.Node{base.RandomNode()}), st.Previous(), st.Operations())
				}
			}

			tr, err := blkrig.StatesTreeOf(b.States)
			if err != nil {
				return false
			}

			b.StatesTree = tr

			return true
		}},
		{"state-extra", "one more state in the states item than in the states tree", func(b *blkrig.Block) bool {
			b.States = append(b.States, newStates(b.Height, 1)...)

			return true
		}},
		{"state-missing", "one state of the states tree missing from the states item", func(b *blkrig.Block) bool {
			i := firstPlain(b)
			if i < 0 || len(b.States) < 2 {
				return false
			}

			b.States = append(b.States[:i:i], b.States[i+1:]...)

			return true
		}},
		{"state-modified", "one state carries another value (hash not in the states tree)", func(b *blkrig.Block) bool {
			i := firstPlain(b)
			if i < 0 {
				return false
			}

			st := b.States[i]
			b.States[i] = base.NewBaseState(st.Height(), st.Key(), base.NewDummyStateValue("tampered-"+util.UUID().String()), st.Previous(), st.Operations())

			return true
		}},
		{"ops-dropped", "one in-state operation of the tree missing from the operations item", func(b *blkrig.Block) bool {
			if len(b.Ops) < 2 {
				return false
			}

			b.Ops = b.Ops[1:]

			return true
		}},
		{"ops-foreign", "all operations replaced by other valid operations, tree unchanged", func(b *blkrig.Block) bool {
			b.Ops = ops(len(b.Ops))

			return true
		}},
		{"ops-extra", "one more operation in the operations item than in the tree", func(b *blkrig.Block) bool {
			b.Ops = append(b.Ops, ops(1)...)

			return true
		}},
		{"opstree-foreign", "operations and operations tree both replaced consistently (root != manifest.OperationsTree)", func(b *blkrig.Block) bool {
			b.Ops = ops(len(b.Ops))
			tr, err := blkrig.OpsTreeOf(b.Ops)
			if err != nil {
				return false
			}

			b.OpsTree = tr

			return true
		}},
		{"proposal-other", "another signed proposal of the same point (fact hash != manifest.Proposal)", func(b *blkrig.Block) bool {
			b.Proposal = rig.NewProposal(b.Point(), b.Manifest.Previous(), ops(2))

			return true
		}},
		{"vps-other-round", "INIT and ACCEPT voteproofs of another round voting for another proposal and block", func(b *blkrig.Block) bool {
			ivp, avp, err := rig.Voteproofs(base.NewPoint(b.Height, b.Round+1), b.Manifest.Previous(), valuehash.RandomSHA256(), valuehash.RandomSHA256(), nil)
			if err != nil {
				return false
			}

			b.IVP, b.AVP = ivp, avp

			return true
		}},
		{"avp-other-block", "ACCEPT voteproof of the same point whose majority is for another block hash", func(b *blkrig.Block) bool {
			_, avp, err := rig.Voteproofs(b.Point(), b.Manifest.Previous(), b.Manifest.Proposal(), valuehash.RandomSHA256(), nil)
			if err != nil {
				return false
			}

			b.AVP = avp

			return true
		}},
		// each voteproof separately off the manifest's point (the point of the
		// proposal the manifest commits to), in each direction; everything
		// else (signatures, proposal, ACCEPT majority = manifest hash) intact
		{"ivp-earlier-round", "INIT voteproof of an earlier round of the same height; ACCEPT voteproof untouched", func(b *blkrig.Block) bool {
			if b.Round < 1 {
				return false
			}

			ivp, _, err := rig.Voteproofs(base.NewPoint(b.Height, b.Round-1), b.Manifest.Previous(), b.Manifest.Proposal(), b.Manifest.Hash(), nil)
			if err != nil {
				return false
			}

			b.IVP = ivp

			return true
		}},
		{"ivp-later-round", "INIT voteproof of a later round of the same height; ACCEPT voteproof untouched", func(b *blkrig.Block) bool {
			ivp, _, err := rig.Voteproofs(base.NewPoint(b.Height, b.Round+1), b.Manifest.Previous(), b.Manifest.Proposal(), b.Manifest.Hash(), nil)
			if err != nil {
				return false
			}

			b.IVP = ivp

			return true
		}},
		{"avp-earlier-round", "ACCEPT voteproof (majority = manifest hash) of an earlier round of the same height; INIT voteproof untouched", func(b *blkrig.Block) bool {
			if b.Round < 1 {
				return false
			}

			_, avp, err := rig.Voteproofs(base.NewPoint(b.Height, b.Round-1), b.Manifest.Previous(), b.Manifest.Proposal(), b.Manifest.Hash(), nil)
			if err != nil {
				return false
			}

			b.AVP = avp

			return true
		}},
		{"avp-later-round", "ACCEPT voteproof (majority = manifest hash) of a later round of the same height; INIT voteproof untouched", func(b *blkrig.Block) bool {
			_, avp, err := rig.Voteproofs(base.NewPoint(b.Height, b.Round+1), b.Manifest.Previous(), b.Manifest.Proposal(), b.Manifest.Hash(), nil)
			if err != nil {
				return false
			}

			b.AVP = avp

			return true
		}},
		{"vps-other-height", "INIT and ACCEPT voteproofs of another height", func(b *blkrig.Block) bool {
			ivp, avp, err := rig.Voteproofs(base.NewPoint(b.Height+1, b.Round), valuehash.RandomSHA256(), b.Manifest.Proposal(), b.Manifest.Hash(), nil)
			if err != nil {
				return false
			}

			b.IVP, b.AVP = ivp, avp

			return true
		}},
	}
}

func TestC16(t *testing.T) {
	r := vlib.Start(t, "C16", vlib.LevelExploration)
	defer r.Finish()
	r.SetRule("case = one block served item by item to the real isaacblock.BlockImporter (NewBlockImporter, WriteItem per item of the served map, Save, deferred merge); honest = block written by the real Writer+LocalFSWriter; tampered = the same block with one item (pair) replaced, written again through LocalFSWriter so that checksums are recomputed and the map (same manifest) is re-signed by the serving node; degenerate variants with whole items (states, operations, trees) stripped from the re-signed map; sources that never deliver one / two / all items of the honest map (WriteItem never called for them before Save; and through the real ImportBlocks with an item function that returns nil, or reports not found, for them); controls: stale checksum (honest map, tampered files), voteproofs of another height; items that do NOT match the served map (field Map of the case set): the source serves items as byte streams from memory, so map and items vary independently: for every item type of the map (proposal, operations, operations_tree, states, states_tree, voteproofs) x every way of damaging an item (body truncated, header only, one bit flipped, stream cut, one bit of the compressed stream flipped, the item of another block of the same chain, directed for the voteproofs item: well-formed JSON in which one sign fact of one voteproof has its fact key renamed / is null / signs null ; in the INIT and in the ACCEPT voteproof every hash-valued member (hash, proposal, previous_block / new_block) of the fact the first sign fact signs absent and null; for every item with a count in its header line that count one more / one less than its lines (each of these directed cases on a non-genesis block, first item by item through the importer under the panic guard, then, unless that panicked, through ImportBlocks); thorough tier only, one non-genesis block per world, exhaustive scan: every member of every JSON object of every line of every item renamed, every value and array element null, and the single-bit flips of the body (world w flips the bits 8*position+bit = w mod #worlds, so one run covers every bit place of the layout once), the damaged item delivered first, item by item under the panic guard (Kind scan-*, Where = the place), and every tampered item of the variants above taken alone) the item is served under the GENUINE, un-re-signed map of the block (map=genuine); variants that tamper several items are also served with a map re-signed after recomputing the checksums of all but one tampered item (map=resigned-for-others), and with all, or all but one, of these checksums recomputed but the genuine signature kept (map=recomputed-signature-stale, map=recomputed-for-others-signature-stale); half of these through the importer item by item (seekable readers), half through the real ImportBlocks (plain streams); quick tier: every (item type, damage) pair at least once per world, spread over its blocks; a served map must pass BlockMap.IsValid first, as the importer's callers demand; when stored, the imported files are judged by isaacblock.IsValidBlockFromLocalFS and by an independent recomputation of the statement's clauses; distinct = (kind, world, height, #ops, #states, path); non-trivial = every case")
	r.Assume("stored = BlockImporter.Save and its deferred merge returned nil (block write database on memory storage, merge callback a no-op)")
	r.Assume("independent oracle: operations item = the in-state nodes of a valid operations tree whose root is manifest.OperationsTree (not-in-state nodes need no stored operation, as the real Writer does not store them); states item = exactly the keys of a valid states tree whose root is manifest.StatesTree, all at the manifest height; proposal fact hash = manifest.Proposal; both voteproofs at the manifest height and at one and the same point (height and round; the manifest itself carries no round, and the round of the proposal is not compared, since voteproofs of a suffrage majority for this very block at another round cannot exist without that majority signing them); ACCEPT majority's new block = manifest.Hash")

	worlds := r.N(2, 12)
	nblocks := r.N(5, 8)

	judge := func(c icase, o outcome) {
		fp := fmt.Sprintf("%s/w%d/h%d/o%d/s%d", c.Kind, c.World, c.Height, c.NOps, c.NStates)
		if c.Via != "" {
			fp += "/via=" + c.Via
		}

		if c.Where != "" {
			fp += "/" + c.Where
		}

		r.Case(fp)
		r.Count("served_"+c.Kind, 1)
		r.Sample(map[string]any{"case": c, "outcome": o})

		if !o.Stored {
			r.Count("rejected_by_importer", 1)

			if c.Honest {
				r.Inconclusive(fmt.Sprintf("honest block rejected by the importer (%s h=%d): %s", c.Kind, c.Height, o.ImportError))
			}

			return
		}

		r.Count("stored", 1)

		if o.Validator == "" && len(o.Oracle) == 0 {
			r.Count("stored_and_consistent", 1)

			return
		}

		v := "pass"
		if o.Validator != "" {
			v = "reject"
		}

		sort.Strings(o.Oracle)
		oc := "ok"

		if len(o.Oracle) > 0 {
			oc = strings.Join(o.Oracle, "+")
		}

		r.Count("stored_but_inconsistent", 1)
		r.Violation(fmt.Sprintf("stored:%s:validator=%s:oracle=%s", c.Kind, v, oc),
			fmt.Sprintf("block stored by BlockImporter although it is not consistent with its manifest: %s; IsValidBlockFromLocalFS on the imported files: %q; clauses broken by independent recomputation: %v (height %d)",
				c.Broken, o.Validator, o.Oracle, c.Height),
			map[string]any{"case": c, "outcome": o})
	}

	// judgeUnmatched: judge + what the cases whose items do not match the served map showed
	var sampled bool

	judgeUnmatched := func(c icase, o outcome) {
		judge(c, o)

		r.Count("unmatched_cases", 1)
		r.Count("unmatched_map_"+c.Map, 1)
		r.Count("unmatched_tamper_"+c.Tamper, 1)
		r.Count("unmatched_via_"+c.Via, 1)

		if c.Item != "" {
			r.Count("unmatched_item_"+c.Item, 1)
			r.SetAdd("unmatched_item_x_tamper_x_map", c.Item+"/"+c.Tamper+"/"+c.Map)
		}

		switch {
		case o.Stored:
			r.Count("unmatched_stored", 1)
		default:
			r.Count("unmatched_refused", 1)
			r.SetAdd("unmatched_refusal_reasons", refusalReason(o.ImportError))

			if !sampled && c.Map == "genuine" {
				sampled = true

				r.Set("unmatched_sample", map[string]any{"case": c, "outcome": o})
			}
		}
	}

	stride := r.N(4, 1)  // byte-level damage: every stride-th (item type, damage) pair per block
	vstride := r.N(2, 1) // variants: every vstride-th variant per block
	vias := []string{"importer", "importblocks"}

	for w := 0; w < worlds; w++ {
		rng := r.Rand(16, w)
		rig := blkrig.New()
		wdir := filepath.Join(r.WorkDir(), fmt.Sprintf("w%d", w))
		srcroot := filepath.Join(wdir, "src")
		chain := rig.NewChain(srcroot)

		for i := 0; i < nblocks; i++ {
			spec := blkrig.Spec{
				NOps: 2 + rng.Intn(3), NStatesPerOp: 1 + rng.Intn(3),
				Suffrage: i == 0 || rng.Intn(2) == 0, NNodes: 1 + rng.Intn(3), Round: base.Round(i % 3),
			}
			// the last block of every world has one operation that failed processing
			if i == nblocks-1 {
				spec.FailedOps = 1
			}

			if _, err := chain.Add(spec, rng); err != nil {
				t.Fatalf("build chain: %+v", err)
			}
		}

		chain.Close()
		r.Count("real_blocks_written", nblocks)

		// every block of the world as the bytes a sync source sends
		hsrcs := map[base.Height]*source{}

		for _, b := range chain.Blocks {
			s, err := loadSource(rig, srcroot, b.Height)
			if err != nil {
				t.Fatalf("load source: %+v", err)
			}

			hsrcs[b.Height] = s
		}

		n := 0
		var runWith func(c icase, h base.Height, f func(dst string) (bool, error))

		run := func(c icase, src string, h base.Height, m base.BlockMap) {
			runWith(c, h, func(dst string) (bool, error) { return serve(rig, src, dst, h, m, nil) })
		}

		// import: one import under watchdog and panic guard, judged by the caller
		imprt := func(c icase, h base.Height, dst string, servef func(dst string) (bool, error)) (o outcome, ok, panicked bool) {
			var g outcome // read only once the import has returned
			var p bool

			ok = r.WithWatchdog(5*time.Minute, "import", func() {
				p = r.Guard("BlockImporter:"+c.Kind, c, func() {
					stored, err := servef(dst)
					g.Stored = stored
					g.ImportError = errs(err)

					if !stored {
						return
					}

					dr := rig.Readers(dst)
					g.Validator = errs(isaacblock.IsValidBlockFromLocalFS(dr.Item, h, rig.NetworkID, nil, nil, nil))

					switch ib, err := rig.Load(dr, h); {
					case err != nil:
						g.Oracle = []string{"unreadable"}
						g.OracleError = errs(err)
					default:
						g.Oracle = oracle(ib)
					}
				})
			})
			if !ok {
				return outcome{}, false, false
			}

			return g, true, p
		}

		runWith = func(c icase, h base.Height, servef func(dst string) (bool, error)) {
			n++

			if o, ok, _ := imprt(c, h, filepath.Join(wdir, fmt.Sprintf("dst-%d", n)), servef); ok {
				judge(c, o)
			}
		}

		// runUnmatched queues a case in which the served items do not match the
		// served map; flushUnmatched runs the queued cases (independent of each
		// other: own source, own destination, own database) on a few workers
		// and judges them in the order they were queued
		type queued struct {
			c   icase
			h   base.Height
			s   *source
			dst string
		}

		var queue []queued

		runUnmatched := func(c icase, h base.Height, s *source) {
			n++
			queue = append(queue, queued{c: c, h: h, s: s, dst: filepath.Join(wdir, fmt.Sprintf("dst-%d", n))})
		}

		flushUnmatched := func() {
			outs := make([]outcome, len(queue))
			oks := make([]bool, len(queue))

			vlib.Parallel(len(queue), 8, func(i int) {
				q := queue[i]
				outs[i], oks[i], _ = imprt(q.c, q.h, q.dst, func(dst string) (bool, error) { return serveSource(rig, q.s, dst, q.h, q.c.Via) })
			})

			for i := range queue {
				if oks[i] {
					judgeUnmatched(queue[i].c, outs[i])
				}
			}

			queue = nil
		}

		// runDirected: a directed case, at once and on this goroutine: first
		// item by item through the importer, where a panic of the repository's
		// decoding is recovered by the guard and reported as a violation;
		// through ImportBlocks (which decodes on worker goroutines of its own,
		// where a panic would kill the monitor) only if that did not panic
		runDirected := func(c icase, h base.Height, s *source) {
			for _, via := range vias {
				n++
				c.Via = via

				o, ok, panicked := imprt(c, h, filepath.Join(wdir, fmt.Sprintf("dst-%d", n)), func(dst string) (bool, error) {
					return serveSource(rig, s, dst, h, via)
				})

				r.Count("directed_cases", 1)
				r.Count("directed_"+c.Tamper, 1)

				switch {
				case panicked:
					r.Count("directed_panicked", 1)

					return
				case ok:
					judgeUnmatched(c, o)
				}
			}
		}

		// scan: exhaustive damage of every item of one block (thorough tier):
		// every member of every JSON object renamed, every value and every
		// array element null, and single-bit flips of the body; world w takes
		// the flips of the bits (8*position+bit) = w modulo the number of
		// worlds, so that a run covers every bit place of the item layout
		// once. The damaged item is delivered first, item by item through the
		// importer under the panic guard, under the genuine map.
		scan := func(h base.Height, base0 icase, hsrc *source, types []base.BlockItemType) {
			type job struct {
				it     base.BlockItemType
				tamper string
				where  string
				body   []byte // structural damage
				bit    int    // bit flip: 8*position+bit
			}

			var jobs []job

			for _, it := range types {
				body, err := hsrc.items[it].body()
				if err != nil {
					t.Fatalf("scan: %+v", err)
				}

				for _, e := range bodyEdits(body) {
					jobs = append(jobs, job{it: it, tamper: "scan-" + e.Kind, where: fmt.Sprintf("line%d%s", e.Line, e.Path), body: e.Body})
				}

				for i := w % worlds; i < len(body)*8; i += worlds {
					jobs = append(jobs, job{it: it, tamper: "scan-bit-flipped", where: fmt.Sprintf("byte%d.bit%d", i/8, i%8), bit: i})
				}
			}

			cases := make([]icase, len(jobs))
			outs := make([]outcome, len(jobs))
			oks := make([]bool, len(jobs))
			n0 := n
			n += len(jobs)

			// memory storages for the block write databases: one per import
			// in flight, used again after a refused import
			msts := make(chan *leveldbstorage.Storage, 12)
			defer func() {
				close(msts)

				for mst := range msts {
					_ = mst.Close()
				}
			}()

			vlib.Parallel(len(jobs), 12, func(i int) {
				j := jobs[i]

				var mst *leveldbstorage.Storage

				select {
				case mst = <-msts:
				default:
					mst = leveldbstorage.NewMemStorage()
				}

				nb := j.body
				if nb == nil {
					nb, _ = hsrc.items[j.it].body()
					nb[j.bit/8] ^= 1 << uint(j.bit%8)
				}

				s := hsrc.with(nil, map[base.BlockItemType]rawItem{j.it: pack(nb, hsrc.items[j.it].Format)})
				s.first, s.mst = j.it, mst

				c := base0
				c.Item, c.Tamper, c.Map, c.Via, c.Where = string(j.it), j.tamper, "genuine", "importer", j.where
				c.Kind = fmt.Sprintf("%s:item=%s:map=genuine", j.tamper, j.it)
				c.Broken = fmt.Sprintf("item %s: %s at %s; every other item and the block map (signature, checksums) are the genuine ones", j.it, j.tamper, j.where)
				cases[i] = c

				dst := filepath.Join(wdir, fmt.Sprintf("dst-%d", n0+1+i))
				outs[i], oks[i], _ = imprt(c, h, dst, func(dst string) (bool, error) { return serveSource(rig, s, dst, h, "importer") })

				switch {
				case oks[i] && !outs[i].Stored:
					_ = os.RemoveAll(dst)
					msts <- mst
				case oks[i]:
					_ = mst.Close()
				}
			})

			for i := range jobs {
				if !oks[i] {
					continue
				}

				judge(cases[i], outs[i])

				r.Count("scan_inputs", 1)
				r.Count("scan_inputs_"+jobs[i].tamper, 1)
				r.Count("scan_item_"+string(jobs[i].it), 1)

				switch {
				case !outs[i].Stored:
					r.Count("scan_refused", 1)
					r.SetAdd("scan_refusal_reasons", refusalReason(outs[i].ImportError))
				case outs[i].Validator == "" && len(outs[i].Oracle) == 0:
					r.Count("scan_stored_consistent", 1)
				}
			}
		}

		for _, b := range chain.Blocks {
			honestKind := "honest"
			if int(b.Height) == nblocks-1 {
				honestKind = "honest-with-failed-operation"
			}

			base0 := icase{World: w, Height: b.Height.Int64(), NOps: len(b.Ops), NStates: len(b.States)}

			hc := base0
			hc.Kind, hc.Honest = honestKind, true
			hc.Broken = "nothing (block as written by the real Writer; one operation of the tree is not in state and so not in the operations item)"
			run(hc, srcroot, b.Height, nil)

			if honestKind != "honest" {
				continue
			}

			// degenerate variants: whole items stripped from the re-signed map
			// (the manifest and the remaining items still commit to them)
			for _, d := range []struct {
				kind, broken string
				drop         []base.BlockItemType
			}{
				{"states-item-absent", "all states stripped: the states item is not in the re-signed map, manifest and states tree still commit to the states", []base.BlockItemType{base.BlockItemStates}},
				{"ops-item-absent", "all operations stripped: the operations item is not in the re-signed map, manifest and operations tree still commit to them", []base.BlockItemType{base.BlockItemOperations}},
				{"states-and-ops-items-absent", "states and operations items both stripped from the re-signed map", []base.BlockItemType{base.BlockItemStates, base.BlockItemOperations}},
				{"statestree-item-absent", "the states tree item is not in the re-signed map although manifest.StatesTree is set", []base.BlockItemType{base.BlockItemStatesTree}},
				{"opstree-item-absent", "the operations tree item is not in the re-signed map although manifest.OperationsTree is set", []base.BlockItemType{base.BlockItemOperationsTree}},
				{"states-and-statestree-items-absent", "states and states tree items both stripped although manifest.StatesTree is set", []base.BlockItemType{base.BlockItemStates, base.BlockItemStatesTree}},
			} {
				nm, err := mapWithout(rig, b.Map, d.drop...)
				if err != nil {
					t.Fatalf("re-sign map: %+v", err)
				}

				c := base0
				c.Kind, c.Broken = d.kind, d.broken
				run(c, srcroot, b.Height, nm)
			}

			// the source never delivers some items of the (honest) map
			{
				var all []base.BlockItemType

				b.Map.Items(func(item base.BlockMapItem) bool {
					all = append(all, item.Type())

					return true
				})

				sort.Slice(all, func(i, j int) bool { return all[i] < all[j] })

				sets := [][]base.BlockItemType{}
				for _, it := range all {
					sets = append(sets, []base.BlockItemType{it})
				}

				sets = append(sets,
					[]base.BlockItemType{base.BlockItemStates, base.BlockItemStatesTree},
					[]base.BlockItemType{base.BlockItemProposal, base.BlockItemVoteproofs},
					[]base.BlockItemType{all[rng.Intn(len(all))], all[rng.Intn(len(all))]},
					all,
				)

				for _, set := range sets {
					skip := map[base.BlockItemType]bool{}
					var names []string

					for _, it := range set {
						if !skip[it] {
							names = append(names, string(it))
						}

						skip[it] = true
					}

					name := strings.Join(names, "+")
					if len(skip) == len(all) {
						name = "all"
					}

					c := base0
					c.Broken = "the source never delivers " + strings.Join(names, ", ") + " although the served (honest) map lists them"

					c.Kind = "item-not-delivered:" + name + ":importer"
					runWith(c, b.Height, func(dst string) (bool, error) { return serve(rig, srcroot, dst, b.Height, nil, skip) })

					c.Kind = "item-not-delivered:" + name + ":importblocks"
					runWith(c, b.Height, func(dst string) (bool, error) {
						return serveViaImportBlocks(rig, srcroot, dst, b.Height, skip, false)
					})

					if len(skip) == 1 {
						c.Kind = "item-reported-not-found:" + name + ":importblocks"
						runWith(c, b.Height, func(dst string) (bool, error) {
							return serveViaImportBlocks(rig, srcroot, dst, b.Height, skip, true)
						})
					}
				}

				// control: everything delivered through ImportBlocks
				hc := base0
				hc.Kind, hc.Honest = "honest:importblocks", true
				runWith(hc, b.Height, func(dst string) (bool, error) {
					return serveViaImportBlocks(rig, srcroot, dst, b.Height, nil, false)
				})
			}

			// items that do not match the served map: byte streams served from memory
			hsrc := hsrcs[b.Height]
			types := blkrig.SortedItemTypes(hsrc.m)
			grng := r.Rand(16, w, 1000+int(b.Height))

			// control: the genuine items as byte streams under the genuine map
			// (quick tier: one path per block, alternating)
			for i := range vias {
				if r.Quick() && i != (int(b.Height)+w)%2 {
					continue
				}

				hc := base0
				hc.Kind, hc.Honest, hc.Via = "honest:byte-source", true, vias[i]
				hc.Broken = "nothing (the genuine items as byte streams under the genuine map)"
				runWith(hc, b.Height, func(dst string) (bool, error) { return serveSource(rig, hsrc, dst, b.Height, hc.Via) })
			}

			{
				tampers := append(byteTampers(), byteTamper{
					"other-block", "the item of the same type of another block of the same chain",
					func(it rawItem, _ *rand.Rand) (rawItem, bool) { return it, false }, // made below
				})

				for ti, it := range types {
					for ki, bt := range tampers {
						if (ti+ki+int(b.Height))%stride != 0 {
							continue
						}

						c := base0
						c.Item, c.Tamper, c.Map, c.Via = string(it), bt.kind, "genuine", vias[(ti+ki+w)%2]
						c.Kind = fmt.Sprintf("%s:item=%s:map=genuine", bt.kind, it)
						c.Broken = fmt.Sprintf("item %s: %s; every other item and the block map (signature, checksums) are the genuine ones", it, bt.broken)

						var ri rawItem

						switch {
						case bt.kind == "other-block":
							var cands []base.Height

							for _, ob := range chain.Blocks {
								if _, found := hsrcs[ob.Height].items[it]; found && ob.Height != b.Height {
									cands = append(cands, ob.Height)
								}
							}

							if len(cands) < 1 {
								continue
							}

							oh := cands[grng.Intn(len(cands))]
							ri = hsrcs[oh].items[it]
							c.Broken += fmt.Sprintf(" (height %d)", oh)
						default:
							i, ok := bt.make(hsrc.items[it], grng)
							if !ok {
								continue
							}

							ri = i
						}

						runUnmatched(c, b.Height, hsrc.with(nil, map[base.BlockItemType]rawItem{it: ri}))
					}
				}
			}

			// directed: well-formed JSON in which a sign fact of a voteproof, or
			// the fact it signs, is missing (quick tier: one block per world)
			directedBlock := int(b.Height) == 1+w%(nblocks-2) // not the genesis block

			if !r.Quick() || directedBlock {
				for _, st := range signFactTampers() {
					ri, ok := st.make(hsrc.items[base.BlockItemVoteproofs], grng)
					if !ok {
						r.Inconclusive("directed case " + st.kind + " could not be built from the voteproofs item")

						continue
					}

					c := base0
					c.Item, c.Tamper, c.Map = string(base.BlockItemVoteproofs), st.kind, "genuine"
					c.Kind = fmt.Sprintf("%s:item=%s:map=genuine", st.kind, base.BlockItemVoteproofs)
					c.Broken = fmt.Sprintf("item voteproofs: %s; every other item and the block map (signature, checksums) are the genuine ones", st.broken)
					runDirected(c, b.Height, hsrc.with(nil, map[base.BlockItemType]rawItem{base.BlockItemVoteproofs: ri}))
				}

				// every hash-valued member of the fact a sign fact signs, in the
				// INIT and in the ACCEPT voteproof, absent and null
				for _, ft := range factFieldTampers(hsrc.items[base.BlockItemVoteproofs]) {
					c := base0
					c.Item, c.Tamper, c.Map = string(base.BlockItemVoteproofs), ft.Kind, "genuine"
					c.Kind = fmt.Sprintf("%s:item=%s:map=genuine", ft.Kind, base.BlockItemVoteproofs)
					c.Broken = fmt.Sprintf("item voteproofs: %s; every other item and the block map (signature, checksums) are the genuine ones", ft.Broken)
					runDirected(c, b.Height, hsrc.with(nil, map[base.BlockItemType]rawItem{base.BlockItemVoteproofs: ft.Item}))
				}

				// the count in the header line of an item one less / one more
				// than the lines it holds
				for _, it := range types {
					for _, d := range []struct {
						kind  string
						delta int
					}{{"count-raised", 1}, {"count-lowered", -1}} {
						ri, ok := countTamper(hsrc.items[it], d.delta)
						if !ok {
							continue
						}

						c := base0
						c.Item, c.Tamper, c.Map = string(it), d.kind, "genuine"
						c.Kind = fmt.Sprintf("%s:item=%s:map=genuine", d.kind, it)
						c.Broken = fmt.Sprintf("item %s: the count in its header line is changed by %+d, its lines are untouched; every other item and the block map (signature, checksums) are the genuine ones", it, d.delta)
						runDirected(c, b.Height, hsrc.with(nil, map[base.BlockItemType]rawItem{it: ri}))
					}
				}
			}

			if r.Thorough() && directedBlock {
				scan(b.Height, base0, hsrc, types)
			}

			for vi, v := range variants(rig) {
				tb := b.Clone()
				if !v.make(tb) {
					continue
				}

				vroot := filepath.Join(wdir, fmt.Sprintf("var-%d-%d", b.Height, vi))
				if _, err := rig.WriteBlock(vroot, tb); err != nil {
					t.Fatalf("write variant %s: %+v", v.kind, err)
				}

				c := base0
				c.Kind, c.Broken = v.kind, v.broken
				c.NOps, c.NStates = len(tb.Ops), len(tb.States)
				run(c, vroot, b.Height, nil)

				// control: the honest (signed) map with the tampered files
				if vi == int(b.Height)%3 {
					cc := c
					cc.Kind = "stale-checksum:" + v.kind
					run(cc, vroot, b.Height, b.Map)
				}

				// the tampered items of the variant against maps that do not match them
				if (vi+int(b.Height))%vstride != 0 {
					continue
				}

				vsrc, err := loadSource(rig, vroot, b.Height)
				if err != nil {
					t.Fatalf("load source of variant %s: %+v", v.kind, err)
				}

				var diff []base.BlockItemType
				recomputed := map[base.BlockItemType]string{}
				tampered := map[base.BlockItemType]rawItem{} // the items of the variant whose content differs

				for _, it := range types {
					if vit, found := vsrc.items[it]; found && !sameContent(vit, hsrc.items[it]) {
						diff = append(diff, it)

						mi, _ := vsrc.m.Item(it)
						recomputed[it] = mi.Checksum()
						tampered[it] = vit
					}
				}

				if len(diff) < 1 {
					r.Inconclusive(fmt.Sprintf("variant %s: no item differs from the honest block", v.kind))

					continue
				}

				r.Count(fmt.Sprintf("variants_with_%d_tampered_items", len(diff)), 1)

				for di, it := range diff {
					// this tampered item alone, everything else and the map genuine
					gc := c
					gc.NOps, gc.NStates = base0.NOps, base0.NStates
					gc.Item, gc.Tamper, gc.Map, gc.Via = string(it), v.kind, "genuine", vias[(vi+di+w)%2]
					gc.Kind = fmt.Sprintf("%s:item=%s:map=genuine", v.kind, it)
					gc.Broken = fmt.Sprintf("%s -- of this only item %s is served, every other item and the block map (signature, checksums) are the genuine ones", v.broken, it)
					runUnmatched(gc, b.Height, hsrc.with(nil, map[base.BlockItemType]rawItem{it: vsrc.items[it]}))

					if len(diff) < 2 {
						continue
					}

					// all tampered items; the serving node recomputed the checksums
					// of the other tampered items and re-signed, this item's
					// checksum is still the genuine one
					others := map[base.BlockItemType]string{}

					for k, cs := range recomputed {
						if k != it {
							others[k] = cs
						}
					}

					nm, err := mapWith(rig, hsrc.m, others, true)
					if err != nil {
						t.Fatalf("re-sign map: %+v", err)
					}

					pc := c
					pc.Item, pc.Tamper, pc.Map, pc.Via = string(it), v.kind, "resigned-for-others", vias[(vi+di+w+1)%2]
					pc.Kind = fmt.Sprintf("%s:item=%s:map=resigned-for-others", v.kind, it)
					pc.Broken = fmt.Sprintf("%s -- the map is re-signed with the recomputed checksums of the other tampered items, the checksum of item %s is the genuine one", v.broken, it)
					runUnmatched(pc, b.Height, hsrc.with(nm, tampered))

					// the same checksums, but the map is not even re-signed
					sm, err := mapWith(rig, hsrc.m, others, false)
					if err != nil {
						t.Fatalf("stale map: %+v", err)
					}

					oc := c
					oc.Item, oc.Tamper, oc.Map, oc.Via = string(it), v.kind, "recomputed-for-others-signature-stale", vias[(vi+di+w)%2]
					oc.Kind = fmt.Sprintf("%s:item=%s:map=recomputed-for-others-signature-stale", v.kind, it)
					oc.Broken = fmt.Sprintf("%s -- the checksums of the other tampered items are recomputed in the map, the checksum of item %s and the signature are the genuine ones (the signature now stale)", v.broken, it)
					runUnmatched(oc, b.Height, hsrc.with(sm, tampered))
				}

				// all tampered items, all their checksums recomputed, but the map
				// still carries the genuine signature
				{
					nm, err := mapWith(rig, hsrc.m, recomputed, false)
					if err != nil {
						t.Fatalf("stale map: %+v", err)
					}

					sc := c
					sc.Tamper, sc.Map, sc.Via = v.kind, "recomputed-signature-stale", vias[(vi+w)%2]
					sc.Kind = v.kind + ":map=recomputed-signature-stale"
					sc.Broken = v.broken + " -- the checksums of the tampered items are recomputed in the map, its signature is the genuine (now stale) one"
					runUnmatched(sc, b.Height, hsrc.with(nm, tampered))
				}
			}

			flushUnmatched()
		}
	}

	if r.Counter("stored_and_consistent") < 1 {
		r.Inconclusive("no honest block was stored and found consistent")
	}

	if r.Counter("rejected_by_importer") < 1 {
		r.Inconclusive("the importer rejected nothing")
	}

	for _, it := range []base.BlockItemType{
		base.BlockItemProposal, base.BlockItemOperations, base.BlockItemOperationsTree,
		base.BlockItemStates, base.BlockItemStatesTree, base.BlockItemVoteproofs,
	} {
		if r.Counter("unmatched_item_"+string(it)) < 1 {
			r.Inconclusive(fmt.Sprintf("no %s item was served that does not match the served map", it))
		}
	}

	for _, k := range []string{
		"signfact-key-renamed", "signfact-null", "signfact-fact-null",
		"init-fact-hash-absent", "init-fact-previous_block-null", "accept-fact-new_block-null", "accept-fact-proposal-null",
		"count-lowered", "count-raised",
	} {
		if r.Counter("directed_"+k) < 1 {
			r.Inconclusive("the directed case " + k + " was not run")
		}
	}

	if r.Thorough() && r.Counter("scan_inputs") < 1 {
		r.Inconclusive("the exhaustive scan did not run")
	}

	for _, m := range []string{"genuine", "resigned-for-others", "recomputed-signature-stale", "recomputed-for-others-signature-stale"} {
		if r.Counter("unmatched_map_"+m) < 1 {
			r.Inconclusive("no case with map=" + m)
		}
	}
}
