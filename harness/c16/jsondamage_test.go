package c16

import (
	"bytes"
	"encoding/json"
	"fmt"
	"regexp"
	"strconv"
)

// Structural damage of the JSON an item consists of: the bytes stay as they
// are (key order, spacing) except for the one place that is damaged, and what
// is left is still well-formed JSON.

// jsonEdit is one damaged copy of a JSON document.
type jsonEdit struct {
	Path string // e.g. .sign_facts[0].fact.hash
	Kind string // key-renamed (so the member is absent) | value-null | element-null
	Was  byte   // first byte of the damaged value ('"' string, '{' object, '[' array, 'n' null, ...)
	Doc  []byte
}

type jsonScanner struct {
	b     []byte
	edits []jsonEdit
	bad   bool
}

func (s *jsonScanner) ws(i int) int {
	for i < len(s.b) && (s.b[i] == ' ' || s.b[i] == '\t' || s.b[i] == '\r' || s.b[i] == '\n') {
		i++
	}

	return i
}

func (s *jsonScanner) str(i int) int {
	if i >= len(s.b) || s.b[i] != '"' {
		s.bad = true

		return len(s.b)
	}

	for i++; i < len(s.b); i++ {
		switch s.b[i] {
		case '\\':
			i++
		case '"':
			return i + 1
		}
	}

	s.bad = true

	return len(s.b)
}

func (s *jsonScanner) replace(from, to int, with string) []byte {
	d := make([]byte, 0, len(s.b)+len(with))
	d = append(d, s.b[:from]...)
	d = append(d, with...)

	return append(d, s.b[to:]...)
}

// value scans the value that starts at i, records the damaged copies of
// everything below it and returns the index after it.
func (s *jsonScanner) value(i int, path string) int {
	i = s.ws(i)
	if i >= len(s.b) {
		s.bad = true

		return i
	}

	switch s.b[i] {
	case '{':
		i = s.ws(i + 1)
		if i < len(s.b) && s.b[i] == '}' {
			return i + 1
		}

		for !s.bad {
			ks := s.ws(i)
			ke := s.str(ks)

			if s.bad {
				return len(s.b)
			}

			var key string
			if json.Unmarshal(s.b[ks:ke], &key) != nil {
				key = string(s.b[ks+1 : ke-1])
			}

			i = s.ws(ke)
			if i >= len(s.b) || s.b[i] != ':' {
				s.bad = true

				return len(s.b)
			}

			vs := s.ws(i + 1)
			p := path + "." + key
			ve := s.value(vs, p)

			if s.bad {
				return len(s.b)
			}

			s.edits = append(s.edits,
				jsonEdit{Path: p, Kind: "key-renamed", Was: s.b[vs], Doc: s.replace(ks+1, ks+1, "x")},
			)

			if !bytes.Equal(s.b[vs:ve], []byte("null")) {
				s.edits = append(s.edits, jsonEdit{Path: p, Kind: "value-null", Was: s.b[vs], Doc: s.replace(vs, ve, "null")})
			}

			i = s.ws(ve)

			switch {
			case i < len(s.b) && s.b[i] == ',':
				i++
			case i < len(s.b) && s.b[i] == '}':
				return i + 1
			default:
				s.bad = true
			}
		}

		return len(s.b)
	case '[':
		i = s.ws(i + 1)
		if i < len(s.b) && s.b[i] == ']' {
			return i + 1
		}

		for n := 0; !s.bad; n++ {
			vs := s.ws(i)
			p := fmt.Sprintf("%s[%d]", path, n)
			ve := s.value(vs, p)

			if s.bad {
				return len(s.b)
			}

			if !bytes.Equal(s.b[vs:ve], []byte("null")) {
				s.edits = append(s.edits, jsonEdit{Path: p, Kind: "element-null", Was: s.b[vs], Doc: s.replace(vs, ve, "null")})
			}

			i = s.ws(ve)

			switch {
			case i < len(s.b) && s.b[i] == ',':
				i++
			case i < len(s.b) && s.b[i] == ']':
				return i + 1
			default:
				s.bad = true
			}
		}

		return len(s.b)
	case '"':
		return s.str(i)
	default:
		j := i
		for j < len(s.b) && !bytes.ContainsRune([]byte(",]} \t\r\n"), rune(s.b[j])) {
			j++
		}

		if j == i {
			s.bad = true
		}

		return j
	}
}

// jsonEdits: every member of every object of doc renamed, every value that is
// not null replaced by null, every array element replaced by null -- one
// damaged copy each. nil when doc is not one JSON value.
func jsonEdits(doc []byte) []jsonEdit {
	s := &jsonScanner{b: doc}

	if end := s.ws(s.value(0, "")); s.bad || end != len(doc) {
		return nil
	}

	return s.edits
}

// lineEdit is a damaged copy of the body of an item in which one line is
// structurally damaged.
type lineEdit struct {
	jsonEdit
	Line int
	Body []byte
}

// bodyEdits applies jsonEdits to every line of the body of an item (the header
// line included; the lines of a tree item are "index,{...}").
func bodyEdits(body []byte) (l []lineEdit) {
	lines := bytes.Split(body, []byte("\n"))

	for li, line := range lines {
		var prefix []byte

		js := line

		switch {
		case len(line) < 1:
			continue
		case bytes.HasPrefix(line, []byte("# ")):
			prefix, js = line[:2], line[2:]
		default:
			if i := bytes.IndexByte(line, '{'); i > 0 {
				prefix, js = line[:i], line[i:]
			}
		}

		for _, e := range jsonEdits(js) {
			nl := make([][]byte, len(lines))
			copy(nl, lines)
			nl[li] = append(append([]byte{}, prefix...), e.Doc...)

			l = append(l, lineEdit{jsonEdit: e, Line: li, Body: bytes.Join(nl, []byte("\n"))})
		}
	}

	return l
}

var (
	reFactField   = regexp.MustCompile(`^\.sign_facts\[0\]\.fact\.([^.\[]+)$`)
	reHeaderCount = regexp.MustCompile(`"count":(\d+)`)
)

// factFieldTampers: for each voteproof of a voteproofs item (init, accept),
// every hash-valued member of the fact its first sign fact signs (hash,
// proposal, previous_block / new_block) absent, and null.
func factFieldTampers(it rawItem) (l []struct {
	Kind, Broken string
	Item         rawItem
},
) {
	body, err := it.body()
	if err != nil {
		return nil
	}

	for _, e := range bodyEdits(body) {
		m := reFactField.FindStringSubmatch(e.Path)
		if m == nil || m[1] == "_hint" || (e.Was != '"' && e.Was != 'n') {
			continue
		}

		var u struct {
			Hint string `json:"_hint"`
		}

		line := bytes.Split(body, []byte("\n"))[e.Line]
		if json.Unmarshal(line, &u) != nil {
			continue
		}

		var stage string

		switch {
		case bytes.HasPrefix([]byte(u.Hint), []byte("init-voteproof")):
			stage = "init"
		case bytes.HasPrefix([]byte(u.Hint), []byte("accept-voteproof")):
			stage = "accept"
		default:
			continue
		}

		how := "null"
		if e.Kind == "key-renamed" {
			how = "absent"
		}

		l = append(l, struct {
			Kind, Broken string
			Item         rawItem
		}{
			Kind:   fmt.Sprintf("%s-fact-%s-%s", stage, m[1], how),
			Broken: fmt.Sprintf("in the fact signed by the first sign fact of the %s voteproof the member %q is %s", stage, m[1], how),
			Item:   pack(e.Body, it.Format),
		})
	}

	return l
}

// countTamper: the "count" of the header line of an item changed by delta.
func countTamper(it rawItem, delta int) (rawItem, bool) {
	body, err := it.body()
	hl := headerLen(body)

	if err != nil || hl < 1 {
		return it, false
	}

	m := reHeaderCount.FindSubmatchIndex(body[:hl])
	if m == nil {
		return it, false
	}

	n, err := strconv.Atoi(string(body[m[2]:m[3]]))
	if err != nil || n+delta < 0 {
		return it, false
	}

	nb := append([]byte{}, body[:m[2]]...)
	nb = append(nb, strconv.Itoa(n+delta)...)
	nb = append(nb, body[m[3]:]...)

	return pack(nb, it.Format), true
}
