package c16

import (
	"bytes"
	"compress/gzip"
	"context"
	"encoding/json"
	"fmt"
	"io"
	"math/rand"
	"sort"
	"sync"

	"github.com/spikeekips/mitum/base"
	"github.com/spikeekips/mitum/isaac"
	isaacblock "github.com/spikeekips/mitum/isaac/block"
	isaacdatabase "github.com/spikeekips/mitum/isaac/database"
	leveldbstorage "github.com/spikeekips/mitum/storage/leveldb"
	"verifharness/c13/blkrig"
)

// rawItem is one block item as a sync source puts it on the wire: the bytes of
// the item file and its compress format.
type rawItem struct {
	Raw    []byte
	Format string
}

// source is a sync source that serves one block from memory: a block map and
// one byte stream per item type. The map and every item can be replaced
// independently of each other, so the served items need not match the
// checksums the served map commits to.
type source struct {
	m     base.BlockMap
	items map[base.BlockItemType]rawItem
	// first: the item the source delivers first when asked item by item (the
	// order of the items is the source's choice; ImportBlocks asks for all of
	// them at once). "" = the order of the map.
	first base.BlockItemType
	// mst: the storage under the block write database of the importing node;
	// nil = a fresh memory storage for this import (opening one costs more
	// than a refused import, so the exhaustive scan reuses a few)
	mst *leveldbstorage.Storage
}

func loadSource(rig *blkrig.Rig, root string, h base.Height) (*source, error) {
	rd := rig.Readers(root)

	s := &source{items: map[base.BlockItemType]rawItem{}}

	switch m, found, err := isaac.BlockItemReadersDecode[base.BlockMap](rd.Item, h, base.BlockItemMap, nil); {
	case err != nil:
		return nil, err
	case !found:
		return nil, fmt.Errorf("map not found, %d", h)
	default:
		s.m = m
	}

	var rerr error

	s.m.Items(func(item base.BlockMapItem) bool {
		t := item.Type()

		switch found, err := rd.Reader(h, t, func(f io.Reader, format string) error {
			b, err := io.ReadAll(f)
			if err != nil {
				return err
			}

			s.items[t] = rawItem{Raw: b, Format: format}

			return nil
		}); {
		case err != nil:
			rerr = err
		case !found:
			rerr = fmt.Errorf("item file %q not found, %d", t, h)
		}

		return rerr == nil
	})

	return s, rerr
}

// with returns a copy of the source that serves m and the replaced items.
func (s *source) with(m base.BlockMap, repl map[base.BlockItemType]rawItem) *source {
	n := &source{m: s.m, items: map[base.BlockItemType]rawItem{}, first: s.first}
	if m != nil {
		n.m = m
	}

	for t, it := range s.items {
		n.items[t] = it
	}

	for t, it := range repl {
		n.items[t] = it
	}

	return n
}

func (it rawItem) body() ([]byte, error) {
	switch it.Format {
	case "":
		return append([]byte{}, it.Raw...), nil
	case "gz":
		zr, err := gzip.NewReader(bytes.NewReader(it.Raw))
		if err != nil {
			return nil, err
		}

		return io.ReadAll(zr)
	default:
		return nil, fmt.Errorf("unknown compress format %q", it.Format)
	}
}

func pack(body []byte, format string) rawItem {
	if format == "" {
		return rawItem{Raw: body}
	}

	var buf bytes.Buffer

	// (a new gzip writer clears more memory than a refused import costs)
	zw := gzipWriters.Get().(*gzip.Writer) //nolint:forcetypeassert //...
	zw.Reset(&buf)
	_, _ = zw.Write(body)
	_ = zw.Close()
	gzipWriters.Put(zw)

	return rawItem{Raw: buf.Bytes(), Format: format}
}

var gzipWriters = sync.Pool{New: func() any { return gzip.NewWriter(io.Discard) }}

// headerLen is the length of the leading "# {...}\n" line of an item file.
func headerLen(body []byte) int {
	if !bytes.HasPrefix(body, []byte("# ")) {
		return 0
	}

	return bytes.IndexByte(body, '\n') + 1
}

// sameContent: the two items hold the same lines, in whatever order (the real
// LocalFSWriter writes the lines of a tree item, each carrying its index, in
// the order its workers happen to finish, so two writings of one and the same
// tree differ in their bytes and checksums, not in their content).
func sameContent(a, b rawItem) bool {
	if a.Format != b.Format {
		return false
	}

	ab, aerr := a.body()
	bb, berr := b.body()

	if aerr != nil || berr != nil {
		return false
	}

	al, bl := bytes.Split(ab, []byte("\n")), bytes.Split(bb, []byte("\n"))
	if len(al) != len(bl) {
		return false
	}

	for _, l := range [][][]byte{al, bl} {
		sort.Slice(l, func(i, j int) bool { return bytes.Compare(l[i], l[j]) < 0 })
	}

	for i := range al {
		if !bytes.Equal(al[i], bl[i]) {
			return false
		}
	}

	return true
}

// byteTamper is a way of damaging any item, whatever its type, below the
// level of its meaning.
type byteTamper struct {
	kind, broken string
	make         func(it rawItem, rng *rand.Rand) (rawItem, bool) // false = not applicable
}

func byteTampers() []byteTamper {
	return []byteTamper{
		{"truncated", "the (decompressed) body of the item is cut somewhere after its header line", func(it rawItem, rng *rand.Rand) (rawItem, bool) {
			b, err := it.body()
			hl := headerLen(b)

			if err != nil || len(b)-hl < 2 {
				return it, false
			}

			return pack(b[:hl+rng.Intn(len(b)-hl)], it.Format), true
		}},
		{"empty-body", "only the header line of the item is served, no content at all", func(it rawItem, _ *rand.Rand) (rawItem, bool) {
			b, err := it.body()
			hl := headerLen(b)

			if err != nil || hl < 1 || hl >= len(b) {
				return it, false
			}

			return pack(b[:hl], it.Format), true
		}},
		{"byte-flipped", "one bit of one byte of the (decompressed) body is flipped", func(it rawItem, rng *rand.Rand) (rawItem, bool) {
			b, err := it.body()
			if err != nil || len(b) < 1 {
				return it, false
			}

			b[rng.Intn(len(b))] ^= 1 << uint(rng.Intn(8))

			return pack(b, it.Format), true
		}},
		{"stream-truncated", "the byte stream of the item (as sent, compressed or not) ends early, possibly at once", func(it rawItem, rng *rand.Rand) (rawItem, bool) {
			if len(it.Raw) < 1 {
				return it, false
			}

			return rawItem{Raw: append([]byte{}, it.Raw[:rng.Intn(len(it.Raw))]...), Format: it.Format}, true
		}},
		{"stream-byte-flipped", "one bit of one byte of the compressed byte stream of the item is flipped", func(it rawItem, rng *rand.Rand) (rawItem, bool) {
			if it.Format == "" || len(it.Raw) < 1 {
				// identical to byte-flipped for an item that is not compressed
				return it, false
			}

			b := append([]byte{}, it.Raw...)
			b[rng.Intn(len(b))] ^= 1 << uint(rng.Intn(8))

			return rawItem{Raw: b, Format: it.Format}, true
		}},
	}
}

// signFactTampers damage one sign fact of one voteproof of a voteproofs item
// at the level of its JSON structure: what is left is well-formed JSON in
// which a sign fact, or the fact it signs, is simply not there.
func signFactTampers() []byteTamper {
	edit := func(f func(sf json.RawMessage) ([]byte, bool)) func(rawItem, *rand.Rand) (rawItem, bool) {
		return func(it rawItem, rng *rand.Rand) (rawItem, bool) {
			body, err := it.body()
			if err != nil {
				return it, false
			}

			lines := bytes.Split(body, []byte("\n"))

			// the lines that hold a voteproof with sign facts
			var cands []int

			sfsOf := func(line []byte) []json.RawMessage {
				var u struct {
					SignFacts []json.RawMessage `json:"sign_facts"`
				}

				if bytes.HasPrefix(line, []byte("# ")) || json.Unmarshal(line, &u) != nil {
					return nil
				}

				return u.SignFacts
			}

			for i := range lines {
				if len(sfsOf(lines[i])) > 0 {
					cands = append(cands, i)
				}
			}

			if len(cands) < 1 {
				return it, false
			}

			li := cands[rng.Intn(len(cands))]
			sfs := sfsOf(lines[li])
			sf := sfs[rng.Intn(len(sfs))]

			nsf, ok := f(sf)
			if !ok || !bytes.Contains(lines[li], sf) {
				return it, false
			}

			lines[li] = bytes.Replace(lines[li], sf, nsf, 1)

			return pack(bytes.Join(lines, []byte("\n")), it.Format), true
		}
	}

	return []byteTamper{
		{"signfact-key-renamed", "in one sign fact of one voteproof the key of the signed fact is renamed, so the sign fact carries no fact", edit(func(sf json.RawMessage) ([]byte, bool) {
			k := []byte(`"fact":`)
			if !bytes.Contains(sf, k) {
				return nil, false
			}

			return bytes.Replace(sf, k, []byte(`"gact":`), 1), true
		})},
		{"signfact-null", "one sign fact of one voteproof is replaced by JSON null", edit(func(json.RawMessage) ([]byte, bool) {
			return []byte("null"), true
		})},
		{"signfact-fact-null", "in one sign fact of one voteproof the signed fact is replaced by JSON null", edit(func(sf json.RawMessage) ([]byte, bool) {
			var m map[string]json.RawMessage
			if err := json.Unmarshal(sf, &m); err != nil {
				return nil, false
			}

			if _, found := m["fact"]; !found {
				return nil, false
			}

			m["fact"] = json.RawMessage("null")

			b, err := json.Marshal(m)

			return b, err == nil
		})},
	}
}

// mapWith builds a block map over the manifest and item types of m in which
// the checksums of the given item types are replaced. resign: the serving node
// signs the new map; otherwise it keeps the signature of m, which is stale as
// soon as one checksum differs.
func mapWith(rig *blkrig.Rig, m base.BlockMap, checksums map[base.BlockItemType]string, resign bool) (base.BlockMap, error) {
	nm := isaacblock.NewBlockMap()

	var serr error

	m.Items(func(item base.BlockMapItem) bool {
		cs := item.Checksum()
		if i, found := checksums[item.Type()]; found {
			cs = i
		}

		serr = nm.SetItem(isaacblock.NewBlockMapItem(item.Type(), cs))

		return serr == nil
	})

	if serr != nil {
		return nil, serr
	}

	nm.SetManifest(m.Manifest())

	switch {
	case resign:
		if err := nm.Sign(rig.Local.Address(), rig.Local.Privatekey(), rig.NetworkID); err != nil {
			return nil, err
		}
	default:
		old, ok := m.(isaacblock.BlockMap)
		if !ok {
			return nil, fmt.Errorf("expected isaacblock.BlockMap, not %T", m)
		}

		nm.BaseNodeSign = old.BaseNodeSign
	}

	return nm, nil
}

// streamOnly hides Seek, as a network stream does.
type streamOnly struct{ io.Reader }

// serveSource imports the block the source serves into dstroot: item by item
// through the real BlockImporter (items handed over as seekable files), or
// through the real ImportBlocks (items handed over as plain streams).
func serveSource(rig *blkrig.Rig, s *source, dstroot string, h base.Height, via string) (stored bool, _ error) {
	// the callers of the importer (syncer, import command) validate the served map
	if err := s.m.IsValid(rig.NetworkID); err != nil {
		return false, fmt.Errorf("served map is not valid: %w", err)
	}

	rd := rig.Readers(dstroot)

	mst := s.mst
	if mst == nil {
		mst = leveldbstorage.NewMemStorage()
		defer mst.Close()
	}

	newImporter := func(m base.BlockMap) (*isaacblock.BlockImporter, error) {
		bwdb := isaacdatabase.NewLeveldbBlockWrite(m.Manifest().Height(), mst, rig.Encs, rig.Enc)

		return isaacblock.NewBlockImporter(dstroot, rig.Encs, m, bwdb, func(context.Context) error { return nil }, rig.NetworkID)
	}

	if via == "importblocks" {
		err := isaacblock.ImportBlocks(
			context.Background(),
			h, h,
			1,
			rd,
			func(context.Context, base.Height) (base.BlockMap, bool, error) {
				return s.m, true, s.m.IsValid(rig.NetworkID)
			},
			func(_ context.Context, _ base.Height, item base.BlockItemType, f func(io.Reader, bool, string) error) error {
				it, found := s.items[item]
				if !found {
					return f(nil, false, "")
				}

				return f(streamOnly{bytes.NewReader(it.Raw)}, true, it.Format)
			},
			func(m base.BlockMap) (isaac.BlockImporter, error) { return newImporter(m) },
			nil,
			nil,
		)

		return err == nil, err
	}

	im, err := newImporter(s.m)
	if err != nil {
		return false, err
	}

	var ierr error

	deliver := func(t base.BlockItemType) bool {
		it, found := s.items[t]
		if !found {
			ierr = fmt.Errorf("item %q not served", t)

			return false
		}

		ierr = rd.ItemFromReader(t, bytes.NewReader(it.Raw), it.Format, func(ir isaac.BlockItemReader) error {
			return im.WriteItem(ir.Type(), ir)
		})

		return ierr == nil
	}

	if _, found := s.m.Item(s.first); s.first == "" || !found || deliver(s.first) {
		s.m.Items(func(item base.BlockMapItem) bool {
			return item.Type() == s.first || deliver(item.Type())
		})
	}

	if ierr != nil {
		_ = im.CancelImport(context.Background())

		return false, ierr
	}

	deferred, err := im.Save(context.Background())
	if err != nil {
		_ = im.CancelImport(context.Background())

		return false, err
	}

	if err := deferred(context.Background()); err != nil {
		return false, err
	}

	return true, nil
}
