package c17

import (
	"context"
	"fmt"
	"sort"
	"strings"
	"testing"
	"time"

	"github.com/spikeekips/mitum/base"
	"github.com/spikeekips/mitum/isaac"
	"verifharness/c10/prig"
	"verifharness/vlib"
)

// ---- independent set model (built from the harness's own metadata only) ----

type model struct {
	height   int64
	sufh     int64
	n        int
	t10      int
	members  map[string]string // address -> public key
	cands    map[string]prig.Cand
	joinWhy  map[string]string // target -> "" if some join operation makes it eligible, else best failing reason
	leaveOK  map[string]bool   // target -> a disjoin signed with the member's registered key exists
	expelOK  map[string]bool   // target -> an expel operation is part of the block
	joinOps  int
	eligible int
	policyOK bool // some policy operation carries >= threshold distinct member signatures
}

func memberSigners(m *model, signs []prig.SignMeta) int {
	seen := map[string]bool{}

	for _, s := range signs {
		if pub, ok := m.members[s.Node]; ok && s.SigValid && s.Pub == pub {
			seen[s.Node] = true
		}
	}

	return len(seen)
}

// rank of failing reasons: the furthest clause a join operation got to
var joinRank = map[string]int{"no-join-operation": 0, "not-a-candidate": 1, "candidate-expired": 2, "not-signed-by-candidate-key": 3, "below-threshold-of-distinct-members": 4, "": 5}

func buildModel(c *prig.Case) *model {
	p := c.Prior
	m := &model{
		height: int64(p.Height), sufh: int64(p.SufHeight), n: len(p.Members), t10: p.T10,
		members: map[string]string{}, cands: map[string]prig.Cand{},
		joinWhy: map[string]string{}, leaveOK: map[string]bool{}, expelOK: map[string]bool{},
	}

	for _, x := range p.Members {
		m.members[x.Addr.String()] = x.Priv.Publickey().String()
	}

	for _, x := range p.Cands {
		m.cands[x.Addr.String()] = x
	}

	for _, o := range c.Metas {
		switch o.Kind {
		case "join":
			m.joinOps++

			why := ""
			cand, iscand := m.cands[o.Target]

			switch {
			case !iscand:
				why = "not-a-candidate"
			case int64(cand.Deadline) < m.height:
				why = "candidate-expired"
			default:
				self := false

				for _, s := range o.Signs {
					if s.Node == o.Target && s.SigValid && s.Pub == cand.Priv.Publickey().String() {
						self = true
					}
				}

				switch {
				case !self:
					why = "not-signed-by-candidate-key"
				case memberSigners(m, o.Signs)*1000 < m.t10*m.n: // exact: c/n*100 < T
					why = "below-threshold-of-distinct-members"
				}
			}

			if why == "" {
				m.eligible++
			}

			if prev, found := m.joinWhy[o.Target]; !found || joinRank[why] > joinRank[prev] {
				m.joinWhy[o.Target] = why
			}
		case "policy":
			if memberSigners(m, o.Signs)*1000 >= m.t10*m.n {
				m.policyOK = true
			}
		case "disjoin":
			if pub, ok := m.members[o.Target]; ok {
				for _, s := range o.Signs {
					if s.Node == o.Target && s.SigValid && s.Pub == pub {
						m.leaveOK[o.Target] = true
					}
				}
			}
		}
	}

	for _, o := range c.EMetas {
		m.expelOK[o.Target] = true
	}

	return m
}

// ---- what the real code produced ----

type outcome struct {
	PolicyChanged bool
	Changed       bool
	Height        int64
	Nodes         []string // "addr|pub|start" in state order
	Err           string
	// what the block writer was told per operation, in pre-processing order:
	// "<case operation index>:<kind>:<target>:<in state>:<reason>" (index >= len(Ops): expel of the voteproof)
	Verdicts []string
	applied  map[int]bool // case operation index -> recorded as in state
}

// verdictCanon: the set of operations recorded as in state.
func (o outcome) verdictCanon() string {
	var idx []int

	for i, ok := range o.applied {
		if ok {
			idx = append(idx, i)
		}
	}

	sort.Ints(idx)

	return fmt.Sprint(idx)
}

func (o outcome) canon() string {
	if o.Err != "" {
		return "error"
	}

	if !o.Changed {
		return "unchanged"
	}

	s := append([]string{}, o.Nodes...)
	sort.Strings(s)

	return fmt.Sprintf("h%d:%s", o.Height, strings.Join(s, ","))
}

func process(b *prig.Block, workers int64) outcome {
	res := b.Run(context.Background(), prig.RunOpts{Workers: workers, Save: true})
	if res.Writer != nil {
		defer res.Writer.Release()
	}

	if res.Err != nil {
		return outcome{Err: strings.SplitN(res.Err.Error(), "\n", 2)[0]}
	}

	if res.SaveErr != nil {
		return outcome{Err: "save: " + strings.SplitN(res.SaveErr.Error(), "\n", 2)[0]}
	}

	_, states, _ := res.Writer.FS.Snapshot()

	_, policyChanged := states[isaac.NetworkPolicyStateKey]

	out := outcome{PolicyChanged: policyChanged, applied: map[int]bool{}}

	_, nodes, _, _ := res.Writer.Snapshot()
	c := b.Case

	// the voteproof may reorder its expels: operations are identified by fact hash
	byfact := map[string]int{}

	for i := range c.Ops {
		byfact[c.Ops[i].Fact().Hash().String()] = i
	}

	for i := range c.Expels {
		byfact[c.Expels[i].Fact().Hash().String()] = len(c.Ops) + i
	}

	for pos := 0; pos < len(b.Order)+len(b.EOrder); pos++ {
		v, found := nodes[uint64(pos)]
		if !found {
			continue
		}

		f := strings.SplitN(v, "|", 3)

		i, known := byfact[f[0]]
		if !known {
			out.Verdicts = append(out.Verdicts, fmt.Sprintf("?:unknown-fact-%s::%s:%s", f[0], f[1], f[2]))

			continue
		}

		meta := prig.OpMeta{}
		if i < len(c.Ops) {
			meta = c.Metas[i]
		} else {
			meta = c.EMetas[i-len(c.Ops)]
		}

		out.applied[i] = out.applied[i] || f[1] == "true"
		out.Verdicts = append(out.Verdicts, fmt.Sprintf("%d:%s:%s:%s:%s", i, meta.Kind, meta.Target, f[1], f[2]))
	}

	return readSuffrage(out, states)
}

// readSuffrage fills the resulting suffrage from the states the writer stored.
func readSuffrage(out outcome, states map[string]base.State) outcome {
	_, out.PolicyChanged = states[isaac.NetworkPolicyStateKey]

	st, found := states[isaac.SuffrageStateKey]
	if !found {
		return out
	}

	v, ok := st.Value().(base.SuffrageNodesStateValue)
	if !ok {
		return outcome{Err: fmt.Sprintf("suffrage state value is %T", st.Value())}
	}

	out.Changed, out.Height = true, int64(v.Height())

	for _, n := range v.Nodes() {
		out.Nodes = append(out.Nodes, fmt.Sprintf("%s|%s|%d", n.Address(), n.Publickey(), n.Start()))
	}

	return out
}

type result struct {
	c          *prig.Case
	m          *model
	outs       []outcome
	perms      [][]int
	how        []string // what drove the processors in run k
	exhaustive bool     // every permutation of the operations was run
	classes    []string // mixed blocks: join sign classes
}

type tally struct {
	changed bool
	joins   int
	leaves  int
}

// judge applies the statement to every processed permutation of one case. sfx
// is appended to the violation signatures (which phase produced the case).
func judge(r *vlib.Run, sfx string, i int, res *result) tally {
	var tl tally

	c, m := res.c, res.m

	for k, o := range res.outs {
		r.Count("blocks_processed", 1)

		witness := map[string]any{
			"case": i, "permutation": res.perms[k], "driven_by": res.how[k], "height": m.height, "threshold": float64(m.t10) / 10,
			"members": m.members, "operations": c.Metas, "expels": c.EMetas, "result": o,
		}

		if o.PolicyChanged {
			r.Count("blocks_policy_changed", 1)

			if !m.policyOK { // outside the statement of C17 (suffrage only): reported, not judged
				r.Count("info_policy_changed_below_threshold_of_distinct_members", 1)
			}
		}

		switch {
		case o.Err != "":
			r.Count("blocks_ending_in_error", 1)
			r.SetAdd("error_kinds", o.Err)

			continue
		case !o.Changed:
			r.Count("blocks_suffrage_unchanged", 1)
		default:
			r.Count("blocks_suffrage_changed", 1)
		}

		// the resulting suffrage: the new state value, or the current one if the block left it alone
		newm := map[string]string{}

		if o.Changed {
			tl.changed = true

			// (1) unique members, (2) height + 1
			for _, n := range o.Nodes {
				f := strings.Split(n, "|")
				if _, dup := newm[f[0]]; dup {
					r.Violation("suffrage:duplicate-member"+sfx, fmt.Sprintf("case %d: member %s twice in the resulting suffrage", i, f[0]), witness)
				}

				newm[f[0]] = f[1]
			}

			if o.Height != m.sufh+1 {
				r.Violation("suffrage:height-not-previous-plus-one"+sfx,
					fmt.Sprintf("case %d: suffrage height %d after %d", i, o.Height, m.sufh), witness)
			}

			if len(newm) == 0 {
				r.Count("blocks_with_empty_resulting_suffrage", 1)
			}
		} else {
			for a, pub := range m.members {
				newm[a] = pub
			}
		}

		// (1b) no node both taken out / put in by an operation recorded as applied and
		// absent / present the other way round in the result
		for idx, ok := range o.applied {
			if !ok {
				continue
			}

			meta := prig.OpMeta{}
			if idx < len(c.Metas) {
				meta = c.Metas[idx]
			} else {
				meta = c.EMetas[idx-len(c.Metas)]
			}

			_, present := newm[meta.Target]

			switch {
			case (meta.Kind == "expel" || meta.Kind == "disjoin") && present:
				r.Violation("suffrage:member-removed-by-applied-"+meta.Kind+"-still-present"+sfx,
					fmt.Sprintf("case %d: %s of %s is recorded as applied, but the node is in the resulting suffrage", i, meta.Kind, meta.Target), witness)
			case meta.Kind == "join" && !present:
				r.Violation("suffrage:node-of-applied-join-absent"+sfx,
					fmt.Sprintf("case %d: join of %s is recorded as applied, but the node is not in the resulting suffrage", i, meta.Target), witness)
			}
		}

		if !o.Changed {
			continue
		}

		// (3) who joined
		for a, pub := range newm {
			if _, was := m.members[a]; was {
				if pub != m.members[a] {
					r.Count("kept_member_key_changed", 1)
				}

				continue
			}

			tl.joins++

			r.Count("joined_nodes", 1)

			why, found := m.joinWhy[a]
			if !found {
				why = "no-join-operation"
			}

			if why != "" {
				r.Violation("join:"+why+sfx, fmt.Sprintf("case %d: %s joined the suffrage although %s (threshold %.1f of the %d current members)",
					i, a, why, float64(m.t10)/10, m.n), witness)

				continue
			}

			if cand := m.cands[a]; cand.Priv.Publickey().String() != pub {
				r.Violation("join:member-key-differs-from-registered-candidate-key"+sfx,
					fmt.Sprintf("case %d: %s joined with key %s, registered %s", i, a, pub, cand.Priv.Publickey()), witness)
			}
		}

		// (4) who left
		for a := range m.members {
			if _, still := newm[a]; still {
				continue
			}

			tl.leaves++

			switch {
			case m.leaveOK[a] && m.expelOK[a]:
				r.Count("removed_by_disjoin_and_expel", 1)
			case m.leaveOK[a]:
				r.Count("removed_by_disjoin", 1)
			case m.expelOK[a]:
				r.Count("removed_by_expel", 1)
			default:
				r.Violation("leave:removed-without-own-disjoin-or-expel"+sfx,
					fmt.Sprintf("case %d: member %s left the suffrage without a disjoin signed by its key or an expel", i, a), witness)
			}
		}
	}

	// (5) independence of operation order
	first := res.outs[0].canon()
	for k, o := range res.outs[1:] {
		if o.canon() != first {
			r.Violation("order-dependence:suffrage-differs"+sfx,
				fmt.Sprintf("case %d: order %v [%s] gives %s, order %v [%s] gives %s",
					i, res.perms[0], res.how[0], first, res.perms[k+1], res.how[k+1], o.canon()),
				map[string]any{
					"case": i, "height": m.height, "threshold": float64(m.t10) / 10, "members": m.members,
					"operations": c.Metas, "expels": c.EMetas, "a": res.outs[0], "b": o,
					"order_a": res.perms[0], "order_b": res.perms[k+1], "driven_by_a": res.how[0], "driven_by_b": res.how[k+1],
				})

			break
		}
	}

	// which single operations were recorded as applied may legitimately depend on
	// the order (of two operations about one node the first one wins): reported
	for _, o := range res.outs[1:] {
		if o.Err == "" && res.outs[0].Err == "" && o.verdictCanon() != res.outs[0].verdictCanon() {
			r.Count("info_cases_where_applied_operation_set_depends_on_order", 1)

			break
		}
	}

	return tl
}

func TestC17(t *testing.T) {
	r := vlib.Start(t, "C17", vlib.LevelExploration)
	defer r.Finish()

	r.SetRule("phase 1: case = PRNG prior state (suffrage 1..10, candidates 0..6 with expired / last-valid-height deadlines, threshold in {51,60,66.7,67,75,80,100}) + 1..24 join/candidate/disjoin/policy operations (correct, under-signed, padded with foreign / wrong-key / forged / duplicated signatures, unknown or expired candidate, wrong start, member as target, repeated targets) + 0..4 expel operations in the INIT voteproof (members, non-members, conflicting with a disjoin); the block is processed by the real processors once per permutation of its operations (8 / 24 sampled). " +
		"phase 2 (mixed blocks): prior state with >= 3 members and >= 1 unexpired candidate + 2..7 operations mixing expel (member, candidate, expired / future window), disjoin, join and candidate operations about the same and about different nodes; joins carry genuine member signs numbering on the boundaries of the threshold clause (threshold of the n current members, threshold of the n-e members not leaving in this block, with the leaving members signing first or last); run 0 = the real DefaultProposalProcessor (expels in the INIT voteproof: the one kind order the node produces), then the operations (expels included) are pre-processed in EVERY order for <= 4 operations (kind-first orders + reverse + PRNG permutations beyond) by the loop of DefaultProposalProcessor.processOperations re-driven by the harness: one real processor per operation kind per block from the launch-style constructor, PreProcess one after another with the context returned by one handed to the next, Process of each passed operation (right away / after all PreProcess calls, alternating), real block writer and state value mergers. " +
		"distinct = case shape (phase, members/candidates/threshold, operation kinds and variants); non-trivial = the suffrage changed in at least one permutation")
	r.Assume("operations failing the real op.IsValid(networkID) never reach the processors (GetOperationFunc answers ErrInvalidOperationInProcessor), as in the node's pool; the oracle itself does not use IsValid: it counts distinct current members whose signature bytes are really theirs")
	r.Assume("unexpired = candidate deadline >= block height (the convention of isaac.FilterCandidates)")
	r.Assume("'can leave' is read as: a removed member is the target of a disjoin signed with that member's registered key or of an expel operation of the block (expel signatures are judged at voteproof validation, C03/C04, not here)")
	r.Assume("suffrages are compared as sets of (address, key, start) plus suffrage height")
	r.Assume("'current members' of the threshold clause = the suffrage state the block is processed over (the suffrage height being replaced), whatever else the same block does and in whichever order")
	r.Assume("'does not depend on operation order' quantifies over every order in which the processors can be handed the operations of a block, not only the kind order DefaultProposalProcessor produces today (it drops expel operations listed in a proposal and pre-processes the voteproof's expels last); which single operations are recorded as applied may depend on the order (the first of two about one node wins) and is not judged, the resulting suffrage is")

	env, err := prig.NewEnv(r.Rand(0))
	if err != nil {
		t.Fatal(err)
	}

	ncases := r.N(200, 3000)
	nperm := r.N(8, 24)

	run := func(i int, res *result, n int, one func(k int) (perm []int, how string, out outcome)) {
		witness := map[string]any{"case": i, "shape": res.c.Shape()}

		ok := r.WithWatchdog(10*time.Minute, fmt.Sprintf("case %d", i), func() {
			r.Guard("process", witness, func() {
				for k := 0; k < n; k++ {
					perm, how, out := one(k)
					res.perms = append(res.perms, perm)
					res.how = append(res.how, how)
					res.outs = append(res.outs, out)
				}
			})
		})
		if !ok {
			res.outs = nil
		}
	}

	results := make([]*result, ncases)
	started := time.Now()

	vlib.Parallel(ncases, 16, func(i int) {
		rng := r.Rand(1, i)
		c := prig.GenCase(env, rng, 10, 24)
		res := &result{c: c, m: buildModel(c)}
		results[i] = res

		run(i, res, nperm, func(k int) ([]int, string, outcome) {
			var order, eorder []int

			switch k {
			case 0:
			case 1:
				order, eorder = reverse(len(c.Ops)), reverse(len(c.Expels))
			default:
				order, eorder = rng.Perm(len(c.Ops)), rng.Perm(len(c.Expels))
			}

			b := c.NewBlock(order, eorder, 0)

			return b.Order, "DefaultProposalProcessor", process(b, []int64{1, 4, 16}[k%3])
		})
	})

	r.Set("info_wall_s_phase1_workload", time.Since(started).Seconds()) // information only, never part of a verdict

	var changedCases, joinsSeen, leavesSeen int

	for i, res := range results {
		if res == nil || len(res.outs) == 0 {
			continue
		}

		c, m := res.c, res.m

		tl := judge(r, "", i, res)
		joinsSeen += tl.joins
		leavesSeen += tl.leaves

		r.Eval(1)

		if tl.changed {
			changedCases++

			r.Distinct(c.Shape())
		}

		r.Count("join_operations", m.joinOps)
		r.Count("join_operations_eligible_by_model", m.eligible)

		for k, v := range c.KindCounts() {
			r.Count("op_"+k, v)
		}

		if tl.changed && changedCases <= 4 {
			r.Sample(map[string]any{
				"case": i, "members": len(m.members), "candidates": len(m.cands), "threshold": float64(m.t10) / 10,
				"operations": c.KindCounts(), "permutations": len(res.outs), "result": res.outs[0],
				"join_eligibility_by_model": m.joinWhy,
			})
		}
	}

	r.Set("cases_with_suffrage_change", changedCases)
	r.Set("permutations_per_case", nperm)

	if joinsSeen == 0 || leavesSeen == 0 {
		r.Inconclusive(fmt.Sprintf("no join (%d) or no leave (%d) was ever applied by the code under test", joinsSeen, leavesSeen))
	}

	mixedPhase(r, env, run)
}

// mixedPhase: blocks whose proposal mixes expel / join / disjoin / candidate
// operations, every pre-processing order.
func mixedPhase(r *vlib.Run, env *prig.Env, run func(int, *result, int, func(int) ([]int, string, outcome))) {
	const sfx = "(mixed-block-every-order)"

	ncases := r.N(96, 1500)
	nperm := r.N(12, 30)

	results := make([]*result, ncases)
	started := time.Now()

	vlib.Parallel(ncases, 16, func(i int) {
		rng := r.Rand(2, i)

		// sizes: 2..4 operations (all permutations) for five cases of six, 5..7 beyond
		nops := 2 + rng.Intn(3)
		if nops == 2 && rng.Intn(2) == 0 {
			nops = 3 + rng.Intn(2)
		}

		if i%6 == 5 {
			nops = 5 + rng.Intn(3)
		}

		c, classes := genMixed(env, rng, nops)
		res := &result{c: c, m: buildModel(c), classes: classes}
		results[i] = res

		orders, exhaustive := mixedOrders(c, rng, nperm)
		res.exhaustive = exhaustive

		// run 0: the one order the node produces, by the real DefaultProposalProcessor
		// (proposal operations, then the expels as the voteproof lists them); then
		// every chosen order of all operations, chained
		run(1_000_000+i, res, 1+len(orders), func(k int) ([]int, string, outcome) {
			if k == 0 {
				return nil, "DefaultProposalProcessor (expels in the INIT voteproof)", process(c.NewBlock(nil, nil, 0), 4)
			}

			return orders[k-1], "chained PreProcess in this order", processChained(c, orders[k-1], []int64{1, 4, 16}[k%3], k%2 == 0)
		})
	})

	r.Set("info_wall_s_phase2_mixed_workload", time.Since(started).Seconds()) // information only

	var changedCases, joinsSeen, leavesSeen, expelBeforeJoin, joinBeforeExpel, boundaryJoins int

	for i, res := range results {
		if res == nil || len(res.outs) == 0 {
			continue
		}

		c, m := res.c, res.m

		tl := judge(r, sfx, 1_000_000+i, res)
		joinsSeen += tl.joins
		leavesSeen += tl.leaves

		fp := "mixed|" + c.Shape()
		if tl.changed {
			changedCases++

			r.Case(fp)
		} else {
			r.Eval(1)
		}

		r.Count("mixed_cases", 1)
		r.Count("mixed_blocks_processed", len(res.outs))
		r.Count("mixed_join_operations", m.joinOps)
		r.Count("mixed_join_operations_eligible_by_model", m.eligible)
		r.Count("mixed_joined_nodes", tl.joins)
		r.Count("mixed_removed_nodes", tl.leaves)

		if res.exhaustive {
			r.Count("mixed_cases_every_permutation_run", 1)
		} else {
			r.Count("mixed_cases_permutations_sampled", 1)
		}

		for _, cl := range res.classes {
			r.Count("mixed_join_signs/"+cl, 1)
		}

		for k, v := range c.KindCounts() {
			r.Count("mixed_op_"+k, v)
		}

		// nodes that are the subject of more than one operation of the block
		targets := map[string]map[string]bool{}

		for _, ms := range [][]prig.OpMeta{c.Metas, c.EMetas} {
			for _, o := range ms {
				if targets[o.Target] == nil {
					targets[o.Target] = map[string]bool{}
				}

				targets[o.Target][o.Kind] = true
			}
		}

		same := false

		for _, kinds := range targets {
			if len(kinds) > 1 {
				same = true
			}
		}

		if same {
			r.Count("mixed_cases_with_one_node_subject_of_several_operation_kinds", 1)
		}

		// joins whose member signs are below the threshold of the current members
		// but not below the threshold of those who stay; joins at the threshold
		// only thanks to a leaving member
		leaving := map[string]bool{}

		for a := range m.members {
			if m.expelOK[a] || m.leaveOK[a] {
				leaving[a] = true
			}
		}

		nstay := m.n - len(leaving)

		for _, o := range c.Metas {
			if o.Kind != "join" {
				continue
			}

			all, staying := map[string]bool{}, map[string]bool{}

			for _, s := range o.Signs {
				if pub, ok := m.members[s.Node]; ok && s.SigValid && s.Pub == pub {
					all[s.Node] = true

					if !leaving[s.Node] {
						staying[s.Node] = true
					}
				}
			}

			switch {
			case len(all)*1000 < m.t10*m.n && len(staying)*1000 >= m.t10*nstay && len(leaving) > 0:
				boundaryJoins++

				r.Count("mixed_joins_below_threshold_of_current_but_not_of_staying_members", 1)
			case len(all)*1000 >= m.t10*m.n && len(staying)*1000 < m.t10*nstay:
				boundaryJoins++

				r.Count("mixed_joins_at_threshold_only_with_signs_of_leaving_members", 1)
			}
		}

		// observed pre-processing orders: an applied expel / disjoin ahead of a join and behind it
		for _, o := range res.outs {
			removedAt, joinAt := -1, -1

			for pos, v := range o.Verdicts {
				f := strings.SplitN(v, ":", 5)

				switch {
				case (f[1] == "expel" || f[1] == "disjoin") && f[3] == "true" && removedAt < 0:
					removedAt = pos
				case f[1] == "join" && joinAt < 0:
					joinAt = pos
				}
			}

			switch {
			case removedAt < 0 || joinAt < 0:
			case removedAt < joinAt:
				expelBeforeJoin++

				r.Count("mixed_blocks_with_applied_removal_preprocessed_before_a_join", 1)
			default:
				joinBeforeExpel++

				r.Count("mixed_blocks_with_join_preprocessed_before_applied_removal", 1)
			}

			r.SetAdd("mixed_preprocessing_kind_orders_seen", kindOrder(o.Verdicts))
		}

		if tl.changed && changedCases <= 2 {
			r.Sample(map[string]any{
				"phase": "mixed", "case": i, "members": len(m.members), "candidates": len(m.cands), "threshold": float64(m.t10) / 10,
				"operations": c.KindCounts(), "permutations": len(res.outs), "every_permutation": res.exhaustive,
				"verdicts_in_first_order": res.outs[0].Verdicts, "result": res.outs[0].canon(),
				"join_eligibility_by_model": m.joinWhy,
			})
		}
	}

	r.Set("mixed_cases_with_suffrage_change", changedCases)

	if joinsSeen == 0 || leavesSeen == 0 || expelBeforeJoin == 0 || joinBeforeExpel == 0 || boundaryJoins == 0 {
		r.Inconclusive(fmt.Sprintf(
			"mixed blocks: joins applied %d, leaves applied %d, blocks with a removal before / after a join %d / %d, joins on a threshold boundary %d: one of them never observed",
			joinsSeen, leavesSeen, expelBeforeJoin, joinBeforeExpel, boundaryJoins))
	}
}

// kindOrder: the kinds of the operations in the order they were pre-processed.
func kindOrder(verdicts []string) string {
	var b strings.Builder

	for _, v := range verdicts {
		f := strings.SplitN(v, ":", 3)
		b.WriteByte(f[1][0])
	}

	return b.String()
}

func reverse(n int) []int {
	out := make([]int, n)
	for i := range out {
		out[i] = n - 1 - i
	}

	return out
}
