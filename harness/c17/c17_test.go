package c17

import (
	"context"
	"fmt"
	"sort"
	"strings"
	"testing"
	"time"

	"github.com/spikeekips/mitum/base"
	"github.com/spikeekips/mitum/isaac"
	"verifharness/c10/prig"
	"verifharness/vlib"
)

// ---- independent set model (built from the harness's own metadata only) ----

type model struct {
	height   int64
	sufh     int64
	n        int
	t10      int
	members  map[string]string // address -> public key
	cands    map[string]prig.Cand
	joinWhy  map[string]string // target -> "" if some join operation makes it eligible, else best failing reason
	leaveOK  map[string]bool   // target -> a disjoin signed with the member's registered key exists
	expelOK  map[string]bool   // target -> an expel operation is carried by the INIT voteproof
	joinOps  int
	eligible int
	policyOK bool // some policy operation carries >= threshold distinct member signatures
}

func memberSigners(m *model, signs []prig.SignMeta) int {
	seen := map[string]bool{}

	for _, s := range signs {
		if pub, ok := m.members[s.Node]; ok && s.SigValid && s.Pub == pub {
			seen[s.Node] = true
		}
	}

	return len(seen)
}

// rank of failing reasons: the furthest clause a join operation got to
var joinRank = map[string]int{"no-join-operation": 0, "not-a-candidate": 1, "candidate-expired": 2, "not-signed-by-candidate-key": 3, "below-threshold-of-distinct-members": 4, "": 5}

func buildModel(c *prig.Case) *model {
	p := c.Prior
	m := &model{
		height: int64(p.Height), sufh: int64(p.SufHeight), n: len(p.Members), t10: p.T10,
		members: map[string]string{}, cands: map[string]prig.Cand{},
		joinWhy: map[string]string{}, leaveOK: map[string]bool{}, expelOK: map[string]bool{},
	}

	for _, x := range p.Members {
		m.members[x.Addr.String()] = x.Priv.Publickey().String()
	}

	for _, x := range p.Cands {
		m.cands[x.Addr.String()] = x
	}

	for _, o := range c.Metas {
		switch o.Kind {
		case "join":
			m.joinOps++

			why := ""
			cand, iscand := m.cands[o.Target]

			switch {
			case !iscand:
				why = "not-a-candidate"
			case int64(cand.Deadline) < m.height:
				why = "candidate-expired"
			default:
				self := false

				for _, s := range o.Signs {
					if s.Node == o.Target && s.SigValid && s.Pub == cand.Priv.Publickey().String() {
						self = true
					}
				}

				switch {
				case !self:
					why = "not-signed-by-candidate-key"
				case memberSigners(m, o.Signs)*1000 < m.t10*m.n: // exact: c/n*100 < T
					why = "below-threshold-of-distinct-members"
				}
			}

			if why == "" {
				m.eligible++
			}

			if prev, found := m.joinWhy[o.Target]; !found || joinRank[why] > joinRank[prev] {
				m.joinWhy[o.Target] = why
			}
		case "policy":
			if memberSigners(m, o.Signs)*1000 >= m.t10*m.n {
				m.policyOK = true
			}
		case "disjoin":
			if pub, ok := m.members[o.Target]; ok {
				for _, s := range o.Signs {
					if s.Node == o.Target && s.SigValid && s.Pub == pub {
						m.leaveOK[o.Target] = true
					}
				}
			}
		}
	}

	for _, o := range c.EMetas {
		m.expelOK[o.Target] = true
	}

	return m
}

// ---- what the real code produced ----

type outcome struct {
	PolicyChanged bool
	Changed       bool
	Height        int64
	Nodes         []string // "addr|pub|start" in state order
	Err           string
}

func (o outcome) canon() string {
	if o.Err != "" {
		return "error"
	}

	if !o.Changed {
		return "unchanged"
	}

	s := append([]string{}, o.Nodes...)
	sort.Strings(s)

	return fmt.Sprintf("h%d:%s", o.Height, strings.Join(s, ","))
}

func process(b *prig.Block, workers int64) outcome {
	res := b.Run(context.Background(), prig.RunOpts{Workers: workers, Save: true})
	if res.Writer != nil {
		defer res.Writer.Release()
	}

	if res.Err != nil {
		return outcome{Err: strings.SplitN(res.Err.Error(), "\n", 2)[0]}
	}

	if res.SaveErr != nil {
		return outcome{Err: "save: " + strings.SplitN(res.SaveErr.Error(), "\n", 2)[0]}
	}

	_, states, _ := res.Writer.FS.Snapshot()

	_, policyChanged := states[isaac.NetworkPolicyStateKey]

	st, found := states[isaac.SuffrageStateKey]
	if !found {
		return outcome{PolicyChanged: policyChanged}
	}

	v, ok := st.Value().(base.SuffrageNodesStateValue)
	if !ok {
		return outcome{Err: fmt.Sprintf("suffrage state value is %T", st.Value())}
	}

	out := outcome{Changed: true, Height: int64(v.Height()), PolicyChanged: policyChanged}
	for _, n := range v.Nodes() {
		out.Nodes = append(out.Nodes, fmt.Sprintf("%s|%s|%d", n.Address(), n.Publickey(), n.Start()))
	}

	return out
}

func TestC17(t *testing.T) {
	r := vlib.Start(t, "C17", vlib.LevelExploration)
	defer r.Finish()

	r.SetRule("case = PRNG prior state (suffrage 1..10, candidates 0..6 with expired / last-valid-height deadlines, threshold in {51,60,66.7,67,75,80,100}) + 1..24 join/candidate/disjoin/policy operations (correct, under-signed, padded with foreign / wrong-key / forged / duplicated signatures, unknown or expired candidate, wrong start, member as target, repeated targets) + 0..4 expel operations in the INIT voteproof (members, non-members, conflicting with a disjoin); the block is processed by the real processors once per permutation of its operations; distinct = case shape; non-trivial = the suffrage changed in at least one permutation")
	r.Assume("operations failing the real op.IsValid(networkID) never reach the processors (GetOperationFunc answers ErrInvalidOperationInProcessor), as in the node's pool; the oracle itself does not use IsValid: it counts distinct current members whose signature bytes are really theirs")
	r.Assume("unexpired = candidate deadline >= block height (the convention of isaac.FilterCandidates)")
	r.Assume("'can leave' is read as: a removed member is the target of a disjoin signed with that member's registered key or of an expel operation carried by the INIT voteproof (expel signatures are judged at voteproof validation, C03/C04, not here)")
	r.Assume("suffrages are compared as sets of (address, key, start) plus suffrage height")

	env, err := prig.NewEnv(r.Rand(0))
	if err != nil {
		t.Fatal(err)
	}

	ncases := r.N(200, 3000)
	nperm := r.N(8, 24)

	type result struct {
		c     *prig.Case
		m     *model
		outs  []outcome
		perms [][]int
	}

	results := make([]*result, ncases)

	vlib.Parallel(ncases, 16, func(i int) {
		rng := r.Rand(1, i)
		c := prig.GenCase(env, rng, 10, 24)
		res := &result{c: c, m: buildModel(c)}
		results[i] = res

		witness := map[string]any{"case": i, "shape": c.Shape()}

		ok := r.WithWatchdog(5*time.Minute, fmt.Sprintf("case %d", i), func() {
			r.Guard("process", witness, func() {
				for k := 0; k < nperm; k++ {
					var order, eorder []int

					switch k {
					case 0:
					case 1:
						order, eorder = reverse(len(c.Ops)), reverse(len(c.Expels))
					default:
						order, eorder = rng.Perm(len(c.Ops)), rng.Perm(len(c.Expels))
					}

					b := c.NewBlock(order, eorder, 0)
					res.perms = append(res.perms, b.Order)
					res.outs = append(res.outs, process(b, []int64{1, 4, 16}[k%3]))
				}
			})
		})
		if !ok {
			res.outs = nil
		}
	})

	var changedCases, joinsSeen, leavesSeen int

	for i, res := range results {
		if res == nil || len(res.outs) == 0 {
			continue
		}

		c, m := res.c, res.m
		changed := false

		for k, o := range res.outs {
			r.Count("blocks_processed", 1)

			witness := map[string]any{
				"case": i, "permutation": res.perms[k], "height": m.height, "threshold": float64(m.t10) / 10,
				"members": m.members, "operations": c.Metas, "expels": c.EMetas, "result": o,
			}

			if o.PolicyChanged {
				r.Count("blocks_policy_changed", 1)

				if !m.policyOK { // outside the statement of C17 (suffrage only): reported, not judged
					r.Count("info_policy_changed_below_threshold_of_distinct_members", 1)
				}
			}

			switch {
			case o.Err != "":
				r.Count("blocks_ending_in_error", 1)
				r.SetAdd("error_kinds", o.Err)

				continue
			case !o.Changed:
				r.Count("blocks_suffrage_unchanged", 1)

				continue
			}

			changed = true

			r.Count("blocks_suffrage_changed", 1)

			// (1) unique members, (2) height + 1
			newm := map[string]string{}

			for _, n := range o.Nodes {
				f := strings.Split(n, "|")
				if _, dup := newm[f[0]]; dup {
					r.Violation("suffrage:duplicate-member", fmt.Sprintf("case %d: member %s twice in the resulting suffrage", i, f[0]), witness)
				}

				newm[f[0]] = f[1]
			}

			if o.Height != m.sufh+1 {
				r.Violation("suffrage:height-not-previous-plus-one",
					fmt.Sprintf("case %d: suffrage height %d after %d", i, o.Height, m.sufh), witness)
			}

			if len(newm) == 0 {
				r.Count("blocks_with_empty_resulting_suffrage", 1)
			}

			// (3) who joined
			for a, pub := range newm {
				if _, was := m.members[a]; was {
					if pub != m.members[a] {
						r.Count("kept_member_key_changed", 1)
					}

					continue
				}

				joinsSeen++

				r.Count("joined_nodes", 1)

				why, found := m.joinWhy[a]
				if !found {
					why = "no-join-operation"
				}

				if why != "" {
					r.Violation("join:"+why, fmt.Sprintf("case %d: %s joined the suffrage although %s (threshold %.1f of %d members)",
						i, a, why, float64(m.t10)/10, m.n), witness)

					continue
				}

				if cand := m.cands[a]; cand.Priv.Publickey().String() != pub {
					r.Violation("join:member-key-differs-from-registered-candidate-key",
						fmt.Sprintf("case %d: %s joined with key %s, registered %s", i, a, pub, cand.Priv.Publickey()), witness)
				}
			}

			// (4) who left
			for a := range m.members {
				if _, still := newm[a]; still {
					continue
				}

				leavesSeen++

				switch {
				case m.leaveOK[a] && m.expelOK[a]:
					r.Count("removed_by_disjoin_and_expel", 1)
				case m.leaveOK[a]:
					r.Count("removed_by_disjoin", 1)
				case m.expelOK[a]:
					r.Count("removed_by_expel", 1)
				default:
					r.Violation("leave:removed-without-own-disjoin-or-expel",
						fmt.Sprintf("case %d: member %s left the suffrage without a disjoin signed by its key or an expel", i, a), witness)
				}
			}
		}

		// (5) independence of operation order
		first := res.outs[0].canon()
		for k, o := range res.outs[1:] {
			if o.canon() != first {
				r.Violation("order-dependence:suffrage-differs",
					fmt.Sprintf("case %d: order %v gives %s, order %v gives %s", i, res.perms[0], first, res.perms[k+1], o.canon()),
					map[string]any{"case": i, "operations": c.Metas, "expels": c.EMetas, "a": res.outs[0], "b": o, "order_a": res.perms[0], "order_b": res.perms[k+1]})

				break
			}
		}

		r.Eval(1)

		if changed {
			changedCases++

			r.Distinct(c.Shape())
		}

		r.Count("join_operations", m.joinOps)
		r.Count("join_operations_eligible_by_model", m.eligible)

		for k, v := range c.KindCounts() {
			r.Count("op_"+k, v)
		}

		if changed && changedCases <= 5 {
			r.Sample(map[string]any{
				"case": i, "members": len(m.members), "candidates": len(m.cands), "threshold": float64(m.t10) / 10,
				"operations": c.KindCounts(), "permutations": len(res.outs), "result": res.outs[0],
				"join_eligibility_by_model": m.joinWhy,
			})
		}
	}

	r.Set("cases_with_suffrage_change", changedCases)
	r.Set("permutations_per_case", nperm)

	if joinsSeen == 0 || leavesSeen == 0 {
		r.Inconclusive(fmt.Sprintf("no join (%d) or no leave (%d) was ever applied by the code under test", joinsSeen, leavesSeen))
	}
}

func reverse(n int) []int {
	out := make([]int, n)
	for i := range out {
		out[i] = n - 1 - i
	}

	return out
}
