package c17

import (
	"context"
	"fmt"
	"math/rand"
	"sort"
	"strings"

	"github.com/spikeekips/mitum/base"
	"github.com/spikeekips/mitum/isaac"
	isaacoperation "github.com/spikeekips/mitum/isaac/operation"
	"verifharness/c10/prig"
)

// Mixed blocks: expel, join, disjoin and candidate operations about the same and
// about different nodes in one block, pre-processed in EVERY order. The node's
// DefaultProposalProcessor itself only ever produces one relative order of the
// kinds (it drops expel operations listed in a proposal and pre-processes the
// voteproof's expels after all proposal operations), so the orders are driven
// by processChained below: the pre-processing loop of
// DefaultProposalProcessor.processOperations over the same real processors,
// real state functions and the real block writer, with the operations in the
// chosen order. The order the node itself produces is run through the real
// DefaultProposalProcessor as well and must agree with all the others.
// Signatures of these blocks are all genuine: hostile signatures are the
// subject of the first phase; here the subject is what one operation of a block
// may change for another one.

type mixGen struct {
	env   *prig.Env
	p     *prig.Prior
	rng   *rand.Rand
	c     *prig.Case
	fresh int
	// members leaving by an effective expel / disjoin of this block
	leaving map[string]bool
	// join sign classes drawn (evidence)
	classes []string
}

func needOf(n, t10 int) int { return (n*t10 + 999) / 1000 }

func liveCands(p *prig.Prior) []prig.Cand {
	var out []prig.Cand

	for _, c := range p.Cands {
		if c.Deadline >= p.Height {
			out = append(out, c)
		}
	}

	return out
}

func (g *mixGen) sign(fact base.Fact, nodes []base.Address, keys []base.Privatekey) ([]base.NodeSign, []prig.SignMeta) {
	nss := make([]base.NodeSign, len(nodes))
	metas := make([]prig.SignMeta, len(nodes))

	for i := range nodes {
		ns, err := base.NewBaseNodeSignFromFact(nodes[i], keys[i], g.env.NetworkID, fact)
		if err != nil {
			panic(err)
		}

		nss[i] = ns
		metas[i] = prig.SignMeta{Node: nodes[i].String(), Pub: keys[i].Publickey().String(), SigValid: true}
	}

	return nss, metas
}

func (g *mixGen) add(op base.Operation, m prig.OpMeta) {
	m.Fetch = "ok"

	if err := op.IsValid(g.env.NetworkID); err != nil {
		panic(fmt.Sprintf("mixed block generator built an invalid %s/%s operation: %v", m.Kind, m.Variant, err))
	}

	g.c.Ops = append(g.c.Ops, op)
	g.c.Metas = append(g.c.Metas, m)
}

func (g *mixGen) addExpel(op isaac.SuffrageExpelOperation, m prig.OpMeta) {
	m.Fetch = "voteproof"

	if err := op.IsValid(g.env.NetworkID); err != nil {
		panic(fmt.Sprintf("mixed block generator built an invalid expel/%s operation: %v", m.Variant, err))
	}

	g.c.Expels = append(g.c.Expels, op)
	g.c.EMetas = append(g.c.EMetas, m)
}

func (g *mixGen) freshNode(prefix string) (base.Address, base.Privatekey) {
	g.fresh++

	return base.NewStringAddress(fmt.Sprintf("%s%02d-%04x", prefix, g.fresh, g.rng.Intn(1<<16))), prig.NewKey(g.rng)
}

// expelOp builds an expel operation signed by every other member.
func (g *mixGen) expelOp(variant string, target base.Address, start, end base.Height) (isaac.SuffrageExpelOperation, prig.OpMeta) {
	for { // the expel fact's token is node+start+end: keep the facts of one block distinct
		dup := false

		for _, ms := range [][]prig.OpMeta{g.c.Metas, g.c.EMetas} {
			for _, m := range ms {
				if m.Kind == "expel" && m.Target == target.String() && m.Start == int64(start) && m.End == int64(end) {
					dup = true
				}
			}
		}

		if !dup {
			break
		}

		end++
	}

	fact := isaac.NewSuffrageExpelFact(target, start, end, "verif-mixed")
	op := isaac.NewSuffrageExpelOperation(fact)

	var nodes []base.Address
	var keys []base.Privatekey

	for _, m := range g.p.Members {
		if !m.Addr.Equal(target) {
			nodes, keys = append(nodes, m.Addr), append(keys, m.Priv)
		}
	}

	if len(nodes) == 0 {
		a, k := g.freshNode("x")
		nodes, keys = append(nodes, a), append(keys, k)
	}

	nss, metas := g.sign(fact, nodes, keys)
	if err := op.SetNodeSigns(nss); err != nil {
		panic(err)
	}

	return op, prig.OpMeta{
		Kind: "expel", Variant: "mixed-" + variant, Target: target.String(), Start: int64(start), End: int64(end), Signs: metas,
	}
}

// removal draws one expel (of the proposal) or disjoin.
func (g *mixGen) removal(kind string, prefer *prig.Member) {
	p, rng := g.p, g.rng

	m := p.Members[rng.Intn(len(p.Members))]
	if prefer != nil {
		m = *prefer
	}

	switch kind {
	case "expel":
		variant := []string{"ok", "ok", "ok", "ok", "ok", "candidate-target", "expired", "future-start"}[rng.Intn(8)]
		if prefer != nil {
			variant = "ok"
		}

		target := base.Address(m.Addr)
		start, end := p.Height-base.Height(rng.Intn(3)), p.Height+base.Height(rng.Intn(4))

		switch {
		case variant == "candidate-target" && len(p.Cands) > 0:
			target = p.Cands[rng.Intn(len(p.Cands))].Addr
		case variant == "candidate-target":
			variant = "ok"
		case variant == "expired":
			start, end = p.Height-4, p.Height-1
		case variant == "future-start":
			start, end = p.Height+1, p.Height+3
		}

		if start <= base.GenesisHeight {
			start = base.GenesisHeight + 1
		}

		if variant == "ok" {
			g.leaving[target.String()] = true
		}

		op, meta := g.expelOp(variant, target, start, end)
		g.addExpel(op, meta)
	case "disjoin":
		fact := isaacoperation.NewSuffrageDisjoinFact(prig.Token(rng), m.Addr, m.Start)
		op := isaacoperation.NewSuffrageDisjoin(fact)

		nss, metas := g.sign(fact, []base.Address{m.Addr}, []base.Privatekey{m.Priv})
		if err := op.SetNodeSigns(nss); err != nil {
			panic(err)
		}

		g.leaving[m.Addr.String()] = true

		g.add(op, prig.OpMeta{Kind: "disjoin", Variant: "mixed-ok", Target: m.Addr.String(), Start: int64(m.Start), Signs: metas})
	}
}

// join draws one join of a candidate whose number of genuine member signs sits
// on a boundary of the threshold clause: the threshold of the CURRENT suffrage
// (n members) and of the suffrage without the members leaving in this block
// (n-e), with the leaving members among the signers or not.
func (g *mixGen) join(cand prig.Cand, class string) {
	p, rng := g.p, g.rng
	n := len(p.Members)

	var stay, leave []prig.Member

	for _, i := range rng.Perm(n) {
		if g.leaving[p.Members[i].Addr.String()] {
			leave = append(leave, p.Members[i])
		} else {
			stay = append(stay, p.Members[i])
		}
	}

	need, needrest := needOf(n, p.T10), needOf(len(stay), p.T10)

	var k int

	order := append(append([]prig.Member{}, stay...), leave...) // staying members sign first

	switch class {
	case "below-current/at-remaining": // need(n-e) <= k < need(n)
		k = need - 1
		if needrest < need {
			k = needrest + rng.Intn(need-needrest)
		}
	case "below-remaining": // k < need(n-e)
		k = needrest - 1
	case "at-current/leaving-sign-first": // k = need(n), the leaving members are among the signers
		k = need
		order = append(append([]prig.Member{}, leave...), stay...)
	case "at-current/staying-sign-first":
		k = need
	case "all":
		k = n
	default:
		class = "random"
		k = rng.Intn(n + 1)

		rng.Shuffle(len(order), func(i, j int) { order[i], order[j] = order[j], order[i] })
	}

	if k < 0 {
		k = 0
	}

	if k > n {
		k = n
	}

	nodes := []base.Address{cand.Addr}
	keys := []base.Privatekey{cand.Priv}

	for _, m := range order[:k] {
		nodes, keys = append(nodes, m.Addr), append(keys, m.Priv)
	}

	if rng.Intn(4) == 0 { // signs that must not count: another candidate, a foreign node
		for _, c := range p.Cands {
			if !c.Addr.Equal(cand.Addr) {
				nodes, keys = append(nodes, c.Addr), append(keys, c.Priv)

				break
			}
		}

		a, kk := g.freshNode("x")
		nodes, keys = append(nodes, a), append(keys, kk)
	}

	rng.Shuffle(len(nodes), func(i, j int) {
		nodes[i], nodes[j] = nodes[j], nodes[i]
		keys[i], keys[j] = keys[j], keys[i]
	})

	fact := isaacoperation.NewSuffrageJoinFact(prig.Token(rng), cand.Addr, cand.Start)
	op := isaacoperation.NewSuffrageJoin(fact)

	nss, metas := g.sign(fact, nodes, keys)
	if err := op.SetNodeSigns(nss); err != nil {
		panic(err)
	}

	g.classes = append(g.classes, class)
	g.add(op, prig.OpMeta{Kind: "join", Variant: "mixed-" + class, Target: cand.Addr.String(), Start: int64(cand.Start), Signs: metas})
}

func (g *mixGen) candidate(target base.Address, key base.Privatekey, variant string) {
	fact := isaacoperation.NewSuffrageCandidateFact(prig.Token(g.rng), target, key.Publickey())
	op := isaacoperation.NewSuffrageCandidate(fact)

	nss, metas := g.sign(fact, []base.Address{target}, []base.Privatekey{key})
	if err := op.SetNodeSigns(nss); err != nil {
		panic(err)
	}

	g.add(op, prig.OpMeta{
		Kind: "candidate", Variant: "mixed-" + variant, Target: target.String(), TargetPub: key.Publickey().String(), Signs: metas,
	})
}

var joinClasses = []string{
	"below-current/at-remaining", "below-current/at-remaining", "below-current/at-remaining",
	"at-current/leaving-sign-first", "at-current/leaving-sign-first",
	"at-current/staying-sign-first", "below-remaining", "all", "random",
}

// genMixed draws a prior state with at least three members and one unexpired
// candidate and nops operations: removals (expel / disjoin, for the same
// and for different members) first, so that the joins can be signed relative to
// who is leaving; then joins and candidate registrations. The generation order
// is irrelevant: every case is run under permutations of its operations.
func genMixed(env *prig.Env, rng *rand.Rand, nops int) (*prig.Case, []string) {
	var p *prig.Prior

	for {
		p = prig.GenPrior(env, rng, 9)
		if len(p.Members) >= 3 && len(liveCands(p)) > 0 {
			break
		}
	}

	c := &prig.Case{Env: env, Prior: p}
	g := &mixGen{env: env, p: p, rng: rng, c: c, leaving: map[string]bool{}}
	live := liveCands(p)

	// how many of the operations are removals / joins / the rest
	nrem, njoin := 1, 1

	for i := 2; i < nops; i++ {
		switch x := rng.Intn(10); {
		case x < 4:
			nrem++
		case x < 7:
			njoin++
		}
	}

	if rng.Intn(6) == 0 { // a block without the guaranteed pair
		if rng.Intn(2) == 0 {
			nrem = 0
		} else {
			njoin = 0
		}
	}

	var first *prig.Member

	for i := 0; i < nrem; i++ {
		kind := "expel"
		if i > 0 && rng.Intn(3) == 0 {
			kind = "disjoin"
		}

		var prefer *prig.Member

		switch {
		case i == 0:
			m := p.Members[rng.Intn(len(p.Members))]
			first, prefer = &m, &m
		case rng.Intn(3) == 0: // the same node again: expel + expel, expel + disjoin
			prefer = first
		}

		g.removal(kind, prefer)
	}

	for i := 0; i < njoin; i++ {
		cand := live[rng.Intn(len(live))]
		g.join(cand, joinClasses[rng.Intn(len(joinClasses))])
	}

	for len(c.Ops)+len(c.Expels) < nops {
		switch x := rng.Intn(4); {
		case x == 0 && first != nil: // a member that is leaving registers as a candidate
			g.candidate(first.Addr, first.Priv, "leaving-member")
		case x == 1: // a candidate that joins registers again
			cand := live[rng.Intn(len(live))]
			g.candidate(cand.Addr, cand.Priv, "existing-candidate")
		default:
			a, k := g.freshNode("y")
			g.candidate(a, k, "new")
		}
	}

	return c, g.classes
}

// allPerms: every permutation of 0..n-1 in a fixed order.
func allPerms(n int) [][]int {
	var out [][]int

	cur := make([]int, 0, n)
	used := make([]bool, n)

	var rec func()

	rec = func() {
		if len(cur) == n {
			out = append(out, append([]int{}, cur...))

			return
		}

		for i := 0; i < n; i++ {
			if used[i] {
				continue
			}

			used[i] = true
			cur = append(cur, i)

			rec()

			cur = cur[:len(cur)-1]
			used[i] = false
		}
	}

	rec()

	return out
}

// metaAt: operation i of the combined list (proposal operations, then expels).
func metaAt(c *prig.Case, i int) prig.OpMeta {
	if i < len(c.Metas) {
		return c.Metas[i]
	}

	return c.EMetas[i-len(c.Metas)]
}

// kindOrders: the orders which put all operations of one kind first (stable).
func kindOrders(c *prig.Case) [][]int {
	var out [][]int

	for _, ranks := range []map[string]int{
		{"expel": 0, "disjoin": 1, "join": 2, "candidate": 3},
		{"join": 0, "candidate": 1, "disjoin": 2, "expel": 3},
		{"disjoin": 0, "candidate": 1, "expel": 2, "join": 3},
	} {
		order := make([]int, len(c.Ops)+len(c.Expels))
		for i := range order {
			order[i] = i
		}

		sort.SliceStable(order, func(a, b int) bool {
			return ranks[metaAt(c, order[a]).Kind] < ranks[metaAt(c, order[b]).Kind]
		})

		out = append(out, order)
	}

	return out
}

// mixedOrders: all permutations of the combined list up to four operations;
// beyond, the kind-first orders, generation order, its reverse and PRNG
// permutations up to nperm.
func mixedOrders(c *prig.Case, rng *rand.Rand, nperm int) (orders [][]int, exhaustive bool) {
	n := len(c.Ops) + len(c.Expels)
	if n <= 4 {
		return allPerms(n), true
	}

	orders = append(kindOrders(c), reverse(n))
	for len(orders) < nperm {
		orders = append(orders, rng.Perm(n))
	}

	return orders, false
}

// processChained pre-processes the operations of the case (proposal operations
// and expels alike) in the given order the way
// DefaultProposalProcessor.processOperations does: one processor per operation
// kind per block from the launch-style NewOperationProcessorFunc, PreProcess
// one operation after another, the context returned by one PreProcess (passed
// or rejected) handed to the next; Process of every operation that passed
// (eager: right after its PreProcess, as the node's worker may; else after all
// PreProcess calls); results and state merge values go to the real block
// writer, whose Manifest / Save close the state value mergers.
func processChained(c *prig.Case, order []int, workers int64, eager bool) outcome {
	ctx := context.Background()
	b := c.NewBlock(nil, nil, 0)
	height := c.Prior.Height

	var getState base.GetStateFunc = c.Prior.GetState

	bw, err := c.Env.NewWriterFunc(nil, workers)(b.Proposal, getState)
	if err != nil {
		return outcome{Err: "new writer: " + firstLine(err)}
	}

	w := bw.(*prig.RecWriter) //nolint:forcetypeassert //...
	defer w.Release()

	w.SetOperationsSize(uint64(len(order)))

	newopp := c.Prior.NewOperationProcessorFunc()
	opps := map[string]base.OperationProcessor{}

	defer func() {
		for _, opp := range opps {
			_ = opp.Close()
		}
	}()

	out := outcome{applied: map[int]bool{}}
	verdicts := make([]string, len(order))

	process := func(pos int) error {
		i := order[pos]
		op, meta := opAt(c, i)
		opp := opps[op.Hint().String()]

		switch stvs, reason, err := opp.Process(ctx, op, getState); {
		case err != nil:
			return err
		case len(stvs) < 1:
			if reason == nil {
				return fmt.Errorf("empty state must have reason")
			}

			verdicts[pos] = fmt.Sprintf("%d:%s:%s:false:process: %s", i, meta.Kind, meta.Target, reason.Msg())
		case reason != nil:
			return fmt.Errorf("not empty state must have empty reason")
		default:
			if err := w.SetStates(ctx, uint64(pos), stvs, op); err != nil {
				return err
			}

			if err := w.SetProcessResult(ctx, uint64(pos), op.Hash(), op.Fact().Hash(), true, nil); err != nil {
				return err
			}

			out.applied[i] = true
			verdicts[pos] = fmt.Sprintf("%d:%s:%s:true:", i, meta.Kind, meta.Target)
		}

		return nil
	}

	var passed []int

	pctx := ctx

	for pos, i := range order {
		op, meta := opAt(c, i)

		opp, found := opps[op.Hint().String()]
		if !found {
			switch j, err := newopp(height, op.Hint(), getState); {
			case err != nil:
				return outcome{Err: "new processor: " + firstLine(err)}
			case j == nil:
				return outcome{Err: fmt.Sprintf("no processor for %s", meta.Kind)}
			default:
				opp = j
				opps[op.Hint().String()] = j
			}
		}

		nctx, reason, err := opp.PreProcess(pctx, op, getState)
		pctx = nctx

		switch {
		case err != nil:
			return outcome{Err: "pre process operation: " + firstLine(err)}
		case reason != nil:
			if err := w.SetProcessResult(ctx, uint64(pos), op.Hash(), op.Fact().Hash(), false, reason); err != nil {
				return outcome{Err: "set process result: " + firstLine(err)}
			}

			verdicts[pos] = fmt.Sprintf("%d:%s:%s:false:%s", i, meta.Kind, meta.Target, reason.Msg())

			continue
		}

		if eager {
			if err := process(pos); err != nil {
				return outcome{Err: "process operation: " + firstLine(err)}
			}

			continue
		}

		passed = append(passed, pos)
	}

	for _, pos := range passed {
		if err := process(pos); err != nil {
			return outcome{Err: "process operation: " + firstLine(err)}
		}
	}

	out.Verdicts = verdicts

	manifest, err := w.Manifest(ctx, c.Prior.Previous)
	if err != nil {
		return outcome{Err: firstLine(err)}
	}

	if err := w.SetINITVoteproof(ctx, b.IVP); err != nil {
		return outcome{Err: "save: " + firstLine(err)}
	}

	avp := c.Env.ACCEPT(b.Proposal.Point(), b.Proposal.Fact().Hash(), manifest.Hash(), c.Prior.Threshold())
	if err := w.SetACCEPTVoteproof(ctx, avp); err != nil {
		return outcome{Err: "save: " + firstLine(err)}
	}

	if _, err := w.Save(ctx); err != nil {
		return outcome{Err: "save: " + firstLine(err)}
	}

	_, states, _ := w.FS.Snapshot()

	return readSuffrage(out, states)
}

func opAt(c *prig.Case, i int) (base.Operation, prig.OpMeta) {
	if i < len(c.Ops) {
		return c.Ops[i], c.Metas[i]
	}

	return c.Expels[i-len(c.Ops)], c.EMetas[i-len(c.Ops)]
}

func firstLine(err error) string {
	return strings.SplitN(err.Error(), "\n", 2)[0]
}
