package c18

import (
	"bufio"
	"bytes"
	"context"
	"encoding/json"
	"fmt"
	"math/rand"
	"os"
	"os/exec"
	"path/filepath"
	"runtime"
	"runtime/debug"
	"strconv"
	"strings"
	"sync/atomic"
	"testing"
	"time"

	"github.com/pkg/errors"
	"github.com/spikeekips/mitum/base"
	"github.com/spikeekips/mitum/isaac"
	isaacblock "github.com/spikeekips/mitum/isaac/block"
	"github.com/spikeekips/mitum/util"
	"github.com/spikeekips/mitum/util/fixedtree"
	"github.com/spikeekips/mitum/util/valuehash"
	"verifharness/c13/blkrig"
	"verifharness/vlib"
)

// ---------------------------------------------------------------- world

// world = three chains of real suffrage proofs, written once by the parent
// (real blocks through Writer+LocalFSWriter) and decoded by every child.
type worldFile struct {
	NetworkID []byte
	Main      [][]byte // suffrage height i at block height i
	Foreign   [][]byte // another chain, same heights
	// NonGenesisZero: a valid proof of suffrage height 0 carried by a block
	// above the genesis height
	NonGenesisZero []byte
	// Late: another chain whose suffrage heights 1.. sit in blocks far above
	// every block of the main chain (suffrage height 0 at genesis)
	Late [][]byte
	// OtherNet: the proofs of the main chain with their block maps signed (by
	// the same node key) for another network id: valid there, invalid here
	OtherNet [][]byte
}

type world struct {
	rig       *blkrig.Rig
	late      []base.SuffrageProof
	othernet  []base.SuffrageProof
	networkID base.NetworkID
	main      []base.SuffrageProof
	foreign   []base.SuffrageProof
	ngz       base.SuffrageProof
}

func buildWorld(r *vlib.Run, n int) (worldFile, error) {
	rig := blkrig.New()
	wf := worldFile{NetworkID: rig.NetworkID}
	othernetID := base.NetworkID(append([]byte("other-"), rig.NetworkID...))

	chain := func(name string, n int, first bool, seed int) ([][]byte, error) {
		rng := r.Rand(18, 9000, seed)
		c := rig.NewChain(filepath.Join(r.WorkDir(), "chain-"+name))

		defer c.Close()

		for i := 0; i < n; i++ {
			if _, err := c.Add(blkrig.Spec{NOps: 1, NStatesPerOp: 1, Suffrage: first || i > 0, NNodes: 1 + rng.Intn(2)}, rng); err != nil {
				return nil, err
			}
		}

		out := make([][]byte, len(c.Proofs))

		for i := range c.Proofs {
			b, err := rig.Enc.Marshal(c.Proofs[i])
			if err != nil {
				return nil, err
			}

			out[i] = b

			if name != "main" {
				continue
			}

			m, ok := c.Proofs[i].Map().(isaacblock.BlockMap)
			if !ok {
				return nil, errors.Errorf("expected isaacblock.BlockMap, %T", c.Proofs[i].Map())
			}

			if err := m.Sign(rig.Local.Address(), rig.Local.Privatekey(), othernetID); err != nil {
				return nil, err
			}

			ob, err := rig.Enc.Marshal(isaacblock.NewSuffrageProof(m, c.Proofs[i].State(), c.Proofs[i].Proof()))
			if err != nil {
				return nil, err
			}

			wf.OtherNet = append(wf.OtherNet, ob)
		}

		return out, nil
	}

	var err error

	if wf.Main, err = chain("main", n, true, 1); err != nil {
		return wf, err
	}

	if wf.Foreign, err = chain("foreign", n, true, 2); err != nil {
		return wf, err
	}

	{
		rng := r.Rand(18, 9000, 4)
		c := rig.NewChain(filepath.Join(r.WorkDir(), "chain-late"))

		for i := 0; i < 8; i++ {
			if i == 1 {
				c.Jump(int64(n) + 10)
			}

			if _, err := c.Add(blkrig.Spec{NOps: 1, NStatesPerOp: 1, Suffrage: true, NNodes: 1 + rng.Intn(2)}, rng); err != nil {
				c.Close()

				return wf, err
			}
		}

		c.Close()

		for i := range c.Proofs {
			b, err := rig.Enc.Marshal(c.Proofs[i])
			if err != nil {
				return wf, err
			}

			wf.Late = append(wf.Late, b)
		}
	}

	switch g, err := chain("ngz", 2, false, 3); {
	case err != nil:
		return wf, err
	case len(g) != 1:
		return wf, errors.Errorf("expected one proof in ngz chain, %d", len(g))
	default:
		wf.NonGenesisZero = g[0]
	}

	return wf, nil
}

func loadWorld(wf worldFile) (*world, error) {
	rig := blkrig.New()
	w := &world{rig: rig, networkID: base.NetworkID(wf.NetworkID)}

	dec := func(b []byte) (base.SuffrageProof, error) {
		h, err := rig.Enc.Decode(b)
		if err != nil {
			return nil, err
		}

		p, ok := h.(isaacblock.SuffrageProof)
		if !ok {
			return nil, errors.Errorf("not SuffrageProof, %T", h)
		}

		if err := p.IsValid(w.networkID); err != nil {
			return nil, err
		}

		return p, nil
	}

	for i := range wf.Main {
		p, err := dec(wf.Main[i])
		if err != nil {
			return nil, err
		}

		if p.SuffrageHeight().Int64() != int64(i) {
			return nil, errors.Errorf("main chain: suffrage height %d at %d", p.SuffrageHeight(), i)
		}

		w.main = append(w.main, p)
	}

	for i := range wf.Foreign {
		p, err := dec(wf.Foreign[i])
		if err != nil {
			return nil, err
		}

		w.foreign = append(w.foreign, p)
	}

	for i := range wf.Late {
		p, err := dec(wf.Late[i])
		if err != nil {
			return nil, err
		}

		w.late = append(w.late, p)
	}

	p, err := dec(wf.NonGenesisZero)
	if err != nil {
		return nil, err
	}

	w.ngz = p

	othernetID := base.NetworkID(append([]byte("other-"), wf.NetworkID...))

	for i := range wf.OtherNet {
		h, err := rig.Enc.Decode(wf.OtherNet[i])
		if err != nil {
			return nil, err
		}

		p, ok := h.(isaacblock.SuffrageProof)
		if !ok {
			return nil, errors.Errorf("not SuffrageProof, %T", h)
		}

		if err := p.IsValid(othernetID); err != nil {
			return nil, errors.WithMessage(err, "other-network proof")
		}

		if err := p.IsValid(w.networkID); err == nil {
			return nil, errors.Errorf("other-network proof is valid under the network id")
		}

		w.othernet = append(w.othernet, p)
	}

	return w, nil
}

// ---------------------------------------------------------------- cases

type bcase struct {
	ID    int
	Kind  string
	Local int // index of the local state in the main chain; -1 = no local state
	Last  int // index of the remote's last proof
	Limit int64
	// Targets: requested suffrage heights whose answer is manipulated
	Targets []int
	// Answer: the suffrage height answered instead (dup / below-local / above-last)
	Answer int
	Seed   int64
	// schedule of the remote's answers (kinds "splice", "scheduled-honest"):
	// heights >= Splice are served from the foreign chain (0 = none); answers
	// arrive in Order with GapMs between consecutive ranks; every served
	// proof's Prove takes SlowMs longer
	Splice int
	Order  string
	GapMs  int
	SlowMs int
	// kind "malformed" (malformed_test.go): Site = the remote call that gets
	// the malformed answer (last / height / candidate), Shape = what is wrong
	// with it, Flag = found / not-found / with-error, HVar = which last block
	// height the remote reports (0 = the real one)
	Site  string `json:",omitempty"`
	Shape string `json:",omitempty"`
	Flag  string `json:",omitempty"`
	HVar  int    `json:",omitempty"`
}

// slowProof is a remote proof whose Prove takes longer (a big suffrage, a busy
// machine): it widens the window between a proof being checked against its
// neighbours and being filed.
type slowProof struct {
	base.SuffrageProof
	d  time.Duration
	on *atomic.Bool
}

func (p slowProof) Prove(previous base.State) error {
	if p.on.Load() {
		time.Sleep(p.d)
	}

	return p.SuffrageProof.Prove(previous)
}

type cresult struct {
	ID       int
	Err      string
	NProofs  int
	Heights  []int64
	Fetched  int
	Sig      string // violation signature ("" = none)
	What     string
	Panicked bool
	// malformed cases
	Reach   string `json:",omitempty"` // decodable / interface-only
	Invalid bool   `json:",omitempty"` // the served answer is nil or fails IsValid
	Skipped string `json:",omitempty"` // the shape could not be put together
	Gated   bool   `json:",omitempty"` // by-height answer stopped by the caller's IsValid gate
	Ignored bool   `json:",omitempty"` // nil error and no proofs
	Us      int64  `json:",omitempty"` // wall time of the case in the child (evidence only)
}

var kinds = []string{
	"honest", "honest", "honest", "shuffled", "dup", "omit", "below-local", "above-last", "foreign-one", "foreign-all",
	"last-foreign", "last-older", "local-ahead", "fetch-error", "not-updated", "nongenesis-zero",
	"splice", "splice", "splice", "scheduled-honest",
	"last-not-newer", "last-not-newer", "forged-unproven", "forged-unproven", "forged-wrong-previous",
}

var orders = []string{"reverse", "reverse", "forward", "random", "simultaneous"}

func genCase(id int, rng *rand.Rand, n int) bcase {
	c := bcase{ID: id, Kind: kinds[rng.Intn(len(kinds))], Seed: rng.Int63()}

	c.Last = rng.Intn(n)
	if rng.Intn(3) == 0 {
		c.Last = rng.Intn(min(n, 12))
	}

	c.Local = -1
	if c.Last > 0 && rng.Intn(4) != 0 {
		c.Local = rng.Intn(c.Last)
	}

	c.Limit = 1 + int64(rng.Intn(10))

	need := c.Last - c.Local
	switch rng.Intn(6) {
	case 0:
		c.Limit = int64(need) // exactly one full batch
	case 1:
		if need >= 2 { // a multiple
			ds := []int64{}
			for d := int64(1); d < int64(need); d++ {
				if int64(need)%d == 0 {
					ds = append(ds, d)
				}
			}
			c.Limit = ds[rng.Intn(len(ds))]
		}
	case 2:
		c.Limit = 333
	}

	if c.Limit < 1 {
		c.Limit = 1
	}

	pick := func() int { return c.Local + 1 + rng.Intn(need) }

	switch c.Kind {
	case "dup":
		t := pick()
		c.Targets = []int{t}
		c.Answer = c.Local + 1 + rng.Intn(need)

		if c.Answer == t {
			c.Answer = t - 1
			if c.Answer <= c.Local {
				c.Answer = t + 1
			}
		}

		if c.Answer > c.Last || need < 2 {
			c.Kind = "honest"
			c.Targets = nil
		}
	case "omit", "fetch-error", "foreign-one":
		c.Targets = []int{pick()}
	case "below-local":
		if c.Local < 0 {
			c.Local = rng.Intn(c.Last + 1)
			if c.Local == c.Last {
				c.Local = c.Last - 1
			}

			if c.Local < 0 {
				c.Kind = "honest"

				break
			}

			need = c.Last - c.Local
		}

		c.Targets = []int{c.Local + 1 + rng.Intn(need)}
		c.Answer = rng.Intn(c.Local + 1)
	case "above-last":
		c.Targets = []int{pick()}
		c.Answer = c.Last + 1 + rng.Intn(3)

		if c.Answer >= n {
			c.Kind = "honest"
			c.Targets = nil
		}
	case "last-older", "local-ahead":
		// the remote's last proof is at or below the local state
		c.Local = c.Last + rng.Intn(3)
		if c.Local >= n {
			c.Local = n - 1
		}
	case "nongenesis-zero":
		c.Local = -1
	case "last-not-newer":
		// the remote's last proof is valid by itself and of a newer block than
		// the local state, but its suffrage height is at or below the local
		// one: Answer = suffrage height of the served last proof of the late
		// chain (1..7), Local >= Answer
		c.Answer = 1 + rng.Intn(7)
		c.Local = c.Answer + []int{0, 0, 1, 1 + rng.Intn(5)}[rng.Intn(4)]

		if c.Local >= n {
			c.Local = n - 1
		}

		c.Last = c.Answer
	case "forged-unproven", "forged-wrong-previous":
		// Targets[0]: the height whose proof is forged; every later height is
		// served from a forged chain linked to it
		if c.Kind == "forged-unproven" && rng.Intn(2) == 0 {
			c.Local = -1
			c.Last = rng.Intn(6)
			c.Targets = []int{0}

			break
		}

		if c.Last-c.Local > 10 {
			c.Last = c.Local + 1 + rng.Intn(10)
		}

		need = c.Last - c.Local
		c.Targets = []int{c.Local + 1 + rng.Intn(need)}

		if c.Kind == "forged-wrong-previous" && c.Targets[0] == 0 {
			c.Kind = "forged-unproven"
		}
	case "splice", "scheduled-honest":
		// a short range so that the scheduled answers stay cheap
		if c.Last < 1 {
			c.Last = 1 + rng.Intn(n-1)
		}

		span := 2 + rng.Intn(7)
		c.Local = c.Last - span
		if c.Local < -1 {
			c.Local = -1
		}

		need = c.Last - c.Local
		if rng.Intn(3) != 0 {
			c.Limit = int64(need + rng.Intn(3)) // one batch
		}

		c.Order = orders[rng.Intn(len(orders))]
		c.GapMs = 1 + rng.Intn(2)
		c.SlowMs = []int{0, 6, 10}[rng.Intn(3)]

		if c.Kind == "splice" {
			c.Splice = c.Local + 1 + rng.Intn(need)
			if c.Splice < 1 {
				c.Splice = 1
			}
		}
	}

	return c
}

func directed(n int) []bcase {
	return []bcase{
		{Kind: "honest", Local: -1, Last: 7, Limit: 3},
		{Kind: "honest", Local: 2, Last: 8, Limit: 3},
		{Kind: "honest", Local: -1, Last: 5, Limit: 6},
		{Kind: "honest", Local: 4, Last: 5, Limit: 1},
		{Kind: "below-local", Local: 5, Last: 9, Limit: 10, Targets: []int{7}, Answer: 2},
		{Kind: "below-local", Local: 5, Last: 9, Limit: 2, Targets: []int{9}, Answer: 0},
		{Kind: "dup", Local: -1, Last: 5, Limit: 10, Targets: []int{3}, Answer: 2},
		{Kind: "dup", Local: 1, Last: 9, Limit: 4, Targets: []int{4}, Answer: 3},
		{Kind: "above-last", Local: -1, Last: 5, Limit: 10, Targets: []int{3}, Answer: 6},
		{Kind: "nongenesis-zero", Local: -1, Last: 0, Limit: 3},
		{Kind: "nongenesis-zero", Local: -1, Last: 4, Limit: 3},
		{Kind: "last-foreign", Local: -1, Last: 4, Limit: 10},
		{Kind: "last-foreign", Local: 2, Last: 6, Limit: 2},
		{Kind: "foreign-all", Local: 2, Last: 6, Limit: 10},
		{Kind: "foreign-one", Local: -1, Last: 6, Limit: 10, Targets: []int{3}},
		{Kind: "omit", Local: -1, Last: 6, Limit: 4, Targets: []int{5}},
		{Kind: "splice", Local: -1, Last: 7, Limit: 8, Splice: 4, Order: "reverse", GapMs: 2, SlowMs: 10},
		{Kind: "splice", Local: -1, Last: 7, Limit: 8, Splice: 4, Order: "forward", GapMs: 1, SlowMs: 6},
		{Kind: "splice", Local: 3, Last: 9, Limit: 10, Splice: 6, Order: "reverse", GapMs: 1, SlowMs: 6},
		{Kind: "splice", Local: 3, Last: 9, Limit: 10, Splice: 9, Order: "reverse", GapMs: 2, SlowMs: 10},
		{Kind: "splice", Local: 3, Last: 9, Limit: 10, Splice: 4, Order: "random", GapMs: 1, SlowMs: 10},
		{Kind: "splice", Local: -1, Last: 5, Limit: 3, Splice: 2, Order: "reverse", GapMs: 2, SlowMs: 10},
		{Kind: "splice", Local: 10, Last: 16, Limit: 6, Splice: 13, Order: "simultaneous", GapMs: 1, SlowMs: 10},
		{Kind: "last-not-newer", Local: 3, Last: 2, Answer: 2, Limit: 3},
		{Kind: "last-not-newer", Local: 3, Last: 3, Answer: 3, Limit: 3},
		{Kind: "last-not-newer", Local: 6, Last: 1, Answer: 1, Limit: 10},
		{Kind: "forged-unproven", Local: -1, Last: 0, Limit: 3, Targets: []int{0}},
		{Kind: "forged-unproven", Local: -1, Last: 4, Limit: 3, Targets: []int{0}},
		{Kind: "forged-unproven", Local: -1, Last: 4, Limit: 10, Targets: []int{0}},
		{Kind: "forged-unproven", Local: -1, Last: 5, Limit: 10, Targets: []int{3}},
		{Kind: "forged-unproven", Local: 2, Last: 6, Limit: 2, Targets: []int{3}},
		{Kind: "forged-unproven", Local: 2, Last: 6, Limit: 10, Targets: []int{5}},
		{Kind: "forged-wrong-previous", Local: -1, Last: 5, Limit: 10, Targets: []int{2}},
		{Kind: "forged-wrong-previous", Local: 2, Last: 6, Limit: 2, Targets: []int{3}},
		{Kind: "scheduled-honest", Local: -1, Last: 7, Limit: 8, Order: "reverse", GapMs: 2, SlowMs: 10},
		{Kind: "scheduled-honest", Local: 2, Last: 9, Limit: 3, Order: "random", GapMs: 1, SlowMs: 6},
	}
}

// ---------------------------------------------------------------- child

func runCase(w *world, c bcase, note func(string)) (res cresult) {
	res.ID = c.ID

	malformed := c.Kind == "malformed"

	var ans answer

	if malformed {
		idx := c.Last
		if c.Site == "height" {
			idx = c.Targets[0]
		}

		var ok bool

		if c.Site == "candidate" {
			ans, ok = mkCandidate(w.rig, w, c.Shape, idx)
		} else {
			ans, ok = mkAnswer(w.rig, w, c.Shape, idx)
		}

		if !ok {
			res.Skipped = "shape could not be constructed"

			return res
		}

		res.Reach, res.Invalid = ans.reach, ans.invalid
		note(ans.reach)
	}

	var gated atomic.Bool

	var local base.State
	localh := int64(-1)

	if c.Local >= 0 {
		local = w.main[c.Local].State()
		localh = int64(c.Local)
	}

	lastproof := w.main[c.Last]
	if c.Kind == "last-foreign" || (c.Splice > 0 && c.Splice <= c.Last) {
		lastproof = w.foreign[c.Last]
	}

	if c.Kind == "last-not-newer" {
		lastproof = w.late[c.Answer]
	}

	// forged chain: the proof at Targets[0] breaks exactly one binding, the
	// later ones follow it (forged states under the real block maps, paths from
	// their own consistent trees)
	forged := map[int]base.SuffrageProof{}

	if c.Kind == "forged-unproven" || c.Kind == "forged-wrong-previous" {
		t := c.Targets[0]

		var prevhash util.Hash
		if t > 0 {
			prevhash = w.main[t-1].State().Hash()
		}

		for i := t; i <= c.Last; i++ {
			real := w.main[i]
			bh := real.Map().Manifest().Height()

			ph := prevhash
			if i == t && c.Kind == "forged-wrong-previous" {
				ph = valuehash.RandomSHA256()
			}

			st := base.NewBaseState(bh, isaac.SuffrageStateKey,
				blkrig.SuffrageValue(base.Height(int64(i)), bh, []base.Node{base.RandomNode()}), ph, []util.Hash{valuehash.RandomSHA256()})

			path := real.Proof() // the path of the real state: does not contain the forged one
			if !(i == t && c.Kind == "forged-unproven") {
				path = ownTreePath(st.Hash().String(), 3+i%4, i%3)
			}

			forged[i] = isaacblock.NewSuffrageProof(real.Map(), st, path)
			prevhash = st.Hash()
		}

		lastproof = forged[c.Last]
	}

	// schedule: rank of every requested height in the order of arrival
	slowon := &atomic.Bool{}
	slowon.Store(true)

	rank := map[int]int{}

	if c.Order != "" {
		var hs []int
		for h := c.Local + 1; h <= c.Last; h++ {
			hs = append(hs, h)
		}

		switch c.Order {
		case "reverse":
			for i, j := 0, len(hs)-1; i < j; i, j = i+1, j-1 {
				hs[i], hs[j] = hs[j], hs[i]
			}
		case "random":
			rand.New(rand.NewSource(c.Seed)).Shuffle(len(hs), func(i, j int) { hs[i], hs[j] = hs[j], hs[i] })
		}

		for i, h := range hs {
			rank[h] = i
			if c.Order == "simultaneous" {
				rank[h] = 0
			}
		}
	}

	scheduled := func(i int, p base.SuffrageProof) base.SuffrageProof {
		if c.Order == "" {
			return p
		}

		time.Sleep(time.Duration(rank[i]*c.GapMs) * time.Millisecond)

		if c.SlowMs > 0 {
			return slowProof{SuffrageProof: p, d: time.Duration(c.SlowMs) * time.Millisecond, on: slowon}
		}

		return p
	}

	target := map[int]bool{}
	for _, t := range c.Targets {
		target[t] = true
	}

	fetched := make(chan int, 1024)

	b := isaac.NewSuffrageStateBuilder(
		w.networkID,
		func(context.Context) (base.Height, base.SuffrageProof, bool, error) {
			h := lastproof.Map().Manifest().Height()
			if c.Kind == "not-updated" {
				return h, nil, false, nil
			}

			if malformed {
				h = hvar(c, h)
			}

			if malformed && c.Site == "last" {
				switch c.Flag {
				case "not-found":
					return h, ans.p, false, nil
				case "with-error":
					return h, ans.p, c.Seed%2 == 0, errors.Errorf("remote failed")
				default:
					return h, ans.p, true, nil
				}
			}

			return h, lastproof, true, nil
		},
		func(_ context.Context, h base.Height) (base.SuffrageProof, bool, error) {
			i := int(h.Int64())

			select {
			case fetched <- i:
			default:
			}

			if c.Kind == "shuffled" || c.Seed%3 == 0 {
				d := (uint64(c.Seed) ^ uint64(i)*0x9E3779B97F4A7C15) % 700
				time.Sleep(time.Duration(d) * time.Microsecond)
			}

			if i < 0 || i >= len(w.main) {
				return nil, false, nil
			}

			if malformed && c.Site == "height" && target[i] {
				switch c.Flag {
				case "not-found":
					return ans.p, false, nil
				case "with-error":
					return ans.p, c.Seed%2 == 0, errors.Errorf("remote failed")
				}

				// found: the builder documents that what getSuffrageProof
				// hands over already passed IsValid, and its caller (launch)
				// checks exactly that before handing a proof over
				if err := safeIsValid(ans.p, w.networkID); err != nil {
					gated.Store(true)

					return nil, false, err
				}

				return ans.p, true, nil
			}

			switch {
			case c.Kind == "nongenesis-zero" && i == 0:
				return w.ngz, true, nil
			case c.Kind == "foreign-all":
				return w.foreign[i], true, nil
			case forged[i] != nil:
				return forged[i], true, nil
			case c.Splice > 0 && i >= c.Splice:
				return scheduled(i, w.foreign[i]), true, nil
			case c.Order != "":
				return scheduled(i, w.main[i]), true, nil
			case !target[i]:
				return w.main[i], true, nil
			}

			switch c.Kind {
			case "omit":
				return nil, false, nil
			case "fetch-error":
				return nil, false, errors.Errorf("remote failed")
			case "foreign-one":
				return w.foreign[i], true, nil
			case "dup", "below-local", "above-last":
				return w.main[c.Answer], true, nil
			default:
				return w.main[i], true, nil
			}
		},
		func(context.Context) (base.State, bool, error) {
			if malformed && c.Site == "candidate" {
				switch c.Flag {
				case "not-found":
					return ans.st, false, nil
				case "with-error":
					return ans.st, c.Seed%2 == 0, errors.Errorf("remote failed")
				default:
					return ans.st, true, nil
				}
			}

			return nil, false, nil
		},
	)
	b.SetBatchLimit(c.Limit)

	var proofs []base.SuffrageProof
	var err error

	func() {
		defer func() {
			if e := recover(); e != nil {
				res.Panicked = true
				res.Sig = "Build:panic:" + vlib.PanicSite(string(debug.Stack()))
				res.What = fmt.Sprintf("panic in Build: %v", e)

				if malformed {
					res.Sig = fmt.Sprintf("Build:panic:%s:local=%s:%s", behaviourClass(c), localNoneOrState(c), ans.reach)
					res.What = fmt.Sprintf("panic in Build at %s: %v (local suffrage height %d, remote last %d, batch limit %d; the remote's %s answer is %s, flagged %s; %s)",
						vlib.PanicSite(string(debug.Stack())), e, c.Local, c.Last, c.Limit, c.Site, c.Shape, c.Flag, ans.reach)
				}
			}
		}()

		_, proofs, _, err = b.Build(context.Background(), local)
	}()

	res.Fetched = len(fetched)
	res.Gated = gated.Load()
	slowon.Store(false)

	if res.Panicked {
		return res
	}

	if err != nil {
		res.Err = err.Error()
		if i := strings.Index(res.Err, "\n"); i > 0 {
			res.Err = res.Err[:i]
		}

		if len(res.Err) > 200 {
			res.Err = res.Err[:200]
		}

		return res
	}

	res.NProofs = len(proofs)

	batches := "single-batch"
	if int64(c.Last)-localh > c.Limit {
		batches = "multi-batch"
	}

	viol := func(clause, what string) {
		if res.Sig == "" {
			if malformed {
				res.Sig = fmt.Sprintf("Build:%s:%s:local=%s:%s", clause, behaviourClass(c), localNoneOrState(c), ans.reach)
				res.What = fmt.Sprintf("Build(local suffrage height %d; remote last %d; batch limit %d; the remote's %s answer %v is %s, flagged %s, %s) returned nil error and %d proofs: %s",
					localh, c.Last, c.Limit, c.Site, c.Targets, c.Shape, c.Flag, ans.reach, len(proofs), what)

				return
			}

			res.Sig = fmt.Sprintf("Build:%s:%s:%s", clause, c.Kind, batches)
			res.What = fmt.Sprintf("Build(local suffrage height %d; remote last %d; batch limit %d; remote behaviour %s %v->%d; foreign chain from height %d; answers %s gap %dms, Prove +%dms) returned nil error and %d proofs: %s",
				localh, c.Last, c.Limit, c.Kind, c.Targets, c.Answer, c.Splice, c.Order, c.GapMs, c.SlowMs, len(proofs), what)
		}
	}

	for i := range proofs {
		if proofs[i] == nil {
			res.Heights = append(res.Heights, -99)
			viol("gap:nil-entry", fmt.Sprintf("entry %d of the returned proofs is nil", i))

			continue
		}

		res.Heights = append(res.Heights, safeSuffrageHeight(proofs[i]))
	}

	if malformed {
		// never accept: whatever the remote answered, a proof that does not
		// pass IsValid must not be among the returned ones
		for i := range proofs {
			if proofs[i] == nil {
				continue
			}

			if err := safeIsValid(proofs[i], w.networkID); err != nil {
				viol("accepted-invalid-proof", fmt.Sprintf("entry %d of the returned proofs (heights %v) does not pass IsValid: %v", i, res.Heights, err))

				break
			}
		}
	}

	if res.Sig != "" {
		return res
	}

	if len(proofs) < 1 {
		res.Ignored = malformed

		// an answer that is not flagged found, and a last proof that is not a
		// valid proof at all, may be ignored ("nothing new") instead of
		// being reported
		ignorable := c.Kind == "not-updated" || (malformed && c.Site == "last" && (c.Flag != "found" || ans.invalid))

		if !ignorable && lastproof.SuffrageHeight().Int64() > localh {
			viol("no-proofs-though-remote-ahead", "the remote's last proof is above the local state")
		}

		return res
	}

	q := proofs
	if n := len(q); n >= 2 && q[n-2].SuffrageHeight() == q[n-1].SuffrageHeight() {
		// a repeated last element is tolerated
		q = append(append([]base.SuffrageProof{}, q[:n-2]...), q[n-1])
	}

	if h := q[0].SuffrageHeight().Int64(); h != localh+1 {
		viol("gap:first-not-local+1", fmt.Sprintf("first returned suffrage height is %d, local state is at %d (heights %v)", h, localh, res.Heights))

		return res
	}

	prev := local

	for i := range q {
		if h := q[i].SuffrageHeight().Int64(); h != localh+1+int64(i) {
			viol("gap:height-step", fmt.Sprintf("suffrage heights %v are not consecutive", res.Heights))

			return res
		}

		var perr error

		func() {
			defer func() {
				if e := recover(); e != nil {
					perr = errors.Errorf("panic: %v", e)
				}
			}()

			if perr = q[i].IsValid(w.networkID); perr == nil {
				perr = q[i].Prove(prev)
			}
		}()

		if perr != nil {
			where := "middle"
			if i == len(q)-1 {
				where = "last"
			}

			if i == 0 {
				where = "first"
			}

			viol("unlinked:"+where, fmt.Sprintf("proof %d (suffrage height %d) does not prove against its predecessor: %v", i, q[i].SuffrageHeight(), perr))

			return res
		}

		prev = q[i].State()
	}

	if !q[len(q)-1].State().Hash().Equal(lastproof.State().Hash()) {
		viol("last-mismatch", "the last returned proof is not the remote's last proof")
	}

	return res
}

func safeSuffrageHeight(p base.SuffrageProof) (h int64) {
	defer func() {
		if e := recover(); e != nil {
			h = -98
		}
	}()

	return p.SuffrageHeight().Int64()
}

// ownTreePath returns the proof material of key in a states tree of n nodes
// built around it (internally consistent, unrelated to any block).
func ownTreePath(key string, n, pos int) fixedtree.Proof {
	wr, err := fixedtree.NewWriter(base.StateFixedtreeHint, uint64(n))
	if err != nil {
		panic(err)
	}

	for i := 0; i < n; i++ {
		k := valuehash.RandomSHA256().String()
		if i == pos%n {
			k = key
		}

		if err := wr.Add(uint64(i), fixedtree.NewBaseNode(k)); err != nil {
			panic(err)
		}
	}

	tr, err := wr.Tree()
	if err != nil {
		panic(err)
	}

	p, err := tr.Proof(key)
	if err != nil {
		panic(err)
	}

	return p
}

func child(dir string, start int) error {
	var wf worldFile

	b, err := os.ReadFile(filepath.Join(dir, "world.json"))
	if err != nil {
		return err
	}

	if err := json.Unmarshal(b, &wf); err != nil {
		return err
	}

	w, err := loadWorld(wf)
	if err != nil {
		return err
	}

	var cases []bcase

	if b, err = os.ReadFile(filepath.Join(dir, "cases.json")); err != nil {
		return err
	}

	if err := json.Unmarshal(b, &cases); err != nil {
		return err
	}

	out, err := os.OpenFile(filepath.Join(dir, "results.jsonl"), os.O_APPEND|os.O_CREATE|os.O_WRONLY, 0o644)
	if err != nil {
		return err
	}

	defer out.Close()

	for i := start; i < len(cases); i++ {
		if err := os.WriteFile(filepath.Join(dir, "cur"), []byte(strconv.Itoa(i)), 0o644); err != nil {
			return err
		}

		base0 := runtime.NumGoroutine()
		t0 := time.Now()
		res := runCase(w, cases[i], func(reach string) {
			_ = os.WriteFile(filepath.Join(dir, "cur"), []byte(strconv.Itoa(i)+" "+reach), 0o644)
		})

		// workers of a Build that returned early (first job error) may still
		// be running: let them finish (or crash) before the next case is
		// logged, so that a late panic is attributed to this case
		for k := 0; k < 400 && runtime.NumGoroutine() > base0; k++ {
			time.Sleep(5 * time.Millisecond)
		}

		res.Us = time.Since(t0).Microseconds()

		line, _ := json.Marshal(res)
		if _, err := out.Write(append(line, '\n')); err != nil {
			return err
		}
	}

	return os.WriteFile(filepath.Join(dir, "cur"), []byte("done"), 0o644)
}

// ---------------------------------------------------------------- parent

func TestC18(t *testing.T) {
	if dir := os.Getenv("C18_CHILD_DIR"); dir != "" {
		start, _ := strconv.Atoi(os.Getenv("C18_CHILD_START"))
		if err := child(dir, start); err != nil {
			fmt.Fprintf(os.Stderr, "C18 child error: %+v\n", err)
			os.Exit(3)
		}

		return
	}

	r := vlib.Start(t, "C18", vlib.LevelExploration)
	defer r.Finish()
	r.SetRule("case = (local suffrage height or none, remote's last suffrage height, batch limit, remote behaviour) given to the real isaac.SuffrageStateBuilder.Build with SetBatchLimit; the remote serves real suffrage proofs (blocks written by Writer+LocalFSWriter, proofs encoded and decoded, all passing IsValid): honest, delayed/shuffled, a duplicate of another height, a missing height, a height below the local state, a height above the last, proofs of a foreign chain (one / all / only the last), last proof older than local, fetch error, not updated, a last proof that is valid and of a newer block than the local state but whose suffrage height is at or below the local one (another chain; Answer = its suffrage height), forged proofs (a forged suffrage state under the real block map with the real state's path, which does not contain it; or with a wrong previous hash and an own consistent tree) at height 0 and at other heights, followed by a forged chain linked to them, with and without a local state, two chains spliced at a random height inside a batch with scheduled answers (reverse / forward / random / simultaneous arrival, 1-2 ms apart) and proofs whose Prove takes 0/6/10 ms longer, the same schedules on the honest chain, a suffrage-height-0 proof carried by a non-genesis block; cases run in child processes (case id logged before it starts) so that a panic in a job-worker goroutine is attributed to its case; distinct = (kind, local, last, limit, targets, answer); non-trivial = every case (each calls Build). MALFORMED ANSWERS (kind malformed): one answer of the remote is not a well-formed proof, everything else is the honest chain; case = (site: the last-proof call / the by-suffrage-height call for one requested height / the candidate-state call) x (shape: nil proof, typed-nil proof pointer, proof without state / without map / without tree path / with nothing but its hint, typed-nil state or map inside a proof, state with nil value / a value of another type / no nodes / no hash / a wrong hash / another height than the manifest / another key / taken from another proof, map without manifest / with another map's signature / unsigned, a proof signed for another network id, and the valid proof itself) x (flag: found / not-found / with-error) x (local starting point: none, below the remote's last, at it, above it) x (reported last block height: real, NilHeight, negative, MaxInt64); each shape is first made as a network answer (the encoded valid proof is edited and decoded by the repository's decoder: 'decodable') and otherwise with the repository's constructors ('interface-only'); a directed sweep gives every shape from every kind of starting point to every call, random cases add other heights, limits and flags; fingerprint = (site, shape, flag, reported height, local class, local, last, limit, target)")
	r.Assume("outside kind malformed, remote answers always pass SuffrageProof.IsValid(networkID)")
	r.Assume("kind malformed: the answer of the last-proof call and of the candidate-state call reaches Build as it is; an answer of the by-height call flagged found that does not pass IsValid is turned into a fetch error before Build sees it, because SuffrageStateBuilder documents that getSuffrageProof hands over proofs that passed IsValid and its caller (launch) checks that; by-height answers flagged not-found or with-error reach Build with the malformed proof attached")
	r.Assume("kind malformed: a nil proof, a typed-nil proof pointer and a proof holding a typed-nil state or map reach the last-proof call only flagged not-found or with-error (where Build has to leave the attached value alone): flagged found they are Go values that no decoded network answer can be (the decoders produce values, the network client reports a nil last proof as not updated)")
	r.Assume("kind malformed is judged like every other kind (a panic is a violation; with a nil error the returned proofs must be the gap-free linked chain) and, in addition, no returned proof may fail IsValid; a nil error with no proofs is accepted when the answer was not flagged found or the last proof is not a valid proof at all (ignoring it is as good as reporting it)")
	r.Assume("judged only when Build returns a nil error: no nil entry; after dropping a repeated last element the suffrage heights are local+1, local+2, ... last; every proof passes IsValid and Proves against its predecessor's state (the first against the local state); the last is the remote's last proof; no proofs at all is accepted only if the remote's last proof is not above the local state")

	r.Assume("forged kinds break exactly one binding of ONE proof (its state is not in the path it carries, or its previous hash is wrong); the forged proofs served for the heights after it carry their own consistent trees and correct links, so they Prove (that Prove does not compare the path's root with the manifest is C13's known finding and is not judged here)")

	n := r.N(48, 80)

	wf, err := buildWorld(r, n)
	if err != nil {
		t.Fatalf("build world: %+v", err)
	}

	r.Count("real_blocks_written", 2*n+2+8)

	dir := filepath.Join(r.WorkDir(), "child")
	if err := os.MkdirAll(dir, 0o755); err != nil {
		t.Fatal(err)
	}

	cases := directed(n)
	total := r.N(700, 9000)

	for i := len(cases); i < total; i++ {
		cases = append(cases, genCase(i, r.Rand(18, i), n))
	}

	// malformed answers: the directed sweep (every shape x every kind of local
	// starting point x every flag x every remote call), then random ones
	cases = append(cases, directedMalformed(n)...)

	for i, mtotal := 0, r.N(200, 4000); i < mtotal; i++ {
		cases = append(cases, genMalformed(len(cases), r.Rand(18, 5000000, i), n))
	}

	shapeReach := map[string]string{}

	for i := range cases {
		cases[i].ID = i
		if cases[i].Seed == 0 {
			cases[i].Seed = int64(i) + 1
		}
	}

	wb, _ := json.Marshal(wf)
	cb, _ := json.Marshal(cases)

	if err := os.WriteFile(filepath.Join(dir, "world.json"), wb, 0o644); err != nil {
		t.Fatal(err)
	}

	if err := os.WriteFile(filepath.Join(dir, "cases.json"), cb, 0o644); err != nil {
		t.Fatal(err)
	}

	results := map[int]cresult{}
	crashed := map[int]string{} // case -> stderr of the child
	crashedReach := map[int]string{}
	start := 0
	children := 0

	for start < len(cases) {
		children++
		if children > 400 {
			r.Inconclusive("too many child restarts")

			break
		}

		_ = os.Remove(filepath.Join(dir, "cur"))

		ctx, cancel := context.WithTimeout(context.Background(), time.Duration(r.N(15, 90))*time.Minute)
		cmd := exec.CommandContext(ctx, os.Args[0], "-test.run=^TestC18$", "-test.timeout=0")
		cmd.Env = append(os.Environ(), "C18_CHILD_DIR="+dir, "C18_CHILD_START="+strconv.Itoa(start))

		var stderr bytes.Buffer
		cmd.Stderr = &stderr
		cmd.Stdout = &stderr
		runerr := cmd.Run()
		timedout := ctx.Err() != nil

		cancel()

		cur, _ := os.ReadFile(filepath.Join(dir, "cur"))

		if timedout {
			r.Inconclusive(fmt.Sprintf("child timed out at case %s", cur))

			break
		}

		if runerr == nil && string(cur) == "done" {
			break
		}

		curf := strings.Fields(string(cur))
		if len(curf) < 1 {
			curf = []string{""}
		}

		i, aerr := strconv.Atoi(curf[0])
		if aerr != nil {
			r.Inconclusive(fmt.Sprintf("child failed before the first case (%v): %s", runerr, tail(stderr.String(), 600)))

			break
		}

		if !strings.Contains(stderr.String(), "panic:") && !strings.Contains(stderr.String(), "fatal error:") {
			r.Inconclusive(fmt.Sprintf("child died at case %d without a panic (%v): %s", i, runerr, tail(stderr.String(), 600)))

			break
		}

		crashed[i] = stderr.String()
		if len(curf) > 1 {
			crashedReach[i] = curf[1]
		}

		start = i + 1
	}

	r.Set("child_processes", children)

	if f, err := os.Open(filepath.Join(dir, "results.jsonl")); err == nil {
		sc := bufio.NewScanner(f)
		sc.Buffer(make([]byte, 1<<20), 1<<24)

		for sc.Scan() {
			var res cresult
			if json.Unmarshal(sc.Bytes(), &res) == nil {
				results[res.ID] = res
			}
		}

		f.Close()
	}

	for i, c := range cases {
		fp := fmt.Sprintf("%s/%d/%d/%d/%v/%d/%d/%s/%d/%d", c.Kind, c.Local, c.Last, c.Limit, c.Targets, c.Answer, c.Splice, c.Order, c.GapMs, c.SlowMs)
		if c.Kind == "malformed" {
			fp = malformedFingerprint(c)
		}

		batches := "single-batch"

		if int64(c.Last-c.Local) > c.Limit {
			batches = "multi-batch"
		}

		if st, found := crashed[i]; found {
			r.Case(fp)
			r.Count("kind_"+c.Kind, 1)
			r.Count("process_fatal_panics", 1)

			msg := "panic"
			for _, ln := range strings.Split(st, "\n") {
				if strings.HasPrefix(ln, "panic:") || strings.HasPrefix(ln, "fatal error:") {
					msg = ln

					break
				}
			}

			// the stack of the panicking goroutine is the first one printed
			stack := st
			if j := strings.Index(stack, "panic:"); j >= 0 {
				stack = stack[j:]
			}

			if c.Kind == "malformed" {
				reach := crashedReach[i]
				if reach == "" {
					reach = "unknown"
				}

				r.Count("malformed_cases", 1)
				r.Violation(fmt.Sprintf("Build:panic:%s:local=%s:%s", behaviourClass(c), localNoneOrState(c), reach),
					fmt.Sprintf("process-fatal %s at %s in a goroutine spawned by Build (local suffrage height %d, remote last %d, batch limit %d; the remote's %s answer %v is %s, flagged %s; %s)",
						msg, vlib.PanicSite(stack), c.Local, c.Last, c.Limit, c.Site, c.Targets, c.Shape, c.Flag, reach),
					map[string]any{"case": c, "stderr": head(stack, 3000)})

				continue
			}

			r.Violation(fmt.Sprintf("Build:panic:%s:%s", vlib.PanicSite(stack), c.Kind),
				fmt.Sprintf("process-fatal %s in a goroutine spawned by Build (local %d, remote last %d, limit %d, behaviour %s %v->%d, %s)",
					msg, c.Local, c.Last, c.Limit, c.Kind, c.Targets, c.Answer, batches),
				map[string]any{"case": c, "stderr": head(stack, 3000)})

			continue
		}

		res, found := results[i]
		if !found {
			continue
		}

		if res.Skipped != "" {
			// no such answer can be put together, neither through the decoder
			// nor with the constructors: nothing was given to Build
			r.Count("malformed_shape_unconstructible", 1)
			shapeReach[c.Shape] = "unconstructible"

			continue
		}

		if c.Kind == "malformed" {
			r.Count("malformed_cases", 1)
			r.Count("malformed_site_"+c.Site, 1)
			r.Count("malformed_flag_"+c.Flag, 1)
			r.Count("malformed_local_"+localClass(c), 1)
			r.Count("malformed_reach_"+res.Reach, 1)
			r.SetAdd("malformed_shapes_given", c.Site+":"+c.Shape+":"+res.Reach)

			shapeReach[c.Shape] = res.Reach

			if c.HVar != 0 {
				r.Count("malformed_odd_last_block_height", 1)
			}

			switch {
			case res.Gated:
				r.Count("malformed_height_answer_stopped_by_callers_isvalid_gate", 1)
			case c.Site != "candidate" && c.Flag == "found" && res.Invalid:
				r.Count("malformed_invalid_answer_reached_build", 1)
			}

			if res.Ignored {
				r.Count("malformed_nil_error_and_no_proofs", 1)
			}

			if c.Site != "candidate" && c.Shape != "valid" && !res.Invalid {
				r.Inconclusive(fmt.Sprintf("self-check: the %s answer of shape %s (%s) passes IsValid", c.Site, c.Shape, res.Reach))
			}

			if r.Counter("malformed_cases")%97 == 5 {
				r.Sample(map[string]any{"case": c, "result": res})
			}
		}

		r.Case(fp)
		r.Count("kind_"+c.Kind, 1)
		r.Count("proofs_fetched", res.Fetched)

		if c.Kind == "malformed" {
			r.Count("child_ms_malformed_cases", int(res.Us/1000))
		} else {
			r.Count("child_ms_other_cases", int(res.Us/1000))
		}

		switch {
		case res.Err != "":
			r.Count("returned_error", 1)
		case res.NProofs > 0:
			r.Count("returned_proofs", 1)
		default:
			r.Count("returned_nothing", 1)
		}

		if i < 3 {
			r.Sample(map[string]any{"case": c, "result": res})
		}

		if res.Sig != "" {
			r.Violation(res.Sig, res.What, map[string]any{"case": c, "result": res})
		}
	}

	if len(results)+len(crashed) < len(cases) {
		r.Inconclusive(fmt.Sprintf("only %d of %d cases were run", len(results)+len(crashed), len(cases)))
	}

	r.Set("malformed_shape_reach", shapeReach)

	if r.Counter("malformed_invalid_answer_reached_build") < 1 {
		r.Inconclusive("no malformed answer reached Build")
	}

	if r.Counter("returned_proofs") < 1 {
		r.Inconclusive("no Build call returned proofs")
	}
}

func head(s string, n int) string {
	if len(s) > n {
		return s[:n]
	}

	return s
}

func tail(s string, n int) string {
	if len(s) > n {
		return s[len(s)-n:]
	}

	return s
}
