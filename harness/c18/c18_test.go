package c18

import (
	"bufio"
	"bytes"
	"context"
	"encoding/json"
	"fmt"
	"math/rand"
	"os"
	"os/exec"
	"path/filepath"
	"runtime"
	"runtime/debug"
	"strconv"
	"strings"
	"sync/atomic"
	"testing"
	"time"

	"github.com/pkg/errors"
	"github.com/spikeekips/mitum/base"
	"github.com/spikeekips/mitum/isaac"
	isaacblock "github.com/spikeekips/mitum/isaac/block"
	"github.com/spikeekips/mitum/util"
	"github.com/spikeekips/mitum/util/fixedtree"
	"github.com/spikeekips/mitum/util/valuehash"
	"verifharness/c13/blkrig"
	"verifharness/vlib"
)

// ---------------------------------------------------------------- world

// world = three chains of real suffrage proofs, written once by the parent
// (real blocks through Writer+LocalFSWriter) and decoded by every child.
type worldFile struct {
	NetworkID []byte
	Main      [][]byte // suffrage height i at block height i
	Foreign   [][]byte // another chain, same heights
	// NonGenesisZero: a valid proof of suffrage height 0 carried by a block
	// above the genesis height
	NonGenesisZero []byte
	// Late: another chain whose suffrage heights 1.. sit in blocks far above
	// every block of the main chain (suffrage height 0 at genesis)
	Late [][]byte
}

type world struct {
	late []base.SuffrageProof
	networkID base.NetworkID
	main      []base.SuffrageProof
	foreign   []base.SuffrageProof
	ngz       base.SuffrageProof
}

func buildWorld(r *vlib.Run, n int) (worldFile, error) {
	rig := blkrig.New()
	wf := worldFile{NetworkID: rig.NetworkID}

	chain := func(name string, n int, first bool, seed int) ([][]byte, error) {
		rng := r.Rand(18, 9000, seed)
		c := rig.NewChain(filepath.Join(r.WorkDir(), "chain-"+name))

		defer c.Close()

		for i := 0; i < n; i++ {
			if _, err := c.Add(blkrig.Spec{NOps: 1, NStatesPerOp: 1, Suffrage: first || i > 0, NNodes: 1 + rng.Intn(2)}, rng); err != nil {
				return nil, err
			}
		}

		out := make([][]byte, len(c.Proofs))

		for i := range c.Proofs {
			b, err := rig.Enc.Marshal(c.Proofs[i])
			if err != nil {
				return nil, err
			}

			out[i] = b
		}

		return out, nil
	}

	var err error

	if wf.Main, err = chain("main", n, true, 1); err != nil {
		return wf, err
	}

	if wf.Foreign, err = chain("foreign", n, true, 2); err != nil {
		return wf, err
	}

	{
		rng := r.Rand(18, 9000, 4)
		c := rig.NewChain(filepath.Join(r.WorkDir(), "chain-late"))

		for i := 0; i < 8; i++ {
			if i == 1 {
				c.Jump(int64(n) + 10)
			}

			if _, err := c.Add(blkrig.Spec{NOps: 1, NStatesPerOp: 1, Suffrage: true, NNodes: 1 + rng.Intn(2)}, rng); err != nil {
				c.Close()

				return wf, err
			}
		}

		c.Close()

		for i := range c.Proofs {
			b, err := rig.Enc.Marshal(c.Proofs[i])
			if err != nil {
				return wf, err
			}

			wf.Late = append(wf.Late, b)
		}
	}

	switch g, err := chain("ngz", 2, false, 3); {
	case err != nil:
		return wf, err
	case len(g) != 1:
		return wf, errors.Errorf("expected one proof in ngz chain, %d", len(g))
	default:
		wf.NonGenesisZero = g[0]
	}

	return wf, nil
}

func loadWorld(wf worldFile) (*world, error) {
	rig := blkrig.New()
	w := &world{networkID: base.NetworkID(wf.NetworkID)}

	dec := func(b []byte) (base.SuffrageProof, error) {
		h, err := rig.Enc.Decode(b)
		if err != nil {
			return nil, err
		}

		p, ok := h.(isaacblock.SuffrageProof)
		if !ok {
			return nil, errors.Errorf("not SuffrageProof, %T", h)
		}

		if err := p.IsValid(w.networkID); err != nil {
			return nil, err
		}

		return p, nil
	}

	for i := range wf.Main {
		p, err := dec(wf.Main[i])
		if err != nil {
			return nil, err
		}

		if p.SuffrageHeight().Int64() != int64(i) {
			return nil, errors.Errorf("main chain: suffrage height %d at %d", p.SuffrageHeight(), i)
		}

		w.main = append(w.main, p)
	}

	for i := range wf.Foreign {
		p, err := dec(wf.Foreign[i])
		if err != nil {
			return nil, err
		}

		w.foreign = append(w.foreign, p)
	}

	for i := range wf.Late {
		p, err := dec(wf.Late[i])
		if err != nil {
			return nil, err
		}

		w.late = append(w.late, p)
	}

	p, err := dec(wf.NonGenesisZero)
	if err != nil {
		return nil, err
	}

	w.ngz = p

	return w, nil
}

// ---------------------------------------------------------------- cases

type bcase struct {
	ID    int
	Kind  string
	Local int // index of the local state in the main chain; -1 = no local state
	Last  int // index of the remote's last proof
	Limit int64
	// Targets: requested suffrage heights whose answer is manipulated
	Targets []int
	// Answer: the suffrage height answered instead (dup / below-local / above-last)
	Answer int
	Seed   int64
	// schedule of the remote's answers (kinds "splice", "scheduled-honest"):
	// heights >= Splice are served from the foreign chain (0 = none); answers
	// arrive in Order with GapMs between consecutive ranks; every served
	// proof's Prove takes SlowMs longer
	Splice int
	Order  string
	GapMs  int
	SlowMs int
}

// slowProof is a remote proof whose Prove takes longer (a big suffrage, a busy
// machine): it widens the window between a proof being checked against its
// neighbours and being filed.
type slowProof struct {
	base.SuffrageProof
	d  time.Duration
	on *atomic.Bool
}

func (p slowProof) Prove(previous base.State) error {
	if p.on.Load() {
		time.Sleep(p.d)
	}

	return p.SuffrageProof.Prove(previous)
}

type cresult struct {
	ID       int
	Err      string
	NProofs  int
	Heights  []int64
	Fetched  int
	Sig      string // violation signature ("" = none)
	What     string
	Panicked bool
}

var kinds = []string{
	"honest", "honest", "honest", "shuffled", "dup", "omit", "below-local", "above-last", "foreign-one", "foreign-all",
	"last-foreign", "last-older", "local-ahead", "fetch-error", "not-updated", "nongenesis-zero",
	"splice", "splice", "splice", "scheduled-honest",
	"last-not-newer", "last-not-newer", "forged-unproven", "forged-unproven", "forged-wrong-previous",
}

var orders = []string{"reverse", "reverse", "forward", "random", "simultaneous"}

func genCase(id int, rng *rand.Rand, n int) bcase {
	c := bcase{ID: id, Kind: kinds[rng.Intn(len(kinds))], Seed: rng.Int63()}

	c.Last = rng.Intn(n)
	if rng.Intn(3) == 0 {
		c.Last = rng.Intn(min(n, 12))
	}

	c.Local = -1
	if c.Last > 0 && rng.Intn(4) != 0 {
		c.Local = rng.Intn(c.Last)
	}

	c.Limit = 1 + int64(rng.Intn(10))

	need := c.Last - c.Local
	switch rng.Intn(6) {
	case 0:
		c.Limit = int64(need) // exactly one full batch
	case 1:
		if need >= 2 { // a multiple
			ds := []int64{}
			for d := int64(1); d < int64(need); d++ {
				if int64(need)%d == 0 {
					ds = append(ds, d)
				}
			}
			c.Limit = ds[rng.Intn(len(ds))]
		}
	case 2:
		c.Limit = 333
	}

	if c.Limit < 1 {
		c.Limit = 1
	}

	pick := func() int { return c.Local + 1 + rng.Intn(need) }

	switch c.Kind {
	case "dup":
		t := pick()
		c.Targets = []int{t}
		c.Answer = c.Local + 1 + rng.Intn(need)

		if c.Answer == t {
			c.Answer = t - 1
			if c.Answer <= c.Local {
				c.Answer = t + 1
			}
		}

		if c.Answer > c.Last || need < 2 {
			c.Kind = "honest"
			c.Targets = nil
		}
	case "omit", "fetch-error", "foreign-one":
		c.Targets = []int{pick()}
	case "below-local":
		if c.Local < 0 {
			c.Local = rng.Intn(c.Last + 1)
			if c.Local == c.Last {
				c.Local = c.Last - 1
			}

			if c.Local < 0 {
				c.Kind = "honest"

				break
			}

			need = c.Last - c.Local
		}

		c.Targets = []int{c.Local + 1 + rng.Intn(need)}
		c.Answer = rng.Intn(c.Local + 1)
	case "above-last":
		c.Targets = []int{pick()}
		c.Answer = c.Last + 1 + rng.Intn(3)

		if c.Answer >= n {
			c.Kind = "honest"
			c.Targets = nil
		}
	case "last-older", "local-ahead":
		// the remote's last proof is at or below the local state
		c.Local = c.Last + rng.Intn(3)
		if c.Local >= n {
			c.Local = n - 1
		}
	case "nongenesis-zero":
		c.Local = -1
	case "last-not-newer":
		// the remote's last proof is valid by itself and of a newer block than
		// the local state, but its suffrage height is at or below the local
		// one: Answer = suffrage height of the served last proof of the late
		// chain (1..7), Local >= Answer
		c.Answer = 1 + rng.Intn(7)
		c.Local = c.Answer + []int{0, 0, 1, 1 + rng.Intn(5)}[rng.Intn(4)]

		if c.Local >= n {
			c.Local = n - 1
		}

		c.Last = c.Answer
	case "forged-unproven", "forged-wrong-previous":
		// Targets[0]: the height whose proof is forged; every later height is
		// served from a forged chain linked to it
		if c.Kind == "forged-unproven" && rng.Intn(2) == 0 {
			c.Local = -1
			c.Last = rng.Intn(6)
			c.Targets = []int{0}

			break
		}

		if c.Last-c.Local > 10 {
			c.Last = c.Local + 1 + rng.Intn(10)
		}

		need = c.Last - c.Local
		c.Targets = []int{c.Local + 1 + rng.Intn(need)}

		if c.Kind == "forged-wrong-previous" && c.Targets[0] == 0 {
			c.Kind = "forged-unproven"
		}
	case "splice", "scheduled-honest":
		// a short range so that the scheduled answers stay cheap
		if c.Last < 1 {
			c.Last = 1 + rng.Intn(n-1)
		}

		span := 2 + rng.Intn(7)
		c.Local = c.Last - span
		if c.Local < -1 {
			c.Local = -1
		}

		need = c.Last - c.Local
		if rng.Intn(3) != 0 {
			c.Limit = int64(need + rng.Intn(3)) // one batch
		}

		c.Order = orders[rng.Intn(len(orders))]
		c.GapMs = 1 + rng.Intn(2)
		c.SlowMs = []int{0, 6, 10}[rng.Intn(3)]

		if c.Kind == "splice" {
			c.Splice = c.Local + 1 + rng.Intn(need)
			if c.Splice < 1 {
				c.Splice = 1
			}
		}
	}

	return c
}

func directed(n int) []bcase {
	return []bcase{
		{Kind: "honest", Local: -1, Last: 7, Limit: 3},
		{Kind: "honest", Local: 2, Last: 8, Limit: 3},
		{Kind: "honest", Local: -1, Last: 5, Limit: 6},
		{Kind: "honest", Local: 4, Last: 5, Limit: 1},
		{Kind: "below-local", Local: 5, Last: 9, Limit: 10, Targets: []int{7}, Answer: 2},
		{Kind: "below-local", Local: 5, Last: 9, Limit: 2, Targets: []int{9}, Answer: 0},
		{Kind: "dup", Local: -1, Last: 5, Limit: 10, Targets: []int{3}, Answer: 2},
		{Kind: "dup", Local: 1, Last: 9, Limit: 4, Targets: []int{4}, Answer: 3},
		{Kind: "above-last", Local: -1, Last: 5, Limit: 10, Targets: []int{3}, Answer: 6},
		{Kind: "nongenesis-zero", Local: -1, Last: 0, Limit: 3},
		{Kind: "nongenesis-zero", Local: -1, Last: 4, Limit: 3},
		{Kind: "last-foreign", Local: -1, Last: 4, Limit: 10},
		{Kind: "last-foreign", Local: 2, Last: 6, Limit: 2},
		{Kind: "foreign-all", Local: 2, Last: 6, Limit: 10},
		{Kind: "foreign-one", Local: -1, Last: 6, Limit: 10, Targets: []int{3}},
		{Kind: "omit", Local: -1, Last: 6, Limit: 4, Targets: []int{5}},
		{Kind: "splice", Local: -1, Last: 7, Limit: 8, Splice: 4, Order: "reverse", GapMs: 2, SlowMs: 10},
		{Kind: "splice", Local: -1, Last: 7, Limit: 8, Splice: 4, Order: "forward", GapMs: 1, SlowMs: 6},
		{Kind: "splice", Local: 3, Last: 9, Limit: 10, Splice: 6, Order: "reverse", GapMs: 1, SlowMs: 6},
		{Kind: "splice", Local: 3, Last: 9, Limit: 10, Splice: 9, Order: "reverse", GapMs: 2, SlowMs: 10},
		{Kind: "splice", Local: 3, Last: 9, Limit: 10, Splice: 4, Order: "random", GapMs: 1, SlowMs: 10},
		{Kind: "splice", Local: -1, Last: 5, Limit: 3, Splice: 2, Order: "reverse", GapMs: 2, SlowMs: 10},
		{Kind: "splice", Local: 10, Last: 16, Limit: 6, Splice: 13, Order: "simultaneous", GapMs: 1, SlowMs: 10},
		{Kind: "last-not-newer", Local: 3, Last: 2, Answer: 2, Limit: 3},
		{Kind: "last-not-newer", Local: 3, Last: 3, Answer: 3, Limit: 3},
		{Kind: "last-not-newer", Local: 6, Last: 1, Answer: 1, Limit: 10},
		{Kind: "forged-unproven", Local: -1, Last: 0, Limit: 3, Targets: []int{0}},
		{Kind: "forged-unproven", Local: -1, Last: 4, Limit: 3, Targets: []int{0}},
		{Kind: "forged-unproven", Local: -1, Last: 4, Limit: 10, Targets: []int{0}},
		{Kind: "forged-unproven", Local: -1, Last: 5, Limit: 10, Targets: []int{3}},
		{Kind: "forged-unproven", Local: 2, Last: 6, Limit: 2, Targets: []int{3}},
		{Kind: "forged-unproven", Local: 2, Last: 6, Limit: 10, Targets: []int{5}},
		{Kind: "forged-wrong-previous", Local: -1, Last: 5, Limit: 10, Targets: []int{2}},
		{Kind: "forged-wrong-previous", Local: 2, Last: 6, Limit: 2, Targets: []int{3}},
		{Kind: "scheduled-honest", Local: -1, Last: 7, Limit: 8, Order: "reverse", GapMs: 2, SlowMs: 10},
		{Kind: "scheduled-honest", Local: 2, Last: 9, Limit: 3, Order: "random", GapMs: 1, SlowMs: 6},
	}
}

// ---------------------------------------------------------------- child

func runCase(w *world, c bcase) (res cresult) {
	res.ID = c.ID

	var local base.State
	localh := int64(-1)

	if c.Local >= 0 {
		local = w.main[c.Local].State()
		localh = int64(c.Local)
	}

	lastproof := w.main[c.Last]
	if c.Kind == "last-foreign" || (c.Splice > 0 && c.Splice <= c.Last) {
		lastproof = w.foreign[c.Last]
	}

	if c.Kind == "last-not-newer" {
		lastproof = w.late[c.Answer]
	}

	// forged chain: the proof at Targets[0] breaks exactly one binding, the
	// later ones follow it (forged states under the real block maps, paths from
	// their own consistent trees)
	forged := map[int]base.SuffrageProof{}

	if c.Kind == "forged-unproven" || c.Kind == "forged-wrong-previous" {
		t := c.Targets[0]

		var prevhash util.Hash
		if t > 0 {
			prevhash = w.main[t-1].State().Hash()
		}

		for i := t; i <= c.Last; i++ {
			real := w.main[i]
			bh := real.Map().Manifest().Height()

			ph := prevhash
			if i == t && c.Kind == "forged-wrong-previous" {
				ph = valuehash.RandomSHA256()
			}

			st := base.NewBaseState(bh, isaac.SuffrageStateKey,
				blkrig.SuffrageValue(base.Height(int64(i)), bh, []base.Node{base.RandomNode()}), ph, []util.Hash{valuehash.RandomSHA256()})

			path := real.Proof() // the path of the real state: does not contain the forged one
			if !(i == t && c.Kind == "forged-unproven") {
				path = ownTreePath(st.Hash().String(), 3+i%4, i%3)
			}

			forged[i] = isaacblock.NewSuffrageProof(real.Map(), st, path)
			prevhash = st.Hash()
		}

		lastproof = forged[c.Last]
	}

	// schedule: rank of every requested height in the order of arrival
	slowon := &atomic.Bool{}
	slowon.Store(true)

	rank := map[int]int{}

	if c.Order != "" {
		var hs []int
		for h := c.Local + 1; h <= c.Last; h++ {
			hs = append(hs, h)
		}

		switch c.Order {
		case "reverse":
			for i, j := 0, len(hs)-1; i < j; i, j = i+1, j-1 {
				hs[i], hs[j] = hs[j], hs[i]
			}
		case "random":
			rand.New(rand.NewSource(c.Seed)).Shuffle(len(hs), func(i, j int) { hs[i], hs[j] = hs[j], hs[i] })
		}

		for i, h := range hs {
			rank[h] = i
			if c.Order == "simultaneous" {
				rank[h] = 0
			}
		}
	}

	scheduled := func(i int, p base.SuffrageProof) base.SuffrageProof {
		if c.Order == "" {
			return p
		}

		time.Sleep(time.Duration(rank[i]*c.GapMs) * time.Millisecond)

		if c.SlowMs > 0 {
			return slowProof{SuffrageProof: p, d: time.Duration(c.SlowMs) * time.Millisecond, on: slowon}
		}

		return p
	}

	target := map[int]bool{}
	for _, t := range c.Targets {
		target[t] = true
	}

	fetched := make(chan int, 1024)

	b := isaac.NewSuffrageStateBuilder(
		w.networkID,
		func(context.Context) (base.Height, base.SuffrageProof, bool, error) {
			h := lastproof.Map().Manifest().Height()
			if c.Kind == "not-updated" {
				return h, nil, false, nil
			}

			return h, lastproof, true, nil
		},
		func(_ context.Context, h base.Height) (base.SuffrageProof, bool, error) {
			i := int(h.Int64())

			select {
			case fetched <- i:
			default:
			}

			if c.Kind == "shuffled" || c.Seed%3 == 0 {
				d := (uint64(c.Seed) ^ uint64(i)*0x9E3779B97F4A7C15) % 700
				time.Sleep(time.Duration(d) * time.Microsecond)
			}

			if i < 0 || i >= len(w.main) {
				return nil, false, nil
			}

			switch {
			case c.Kind == "nongenesis-zero" && i == 0:
				return w.ngz, true, nil
			case c.Kind == "foreign-all":
				return w.foreign[i], true, nil
			case forged[i] != nil:
				return forged[i], true, nil
			case c.Splice > 0 && i >= c.Splice:
				return scheduled(i, w.foreign[i]), true, nil
			case c.Order != "":
				return scheduled(i, w.main[i]), true, nil
			case !target[i]:
				return w.main[i], true, nil
			}

			switch c.Kind {
			case "omit":
				return nil, false, nil
			case "fetch-error":
				return nil, false, errors.Errorf("remote failed")
			case "foreign-one":
				return w.foreign[i], true, nil
			case "dup", "below-local", "above-last":
				return w.main[c.Answer], true, nil
			default:
				return w.main[i], true, nil
			}
		},
		func(context.Context) (base.State, bool, error) { return nil, false, nil },
	)
	b.SetBatchLimit(c.Limit)

	var proofs []base.SuffrageProof
	var err error

	func() {
		defer func() {
			if e := recover(); e != nil {
				res.Panicked = true
				res.Sig = "Build:panic:" + vlib.PanicSite(string(debug.Stack()))
				res.What = fmt.Sprintf("panic in Build: %v", e)
			}
		}()

		_, proofs, _, err = b.Build(context.Background(), local)
	}()

	res.Fetched = len(fetched)
	slowon.Store(false)

	if res.Panicked {
		return res
	}

	if err != nil {
		res.Err = err.Error()
		if i := strings.Index(res.Err, "\n"); i > 0 {
			res.Err = res.Err[:i]
		}

		if len(res.Err) > 200 {
			res.Err = res.Err[:200]
		}

		return res
	}

	res.NProofs = len(proofs)

	batches := "single-batch"
	if int64(c.Last)-localh > c.Limit {
		batches = "multi-batch"
	}

	viol := func(clause, what string) {
		if res.Sig == "" {
			res.Sig = fmt.Sprintf("Build:%s:%s:%s", clause, c.Kind, batches)
			res.What = fmt.Sprintf("Build(local suffrage height %d; remote last %d; batch limit %d; remote behaviour %s %v->%d; foreign chain from height %d; answers %s gap %dms, Prove +%dms) returned nil error and %d proofs: %s",
				localh, c.Last, c.Limit, c.Kind, c.Targets, c.Answer, c.Splice, c.Order, c.GapMs, c.SlowMs, len(proofs), what)
		}
	}

	for i := range proofs {
		if proofs[i] == nil {
			res.Heights = append(res.Heights, -99)
			viol("gap:nil-entry", fmt.Sprintf("entry %d of the returned proofs is nil", i))

			continue
		}

		res.Heights = append(res.Heights, proofs[i].SuffrageHeight().Int64())
	}

	if res.Sig != "" {
		return res
	}

	if len(proofs) < 1 {
		if c.Kind != "not-updated" && lastproof.SuffrageHeight().Int64() > localh {
			viol("no-proofs-though-remote-ahead", "the remote's last proof is above the local state")
		}

		return res
	}

	q := proofs
	if n := len(q); n >= 2 && q[n-2].SuffrageHeight() == q[n-1].SuffrageHeight() {
		// a repeated last element is tolerated
		q = append(append([]base.SuffrageProof{}, q[:n-2]...), q[n-1])
	}

	if h := q[0].SuffrageHeight().Int64(); h != localh+1 {
		viol("gap:first-not-local+1", fmt.Sprintf("first returned suffrage height is %d, local state is at %d (heights %v)", h, localh, res.Heights))

		return res
	}

	prev := local

	for i := range q {
		if h := q[i].SuffrageHeight().Int64(); h != localh+1+int64(i) {
			viol("gap:height-step", fmt.Sprintf("suffrage heights %v are not consecutive", res.Heights))

			return res
		}

		var perr error

		func() {
			defer func() {
				if e := recover(); e != nil {
					perr = errors.Errorf("panic: %v", e)
				}
			}()

			if perr = q[i].IsValid(w.networkID); perr == nil {
				perr = q[i].Prove(prev)
			}
		}()

		if perr != nil {
			where := "middle"
			if i == len(q)-1 {
				where = "last"
			}

			if i == 0 {
				where = "first"
			}

			viol("unlinked:"+where, fmt.Sprintf("proof %d (suffrage height %d) does not prove against its predecessor: %v", i, q[i].SuffrageHeight(), perr))

			return res
		}

		prev = q[i].State()
	}

	if !q[len(q)-1].State().Hash().Equal(lastproof.State().Hash()) {
		viol("last-mismatch", "the last returned proof is not the remote's last proof")
	}

	return res
}

// ownTreePath returns the proof material of key in a states tree of n nodes
// built around it (internally consistent, unrelated to any block).
func ownTreePath(key string, n, pos int) fixedtree.Proof {
	wr, err := fixedtree.NewWriter(base.StateFixedtreeHint, uint64(n))
	if err != nil {
		panic(err)
	}

	for i := 0; i < n; i++ {
		k := valuehash.RandomSHA256().String()
		if i == pos%n {
			k = key
		}

		if err := wr.Add(uint64(i), fixedtree.NewBaseNode(k)); err != nil {
			panic(err)
		}
	}

	tr, err := wr.Tree()
	if err != nil {
		panic(err)
	}

	p, err := tr.Proof(key)
	if err != nil {
		panic(err)
	}

	return p
}

func child(dir string, start int) error {
	var wf worldFile

	b, err := os.ReadFile(filepath.Join(dir, "world.json"))
	if err != nil {
		return err
	}

	if err := json.Unmarshal(b, &wf); err != nil {
		return err
	}

	w, err := loadWorld(wf)
	if err != nil {
		return err
	}

	var cases []bcase

	if b, err = os.ReadFile(filepath.Join(dir, "cases.json")); err != nil {
		return err
	}

	if err := json.Unmarshal(b, &cases); err != nil {
		return err
	}

	out, err := os.OpenFile(filepath.Join(dir, "results.jsonl"), os.O_APPEND|os.O_CREATE|os.O_WRONLY, 0o644)
	if err != nil {
		return err
	}

	defer out.Close()

	for i := start; i < len(cases); i++ {
		if err := os.WriteFile(filepath.Join(dir, "cur"), []byte(strconv.Itoa(i)), 0o644); err != nil {
			return err
		}

		base0 := runtime.NumGoroutine()
		res := runCase(w, cases[i])

		// workers of a Build that returned early (first job error) may still
		// be running: let them finish (or crash) before the next case is
		// logged, so that a late panic is attributed to this case
		for k := 0; k < 400 && runtime.NumGoroutine() > base0; k++ {
			time.Sleep(5 * time.Millisecond)
		}

		line, _ := json.Marshal(res)
		if _, err := out.Write(append(line, '\n')); err != nil {
			return err
		}
	}

	return os.WriteFile(filepath.Join(dir, "cur"), []byte("done"), 0o644)
}

// ---------------------------------------------------------------- parent

func TestC18(t *testing.T) {
	if dir := os.Getenv("C18_CHILD_DIR"); dir != "" {
		start, _ := strconv.Atoi(os.Getenv("C18_CHILD_START"))
		if err := child(dir, start); err != nil {
			fmt.Fprintf(os.Stderr, "C18 child error: %+v\n", err)
			os.Exit(3)
		}

		return
	}

	r := vlib.Start(t, "C18", vlib.LevelExploration)
	defer r.Finish()
	r.SetRule("case = (local suffrage height or none, remote's last suffrage height, batch limit, remote behaviour) given to the real isaac.SuffrageStateBuilder.Build with SetBatchLimit; the remote serves real suffrage proofs (blocks written by Writer+LocalFSWriter, proofs encoded and decoded, all passing IsValid): honest, delayed/shuffled, a duplicate of another height, a missing height, a height below the local state, a height above the last, proofs of a foreign chain (one / all / only the last), last proof older than local, fetch error, not updated, a last proof that is valid and of a newer block than the local state but whose suffrage height is at or below the local one (another chain; Answer = its suffrage height), forged proofs (a forged suffrage state under the real block map with the real state's path, which does not contain it; or with a wrong previous hash and an own consistent tree) at height 0 and at other heights, followed by a forged chain linked to them, with and without a local state, two chains spliced at a random height inside a batch with scheduled answers (reverse / forward / random / simultaneous arrival, 1-2 ms apart) and proofs whose Prove takes 0/6/10 ms longer, the same schedules on the honest chain, a suffrage-height-0 proof carried by a non-genesis block; cases run in child processes (case id logged before it starts) so that a panic in a job-worker goroutine is attributed to its case; distinct = (kind, local, last, limit, targets, answer); non-trivial = every case (each calls Build)")
	r.Assume("remote answers always pass SuffrageProof.IsValid(networkID), as the real fetch functions in launch guarantee; a nil proof with found=true is not generated")
	r.Assume("judged only when Build returns a nil error: no nil entry; after dropping a repeated last element the suffrage heights are local+1, local+2, ... last; every proof passes IsValid and Proves against its predecessor's state (the first against the local state); the last is the remote's last proof; no proofs at all is accepted only if the remote's last proof is not above the local state")

	r.Assume("forged kinds break exactly one binding of ONE proof (its state is not in the path it carries, or its previous hash is wrong); the forged proofs served for the heights after it carry their own consistent trees and correct links, so they Prove (that Prove does not compare the path's root with the manifest is C13's known finding and is not judged here)")

	n := r.N(48, 80)

	wf, err := buildWorld(r, n)
	if err != nil {
		t.Fatalf("build world: %+v", err)
	}

	r.Count("real_blocks_written", 2*n+2+8)

	dir := filepath.Join(r.WorkDir(), "child")
	if err := os.MkdirAll(dir, 0o755); err != nil {
		t.Fatal(err)
	}

	cases := directed(n)
	total := r.N(700, 9000)

	for i := len(cases); i < total; i++ {
		cases = append(cases, genCase(i, r.Rand(18, i), n))
	}

	for i := range cases {
		cases[i].ID = i
		if cases[i].Seed == 0 {
			cases[i].Seed = int64(i) + 1
		}
	}

	wb, _ := json.Marshal(wf)
	cb, _ := json.Marshal(cases)

	if err := os.WriteFile(filepath.Join(dir, "world.json"), wb, 0o644); err != nil {
		t.Fatal(err)
	}

	if err := os.WriteFile(filepath.Join(dir, "cases.json"), cb, 0o644); err != nil {
		t.Fatal(err)
	}

	results := map[int]cresult{}
	crashed := map[int]string{} // case -> stderr of the child
	start := 0
	children := 0

	for start < len(cases) {
		children++
		if children > 400 {
			r.Inconclusive("too many child restarts")

			break
		}

		_ = os.Remove(filepath.Join(dir, "cur"))

		ctx, cancel := context.WithTimeout(context.Background(), time.Duration(r.N(15, 90))*time.Minute)
		cmd := exec.CommandContext(ctx, os.Args[0], "-test.run=^TestC18$", "-test.timeout=0")
		cmd.Env = append(os.Environ(), "C18_CHILD_DIR="+dir, "C18_CHILD_START="+strconv.Itoa(start))

		var stderr bytes.Buffer
		cmd.Stderr = &stderr
		cmd.Stdout = &stderr
		runerr := cmd.Run()
		timedout := ctx.Err() != nil

		cancel()

		cur, _ := os.ReadFile(filepath.Join(dir, "cur"))

		if timedout {
			r.Inconclusive(fmt.Sprintf("child timed out at case %s", cur))

			break
		}

		if runerr == nil && string(cur) == "done" {
			break
		}

		i, aerr := strconv.Atoi(string(cur))
		if aerr != nil {
			r.Inconclusive(fmt.Sprintf("child failed before the first case (%v): %s", runerr, tail(stderr.String(), 600)))

			break
		}

		if !strings.Contains(stderr.String(), "panic:") && !strings.Contains(stderr.String(), "fatal error:") {
			r.Inconclusive(fmt.Sprintf("child died at case %d without a panic (%v): %s", i, runerr, tail(stderr.String(), 600)))

			break
		}

		crashed[i] = stderr.String()
		start = i + 1
	}

	r.Set("child_processes", children)

	if f, err := os.Open(filepath.Join(dir, "results.jsonl")); err == nil {
		sc := bufio.NewScanner(f)
		sc.Buffer(make([]byte, 1<<20), 1<<24)

		for sc.Scan() {
			var res cresult
			if json.Unmarshal(sc.Bytes(), &res) == nil {
				results[res.ID] = res
			}
		}

		f.Close()
	}

	for i, c := range cases {
		fp := fmt.Sprintf("%s/%d/%d/%d/%v/%d/%d/%s/%d/%d", c.Kind, c.Local, c.Last, c.Limit, c.Targets, c.Answer, c.Splice, c.Order, c.GapMs, c.SlowMs)
		batches := "single-batch"

		if int64(c.Last-c.Local) > c.Limit {
			batches = "multi-batch"
		}

		if st, found := crashed[i]; found {
			r.Case(fp)
			r.Count("kind_"+c.Kind, 1)
			r.Count("process_fatal_panics", 1)

			msg := "panic"
			for _, ln := range strings.Split(st, "\n") {
				if strings.HasPrefix(ln, "panic:") || strings.HasPrefix(ln, "fatal error:") {
					msg = ln

					break
				}
			}

			// the stack of the panicking goroutine is the first one printed
			stack := st
			if j := strings.Index(stack, "panic:"); j >= 0 {
				stack = stack[j:]
			}

			r.Violation(fmt.Sprintf("Build:panic:%s:%s", vlib.PanicSite(stack), c.Kind),
				fmt.Sprintf("process-fatal %s in a goroutine spawned by Build (local %d, remote last %d, limit %d, behaviour %s %v->%d, %s)",
					msg, c.Local, c.Last, c.Limit, c.Kind, c.Targets, c.Answer, batches),
				map[string]any{"case": c, "stderr": head(stack, 3000)})

			continue
		}

		res, found := results[i]
		if !found {
			continue
		}

		r.Case(fp)
		r.Count("kind_"+c.Kind, 1)
		r.Count("proofs_fetched", res.Fetched)

		switch {
		case res.Err != "":
			r.Count("returned_error", 1)
		case res.NProofs > 0:
			r.Count("returned_proofs", 1)
		default:
			r.Count("returned_nothing", 1)
		}

		if i < 3 || (i >= 4 && i < 7) {
			r.Sample(map[string]any{"case": c, "result": res})
		}

		if res.Sig != "" {
			r.Violation(res.Sig, res.What, map[string]any{"case": c, "result": res})
		}
	}

	if len(results)+len(crashed) < len(cases) {
		r.Inconclusive(fmt.Sprintf("only %d of %d cases were run", len(results)+len(crashed), len(cases)))
	}

	if r.Counter("returned_proofs") < 1 {
		r.Inconclusive("no Build call returned proofs")
	}
}

func head(s string, n int) string {
	if len(s) > n {
		return s[:n]
	}

	return s
}

func tail(s string, n int) string {
	if len(s) > n {
		return s[len(s)-n:]
	}

	return s
}
