package c18

import (
	"bytes"
	"encoding/json"
	"fmt"
	"math"
	"math/rand"
	"strconv"

	"github.com/pkg/errors"
	"github.com/spikeekips/mitum/base"
	isaacblock "github.com/spikeekips/mitum/isaac/block"
	"github.com/spikeekips/mitum/util/fixedtree"
	"github.com/spikeekips/mitum/util/valuehash"
	"verifharness/c13/blkrig"
)

// ------------------------------------------------------------ malformed answers
//
// kind "malformed": one answer of the remote is not a well-formed proof (or is
// flagged inconsistently). Site = which remote call gets the answer, Shape =
// what is wrong with it, Flag = how it is flagged (found / not-found /
// with-error). Everything else the remote serves is the honest main chain.
//
// A shape is first tried as a NETWORK answer: the encoded bytes of the right
// proof are edited and given to the repository's own decoder; if the decoder
// accepts them the decoded object is what the builder gets ("decodable").
// Shapes the decoder rejects, and shapes that exist only as Go values (nil
// interface, typed nil pointers), are put together with the repository's
// constructors ("interface-only").

const (
	reachDecodable = "decodable"
	reachInterface = "interface-only"
)

// shapes of a malformed SuffrageProof answer ("valid" is the well-formed proof
// itself: used with the not-found / with-error flags and odd last heights)
var proofShapes = []string{
	"valid",
	"nil-proof", "typed-nil-proof",
	"no-state", "no-map", "no-path", "hint-only",
	"state-typed-nil", "map-typed-nil",
	"state-nil-value", "state-other-value", "state-no-nodes",
	"state-no-hash", "state-wrong-hash", "state-other-height", "state-other-key", "state-of-other-proof",
	"map-nil-manifest", "map-bad-signature", "map-unsigned", "other-network",
}

var nilFamily = map[string]bool{"nil-proof": true, "typed-nil-proof": true, "state-typed-nil": true, "map-typed-nil": true}

// shapes of the candidate-state answer
var candShapes = []string{"cand-nil", "cand-state", "cand-state-nil-value"}

var flags = []string{"found", "found", "found", "found", "found", "found", "not-found", "with-error"}

type answer struct {
	p       base.SuffrageProof
	st      base.State // candidate site
	reach   string
	invalid bool // nil, or IsValid(networkID) fails / panics
}

func localClass(c bcase) string {
	switch {
	case c.Local < 0:
		return "none"
	case c.Local < c.Last:
		return "below"
	case c.Local == c.Last:
		return "at"
	default:
		return "above"
	}
}

func localNoneOrState(c bcase) string {
	if c.Local < 0 {
		return "none"
	}

	return "state"
}

// behaviourClass names the remote behaviour of a malformed case in signatures.
func behaviourClass(c bcase) string {
	s := c.Site + ":" + c.Shape
	if c.Flag != "found" {
		s += ":" + c.Flag
	}

	return s
}

func safeIsValid(p base.SuffrageProof, networkID base.NetworkID) (err error) {
	if p == nil {
		return errors.Errorf("nil proof")
	}

	defer func() {
		if e := recover(); e != nil {
			err = errors.Errorf("IsValid panics: %v", e)
		}
	}()

	return p.IsValid(networkID)
}

func jsonTree(b []byte) (map[string]any, error) {
	dec := json.NewDecoder(bytes.NewReader(b))
	dec.UseNumber()

	var m map[string]any
	if err := dec.Decode(&m); err != nil {
		return nil, err
	}

	return m, nil
}

func sub(m map[string]any, k string) map[string]any {
	i, _ := m[k].(map[string]any)

	return i
}

// editedProof edits the encoded right answer and lets the repository decode it.
func editedProof(rig *blkrig.Rig, basis base.SuffrageProof, edit func(top map[string]any) bool) (base.SuffrageProof, bool) {
	b, err := rig.Enc.Marshal(basis)
	if err != nil {
		return nil, false
	}

	top, err := jsonTree(b)
	if err != nil || !edit(top) {
		return nil, false
	}

	nb, err := json.Marshal(top)
	if err != nil {
		return nil, false
	}

	var h interface{}

	func() {
		defer func() {
			if e := recover(); e != nil {
				err = errors.Errorf("decoder panics: %v", e)
			}
		}()

		h, err = rig.Enc.Decode(nb)
	}()

	if err != nil || h == nil {
		return nil, false
	}

	p, ok := h.(base.SuffrageProof)

	return p, ok
}

func treeOf(rig *blkrig.Rig, v interface{}) map[string]any {
	b, err := rig.Enc.Marshal(v)
	if err != nil {
		return nil
	}

	m, _ := jsonTree(b)

	return m
}

// mkAnswer builds the malformed variant of the proof main[idx].
func mkAnswer(rig *blkrig.Rig, w *world, shape string, idx int) (a answer, ok bool) {
	defer func() {
		if e := recover(); e != nil { // a constructor of the repository refused the shape
			ok = false
		}
	}()

	basis := w.main[idx]
	m, st, path := basis.Map(), basis.State(), basis.Proof()

	other := idx + 1
	if other >= len(w.main) {
		other = idx - 1
	}

	var edit func(top map[string]any) bool
	var goform func() base.SuffrageProof

	switch shape {
	case "valid":
		return answer{p: basis, reach: reachDecodable}, true
	case "nil-proof":
		goform = func() base.SuffrageProof { return nil }
	case "typed-nil-proof":
		goform = func() base.SuffrageProof { return (*isaacblock.SuffrageProof)(nil) }
	case "no-state":
		edit = func(top map[string]any) bool { delete(top, "state"); return true }
		goform = func() base.SuffrageProof { return isaacblock.NewSuffrageProof(m, nil, path) }
	case "no-map":
		edit = func(top map[string]any) bool { delete(top, "map"); return true }
		goform = func() base.SuffrageProof { return isaacblock.NewSuffrageProof(nil, st, path) }
	case "no-path":
		edit = func(top map[string]any) bool { delete(top, "proof"); return true }
		goform = func() base.SuffrageProof { return isaacblock.NewSuffrageProof(m, st, fixedtree.Proof{}) }
	case "hint-only":
		edit = func(top map[string]any) bool {
			for k := range top {
				if k != "_hint" {
					delete(top, k)
				}
			}

			return true
		}
		goform = func() base.SuffrageProof { return isaacblock.NewSuffrageProof(nil, nil, fixedtree.Proof{}) }
	case "state-typed-nil":
		goform = func() base.SuffrageProof { return isaacblock.NewSuffrageProof(m, (*base.BaseState)(nil), path) }
	case "map-typed-nil":
		goform = func() base.SuffrageProof { return isaacblock.NewSuffrageProof((*isaacblock.BlockMap)(nil), st, path) }
	case "state-nil-value":
		edit = func(top map[string]any) bool {
			s := sub(top, "state")
			if s == nil {
				return false
			}

			s["value"] = nil

			return true
		}
	case "state-other-value":
		// the value of another registered type: one suffrage NODE value
		edit = func(top map[string]any) bool {
			s := sub(top, "state")
			nodes, _ := sub(s, "value")["nodes"].([]any)

			if s == nil || len(nodes) < 1 {
				return false
			}

			s["value"] = nodes[0]

			return true
		}
	case "state-no-nodes":
		edit = func(top map[string]any) bool {
			v := sub(sub(top, "state"), "value")
			if v == nil {
				return false
			}

			v["nodes"] = []any{}

			return true
		}
	case "state-no-hash":
		edit = func(top map[string]any) bool {
			s := sub(top, "state")
			if s == nil {
				return false
			}

			delete(s, "hash")

			return true
		}
	case "state-wrong-hash":
		edit = func(top map[string]any) bool {
			s := sub(top, "state")
			if s == nil {
				return false
			}

			s["hash"] = valuehash.NewSHA256([]byte("c18/" + strconv.Itoa(idx))).String()

			return true
		}
	case "state-other-height":
		edit = func(top map[string]any) bool {
			s := sub(top, "state")
			if s == nil {
				return false
			}

			s["height"] = json.Number(strconv.FormatInt(st.Height().Int64()+1, 10))

			return true
		}
	case "state-other-key":
		edit = func(top map[string]any) bool {
			s := sub(top, "state")
			if s == nil {
				return false
			}

			s["key"] = "not-the-suffrage-key"

			return true
		}
	case "state-of-other-proof":
		if other < 0 {
			return a, false
		}

		edit = func(top map[string]any) bool {
			o := treeOf(rig, w.main[other])
			if sub(o, "state") == nil {
				return false
			}

			top["state"] = o["state"]

			return true
		}
		goform = func() base.SuffrageProof { return isaacblock.NewSuffrageProof(m, w.main[other].State(), path) }
	case "map-nil-manifest":
		edit = func(top map[string]any) bool {
			s := sub(top, "map")
			if s == nil {
				return false
			}

			delete(s, "manifest")

			return true
		}
	case "map-bad-signature":
		// the signature of another block map
		edit = func(top map[string]any) bool {
			s, o := sub(top, "map"), sub(treeOf(rig, w.foreign[idx]), "map")
			if s == nil || o == nil || o["signature"] == nil || o["signature"] == s["signature"] {
				return false
			}

			s["signature"] = o["signature"]

			return true
		}
	case "map-unsigned":
		edit = func(top map[string]any) bool {
			s := sub(top, "map")
			if s == nil {
				return false
			}

			delete(s, "signature")
			delete(s, "signer")
			delete(s, "node")

			return true
		}
		goform = func() base.SuffrageProof {
			nm := isaacblock.NewBlockMap()
			nm.SetManifest(m.Manifest())

			return isaacblock.NewSuffrageProof(nm, st, path)
		}
	case "other-network":
		// signed for another network id (made by the parent with the chain's key)
		if idx >= len(w.othernet) {
			return a, false
		}

		return answer{p: w.othernet[idx], reach: reachDecodable, invalid: safeIsValid(w.othernet[idx], w.networkID) != nil}, true
	default:
		return a, false
	}

	if edit != nil {
		if p, ok := editedProof(rig, basis, edit); ok {
			return answer{p: p, reach: reachDecodable, invalid: safeIsValid(p, w.networkID) != nil}, true
		}
	}

	if goform == nil {
		return a, false
	}

	p := goform()

	return answer{p: p, reach: reachInterface, invalid: safeIsValid(p, w.networkID) != nil}, true
}

// mkCandidate builds the answer of the candidate-state call.
func mkCandidate(rig *blkrig.Rig, w *world, shape string, idx int) (a answer, ok bool) {
	defer func() {
		if e := recover(); e != nil {
			ok = false
		}
	}()

	st := w.main[idx].State()

	switch shape {
	case "cand-nil":
		return answer{reach: reachInterface, invalid: true}, true
	case "cand-state":
		return answer{st: st, reach: reachDecodable}, true
	case "cand-state-nil-value":
		top := treeOf(rig, st)
		if top == nil {
			return a, false
		}

		top["value"] = nil

		b, err := json.Marshal(top)
		if err != nil {
			return a, false
		}

		h, err := rig.Enc.Decode(b)
		if err != nil {
			return a, false
		}

		nst, isst := h.(base.State)
		if !isst {
			return a, false
		}

		return answer{st: nst, reach: reachDecodable, invalid: true}, true
	default:
		return a, false
	}
}

// hvar: the last block height the remote reports next to its last proof
func hvar(c bcase, real base.Height) base.Height {
	switch c.HVar {
	case 1:
		return base.NilHeight
	case 2:
		return base.Height(-7)
	case 3:
		return base.Height(math.MaxInt64)
	default:
		return real
	}
}

func shapesOf(site string) []string {
	if site == "candidate" {
		return candShapes
	}

	return proofShapes
}

func normMalformed(c *bcase, n int) {
	if c.Last >= n {
		c.Last = n - 1
	}

	if c.Local >= n {
		c.Local = n - 1
	}

	if c.Site == "height" {
		// a height is fetched only between the local state and the last
		if c.Last < 1 {
			c.Last = 1
		}

		if c.Local >= c.Last {
			c.Local = c.Last - 1
		}

		if len(c.Targets) < 1 || c.Targets[0] <= c.Local || c.Targets[0] > c.Last {
			c.Targets = []int{c.Last}
		}
	}

	// a nil proof flagged found, and typed nil pointers in the place of a proof
	// or of its parts, are Go values that neither the repository's decoders
	// nor its network client can produce (the client reports a nil last proof
	// as "not updated"): they are attached only to answers that are not
	// flagged found, where Build has to leave them alone
	if c.Site == "last" && c.Flag == "found" && nilFamily[c.Shape] {
		c.Flag = "not-found"
	}

	if c.Shape == "valid" && c.Flag == "found" && c.HVar == 0 {
		c.HVar = 1 // otherwise it is the honest remote
	}

	if c.Limit < 1 {
		c.Limit = 1
	}
}

func genMalformed(id int, rng *rand.Rand, n int) bcase {
	c := bcase{ID: id, Kind: "malformed", Seed: rng.Int63()}

	c.Site = []string{"last", "last", "last", "last", "height", "height", "candidate"}[rng.Intn(7)]
	ss := shapesOf(c.Site)
	c.Shape = ss[rng.Intn(len(ss))]
	c.Flag = flags[rng.Intn(len(flags))]

	c.Last = rng.Intn(min(n, 12))
	if rng.Intn(5) == 0 {
		c.Last = rng.Intn(n)
	}

	switch rng.Intn(4) {
	case 0:
		c.Local = -1
	case 1:
		c.Local = c.Last - 1 - rng.Intn(c.Last+1)
	case 2:
		c.Local = c.Last
	default:
		c.Local = c.Last + 1 + rng.Intn(3)
	}

	if c.Local < -1 {
		c.Local = -1
	}

	c.Limit = 1 + int64(rng.Intn(10))

	if rng.Intn(5) == 0 {
		c.HVar = 1 + rng.Intn(3)
	}

	if c.Site == "height" {
		if c.Last < 1 {
			c.Last = 1 + rng.Intn(min(n-1, 11))
		}

		if c.Local >= c.Last {
			c.Local = rng.Intn(c.Last+1) - 1
		}

		c.Targets = []int{c.Local + 1 + rng.Intn(c.Last-c.Local)}
	}

	normMalformed(&c, n)

	return c
}

// directedMalformed: every shape at the last-proof call from every kind of
// local starting point, every shape at the by-height call, every flag.
func directedMalformed(n int) []bcase {
	var cs []bcase

	const last = 6

	for _, shape := range proofShapes {
		for _, local := range []int{-1, 0, 3, last - 1, last, last + 2} {
			cs = append(cs, bcase{Kind: "malformed", Site: "last", Shape: shape, Flag: "found", Local: local, Last: last, Limit: 3})
		}

		for _, flag := range []string{"not-found", "with-error"} {
			for _, local := range []int{-1, 2} {
				cs = append(cs, bcase{Kind: "malformed", Site: "last", Shape: shape, Flag: flag, Local: local, Last: last, Limit: 3})
			}
		}

		for _, local := range []int{-1, 2} {
			cs = append(cs, bcase{Kind: "malformed", Site: "height", Shape: shape, Flag: "found", Local: local, Last: last, Limit: 3 + int64(local+1)*2, Targets: []int{4}})
		}

		cs = append(cs,
			bcase{Kind: "malformed", Site: "height", Shape: shape, Flag: "not-found", Local: 2, Last: last, Limit: 10, Targets: []int{3}},
			bcase{Kind: "malformed", Site: "height", Shape: shape, Flag: "with-error", Local: -1, Last: last, Limit: 2, Targets: []int{last}},
		)
	}

	for _, shape := range candShapes {
		for _, flag := range []string{"found", "not-found", "with-error"} {
			cs = append(cs,
				bcase{Kind: "malformed", Site: "candidate", Shape: shape, Flag: flag, Local: -1, Last: 4, Limit: 3},
				bcase{Kind: "malformed", Site: "candidate", Shape: shape, Flag: flag, Local: 5, Last: 5, Limit: 3},
			)
		}
	}

	for hv := 1; hv <= 3; hv++ {
		cs = append(cs,
			bcase{Kind: "malformed", Site: "last", Shape: "valid", Flag: "found", HVar: hv, Local: -1, Last: 5, Limit: 2},
			bcase{Kind: "malformed", Site: "last", Shape: "no-state", Flag: "found", HVar: hv, Local: 2, Last: 5, Limit: 2},
		)
	}

	for i := range cs {
		normMalformed(&cs[i], n)
	}

	return cs
}

func malformedFingerprint(c bcase) string {
	return fmt.Sprintf("malformed/%s/%s/%s/h%d/local=%s/%d/%d/%d/%v", c.Site, c.Shape, c.Flag, c.HVar, localClass(c), c.Local, c.Last, c.Limit, c.Targets)
}
