package c19

import (
	"fmt"
	"math/rand"
	"sort"
	"strings"
	"sync"
	"sync/atomic"
	"testing"
	"time"

	"github.com/spikeekips/mitum/base"
	"verifharness/c19/dbrig"
	"verifharness/vlib"
)

// ---------------------------------------------------------------------------
// sequential phase: script of commits / merges / removals, full read set
// against the "keeps all committed blocks" model after every step.

type seqWitness struct {
	Chain      int
	Config     dbrig.StoreConfig
	Script     []string
	Temps      string
	Blocks     int
	Mismatches []dbrig.Mismatch
}

type seqRun struct {
	r      *vlib.Run
	idx    int
	st     *dbrig.Store
	gen    *dbrig.Gen
	chain  *dbrig.Chain
	script []string
}

// check takes the full read set and reports each (read kind, class, region)
// which disagrees with the model as one violation kind.
func (s *seqRun) check(step string) {
	r := s.r
	temps := s.st.Temps()

	var got dbrig.ReadSet

	if r.Guard("Center.read", seqWitness{Chain: s.idx, Config: s.st.Cfg, Script: s.script}, func() {
		got = s.st.Read(s.gen.U)
	}) {
		return
	}

	want := dbrig.Expected(s.gen.U, s.chain.Blocks)
	ms := dbrig.DiffModel(got, want)

	kinds := map[string]int{}
	for q := range got {
		kinds[dbrig.Kind(q)]++
	}

	for k, n := range kinds {
		r.Count("reads_"+k, n)
	}

	permblocks := len(s.chain.Blocks) - len(temps)
	r.Case(fmt.Sprintf("%s/temps=%d/perm=%d/suf=%d/keys=%d", step, len(temps), permblocks, s.chain.LastSufHeight(), len(s.gen.U.Keys)))
	r.Count("steps_"+step, 1)

	if len(ms) < 1 {
		return
	}

	groups := map[string][]dbrig.Mismatch{}

	for _, m := range ms {
		sig := "read:" + dbrig.Kind(m.Query) + ":" + m.Class
		if w := dbrig.Where(m.Query, s.chain, temps); w != "" {
			sig += ":" + w
		}

		groups[sig] = append(groups[sig], m)
	}

	for sig, g := range groups {
		r.Violation(sig,
			fmt.Sprintf("after %s (chain %d, %d blocks committed, temps %s): %s answered %q, the model says %q (%d such reads)",
				step, s.idx, len(s.chain.Blocks), dbrig.HeightsString(temps), g[0].Query, g[0].Got, g[0].Want, len(g)),
			seqWitness{
				Chain: s.idx, Config: s.st.Cfg, Script: append([]string{}, s.script...),
				Temps: dbrig.HeightsString(temps), Blocks: len(s.chain.Blocks), Mismatches: dbrig.Head(g, 5),
			})
	}
}

func (s *seqRun) log(format string, a ...any) {
	s.script = append(s.script, fmt.Sprintf(format, a...))
}

func (s *seqRun) commit(opt dbrig.BlockOpt) bool {
	b := s.gen.Next(s.chain, opt)
	s.log("commit h=%d states=%d ops=%d suffrage=%v(sh=%d) policy=%v", b.Height, len(b.States), len(b.Ops), b.Proof != nil, b.SufHeight(), b.Policy != nil)

	if err := s.st.Commit(b); err != nil {
		s.r.Violation("commit:error", fmt.Sprintf("commit of block %d failed: %v", b.Height, err),
			seqWitness{Chain: s.idx, Config: s.st.Cfg, Script: s.script})

		return false
	}

	s.chain.Append(b)
	s.r.Count("blocks_committed", 1)

	return true
}

func runSequential(r *vlib.Run, env *dbrig.Env, idx int, directed string) {
	rng := r.Rand(1, idx)

	cfg := dbrig.StoreConfig{
		PermCache: []int{0, 2, 64, 4096}[rng.Intn(4)],
		TempCache: []int{0, 3, 64, 4096}[rng.Intn(4)],
	}

	st, err := dbrig.OpenStore(env, cfg)
	if err != nil {
		r.Inconclusive("open store: " + err.Error())

		return
	}

	defer st.Close()

	s := &seqRun{r: r, idx: idx, st: st, gen: dbrig.NewGen(env, rng, fmt.Sprintf("c%d", idx)), chain: &dbrig.Chain{}}

	nblocks := 6 + rng.Intn(r.N(10, 14))
	maxStates := []int{2, 6, r.N(12, 16)}[rng.Intn(3)]
	sufEvery := 1 + rng.Intn(5)

	if directed != "" {
		runDirected(s, directed)

		return
	}

	s.check("empty")

	for committed := 0; committed < nblocks; {
		// an abandoned write at the next height (a round which did not finish)
		if rng.Intn(10) == 0 {
			b := s.gen.Next(s.chain, dbrig.RandomOpt(rng, maxStates, sufEvery))
			s.log("write-abandoned h=%d states=%d", b.Height, len(b.States))

			if _, err := st.Write(b); err != nil {
				r.Violation("write:error", fmt.Sprintf("block write failed: %v", err), seqWitness{Chain: idx, Script: s.script})

				return
			}

			s.check("write-abandoned")
		}

		if !s.commit(dbrig.RandomOpt(rng, maxStates, sufEvery)) {
			return
		}

		committed++

		s.check("commit")

		switch p := rng.Intn(100); {
		case p < 40:
			merged, err := st.MergeOne()
			s.log("merge-one -> %v", merged)

			if err != nil {
				r.Violation("merge-one:error", err.Error(), seqWitness{Chain: idx, Script: s.script})

				return
			}

			s.check("merge-one")
		case p < 55:
			s.log("merge-all")

			if err := st.Center.MergeAllPermanent(); err != nil {
				r.Violation("merge-all:error", err.Error(), seqWitness{Chain: idx, Script: s.script})

				return
			}

			s.check("merge-all")
		case p < 67:
			// remove from a height around the temps (also one above the top and one in the permanent part)
			temps := st.Temps()
			lo := s.chain.Top() - base.Height(len(temps))
			h := lo + base.Height(rng.Intn(len(temps)+2))

			if h < 1 {
				h = 1
			}

			removed, err := st.Center.RemoveBlocks(h)
			s.log("remove-blocks %d -> %v", h, removed)

			if err != nil {
				r.Violation("remove-blocks:error", err.Error(), seqWitness{Chain: idx, Script: s.script})

				return
			}

			if removed {
				s.chain.Truncate(h)
				r.Count("removals_done", 1)
			}

			s.check("remove-blocks")
		}

		if rng.Intn(5) == 0 {
			limit := []int{0, 1, 3}[rng.Intn(3)]
			s.log("clean-removed %d", limit)

			if err := st.Center.VerifCleanRemoved(limit); err != nil {
				r.Violation("clean-removed:error", err.Error(), seqWitness{Chain: idx, Script: s.script})

				return
			}

			s.check("clean-removed")
		}
	}

	if idx < 3 {
		r.Sample(map[string]any{"phase": "sequential", "chain": idx, "config": cfg, "script": s.script})
	}
}

// runDirected: fixed small scripts for the lookups which random scripts reach
// only sometimes (so that a recorded finding is re-observed on every run).
func runDirected(s *seqRun, name string) {
	plain := dbrig.BlockOpt{States: 3, FreshKey: 0.5, Ops: 1, StateOps: 1}
	suf := plain
	suf.Suffrage = true

	switch name {
	case "suffrage-lookups":
		// 0(suffrage) 1 2(suffrage) 3 | merge all but one | 4 5(suffrage) 6
		for _, o := range []dbrig.BlockOpt{suf, plain, suf, plain} {
			if !s.commit(o) {
				return
			}
		}

		s.log("merge-all")

		if err := s.st.Center.MergeAllPermanent(); err != nil {
			s.r.Violation("merge-all:error", err.Error(), nil)

			return
		}

		s.check("merge-all")

		for _, o := range []dbrig.BlockOpt{plain, suf, plain} {
			if !s.commit(o) {
				return
			}

			s.check("commit")
		}
	case "stale-state-cache":
		// a key read from the permanent part (so it is cached there), then rewritten, then merged
		for i := 0; i < 3; i++ {
			if !s.commit(plain) {
				return
			}
		}

		_ = s.st.Center.MergeAllPermanent()
		s.check("merge-all")

		rewrite := plain
		rewrite.FreshKey = 0

		for i := 0; i < 3; i++ {
			if !s.commit(rewrite) {
				return
			}

			s.check("commit")
		}

		_ = s.st.Center.MergeAllPermanent()
		s.check("merge-all")
	}

	s.r.Sample(map[string]any{"phase": "directed", "name": name, "script": s.script})
}

// ---------------------------------------------------------------------------
// concurrent phase: readers during commits and merges (no removals).

type pubBlock struct {
	states map[string]string // key -> state id of this block
	height base.Height
}

type concShared struct {
	sync.Mutex
	blocks []pubBlock // published before the commit starts
	keys   []string
}

func (c *concShared) snapshot() ([]pubBlock, []string) {
	c.Lock()
	defer c.Unlock()

	return c.blocks[:len(c.blocks):len(c.blocks)], c.keys[:len(c.keys):len(c.keys)]
}

// stateAt is the model's answer for key over the first n blocks.
func stateAt(blocks []pubBlock, key string, n int) (string, base.Height) {
	for i := n - 1; i >= 0; i-- {
		if id, ok := blocks[i].states[key]; ok {
			return id, blocks[i].height
		}
	}

	return "", base.NilHeight
}

type concWitness struct {
	Chain  int
	Reader int
	Key    string
	Got    string
	Detail string
}

func runConcurrent(r *vlib.Run, env *dbrig.Env, idx int) {
	rng := r.Rand(2, idx)

	cfg := dbrig.StoreConfig{
		PermCache: []int{0, 8, 4096}[rng.Intn(3)],
		TempCache: []int{0, 8, 4096}[rng.Intn(3)],
	}

	st, err := dbrig.OpenStore(env, cfg)
	if err != nil {
		r.Inconclusive("open store: " + err.Error())

		return
	}

	defer st.Close()

	gen := dbrig.NewGen(env, rng, fmt.Sprintf("cc%d", idx))
	chain := &dbrig.Chain{}
	shared := &concShared{}

	var started, done atomic.Int64
	var stop atomic.Bool

	// readers take gate.RLock around one read; the writer takes gate.Lock only
	// to clean removed temps: no read spans the removal of a temp's data, which
	// is what the 2 s merge interval with 3 kept temps gives in a node.
	var gate sync.RWMutex

	nreaders := 4 + rng.Intn(5)
	perStep := r.N(40, 80) // reads per reader and writer step: bounds the work, keeps readers inside the steps

	var stepNo atomic.Int64
	nblocks := r.N(10, 16)

	var events []string
	var evl sync.Mutex
	addEvent := func(e string) {
		evl.Lock()
		if len(events) < 4000 {
			events = append(events, e)
		}
		evl.Unlock()
	}

	var wg sync.WaitGroup

	for ri := 0; ri < nreaders; ri++ {
		wg.Add(1)

		go func(ri int) {
			defer wg.Done()

			rrng := r.Rand(3, idx, ri)
			lastState := map[string]base.Height{}
			lastTop := base.NilHeight
			var nreads, nstate int

			var mystep int64 = -1
			var instep int

			for !stop.Load() {
				_, keys := shared.snapshot()

				if cur := stepNo.Load(); cur != mystep {
					mystep, instep = cur, 0
				}

				if len(keys) < 1 || instep >= perStep {
					time.Sleep(time.Microsecond * 50)

					continue
				}

				instep++

				nreads++

				switch p := rrng.Intn(10); {
				case p < 6:
					key := keys[rrng.Intn(len(keys))]
					c0 := int(done.Load())

					gate.RLock()
					got, found, err := st.Center.State(key)
					gate.RUnlock()

					s1 := int(started.Load())
					nstate++

					if err != nil {
						r.Violation("concurrent:State:error", err.Error(), concWitness{Chain: idx, Reader: ri, Key: key})

						continue
					}

					blocks, _ := shared.snapshot()
					if s1 > len(blocks) {
						s1 = len(blocks)
					}

					gotid, goth := "", base.NilHeight
					if found {
						gotid, goth = dbrig.StateID(got), got.Height()
					}

					ok := false

					for n := c0; n <= s1 && !ok; n++ {
						id, _ := stateAt(blocks, key, n)
						ok = id == gotid
					}

					if !ok {
						want0, _ := stateAt(blocks, key, c0)
						want1, _ := stateAt(blocks, key, s1)
						r.Violation("concurrent:State:not-a-committed-value-of-the-call-window",
							fmt.Sprintf("reader %d: State(%s) answered %q; the model over the blocks committed during the call (%d..%d) says %q..%q",
								ri, key, gotid, c0, s1, want0, want1),
							concWitness{Chain: idx, Reader: ri, Key: key, Got: gotid, Detail: fmt.Sprintf("window %d..%d", c0, s1)})
					}

					if prev, seen := lastState[key]; seen && goth < prev {
						r.Violation("concurrent:State:older-than-already-returned",
							fmt.Sprintf("reader %d: State(%s) answered height %d after it had answered height %d", ri, key, goth, prev),
							concWitness{Chain: idx, Reader: ri, Key: key, Got: gotid, Detail: fmt.Sprintf("previous height %d", prev)})
					}

					if found {
						lastState[key] = goth
					}

					if found && rrng.Intn(50) == 0 {
						addEvent(fmt.Sprintf("r%d:%s@%d", ri, key, goth))
					}
				case p < 8:
					gate.RLock()
					m, found, err := st.Center.LastBlockMap()
					gate.RUnlock()

					switch {
					case err != nil:
						r.Violation("concurrent:LastBlockMap:error", err.Error(), concWitness{Chain: idx, Reader: ri})
					case found:
						h := m.Manifest().Height()
						if h < lastTop {
							r.Violation("concurrent:LastBlockMap:older-than-already-returned",
								fmt.Sprintf("reader %d: LastBlockMap answered height %d after %d", ri, h, lastTop),
								concWitness{Chain: idx, Reader: ri, Detail: fmt.Sprintf("%d after %d", h, lastTop)})
						}

						if h > lastTop {
							lastTop = h
							addEvent(fmt.Sprintf("r%d:top%d", ri, h))
						}
					}
				default:
					// the other reads, for the race detector and error returns
					blocks, _ := shared.snapshot()
					h := base.Height(rrng.Intn(len(blocks) + 1))

					gate.RLock()
					_, _, err1 := st.Center.BlockMap(h)
					_, _, err2 := st.Center.SuffrageProofByBlockHeight(h)
					_, _, err3 := st.Center.LastSuffrageProof()
					_, _, _, _, err4 := st.Center.StateBytes(keys[rrng.Intn(len(keys))])
					_ = st.Center.LastNetworkPolicy()
					_, _, err5 := st.Center.SuffrageProof(base.Height(rrng.Intn(4)))
					gate.RUnlock()

					for _, err := range []error{err1, err2, err3, err4, err5} {
						if err != nil {
							r.Violation("concurrent:read:error", err.Error(), concWitness{Chain: idx, Reader: ri})
						}
					}
				}
			}

			r.Count("concurrent_reads", nreads)
			r.Count("concurrent_state_reads", nstate)
		}(ri)
	}

	publish := func(b *dbrig.Block) {
		pb := pubBlock{states: map[string]string{}, height: b.Height}
		for _, s := range b.States {
			pb.states[s.Key()] = dbrig.StateID(s)
		}

		shared.Lock()
		shared.blocks = append(shared.blocks, pb)

		// readers hold snapshots of the old slice: build a new one
		seen := map[string]bool{}
		keys := make([]string, 0, len(shared.keys)+len(pb.states))

		for _, k := range shared.keys {
			seen[k] = true
			keys = append(keys, k)
		}

		for k := range pb.states {
			if !seen[k] {
				keys = append(keys, k)
			}
		}

		sort.Strings(keys)
		shared.keys = keys
		shared.Unlock()
	}

	ok := r.WithWatchdog(5*time.Minute, fmt.Sprintf("concurrent chain %d", idx), func() {
		defer func() {
			stop.Store(true)
			wg.Wait()
		}()

		for i := 0; i < nblocks; i++ {
			opt := dbrig.RandomOpt(rng, 12, 3)
			opt.FreshKey = 0.1 // mostly rewrites: the same keys move through temps into the permanent part
			if i == 0 {
				opt.States, opt.FreshKey = 12, 1
			}

			b := gen.Next(chain, opt)
			publish(b)
			started.Add(1)
			stepNo.Add(1)

			if err := st.Commit(b); err != nil {
				r.Violation("concurrent:commit:error", err.Error(), concWitness{Chain: idx})

				return
			}

			chain.Append(b)
			done.Add(1)
			addEvent(fmt.Sprintf("w:commit%d", b.Height))
			r.Count("concurrent_commits", 1)

			stepNo.Add(1)

			switch p := rng.Intn(10); {
			case p < 5:
				merged, err := st.MergeOne()
				if err != nil {
					r.Violation("concurrent:merge-one:error", err.Error(), concWitness{Chain: idx})

					return
				}

				if merged {
					r.Count("concurrent_merges", 1)
					addEvent("w:merge")
				}
			case p < 7:
				n := len(st.Temps()) - 1
				if err := st.Center.MergeAllPermanent(); err != nil {
					r.Violation("concurrent:merge-all:error", err.Error(), concWitness{Chain: idx})

					return
				}

				if n > 0 {
					r.Count("concurrent_merges", n)
					addEvent("w:merge-all")
				}
			}

			if rng.Intn(4) == 0 {
				gate.Lock()
				err := st.Center.VerifCleanRemoved(3)
				gate.Unlock()

				if err != nil {
					r.Violation("concurrent:clean-removed:error", err.Error(), concWitness{Chain: idx})

					return
				}
			}

			time.Sleep(time.Duration(rng.Intn(300)) * time.Microsecond)
		}
	})
	if !ok {
		stop.Store(true)

		return
	}

	evl.Lock()
	r.SetAdd("interleavings_seen", strings.Join(events, ","))
	evl.Unlock()

	// quiescent: the full read set once more
	got := st.Read(gen.U)
	if ms := dbrig.DiffModel(got, dbrig.Expected(gen.U, chain.Blocks)); len(ms) > 0 {
		for _, m := range ms {
			r.Violation("after-concurrent:read:"+dbrig.Kind(m.Query)+":"+m.Class+":"+dbrig.Where(m.Query, chain, st.Temps()),
				fmt.Sprintf("after the concurrent phase of chain %d: %s answered %q, the model says %q", idx, m.Query, m.Got, m.Want),
				concWitness{Chain: idx, Key: m.Query, Got: m.Got, Detail: m.Want})
		}
	}

	r.Case(fmt.Sprintf("concurrent/readers=%d/blocks=%d", nreaders, nblocks))

	if idx == 0 {
		evl.Lock()
		r.Sample(map[string]any{"phase": "concurrent", "chain": idx, "readers": nreaders, "config": cfg, "first_events": events[:min(len(events), 40)]})
		evl.Unlock()
	}
}

func TestC19(t *testing.T) {
	r := vlib.Start(t, "C19", vlib.LevelExploration)
	defer r.Finish()

	r.SetRule("sequential case = one step (commit of a generated block / abandoned write / merge of the oldest temp into the permanent store / merge-all / RemoveBlocks / clean of merged temps) of a generated chain followed by the full read set (every state key, operation hash, block height, suffrage height of the scenario and two past each end) compared with the model that keeps all committed blocks; distinct = (step kind, temps, blocks in permanent store, suffrage height, keys in scenario); non-trivial = every case (the empty store is the first step of a chain). concurrent case = one chain with 4-8 readers during commits and merges")
	r.Assume("blocks are written as the block writer does: distinct state keys within a block, a suffrage proof exactly in the blocks which change the suffrage, suffrage height +1 per change, heights consecutive from genesis")
	r.Assume("concurrent phase: the data of a merged temp is cleaned only while no read is in flight and the 3 newest merged temps are kept (a node cleans a temp >= 3 merge intervals of 2 s after its merge)")
	r.Assume("lastheight returned by LastSuffrageProofBytes is not judged (not named by the statement)")

	env := dbrig.NewEnv()

	nseq := r.N(12, 60)
	nconc := r.N(3, 8)

	runDirectedChain := func(i int, name string) {
		runSequential(r, env, 100000+i, name)
	}

	runDirectedChain(0, "suffrage-lookups")
	runDirectedChain(1, "stale-state-cache")

	t0 := time.Now()

	vlib.Parallel(nseq, 12, func(i int) {
		r.WithWatchdog(10*time.Minute, fmt.Sprintf("sequential chain %d", i), func() { runSequential(r, env, i, "") })
	})

	r.Set("wall_sequential_phase_s", int(time.Since(t0).Seconds()))
	t1 := time.Now()

	vlib.Parallel(nconc, 4, func(i int) { runConcurrent(r, env, i) })

	r.Set("wall_concurrent_phase_s", int(time.Since(t1).Seconds()))

	r.Set("sequential_chains", nseq)
	r.Set("concurrent_chains", nconc)

	if r.Counter("concurrent_state_reads") < 1 || r.Counter("concurrent_merges") < 1 {
		r.Inconclusive("concurrent phase observed no reads during merges")
	}
}

var _ = rand.Int
