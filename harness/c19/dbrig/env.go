//go:build test && verif

// Package dbrig is the shared machinery of the block-database monitors
// (C19 C20 C21 C26): a deterministic chain generator, the "keeps all committed
// blocks" reference model, the full read set over isaac.Database /
// isaac.PermanentDatabase and a store that can be closed, "crashed" and
// reopened on the same goleveldb memory (or file) storage.
package dbrig

import (
	"encoding/json"
	"fmt"
	"math/rand"
	"sync"
	"sync/atomic"

	"github.com/spikeekips/mitum/base"
	isaacdatabase "github.com/spikeekips/mitum/isaac/database"
	"github.com/spikeekips/mitum/util"
	"github.com/spikeekips/mitum/util/encoder"
	"github.com/spikeekips/mitum/util/fixedtree"
	"github.com/spikeekips/mitum/util/hint"
	"github.com/spikeekips/mitum/util/valuehash"
)

// Env holds encoders and a small fixed set of nodes.
type Env struct {
	Encs   *encoder.Encoders
	Enc    encoder.Encoder
	Signer base.LocalNode
	Nodes  []base.Node

	decoded sync.Map // (encoder hint, body) -> object identity, see bytesAnswer
}

func NewEnv() *Env {
	var b isaacdatabase.BaseTestDatabase
	b.SetupSuite()

	if err := b.Encs.AddDetail(encoder.DecodeDetail{Hint: RigSuffrageProofHint, Instance: RigSuffrageProof{}}); err != nil {
		panic(err)
	}

	env := &Env{Encs: b.Encs, Enc: b.Enc, Signer: base.RandomLocalNode()}
	for i := 0; i < 4; i++ {
		env.Nodes = append(env.Nodes, base.RandomNode())
	}

	return env
}

// Hash makes a hash from the PRNG (never from crypto/rand).
func Hash(rng *rand.Rand) util.Hash {
	b := make([]byte, 32)
	_, _ = rng.Read(b)

	return valuehash.NewSHA256(b)
}

var RigSuffrageProofHint = hint.MustNewHint("verif-rig-suffrage-proof-v0.0.1")

// RigSuffrageProof is the test suite's DummySuffrageProof with a real
// SuffrageHeight (the suite's one always answers NilHeight, so it cannot be
// looked up by suffrage height) and the block's own map.
type RigSuffrageProof struct {
	hint.BaseHinter
	ID string
	ST base.State
	MP base.BlockMap
}

var proofSerial atomic.Int64

func NewRigSuffrageProof(st base.State, mp base.BlockMap) RigSuffrageProof {
	return RigSuffrageProof{
		BaseHinter: hint.NewBaseHinter(RigSuffrageProofHint),
		ID:         fmt.Sprintf("proof-%d-h%d", proofSerial.Add(1), mp.Manifest().Height()),
		ST:         st,
		MP:         mp,
	}
}

func (RigSuffrageProof) IsValid([]byte) error                  { return nil }
func (p RigSuffrageProof) Map() base.BlockMap                  { return p.MP }
func (p RigSuffrageProof) State() base.State                   { return p.ST }
func (RigSuffrageProof) ACCEPTVoteproof() base.ACCEPTVoteproof { return nil }
func (RigSuffrageProof) Proof() fixedtree.Proof                { return fixedtree.Proof{} }
func (RigSuffrageProof) Suffrage() (base.Suffrage, error)      { return nil, nil }
func (RigSuffrageProof) Prove(base.State) error                { return nil }

func (p RigSuffrageProof) SuffrageHeight() base.Height {
	if p.ST == nil {
		return base.NilHeight
	}

	v, ok := p.ST.Value().(base.SuffrageNodesStateValue)
	if !ok {
		return base.NilHeight
	}

	return v.Height()
}

func (p *RigSuffrageProof) DecodeJSON(b []byte, enc encoder.Encoder) error {
	var u struct {
		ID string
		ST json.RawMessage
		MP json.RawMessage
	}

	if err := enc.Unmarshal(b, &u); err != nil {
		return err
	}

	p.ID = u.ID

	if err := encoder.Decode(enc, u.ST, &p.ST); err != nil {
		return err
	}

	return encoder.Decode(enc, u.MP, &p.MP)
}
