//go:build test && verif

package dbrig

import (
	"fmt"
	"math/rand"
	"sort"
	"time"

	"github.com/spikeekips/mitum/base"
	"github.com/spikeekips/mitum/isaac"
	"github.com/spikeekips/mitum/util"
)

// Block is one generated block: everything a BlockWriteDatabase is given.
type Block struct {
	Height base.Height
	Map    base.BlockMap
	States []base.State // ordinary states + suffrage state + policy state
	Ops    []util.Hash  // known operations (operation hashes)
	Proof  base.SuffrageProof
	Policy base.NetworkPolicy
	Serial int
}

func (b *Block) SufHeight() base.Height {
	if b.Proof == nil {
		return base.NilHeight
	}

	return b.Proof.SuffrageHeight()
}

// Keys counts the leveldb records the block write produces (without the
// merged marker).
func (b *Block) Keys() int {
	n := 1 + len(b.Ops) // blockmap + known operations
	for i := range b.States {
		n += 1 + len(b.States[i].Operations())
	}

	if b.Proof != nil {
		n += 2
	}

	return n
}

type BlockOpt struct {
	States   int     // ordinary states
	FreshKey float64 // probability that a state uses a key never used before
	Ops      int     // known operations
	StateOps int     // 0..StateOps in-state operations per state
	Suffrage bool    // suffrage changes in this block (state + proof)
	Policy   bool    // network policy changes in this block
}

// Chain is the reference model: it simply keeps all committed blocks.
type Chain struct {
	Blocks []*Block
}

func (c *Chain) Top() base.Height {
	return base.Height(len(c.Blocks)) - 1
}

func (c *Chain) LastSufHeight() base.Height {
	for i := len(c.Blocks) - 1; i >= 0; i-- {
		if c.Blocks[i].Proof != nil {
			return c.Blocks[i].SufHeight()
		}
	}

	return base.NilHeight
}

func (c *Chain) Append(b *Block) {
	if b.Height != c.Top()+1 {
		panic(fmt.Sprintf("rig: append height %d on top %d", b.Height, c.Top()))
	}

	c.Blocks = append(c.Blocks, b)
}

// Truncate drops blocks at height and above.
func (c *Chain) Truncate(height base.Height) {
	if height < 0 {
		height = 0
	}

	if int(height) < len(c.Blocks) {
		c.Blocks = c.Blocks[:height]
	}
}

// Universe is every key / hash / height the scenario ever generated (also in
// blocks which were abandoned or removed) plus never-used probes: the domain
// of the full read set.
type Universe struct {
	Keys         map[string]struct{}
	InStateOps   map[string]util.Hash
	KnownOps     map[string]util.Hash
	MaxHeight    base.Height
	MaxSufHeight base.Height
}

func NewUniverse(rng *rand.Rand) *Universe {
	u := &Universe{
		Keys:         map[string]struct{}{"never-used-key": {}},
		InStateOps:   map[string]util.Hash{},
		KnownOps:     map[string]util.Hash{},
		MaxHeight:    base.NilHeight,
		MaxSufHeight: base.NilHeight,
	}

	h := Hash(rng)
	u.InStateOps[h.String()] = h // asked in both families, present in none

	return u
}

func (u *Universe) Add(b *Block) {
	for i := range b.States {
		u.Keys[b.States[i].Key()] = struct{}{}

		for _, op := range b.States[i].Operations() {
			u.InStateOps[op.String()] = op
		}
	}

	for _, op := range b.Ops {
		u.KnownOps[op.String()] = op
	}

	if b.Height > u.MaxHeight {
		u.MaxHeight = b.Height
	}

	if sh := b.SufHeight(); sh > u.MaxSufHeight {
		u.MaxSufHeight = sh
	}
}

func (u *Universe) SortedKeys() []string {
	ks := make([]string, 0, len(u.Keys))
	for k := range u.Keys {
		ks = append(ks, k)
	}

	sort.Strings(ks)

	return ks
}

func sortedHashes(m map[string]util.Hash) []util.Hash {
	ks := make([]string, 0, len(m))
	for k := range m {
		ks = append(ks, k)
	}

	sort.Strings(ks)

	hs := make([]util.Hash, len(ks))
	for i := range ks {
		hs[i] = m[ks[i]]
	}

	return hs
}

// AllOps returns in-state and known operation hashes together; every one is
// asked in both families.
func (u *Universe) AllOps() []util.Hash {
	return append(sortedHashes(u.InStateOps), sortedHashes(u.KnownOps)...)
}

// Gen generates blocks; all choices come from rng.
type Gen struct {
	env    *Env
	rng    *rand.Rand
	U      *Universe
	name   string
	keys   []string
	serial int
	policy uint64
	t0     time.Time
}

func NewGen(env *Env, rng *rand.Rand, name string) *Gen {
	return &Gen{env: env, rng: rng, U: NewUniverse(rng), name: name, t0: time.Date(2024, 1, 1, 0, 0, 0, 0, time.UTC)}
}

func (g *Gen) Rng() *rand.Rand { return g.rng }

// Next generates the block following chain c (it is not appended).
func (g *Gen) Next(c *Chain, opt BlockOpt) *Block {
	height := c.Top() + 1
	if height == base.GenesisHeight {
		opt.Suffrage = true
		opt.Policy = true
	}

	g.serial++
	b := &Block{Height: height, Serial: g.serial}

	// ordinary states: distinct keys within a block
	used := map[string]bool{}

	for i := 0; i < opt.States; i++ {
		var key string

		if len(g.keys) < 1 || g.rng.Float64() < opt.FreshKey {
			key = fmt.Sprintf("%s-k%05d", g.name, len(g.keys))
			g.keys = append(g.keys, key)
		} else {
			key = g.keys[g.rng.Intn(len(g.keys))]
		}

		if used[key] {
			key = fmt.Sprintf("%s-k%05d", g.name, len(g.keys))
			g.keys = append(g.keys, key)
		}

		used[key] = true

		var ops []util.Hash

		if opt.StateOps > 0 {
			ops = make([]util.Hash, g.rng.Intn(opt.StateOps+1))
			for j := range ops {
				ops[j] = Hash(g.rng)
			}
		}

		b.States = append(b.States, base.NewBaseState(
			height, key, base.NewDummyStateValue(fmt.Sprintf("v-%d-%d", g.serial, i)), Hash(g.rng), ops))
	}

	var sufst base.State

	if opt.Suffrage {
		nn := 1 + g.rng.Intn(len(g.env.Nodes))
		sufnodes := make([]base.SuffrageNodeStateValue, nn)

		for i := 0; i < nn; i++ {
			sufnodes[i] = isaac.NewSuffrageNodeStateValue(g.env.Nodes[i], height)
		}

		sv := isaac.NewSuffrageNodesStateValue(c.LastSufHeight()+1, sufnodes)
		sufst = base.NewBaseState(height, isaac.SuffrageStateKey, sv, Hash(g.rng), []util.Hash{Hash(g.rng)})
		b.States = append(b.States, sufst)
	}

	if opt.Policy {
		g.policy++
		policy := isaac.DefaultNetworkPolicy()
		policy.SetMaxOperationsInProposal(1000 + g.policy)
		policy.SetMaxSuffrageSize(10 + g.policy%7)
		b.Policy = policy
		b.States = append(b.States, base.NewBaseState(
			height, isaac.NetworkPolicyStateKey, isaac.NewNetworkPolicyStateValue(policy), Hash(g.rng), nil))
	}

	g.rng.Shuffle(len(b.States), func(i, j int) { b.States[i], b.States[j] = b.States[j], b.States[i] })

	for i := 0; i < opt.Ops; i++ {
		b.Ops = append(b.Ops, Hash(g.rng))
	}

	manifest := base.NewDummyManifest(height, Hash(g.rng))
	manifest.SetProposedAt(g.t0.Add(time.Duration(g.serial) * time.Second))

	if sufst != nil {
		manifest.SetSuffrage(sufst.Hash())
	}

	if len(c.Blocks) > 0 {
		manifest.SetPrevious(c.Blocks[len(c.Blocks)-1].Map.Manifest().Hash())
	}

	b.Map = base.NewDummyBlockMapWithSign(manifest, g.env.Signer.Address(), g.env.Signer.Privatekey())

	if sufst != nil {
		b.Proof = NewRigSuffrageProof(sufst, b.Map)
	}

	g.U.Add(b)

	return b
}
