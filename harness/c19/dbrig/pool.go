//go:build test && verif

package dbrig

import (
	"context"
	"fmt"
	"math/rand"
	"sort"
	"sync"

	"github.com/spikeekips/mitum/base"
	"github.com/spikeekips/mitum/isaac"
	isaacdatabase "github.com/spikeekips/mitum/isaac/database"
	"github.com/spikeekips/mitum/util"
	"github.com/spikeekips/mitum/util/encoder"
)

var poolHintersOnce sync.Once

// AddPoolHinters registers what pool contents need to be decoded (the same
// details the in-tree pool tests register).
func (env *Env) AddPoolHinters() {
	poolHintersOnce.Do(func() {
		for _, d := range []encoder.DecodeDetail{
			{Hint: isaac.INITBallotSignFactHint, Instance: isaac.INITBallotSignFact{}},
			{Hint: isaac.INITBallotFactHint, Instance: isaac.INITBallotFact{}},
			{Hint: isaac.INITBallotHint, Instance: isaac.INITBallot{}},
			{Hint: isaac.ACCEPTBallotSignFactHint, Instance: isaac.ACCEPTBallotSignFact{}},
			{Hint: isaac.ACCEPTBallotFactHint, Instance: isaac.ACCEPTBallotFact{}},
			{Hint: isaac.ACCEPTBallotHint, Instance: isaac.ACCEPTBallot{}},
			{Hint: isaac.DummyOperationFactHint, Instance: isaac.DummyOperationFact{}},
			{Hint: isaac.DummyOperationHint, Instance: isaac.DummyOperation{}},
			{Hint: isaac.SuffrageExpelOperationHint, Instance: isaac.SuffrageExpelOperation{}},
			{Hint: isaac.SuffrageExpelFactHint, Instance: isaac.SuffrageExpelFact{}},
		} {
			if err := env.Encs.AddDetail(d); err != nil {
				panic(err)
			}
		}
	})
}

// PoolContent is what the scenario put into the pool (the domain of the pool
// read set).
type PoolContent struct {
	Ops       []base.Operation
	Proposals []base.ProposalSignFact
	Ballots   []base.Ballot
	Expels    []base.SuffrageExpelOperation
	networkID base.NetworkID
	probes    [2]util.Hash // never stored
}

func NewPoolContent(rng *rand.Rand) *PoolContent {
	return &PoolContent{networkID: base.NetworkID("verif-rig-network"), probes: [2]util.Hash{Hash(rng), Hash(rng)}}
}

// AddRandom puts n objects of each kind into the pool at around height.
func (c *PoolContent) AddRandom(env *Env, rng *rand.Rand, pool *isaacdatabase.TempPool, height base.Height, n int) error {
	local := env.Signer

	for i := 0; i < n; i++ {
		token := make([]byte, 8)
		_, _ = rng.Read(token)

		op, err := isaac.NewDummyOperation(isaac.NewDummyOperationFact(token, Hash(rng)), local.Privatekey(), c.networkID)
		if err != nil {
			return err
		}

		if _, err := pool.SetOperation(context.Background(), op); err != nil {
			return err
		}

		c.Ops = append(c.Ops, op)

		point := base.RawPoint(height.Int64(), uint64(rng.Intn(3)))

		pr := isaac.NewProposalSignFact(isaac.NewProposalFact(point, local.Address(), Hash(rng), [][2]util.Hash{{op.Hash(), op.Fact().Hash()}}))
		if err := pr.Sign(local.Privatekey(), c.networkID); err != nil {
			return err
		}

		if _, err := pool.SetProposal(pr); err != nil {
			return err
		}

		c.Proposals = append(c.Proposals, pr)

		var bl base.Ballot

		if rng.Intn(2) == 0 {
			sf := isaac.NewINITBallotSignFact(isaac.NewINITBallotFact(point, Hash(rng), Hash(rng), nil))
			if err := sf.NodeSign(local.Privatekey(), c.networkID, local.Address()); err != nil {
				return err
			}

			bl = isaac.NewINITBallot(nil, sf, nil)
		} else {
			sf := isaac.NewACCEPTBallotSignFact(isaac.NewACCEPTBallotFact(point, Hash(rng), Hash(rng), nil))
			if err := sf.NodeSign(local.Privatekey(), c.networkID, local.Address()); err != nil {
				return err
			}

			bl = isaac.NewACCEPTBallot(nil, sf, nil)
		}

		if _, err := pool.SetBallot(bl); err != nil {
			return err
		}

		c.Ballots = append(c.Ballots, bl)

		start := height + base.Height(rng.Intn(3))
		fact := isaac.NewSuffrageExpelFact(env.Nodes[rng.Intn(len(env.Nodes))].Address(), start, start+base.Height(rng.Intn(4)), fmt.Sprintf("reason-%d", rng.Int63()))
		eop := isaac.NewSuffrageExpelOperation(fact)

		if err := eop.NodeSign(local.Privatekey(), c.networkID, local.Address()); err != nil {
			return err
		}

		if err := pool.SetSuffrageExpelOperation(eop); err != nil {
			return err
		}

		c.Expels = append(c.Expels, eop)
	}

	return nil
}

// ReadPool reads back everything of the content (and a probe of each kind).
func ReadPool(env *Env, pool *isaacdatabase.TempPool, c *PoolContent, maxHeight base.Height) ReadSet {
	rs := ReadSet{}
	ctx := context.Background()

	ophashes := make([]util.Hash, 0, len(c.Ops)+1)
	for i := range c.Ops {
		ophashes = append(ophashes, c.Ops[i].Hash())
	}

	ophashes = append(ophashes, c.probes[0])

	for _, h := range ophashes {
		op, found, err := pool.Operation(ctx, h)
		rs["PoolOperation:"+h.String()] = objAnswer(found, err, func() string { return "op:" + op.Hash().String() + ":" + op.Fact().Hash().String() })

		enchint, meta, body, found, err := pool.OperationBytes(ctx, h)
		rs["PoolOperationBytes:"+h.String()] = bytesAnswer(env, enchint, meta, body, found, err, func(op base.Operation) string {
			return "op:" + op.Hash().String() + ":" + op.Fact().Hash().String()
		})
	}

	{
		var order []string

		err := pool.TraverseOperationsBytes(ctx, nil,
			func(enchint string, meta isaacdatabase.FrameHeaderPoolOperation, body, _ []byte) (bool, error) {
				order = append(order, fmt.Sprintf("%s/%s/%s/%d/%dB", meta.Operation(), meta.Fact(), meta.Hint(), meta.AddedAt().UnixNano(), len(body)))

				return true, nil
			})
		rs["PoolTraverseOperationsBytes"] = objAnswer(true, err, func() string { return fmt.Sprintf("%d:%v", len(order), order) })
	}

	prhashes := make([]util.Hash, 0, len(c.Proposals)+1)
	for i := range c.Proposals {
		prhashes = append(prhashes, c.Proposals[i].Fact().Hash())
	}

	prhashes = append(prhashes, c.probes[1])

	prid := func(pr base.ProposalSignFact) string {
		return fmt.Sprintf("proposal:%s:%s", pr.Fact().Hash(), pr.HashBytes())
	}

	for _, h := range prhashes {
		pr, found, err := pool.Proposal(h)
		rs["PoolProposal:"+h.String()] = objAnswer(found, err, func() string { return prid(pr) })

		enchint, meta, body, found, err := pool.ProposalBytes(h)
		rs["PoolProposalBytes:"+h.String()] = bytesAnswer(env, enchint, meta, body, found, err, prid)
	}

	for i := range c.Proposals {
		fact := c.Proposals[i].ProposalFact()
		pr, found, err := pool.ProposalByPoint(fact.Point(), fact.Proposer(), fact.PreviousBlock())
		rs[fmt.Sprintf("PoolProposalByPoint:%s/%s", fact.Point(), fact.PreviousBlock())] = objAnswer(found, err, func() string { return prid(pr) })
	}

	blid := func(bl base.Ballot) string {
		return fmt.Sprintf("ballot:%s:%s:%x", bl.Point(), bl.SignFact().Fact().Hash(), bl.HashBytes())
	}

	points := map[string]base.StagePoint{}
	for i := range c.Ballots {
		points[c.Ballots[i].Point().String()] = c.Ballots[i].Point()
	}

	pkeys := make([]string, 0, len(points))
	for k := range points {
		pkeys = append(pkeys, k)
	}

	sort.Strings(pkeys)

	for _, k := range pkeys {
		sp := points[k]

		for _, stage := range []base.Stage{base.StageINIT, base.StageACCEPT} {
			for _, sc := range []bool{false, true} {
				bl, found, err := pool.Ballot(sp.Point, stage, sc)
				rs[fmt.Sprintf("PoolBallot:%s/%s/%v", sp.Point, stage, sc)] = objAnswer(found, err, func() string { return blid(bl) })
			}
		}
	}

	for h := base.GenesisHeight; h <= maxHeight+8; h++ {
		var seen []string

		err := pool.TraverseSuffrageExpelOperations(ctx, h, func(op base.SuffrageExpelOperation) (bool, error) {
			seen = append(seen, op.Hash().String())

			return true, nil
		})

		sort.Strings(seen)
		rs[fmt.Sprintf("PoolTraverseSuffrageExpelOperations:%d", h)] = objAnswer(true, err, func() string { return fmt.Sprintf("%v", seen) })

		for _, n := range env.Nodes {
			op, found, err := pool.SuffrageExpelOperation(h, n.Address())
			rs[fmt.Sprintf("PoolSuffrageExpelOperation:%d/%s", h, n.Address())] = objAnswer(found, err, func() string { return "expel:" + op.Hash().String() })
		}
	}

	return rs
}
