//go:build test && verif

package dbrig

import (
	"encoding/hex"
	"fmt"
	"sort"
	"strings"

	"github.com/spikeekips/mitum/base"
	"github.com/spikeekips/mitum/isaac"
	isaacdatabase "github.com/spikeekips/mitum/isaac/database"
	"github.com/spikeekips/mitum/util"
)

// Answer is the canonical form of one read.
type Answer struct {
	Found bool
	ID    string // identity of the object (decoded from the body for *Bytes reads)
	Enc   string // *Bytes reads only
	Meta  string // *Bytes reads only, raw
	Body  string // *Bytes reads only, raw
	Extra string // lastheight of LastSuffrageProofBytes (recorded, judged only for equality)
	Err   string
}

func (a Answer) Short() string {
	switch {
	case a.Err != "":
		return "error(" + a.Err + ")"
	case !a.Found:
		return "not-found"
	default:
		s := "found " + a.ID
		if a.Enc != "" {
			s += fmt.Sprintf(" enc=%s meta=%dB body=%dB", a.Enc, len(a.Meta), len(a.Body))
		}

		return s
	}
}

// ReadSet maps "Kind:argument" to the answer.
type ReadSet map[string]Answer

func Kind(q string) string {
	if i := strings.IndexByte(q, ':'); i >= 0 {
		return q[:i]
	}

	return q
}

// Reader is the part shared by isaac.Database and isaac.PermanentDatabase.
type Reader struct {
	Name                       string
	LastBlockMap               func() (base.BlockMap, bool, error)
	LastBlockMapBytes          func() (string, []byte, []byte, bool, error)
	BlockMap                   func(base.Height) (base.BlockMap, bool, error)
	BlockMapBytes              func(base.Height) (string, []byte, []byte, bool, error)
	State                      func(string) (base.State, bool, error)
	StateBytes                 func(string) (string, []byte, []byte, bool, error)
	ExistsInStateOperation     func(util.Hash) (bool, error)
	ExistsKnownOperation       func(util.Hash) (bool, error)
	LastSuffrageProof          func() (base.SuffrageProof, bool, error)
	LastSuffrageProofBytes     func() (string, []byte, []byte, bool, base.Height, error)
	SuffrageProof              func(base.Height) (base.SuffrageProof, bool, error)
	SuffrageProofBytes         func(base.Height) (string, []byte, []byte, bool, error)
	SuffrageProofByBlockHeight func(base.Height) (base.SuffrageProof, bool, error)
	LastNetworkPolicy          func() base.NetworkPolicy
}

func DatabaseReader(db isaac.Database) Reader {
	return Reader{
		Name:                       "Database",
		LastBlockMap:               db.LastBlockMap,
		LastBlockMapBytes:          db.LastBlockMapBytes,
		BlockMap:                   db.BlockMap,
		BlockMapBytes:              db.BlockMapBytes,
		State:                      db.State,
		StateBytes:                 db.StateBytes,
		ExistsInStateOperation:     db.ExistsInStateOperation,
		ExistsKnownOperation:       db.ExistsKnownOperation,
		LastSuffrageProof:          db.LastSuffrageProof,
		LastSuffrageProofBytes:     db.LastSuffrageProofBytes,
		SuffrageProof:              db.SuffrageProof,
		SuffrageProofBytes:         db.SuffrageProofBytes,
		SuffrageProofByBlockHeight: db.SuffrageProofByBlockHeight,
		LastNetworkPolicy:          db.LastNetworkPolicy,
	}
}

func PermanentReader(db isaac.PermanentDatabase) Reader {
	return Reader{
		Name:                   "PermanentDatabase",
		LastBlockMap:           db.LastBlockMap,
		LastBlockMapBytes:      db.LastBlockMapBytes,
		BlockMap:               db.BlockMap,
		BlockMapBytes:          db.BlockMapBytes,
		State:                  db.State,
		StateBytes:             db.StateBytes,
		ExistsInStateOperation: db.ExistsInStateOperation,
		ExistsKnownOperation:   db.ExistsKnownOperation,
		LastSuffrageProof:      db.LastSuffrageProof,
		LastSuffrageProofBytes: func() (string, []byte, []byte, bool, base.Height, error) {
			enchint, meta, body, found, err := db.LastSuffrageProofBytes()

			return enchint, meta, body, found, base.NilHeight, err
		},
		SuffrageProof:              db.SuffrageProof,
		SuffrageProofBytes:         db.SuffrageProofBytes,
		SuffrageProofByBlockHeight: db.SuffrageProofByBlockHeight,
		LastNetworkPolicy:          db.LastNetworkPolicy,
	}
}

func errString(err error) string {
	s := err.Error()
	if len(s) > 200 {
		s = s[:200]
	}

	return s
}

func MapID(m base.BlockMap) string {
	if m == nil || m.Manifest() == nil {
		return "nil-map"
	}

	return fmt.Sprintf("map:h%d:%s", m.Manifest().Height(), m.Manifest().Hash())
}

func StateID(st base.State) string {
	if st == nil {
		return "nil-state"
	}

	return fmt.Sprintf("state:h%d:%s", st.Height(), st.Hash())
}

func ProofID(p base.SuffrageProof) string {
	if p == nil {
		return "nil-proof"
	}

	var id string
	if rp, ok := p.(RigSuffrageProof); ok {
		id = rp.ID
	}

	var bh base.Height = base.NilHeight
	if p.Map() != nil && p.Map().Manifest() != nil {
		bh = p.Map().Manifest().Height()
	}

	return fmt.Sprintf("proof:%s:sh%d:bh%d:%s", id, p.SuffrageHeight(), bh, StateID(p.State()))
}

func PolicyID(p base.NetworkPolicy) string {
	if p == nil {
		return "nil-policy"
	}

	return "policy:" + hex.EncodeToString(p.HashBytes())
}

func objAnswer(found bool, err error, id func() string) Answer {
	switch {
	case err != nil:
		return Answer{Err: errString(err)}
	case !found:
		return Answer{}
	default:
		return Answer{Found: true, ID: id()}
	}
}

func bytesAnswer[T any](
	env *Env, enchint string, meta, body []byte, found bool, err error, id func(T) string,
) Answer {
	switch {
	case err != nil:
		return Answer{Err: errString(err)}
	case !found:
		return Answer{}
	}

	a := Answer{Found: true, Enc: enchint, Meta: string(meta), Body: string(body)}

	// identical (encoder, body) bytes decode to the same object: decode once
	ck := enchint + "\x00" + a.Body
	if cached, ok := env.decoded.Load(ck); ok {
		a.ID = cached.(string) //nolint:forcetypeassert //...

		return a
	}

	var v T

	if derr := isaacdatabase.DecodeFrame(env.Encs, enchint, body, &v); derr != nil {
		a.ID = fmt.Sprintf("undecodable-body(len=%d)", len(body))
	} else {
		a.ID = id(v)
	}

	env.decoded.Store(ck, a.ID)

	return a
}

// ReadAll takes the full read set: every key / hash / height / suffrage height
// of the universe and one past each end.
func ReadAll(env *Env, r Reader, u *Universe) ReadSet {
	rs := ReadSet{}

	{
		m, found, err := r.LastBlockMap()
		rs["LastBlockMap"] = objAnswer(found, err, func() string { return MapID(m) })

		enchint, meta, body, found, err := r.LastBlockMapBytes()
		rs["LastBlockMapBytes"] = bytesAnswer(env, enchint, meta, body, found, err, MapID)
	}

	for h := base.GenesisHeight; h <= u.MaxHeight+2; h++ {
		m, found, err := r.BlockMap(h)
		rs[fmt.Sprintf("BlockMap:%d", h)] = objAnswer(found, err, func() string { return MapID(m) })

		enchint, meta, body, found, err := r.BlockMapBytes(h)
		rs[fmt.Sprintf("BlockMapBytes:%d", h)] = bytesAnswer(env, enchint, meta, body, found, err, MapID)

		p, found, err := r.SuffrageProofByBlockHeight(h)
		rs[fmt.Sprintf("SuffrageProofByBlockHeight:%d", h)] = objAnswer(found, err, func() string { return ProofID(p) })
	}

	for _, key := range u.SortedKeys() {
		st, found, err := r.State(key)
		rs["State:"+key] = objAnswer(found, err, func() string { return StateID(st) })

		enchint, meta, body, found, err := r.StateBytes(key)
		rs["StateBytes:"+key] = bytesAnswer(env, enchint, meta, body, found, err, StateID)
	}

	for _, op := range u.AllOps() {
		found, err := r.ExistsInStateOperation(op)
		rs["ExistsInStateOperation:"+op.String()] = objAnswer(found, err, func() string { return "exists" })

		found, err = r.ExistsKnownOperation(op)
		rs["ExistsKnownOperation:"+op.String()] = objAnswer(found, err, func() string { return "exists" })
	}

	{
		p, found, err := r.LastSuffrageProof()
		rs["LastSuffrageProof"] = objAnswer(found, err, func() string { return ProofID(p) })

		enchint, meta, body, found, lastheight, err := r.LastSuffrageProofBytes()
		a := bytesAnswer(env, enchint, meta, body, found, err, ProofID)
		a.Extra = fmt.Sprintf("lastheight=%d", lastheight)
		rs["LastSuffrageProofBytes"] = a
	}

	for sh := base.GenesisHeight; sh <= u.MaxSufHeight+2; sh++ {
		p, found, err := r.SuffrageProof(sh)
		rs[fmt.Sprintf("SuffrageProof:%d", sh)] = objAnswer(found, err, func() string { return ProofID(p) })

		enchint, meta, body, found, err := r.SuffrageProofBytes(sh)
		rs[fmt.Sprintf("SuffrageProofBytes:%d", sh)] = bytesAnswer(env, enchint, meta, body, found, err, ProofID)
	}

	{
		p := r.LastNetworkPolicy()
		rs["LastNetworkPolicy"] = objAnswer(p != nil, nil, func() string { return PolicyID(p) })
	}

	return rs
}

// Expected is the model's read set over blocks (a prefix of a chain).
func Expected(u *Universe, blocks []*Block) ReadSet {
	rs := ReadSet{}
	n := len(blocks)

	ans := func(id string) Answer { return Answer{Found: true, ID: id} }

	if n > 0 {
		rs["LastBlockMap"] = ans(MapID(blocks[n-1].Map))
		rs["LastBlockMapBytes"] = rs["LastBlockMap"]
	} else {
		rs["LastBlockMap"] = Answer{}
		rs["LastBlockMapBytes"] = Answer{}
	}

	var proof base.SuffrageProof

	for h := base.GenesisHeight; h <= u.MaxHeight+2; h++ {
		mq, mbq, pq := fmt.Sprintf("BlockMap:%d", h), fmt.Sprintf("BlockMapBytes:%d", h),
			fmt.Sprintf("SuffrageProofByBlockHeight:%d", h)

		if int(h) >= n {
			rs[mq], rs[mbq], rs[pq] = Answer{}, Answer{}, Answer{}

			continue
		}

		b := blocks[h]
		rs[mq] = ans(MapID(b.Map))
		rs[mbq] = rs[mq]

		if b.Proof != nil {
			proof = b.Proof
		}

		if proof != nil {
			rs[pq] = ans(ProofID(proof))
		} else {
			rs[pq] = Answer{}
		}
	}

	states := map[string]base.State{}
	instate := map[string]bool{}
	known := map[string]bool{}
	proofs := map[base.Height]base.SuffrageProof{}

	var lastproof base.SuffrageProof
	var lastpolicy base.NetworkPolicy

	for _, b := range blocks {
		for _, st := range b.States {
			states[st.Key()] = st

			for _, op := range st.Operations() {
				instate[op.String()] = true
			}
		}

		for _, op := range b.Ops {
			known[op.String()] = true
		}

		if b.Proof != nil {
			proofs[b.SufHeight()] = b.Proof
			lastproof = b.Proof
		}

		if b.Policy != nil {
			lastpolicy = b.Policy
		}
	}

	for _, key := range u.SortedKeys() {
		if st, ok := states[key]; ok {
			rs["State:"+key] = ans(StateID(st))
		} else {
			rs["State:"+key] = Answer{}
		}

		rs["StateBytes:"+key] = rs["State:"+key]
	}

	for _, op := range u.AllOps() {
		rs["ExistsInStateOperation:"+op.String()] = Answer{}
		if instate[op.String()] {
			rs["ExistsInStateOperation:"+op.String()] = ans("exists")
		}

		rs["ExistsKnownOperation:"+op.String()] = Answer{}
		if known[op.String()] {
			rs["ExistsKnownOperation:"+op.String()] = ans("exists")
		}
	}

	if lastproof != nil {
		rs["LastSuffrageProof"] = ans(ProofID(lastproof))
	} else {
		rs["LastSuffrageProof"] = Answer{}
	}

	rs["LastSuffrageProofBytes"] = rs["LastSuffrageProof"]

	for sh := base.GenesisHeight; sh <= u.MaxSufHeight+2; sh++ {
		q := fmt.Sprintf("SuffrageProof:%d", sh)
		if p, ok := proofs[sh]; ok {
			rs[q] = ans(ProofID(p))
		} else {
			rs[q] = Answer{}
		}

		rs[fmt.Sprintf("SuffrageProofBytes:%d", sh)] = rs[q]
	}

	if lastpolicy != nil {
		rs["LastNetworkPolicy"] = ans(PolicyID(lastpolicy))
	} else {
		rs["LastNetworkPolicy"] = Answer{}
	}

	return rs
}

// Mismatch is one read which does not agree.
type Mismatch struct {
	Query string
	Got   string
	Want  string
	Class string // stale / missing / phantom / wrong / error / undecodable
}

func classify(got, want Answer) string {
	switch {
	case got.Err != "":
		return "error"
	case got.Found && strings.HasPrefix(got.ID, "undecodable-body"):
		return "undecodable-body"
	case !got.Found && want.Found:
		return "missing"
	case got.Found && !want.Found:
		return "phantom"
	default:
		return "wrong-object"
	}
}

// DiffModel compares an observed read set with the model: found flags and
// object identity (for *Bytes reads: the identity of the decoded body).
func DiffModel(got, want ReadSet) []Mismatch {
	var ms []Mismatch

	for q, w := range want {
		g, ok := got[q]
		if !ok {
			ms = append(ms, Mismatch{Query: q, Got: "not-asked", Want: w.Short(), Class: "not-asked"})

			continue
		}

		if g.Err != "" || g.Found != w.Found || g.ID != w.ID {
			ms = append(ms, Mismatch{Query: q, Got: g.Short(), Want: w.Short(), Class: classify(g, w)})
		}
	}

	sort.Slice(ms, func(i, j int) bool { return ms[i].Query < ms[j].Query })

	return ms
}

// DiffExact compares two observed read sets field by field (raw bytes too).
func DiffExact(a, b ReadSet) []Mismatch {
	var ms []Mismatch

	for q, x := range a {
		y, ok := b[q]

		switch {
		case !ok:
			ms = append(ms, Mismatch{Query: q, Got: "not-asked", Want: x.Short(), Class: "not-asked"})
		case x == y:
		default:
			class := "different-object"

			switch {
			case x.Err != "" || y.Err != "":
				class = "error"
			case x.Found != y.Found:
				class = "found-flag"
			case len(x.Body) > 0 && len(y.Body) < 1:
				class = "empty-body"
			case x.ID != y.ID:
			case x.Body != y.Body:
				class = "different-body-bytes"
				if len(y.Body) < 1 {
					class = "empty-body"
				}
			case x.Meta != y.Meta:
				class = "different-meta-bytes"
			case x.Enc != y.Enc:
				class = "different-encoder-hint"
			case x.Extra != y.Extra:
				class = "different-" + strings.SplitN(x.Extra, "=", 2)[0]
			}

			ms = append(ms, Mismatch{Query: q, Got: y.Short() + " " + y.Extra, Want: x.Short() + " " + x.Extra, Class: class})
		}
	}

	sort.Slice(ms, func(i, j int) bool { return ms[i].Query < ms[j].Query })

	return ms
}

// Signature is the canonical kind-of-failure of a set of mismatches: the
// sorted set of (read kind, class).
func Signature(ms []Mismatch) string {
	set := map[string]struct{}{}
	for i := range ms {
		set[Kind(ms[i].Query)+"="+ms[i].Class] = struct{}{}
	}

	ks := make([]string, 0, len(set))
	for k := range set {
		ks = append(ks, k)
	}

	sort.Strings(ks)

	return strings.Join(ks, ",")
}

func Head(ms []Mismatch, n int) []Mismatch {
	if len(ms) > n {
		return ms[:n]
	}

	return ms
}
