//go:build test && verif

package dbrig

import (
	"fmt"
	"math/rand"
	"strconv"
	"strings"

	"github.com/spikeekips/mitum/base"
)

// RandomOpt draws the shape of an ordinary block.
func RandomOpt(rng *rand.Rand, maxStates int, sufEvery int) BlockOpt {
	opt := BlockOpt{
		States:   rng.Intn(maxStates + 1),
		FreshKey: 0.15 + 0.5*rng.Float64(),
		Ops:      rng.Intn(4),
		StateOps: rng.Intn(2),
		Suffrage: rng.Intn(sufEvery) == 0,
		Policy:   rng.Intn(5) == 0,
	}

	return opt
}

// Where places the argument of a height-indexed read relative to what the
// store holds: it makes violation signatures say in which region the read
// went wrong (a different region is a different way of failing).
func Where(q string, c *Chain, temps []base.Height) string {
	i := strings.IndexByte(q, ':')
	if i < 0 {
		return ""
	}

	n, err := strconv.ParseInt(q[i+1:], 10, 64)
	if err != nil {
		return ""
	}

	h := base.Height(n)

	switch Kind(q) {
	case "SuffrageProof", "SuffrageProofBytes":
		switch last := c.LastSufHeight(); {
		case h > last:
			return "above-last-suffrage-height"
		default:
			for j := len(c.Blocks) - 1; j >= 0; j-- {
				if c.Blocks[j].SufHeight() == h {
					return regionOf(c.Blocks[j].Height, c, temps)
				}
			}

			return "existing"
		}
	case "BlockMap", "BlockMapBytes", "SuffrageProofByBlockHeight":
		return regionOf(h, c, temps)
	default:
		return ""
	}
}

func regionOf(h base.Height, c *Chain, temps []base.Height) string {
	switch {
	case h > c.Top():
		return "above-top"
	case len(temps) > 0 && h >= temps[len(temps)-1]:
		return "in-temps"
	default:
		return "below-temps"
	}
}

func HeightsString(hs []base.Height) string {
	s := make([]string, len(hs))
	for i := range hs {
		s[i] = fmt.Sprintf("%d", hs[i])
	}

	return "[" + strings.Join(s, " ") + "]"
}
