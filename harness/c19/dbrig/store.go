//go:build test && verif

package dbrig

import (
	"context"
	"fmt"

	"github.com/pkg/errors"
	"github.com/spikeekips/mitum/base"
	"github.com/spikeekips/mitum/isaac"
	isaacdatabase "github.com/spikeekips/mitum/isaac/database"
	leveldbstorage "github.com/spikeekips/mitum/storage/leveldb"
	"github.com/spikeekips/mitum/util"
	goleveldbstorage "github.com/syndtr/goleveldb/leveldb/storage"
	leveldbutil "github.com/syndtr/goleveldb/leveldb/util"
)

type StoreConfig struct {
	PermCache int    // state cache size of the permanent database (0: none), as launch passes it
	TempCache int    // state cache size given to every block write (0: none), as launch/block.go does
	Dir       string // "" = goleveldb memory storage, else a directory for a file storage
	Pool      bool   // also open the TempPool on the storage
	PoolCache int    // operation cache size of the pool
}

// Store is the leveldb side of a node's database: one storage holding the
// permanent database and the temps, and the Center over them.
type Store struct {
	Env    *Env
	Cfg    StoreConfig
	raw    goleveldbstorage.Storage
	St     *leveldbstorage.Storage
	Perm   *isaacdatabase.LeveldbPermanent
	Center *isaacdatabase.Center
	Pool   *isaacdatabase.TempPool

	// AfterStorageOpen, if set, sees the raw storage before the permanent
	// database and the Center are loaded from it.
	AfterStorageOpen func(*leveldbstorage.Storage)
}

func OpenStore(env *Env, cfg StoreConfig) (*Store, error) {
	s := &Store{Env: env, Cfg: cfg}

	if cfg.Dir == "" {
		s.raw = goleveldbstorage.NewMemStorage()
	}

	if err := s.open(); err != nil {
		return nil, err
	}

	return s, nil
}

func (s *Store) open() error {
	if s.Cfg.Dir != "" {
		raw, err := goleveldbstorage.OpenFile(s.Cfg.Dir, false)
		if err != nil {
			return errors.WithStack(err)
		}

		s.raw = raw
	}

	st, err := leveldbstorage.NewStorage(s.raw, nil)
	if err != nil {
		return err
	}

	s.St = st

	if s.AfterStorageOpen != nil {
		s.AfterStorageOpen(st)
	}

	perm, err := isaacdatabase.NewLeveldbPermanent(st, s.Env.Encs, s.Env.Enc, s.Cfg.PermCache)
	if err != nil {
		return err
	}

	s.Perm = perm

	center, err := isaacdatabase.NewCenter(st, s.Env.Encs, s.Env.Enc, perm, s.NewBlockWrite)
	if err != nil {
		return err
	}

	s.Center = center

	if s.Cfg.Pool {
		pool, err := isaacdatabase.NewTempPool(st, s.Env.Encs, s.Env.Enc, s.Cfg.PoolCache)
		if err != nil {
			return err
		}

		s.Pool = pool
	}

	return nil
}

func (s *Store) NewBlockWrite(height base.Height) (isaac.BlockWriteDatabase, error) {
	bw := isaacdatabase.NewLeveldbBlockWrite(height, s.St, s.Env.Encs, s.Env.Enc)

	if s.Cfg.TempCache > 0 {
		bw.SetStateCache(util.NewLFUGCache[string, [2]interface{}](s.Cfg.TempCache))
	}

	return bw, nil
}

// Close closes the storage the way a stopping node does; every in-memory
// object of the store is dropped.
func (s *Store) Close() error {
	var err error
	if s.St != nil {
		err = s.St.Close()
	}

	s.St, s.Perm, s.Center, s.Pool = nil, nil, nil, nil

	return err
}

// Reopen closes and opens again on the same data: what a restart (or the
// start after a crash) sees.
func (s *Store) Reopen() error {
	if err := s.Close(); err != nil {
		return err
	}

	return s.open()
}

// Write does the block write part of a commit: SetBlockMap, SetStates,
// SetOperations, SetSuffrageProof, Write.
func (s *Store) Write(b *Block) (isaac.BlockWriteDatabase, error) {
	bw, err := s.Center.NewBlockWriteDatabase(b.Height)
	if err != nil {
		return nil, err
	}

	if err := bw.SetBlockMap(b.Map); err != nil {
		return bw, err
	}

	if err := bw.SetStates(b.States); err != nil {
		return bw, err
	}

	if err := bw.SetOperations(b.Ops); err != nil {
		return bw, err
	}

	if b.Proof != nil {
		if err := bw.SetSuffrageProof(b.Proof); err != nil {
			return bw, err
		}
	}

	if err := bw.Write(); err != nil {
		return bw, err
	}

	return bw, nil
}

// Commit writes the block and merges it into the Center.
func (s *Store) Commit(b *Block) error {
	bw, err := s.Write(b)
	if err != nil {
		return err
	}

	return s.Center.MergeBlockWriteDatabase(bw)
}

func (s *Store) MergeOne() (bool, error) {
	return s.Center.VerifMergeOnePermanent(context.Background())
}

func (s *Store) Temps() []base.Height {
	return s.Center.VerifActiveTempHeights()
}

func (s *Store) Read(u *Universe) ReadSet {
	return ReadAll(s.Env, DatabaseReader(s.Center), u)
}

var (
	labelPermanent  = []byte{0x01, 0x02} // isaacdatabase.AllLabelKeys(): "permanent"
	labelBlockWrite = []byte{0x01, 0x01} // isaacdatabase.AllLabelKeys(): "block_write"
)

// RawKeys lists the raw keys under a label of st.
func RawKeys(st *leveldbstorage.Storage, label []byte) (map[string]struct{}, error) {
	keys := map[string]struct{}{}

	err := st.Iter(leveldbutil.BytesPrefix(label), func(k, _ []byte) (bool, error) {
		keys[string(k[len(label):])] = struct{}{}

		return true, nil
	}, true)

	return keys, err
}

func PermanentKeys(st *leveldbstorage.Storage) (map[string]struct{}, error) {
	return RawKeys(st, labelPermanent)
}

// BlockWriteKeys lists the keys of all block writes / temps: 8 bytes height +
// ULID + record key.
func BlockWriteKeys(st *leveldbstorage.Storage) (map[string]struct{}, error) {
	return RawKeys(st, labelBlockWrite)
}

// PermKeys lists the raw record keys of the permanent database (label stripped).
func (s *Store) PermKeys() (map[string]struct{}, error) {
	return PermanentKeys(s.St)
}

// RecordKind names the record family of a raw database key (2 byte prefix).
func RecordKind(key string) string {
	if len(key) < 2 {
		return "?"
	}

	names := isaacdatabase.AllPrefixKeys()
	if n, ok := names[leveldbstorage.KeyPrefix{key[0], key[1]}]; ok {
		return n
	}

	return fmt.Sprintf("%x", key[:2])
}
