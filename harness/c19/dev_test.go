package c19

import (
	"os"
	"testing"
	"time"

	"verifharness/c19/dbrig"
	"verifharness/vlib"
)

func TestDev(t *testing.T) {
	os.Setenv("VERIF_ROOT", "/tmp/c19dev")
	r := vlib.Start(t, "C19", vlib.LevelExploration)
	env := dbrig.NewEnv()
	for i := 0; i < 3; i++ {
		t0 := time.Now()
		runSequential(r, env, i, "")
		t.Logf("chain %d: %v evals=%d", i, time.Since(t0), r.Counter("steps_commit"))
	}
}
