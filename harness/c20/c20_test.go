package c20

import (
	"fmt"
	"os"
	"path/filepath"
	"sort"
	"testing"
	"time"

	"github.com/spikeekips/mitum/base"
	"github.com/spikeekips/mitum/isaac"
	"github.com/spikeekips/mitum/util"
	"verifharness/c19/dbrig"
	"verifharness/vlib"
)

type witness struct {
	Chain      int
	Config     dbrig.StoreConfig
	Script     []string
	Temps      string
	Blocks     int
	Repeated   map[string][]string // height -> setters called more than once for that block
	Mismatches []dbrig.Mismatch
}

type run struct {
	r      *vlib.Run
	env    *dbrig.Env
	idx    int
	st     *dbrig.Store
	gen    *dbrig.Gen
	chain  *dbrig.Chain
	pool   *dbrig.PoolContent
	script []string

	othernode base.LocalNode              // a second node which signs block maps
	hist      map[base.Height]*heightInfo // write history of the blocks in the store
	lasthist  string                      // fingerprint of the newest block's write history
	fullperm  bool                        // read the permanent database over all keys and hashes too
}

func (s *run) log(format string, a ...any) { s.script = append(s.script, fmt.Sprintf(format, a...)) }

// readAll is the full read set through the Center (every accessor, objects
// and *Bytes, plus signer and signature of every block map object), the read
// set of the permanent database taken directly (Last* accessors, block maps and
// suffrage proofs of every height; thorough tier: every key and hash too) and
// the pool reads.
func (s *run) readAll() dbrig.ReadSet {
	rs := s.st.Read(s.gen.U)
	readSigns(rs, "", dbrig.DatabaseReader(s.st.Center), s.gen.U.MaxHeight)

	pu := s.gen.U
	if !s.fullperm {
		pu = &dbrig.Universe{
			Keys:         map[string]struct{}{isaac.SuffrageStateKey: {}, isaac.NetworkPolicyStateKey: {}},
			InStateOps:   map[string]util.Hash{},
			KnownOps:     map[string]util.Hash{},
			MaxHeight:    s.gen.U.MaxHeight,
			MaxSufHeight: s.gen.U.MaxSufHeight,
		}
	}

	pr := dbrig.PermanentReader(s.st.Perm)

	for q, a := range dbrig.ReadAll(s.env, pr, pu) {
		rs["perm."+q] = a
	}

	readSigns(rs, "perm.", pr, s.gen.U.MaxHeight)

	for q, a := range dbrig.ReadPool(s.env, s.st.Pool, s.pool, s.gen.U.MaxHeight) {
		rs[q] = a
	}

	return rs
}

func (s *run) repeatedByHeight() map[string][]string {
	m := map[string][]string{}

	for h, info := range s.hist {
		for k := range info.repeated {
			m[fmt.Sprintf("%d", h)] = append(m[fmt.Sprintf("%d", h)], k)
		}

		sort.Strings(m[fmt.Sprintf("%d", h)])
	}

	return m
}

// reopenCheck: the full read set (objects and raw bytes, database and pool)
// immediately before close and immediately after reopen must be equal.
func (s *run) reopenCheck(step string) bool {
	r := s.r
	temps := s.st.Temps()
	w := witness{
		Chain: s.idx, Config: s.st.Cfg, Script: append([]string{}, s.script...), Temps: dbrig.HeightsString(temps),
		Blocks: len(s.chain.Blocks), Repeated: s.repeatedByHeight(),
	}

	var before, after dbrig.ReadSet

	if r.Guard("read-before-close", w, func() { before = s.readAll() }) {
		return false
	}

	if err := s.st.Reopen(); err != nil {
		r.Violation("reopen:error", fmt.Sprintf("reopen after %s failed: %v", step, err), w)

		return false
	}

	if r.Guard("read-after-reopen", w, func() { after = s.readAll() }) {
		return false
	}

	kinds := map[string]int{}
	for q := range before {
		kinds[dbrig.Kind(q)]++
	}

	for k, n := range kinds {
		r.Count("reads_compared_"+k, n)
	}

	r.Count("reopen_points", 1)
	r.Count("reopen_after_"+step, 1)

	permblocks := len(s.chain.Blocks) - len(temps)
	lastproofinperm := false

	for i := 0; i < permblocks && i < len(s.chain.Blocks); i++ {
		if s.chain.Blocks[i].Proof != nil {
			lastproofinperm = true
		}
	}

	if s.anyRepeated() {
		r.Count("reopen_points_with_repeated_setters_in_store", 1)
	}

	r.Case(fmt.Sprintf("%s/temps=%d/perm=%d/proofinperm=%v/pool=%d/newest-block-written=%s",
		step, len(temps), permblocks, lastproofinperm, len(s.pool.Ops), s.lasthist))

	ms := dbrig.DiffExact(before, after)
	if len(ms) < 1 {
		return true
	}

	groups := map[string][]dbrig.Mismatch{}

	for _, m := range ms {
		sig := "reopen:" + dbrig.Kind(m.Query) + ":" + m.Class + s.historyOf(m.Query, before[m.Query], after[m.Query])
		groups[sig] = append(groups[sig], m)
	}

	for sig, g := range groups {
		w.Mismatches = dbrig.Head(g, 5)
		r.Violation(sig, fmt.Sprintf("close/reopen after %s (chain %d, %d blocks, temps %s): %s answered %q before closing and %q after reopening (%d such reads)",
			step, s.idx, len(s.chain.Blocks), dbrig.HeightsString(temps), g[0].Query, g[0].Want, g[0].Got, len(g)), w)
	}

	return true
}

func countHistory(r *vlib.Run, h *history, kept string) {
	mode := "sequential"
	if h.Concurrent {
		mode = "concurrent"
	}

	r.Count("histories_"+mode, 1)
	r.Count("histories_order_"+h.Style, 1)

	if rep := h.Repeated(); len(rep) < 1 {
		r.Count("histories_every_setter_once", 1)
	} else {
		for _, k := range rep {
			r.Count("histories_repeated_"+k, 1)
		}
	}

	if h.MapCalls > 1 {
		// observation only (which call is kept is not judged): under
		// concurrency a call other than the first launched one being kept
		// shows that the calls did overlap / overtake each other
		r.Count("repeated_blockmap_kept_"+mode+"_"+kept, 1)
	}

	if h.StateRepeats > 0 {
		r.Count("histories_same_state_again", 1)
	}

	if h.StateVariants > 0 {
		r.Count("histories_other_state_of_same_key_and_height", 1)
	}

	if h.OpRepeats > 0 {
		r.Count("histories_same_operation_again", 1)
	}

	r.Count("setter_calls_SetBlockMap", h.MapCalls)
	r.Count("setter_calls_SetStates", h.StateCalls)
	r.Count("setter_calls_SetOperations", h.OpCalls)
	r.Count("setter_calls_SetSuffrageProof", h.ProofCalls)
	r.SetAdd("history_shapes", h.Fingerprint())
}

func runChain(r *vlib.Run, env *dbrig.Env, idx int, onFile bool) {
	rng := r.Rand(1, idx)

	cfg := dbrig.StoreConfig{
		PermCache: []int{0, 2, 64, 4096}[rng.Intn(4)],
		TempCache: []int{0, 3, 4096}[rng.Intn(3)],
		Pool:      true,
		PoolCache: []int{0, 4, 4096}[rng.Intn(3)],
	}

	if onFile {
		cfg.Dir = filepath.Join(r.WorkDir(), fmt.Sprintf("c20-chain-%d", idx))
		defer os.RemoveAll(cfg.Dir)
	}

	st, err := dbrig.OpenStore(env, cfg)
	if err != nil {
		r.Inconclusive("open store: " + err.Error())

		return
	}

	defer func() { _ = st.Close() }()

	s := &run{
		r: r, env: env, idx: idx, st: st, gen: dbrig.NewGen(env, rng, fmt.Sprintf("c%d", idx)),
		chain: &dbrig.Chain{}, pool: dbrig.NewPoolContent(rng),
		othernode: base.RandomLocalNode(), hist: map[base.Height]*heightInfo{},
		lasthist: "none", fullperm: r.Thorough(),
	}

	if onFile {
		r.Count("chains_on_file_storage", 1)
	} else {
		r.Count("chains_on_memory_storage", 1)
	}

	nblocks := 5 + rng.Intn(r.N(10, 20))
	maxStates := []int{3, 8, 20}[rng.Intn(3)]
	sufEvery := 1 + rng.Intn(5)

	if !s.reopenCheck("empty") {
		return
	}

	for i := 0; i < nblocks; i++ {
		if n := rng.Intn(4); n > 0 {
			s.log("pool +%d of each kind", n)

			if err := s.pool.AddRandom(env, rng, st.Pool, s.chain.Top()+1, n); err != nil {
				r.Inconclusive("pool insert: " + err.Error())

				return
			}
		}

		// a rival write database of the same height which is never merged:
		// written and abandoned, or cancelled
		if p := rng.Intn(100); p < 12 {
			rival := s.gen.Next(s.chain, dbrig.RandomOpt(rng, maxStates, sufEvery))

			bw, err := st.Write(rival)
			if err != nil {
				r.Violation("rival-write:error", err.Error(), witness{Chain: idx, Script: s.script})

				return
			}

			how := "abandoned"

			if p < 6 {
				how = "cancelled"

				if err := bw.Cancel(); err != nil {
					r.Violation("rival-cancel:error", err.Error(), witness{Chain: idx, Script: s.script})

					return
				}
			}

			s.log("rival write h=%d states=%d ops=%d suffrage=%v: written, %s", rival.Height, len(rival.States), len(rival.Ops), rival.Proof != nil, how)
			r.Count("rival_block_writes_"+how, 1)
		}

		b := s.gen.Next(s.chain, dbrig.RandomOpt(rng, maxStates, sufEvery))
		h := s.planHistory(rng, b)
		s.log("commit h=%d states=%d ops=%d suffrage=%v policy=%v: %s", b.Height, len(b.States), len(b.Ops), b.Proof != nil, b.Policy != nil, h)

		kept, err := s.commitWithHistory(b, h)
		if err != nil {
			r.Violation("commit:error", err.Error(), witness{Chain: idx, Script: s.script})

			return
		}

		s.remember(b, h)
		s.lasthist = h.Fingerprint()
		countHistory(r, h, kept)

		s.chain.Append(b)
		r.Count("blocks_committed", 1)

		if !s.reopenCheck("commit") {
			return
		}

		switch p := rng.Intn(100); {
		case p < 35:
			merged, err := st.MergeOne()
			s.log("merge-one -> %v", merged)

			if err != nil {
				r.Violation("merge-one:error", err.Error(), witness{Chain: idx, Script: s.script})

				return
			}

			if !s.reopenCheck("merge-one") {
				return
			}
		case p < 50:
			s.log("merge-all")

			if err := st.Center.MergeAllPermanent(); err != nil {
				r.Violation("merge-all:error", err.Error(), witness{Chain: idx, Script: s.script})

				return
			}

			if !s.reopenCheck("merge-all") {
				return
			}
		case p < 58:
			temps := st.Temps()
			if len(temps) < 1 {
				break
			}

			h := temps[rng.Intn(len(temps))]
			if h < 1 {
				break
			}

			removed, err := st.Center.RemoveBlocks(h)
			s.log("remove-blocks %d -> %v", h, removed)

			if err != nil {
				r.Violation("remove-blocks:error", err.Error(), witness{Chain: idx, Script: s.script})

				return
			}

			if removed {
				s.chain.Truncate(h)
				s.forget(h)
				s.lasthist = "removed"
			}

			if !s.reopenCheck("remove-blocks") {
				return
			}
		}
	}

	if idx < 3 {
		r.Sample(map[string]any{"chain": idx, "config": cfg, "script": s.script})
	}
}

func TestC20(t *testing.T) {
	r := vlib.Start(t, "C20", vlib.LevelFault)
	defer r.Finish()

	r.SetRule("case = one quiescent point of a generated script (empty store, after every block commit, after every merge into the permanent store, after block removal): the full read set taken immediately before closing the storage and immediately after reopening it, compared field by field and byte for byte. Read set = every object read and every *Bytes tuple of the Center over all keys / hashes / heights of the scenario, signer+signature of every block map object answered, the same accessors of the permanent database asked directly (perm.*: Last* accessors, block maps and suffrage proofs of every height, suffrage / policy state; thorough tier every key and hash), and every pool read over the inserted operations, proposals, ballots, expel operations. " +
		"Every block is written through a generated write history of its BlockWriteDatabase: 25% every setter once in the importer's order; else SetBlockMap called 1-3 times (the same manifest signed again by the local node or by another node), SetStates in 1-4 parts plus optionally states handed over again (identical, or another valid state of the same key and height), SetOperations in 1-3 parts plus optionally an operation again, SetSuffrageProof once or twice (another proof of the same suffrage state); calls ordered as the importer does (block map, data, proof, Write), as the block writer does (data, Write, block map, proof) or shuffled with only the data calls before Write; 40% of these with the calls of each phase released together from one goroutine each; 12% of the blocks preceded by a rival write database of the same height which is written and abandoned or cancelled. Which of two calls the database keeps is not judged, only that the running and the reopened instance agree. " +
		"distinct = (step kind, temps, blocks in permanent store, whether a suffrage proof is in the permanent store, pool size, shape of the newest block's write history: order style, sequential/concurrent, number of calls of every setter, repeats/variants)")
	r.Assume("close = leveldb Storage.Close with every in-memory object dropped; reopen = new Storage on the same goleveldb storage (memory; thorough tier also file), new LeveldbPermanent, Center and TempPool as launch.LoadDatabase builds them")
	r.Exhaustive(true) // every quiescent point of every script is a reopen point

	env := dbrig.NewEnv()
	env.AddPoolHinters()

	n := r.N(24, 240)

	vlib.Parallel(n, 8, func(i int) {
		onFile := r.Thorough() && i%4 == 0
		r.WithWatchdog(10*time.Minute, fmt.Sprintf("chain %d", i), func() { runChain(r, env, i, onFile) })
	})

	r.Set("chains", n)

	if r.Counter("reopen_points") < 1 {
		r.Inconclusive("no reopen point was reached")
	}

	if r.Counter("reopen_points_with_repeated_setters_in_store") < 1 || r.Counter("histories_concurrent") < 1 {
		r.Inconclusive("no reopen point with a block written by repeated / concurrent setter calls was reached")
	}
}

var _ = base.NilHeight
