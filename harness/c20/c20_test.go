package c20

import (
	"fmt"
	"os"
	"path/filepath"
	"testing"
	"time"

	"github.com/spikeekips/mitum/base"
	"verifharness/c19/dbrig"
	"verifharness/vlib"
)

type witness struct {
	Chain      int
	Config     dbrig.StoreConfig
	Script     []string
	Temps      string
	Blocks     int
	Mismatches []dbrig.Mismatch
}

type run struct {
	r      *vlib.Run
	env    *dbrig.Env
	idx    int
	st     *dbrig.Store
	gen    *dbrig.Gen
	chain  *dbrig.Chain
	pool   *dbrig.PoolContent
	script []string
}

func (s *run) log(format string, a ...any) { s.script = append(s.script, fmt.Sprintf(format, a...)) }

func (s *run) readAll() dbrig.ReadSet {
	rs := s.st.Read(s.gen.U)
	for q, a := range dbrig.ReadPool(s.env, s.st.Pool, s.pool, s.gen.U.MaxHeight) {
		rs[q] = a
	}

	return rs
}

// reopenCheck: the full read set (objects and raw bytes, database and pool)
// immediately before close and immediately after reopen must be equal.
func (s *run) reopenCheck(step string) bool {
	r := s.r
	temps := s.st.Temps()
	w := witness{Chain: s.idx, Config: s.st.Cfg, Script: append([]string{}, s.script...), Temps: dbrig.HeightsString(temps), Blocks: len(s.chain.Blocks)}

	var before, after dbrig.ReadSet

	if r.Guard("read-before-close", w, func() { before = s.readAll() }) {
		return false
	}

	if err := s.st.Reopen(); err != nil {
		r.Violation("reopen:error", fmt.Sprintf("reopen after %s failed: %v", step, err), w)

		return false
	}

	if r.Guard("read-after-reopen", w, func() { after = s.readAll() }) {
		return false
	}

	kinds := map[string]int{}
	for q := range before {
		kinds[dbrig.Kind(q)]++
	}

	for k, n := range kinds {
		r.Count("reads_compared_"+k, n)
	}

	r.Count("reopen_points", 1)
	r.Count("reopen_after_"+step, 1)

	permblocks := len(s.chain.Blocks) - len(temps)
	lastproofinperm := false

	for i := 0; i < permblocks && i < len(s.chain.Blocks); i++ {
		if s.chain.Blocks[i].Proof != nil {
			lastproofinperm = true
		}
	}

	r.Case(fmt.Sprintf("%s/temps=%d/perm=%d/proofinperm=%v/pool=%d", step, len(temps), permblocks, lastproofinperm, len(s.pool.Ops)))

	ms := dbrig.DiffExact(before, after)
	if len(ms) < 1 {
		return true
	}

	groups := map[string][]dbrig.Mismatch{}

	for _, m := range ms {
		sig := "reopen:" + dbrig.Kind(m.Query) + ":" + m.Class
		groups[sig] = append(groups[sig], m)
	}

	for sig, g := range groups {
		w.Mismatches = dbrig.Head(g, 5)
		r.Violation(sig, fmt.Sprintf("close/reopen after %s (chain %d, %d blocks, temps %s): %s answered %q before closing and %q after reopening (%d such reads)",
			step, s.idx, len(s.chain.Blocks), dbrig.HeightsString(temps), g[0].Query, g[0].Want, g[0].Got, len(g)), w)
	}

	return true
}

func runChain(r *vlib.Run, env *dbrig.Env, idx int, onFile bool) {
	rng := r.Rand(1, idx)

	cfg := dbrig.StoreConfig{
		PermCache: []int{0, 2, 64, 4096}[rng.Intn(4)],
		TempCache: []int{0, 3, 4096}[rng.Intn(3)],
		Pool:      true,
		PoolCache: []int{0, 4, 4096}[rng.Intn(3)],
	}

	if onFile {
		cfg.Dir = filepath.Join(r.WorkDir(), fmt.Sprintf("c20-chain-%d", idx))
		defer os.RemoveAll(cfg.Dir)
	}

	st, err := dbrig.OpenStore(env, cfg)
	if err != nil {
		r.Inconclusive("open store: " + err.Error())

		return
	}

	defer func() { _ = st.Close() }()

	s := &run{
		r: r, env: env, idx: idx, st: st, gen: dbrig.NewGen(env, rng, fmt.Sprintf("c%d", idx)),
		chain: &dbrig.Chain{}, pool: dbrig.NewPoolContent(rng),
	}

	if onFile {
		r.Count("chains_on_file_storage", 1)
	} else {
		r.Count("chains_on_memory_storage", 1)
	}

	nblocks := 5 + rng.Intn(r.N(10, 20))
	maxStates := []int{3, 8, 20}[rng.Intn(3)]
	sufEvery := 1 + rng.Intn(5)

	if !s.reopenCheck("empty") {
		return
	}

	for i := 0; i < nblocks; i++ {
		if n := rng.Intn(4); n > 0 {
			s.log("pool +%d of each kind", n)

			if err := s.pool.AddRandom(env, rng, st.Pool, s.chain.Top()+1, n); err != nil {
				r.Inconclusive("pool insert: " + err.Error())

				return
			}
		}

		b := s.gen.Next(s.chain, dbrig.RandomOpt(rng, maxStates, sufEvery))
		s.log("commit h=%d states=%d ops=%d suffrage=%v policy=%v", b.Height, len(b.States), len(b.Ops), b.Proof != nil, b.Policy != nil)

		if err := st.Commit(b); err != nil {
			r.Violation("commit:error", err.Error(), witness{Chain: idx, Script: s.script})

			return
		}

		s.chain.Append(b)
		r.Count("blocks_committed", 1)

		if !s.reopenCheck("commit") {
			return
		}

		switch p := rng.Intn(100); {
		case p < 35:
			merged, err := st.MergeOne()
			s.log("merge-one -> %v", merged)

			if err != nil {
				r.Violation("merge-one:error", err.Error(), witness{Chain: idx, Script: s.script})

				return
			}

			if !s.reopenCheck("merge-one") {
				return
			}
		case p < 50:
			s.log("merge-all")

			if err := st.Center.MergeAllPermanent(); err != nil {
				r.Violation("merge-all:error", err.Error(), witness{Chain: idx, Script: s.script})

				return
			}

			if !s.reopenCheck("merge-all") {
				return
			}
		case p < 58:
			temps := st.Temps()
			if len(temps) < 1 {
				break
			}

			h := temps[rng.Intn(len(temps))]
			if h < 1 {
				break
			}

			removed, err := st.Center.RemoveBlocks(h)
			s.log("remove-blocks %d -> %v", h, removed)

			if err != nil {
				r.Violation("remove-blocks:error", err.Error(), witness{Chain: idx, Script: s.script})

				return
			}

			if removed {
				s.chain.Truncate(h)
			}

			if !s.reopenCheck("remove-blocks") {
				return
			}
		}
	}

	if idx < 3 {
		r.Sample(map[string]any{"chain": idx, "config": cfg, "script": s.script})
	}
}

func TestC20(t *testing.T) {
	r := vlib.Start(t, "C20", vlib.LevelFault)
	defer r.Finish()

	r.SetRule("case = one quiescent point of a generated script (empty store, after every block commit, after every merge into the permanent store, after block removal): the full read set (every object read and every *Bytes tuple of the database over all keys / hashes / heights of the scenario, and every pool read over the inserted operations, proposals, ballots, expel operations) taken immediately before closing the storage and immediately after reopening it, compared field by field and byte for byte; distinct = (step kind, temps, blocks in permanent store, whether a suffrage proof is in the permanent store, pool size)")
	r.Assume("close = leveldb Storage.Close with every in-memory object dropped; reopen = new Storage on the same goleveldb storage (memory; thorough tier also file), new LeveldbPermanent, Center and TempPool as launch.LoadDatabase builds them")
	r.Exhaustive(true) // every quiescent point of every script is a reopen point

	env := dbrig.NewEnv()
	env.AddPoolHinters()

	n := r.N(24, 240)

	vlib.Parallel(n, 8, func(i int) {
		onFile := r.Thorough() && i%4 == 0
		r.WithWatchdog(10*time.Minute, fmt.Sprintf("chain %d", i), func() { runChain(r, env, i, onFile) })
	})

	r.Set("chains", n)

	if r.Counter("reopen_points") < 1 {
		r.Inconclusive("no reopen point was reached")
	}
}

var _ = base.NilHeight
