package c20

import (
	"fmt"
	"math/rand"
	"os"
	"path/filepath"
	"sort"
	"strings"
	"testing"
	"time"

	"github.com/spikeekips/mitum/base"
	"github.com/spikeekips/mitum/util"
	"verifharness/c19/dbrig"
	"verifharness/vlib"
)

type witness struct {
	Chain      int
	Config     dbrig.StoreConfig
	Script     []string
	Temps      string
	Blocks     int
	Repeated   map[string][]string // height -> setters called more than once for that block
	Mismatches []dbrig.Mismatch
}

type run struct {
	r      *vlib.Run
	env    *dbrig.Env
	idx    int
	st     *dbrig.Store
	gen    *dbrig.Gen
	chain  *dbrig.Chain
	pool   *dbrig.PoolContent
	script []string

	othernode base.LocalNode              // a second node which signs block maps
	hist      map[base.Height]*heightInfo // write history of the blocks in the store
	lasthist  string                      // fingerprint of the newest block's write history
	fullperm  bool                        // read the permanent database over all hashes too

	// the running instance: what it did since it was opened
	reopenPct    int                    // a quiescent point is a reopen point with this probability (100: every one)
	sinceReopen  int                    // script steps (commit / merge / removal) since the instance was opened
	readKeys     map[string]bool        // state keys the running instance was asked about since it was opened
	liveTemps    map[base.Height]string // blocks written by the running instance (their temps carry the writer's cache): class of the writer's state cache
	writerCaches bool                   // a block write database was given a state cache in this chain
	lastwcache   string                 // class of the writer's state cache of the newest block
}

func (s *run) log(format string, a ...any) { s.script = append(s.script, fmt.Sprintf(format, a...)) }

// readAll is the full read set through the Center (every accessor, objects
// and *Bytes, plus signer and signature of every block map object), the read
// set of the permanent database taken directly (Last* accessors, block maps and
// suffrage proofs of every height, every state key; thorough tier: every
// operation hash too) and the pool reads.
func (s *run) readAll() dbrig.ReadSet {
	rs := s.st.Read(s.gen.U)
	readSigns(rs, "", dbrig.DatabaseReader(s.st.Center), s.gen.U.MaxHeight)

	pu := s.gen.U
	if !s.fullperm {
		pu = &dbrig.Universe{
			Keys:         s.gen.U.Keys,
			InStateOps:   map[string]util.Hash{},
			KnownOps:     map[string]util.Hash{},
			MaxHeight:    s.gen.U.MaxHeight,
			MaxSufHeight: s.gen.U.MaxSufHeight,
		}
	}

	pr := dbrig.PermanentReader(s.st.Perm)

	for q, a := range dbrig.ReadAll(s.env, pr, pu) {
		rs["perm."+q] = a
	}

	readSigns(rs, "perm.", pr, s.gen.U.MaxHeight)

	for q, a := range dbrig.ReadPool(s.env, s.st.Pool, s.pool, s.gen.U.MaxHeight) {
		rs[q] = a
	}

	for k := range s.gen.U.Keys {
		s.readKeys[k] = true
	}

	return rs
}

func stepsBucket(n int) string {
	switch {
	case n < 1:
		return "0"
	case n < 3:
		return "1-2"
	case n < 6:
		return "3-5"
	default:
		return "6+"
	}
}

func (s *run) permCacheClass() string {
	switch c := s.st.Cfg.PermCache; {
	case c < 1:
		return "off"
	case c == 1:
		return "1"
	case c < 16:
		return "small"
	default:
		return "large"
	}
}

// quiescent is one quiescent point of the script: a reopen point (always in
// the worlds which reopen everywhere, else with the world's probability), or
// the running instance is only asked the full read set (as a node serving
// reads does) and keeps running, so that what it holds in memory - the state
// and operation caches of the permanent database, of the temps made from its
// own block writes and of the pool - has a history when it is closed later.
func (s *run) quiescent(rng *rand.Rand, step string) bool {
	s.sinceReopen++

	if s.reopenPct >= 100 || rng.Intn(100) < s.reopenPct {
		return s.reopenCheck(step)
	}

	w := witness{Chain: s.idx, Config: s.st.Cfg, Script: append([]string{}, s.script...), Blocks: len(s.chain.Blocks)}
	if s.r.Guard("read-while-running", w, func() { _ = s.readAll() }) {
		return false
	}

	s.log("(read, no reopen)")
	s.r.Count("quiescent_points_read_without_reopen", 1)

	return true
}

// cacheComponent: a State read which differs while the StateBytes read of the
// same key agrees in both instances differs in the object held in memory only;
// the component then says whether any state cache was configured.
func (s *run) cacheComponent(q string, before, after dbrig.ReadSet) string {
	kind := dbrig.Kind(q)
	if strings.TrimPrefix(kind, "perm.") != "State" {
		return ""
	}

	bq := kind + "Bytes" + q[len(kind):]
	if before[bq] != after[bq] {
		return ""
	}

	if s.st.Cfg.PermCache > 0 || s.writerCaches {
		return ":object-only:state-cache-on"
	}

	return ":object-only:state-cache-off"
}

func (s *run) repeatedByHeight() map[string][]string {
	m := map[string][]string{}

	for h, info := range s.hist {
		for k := range info.repeated {
			m[fmt.Sprintf("%d", h)] = append(m[fmt.Sprintf("%d", h)], k)
		}

		sort.Strings(m[fmt.Sprintf("%d", h)])
	}

	return m
}

// reopenCheck: the full read set (objects and raw bytes, database and pool)
// immediately before close and immediately after reopen must be equal.
func (s *run) reopenCheck(step string) bool {
	r := s.r
	temps := s.st.Temps()
	w := witness{
		Chain: s.idx, Config: s.st.Cfg, Script: append([]string{}, s.script...), Temps: dbrig.HeightsString(temps),
		Blocks: len(s.chain.Blocks), Repeated: s.repeatedByHeight(),
	}

	var before, after dbrig.ReadSet

	if r.Guard("read-before-close", w, func() { before = s.readAll() }) {
		return false
	}

	if err := s.st.Reopen(); err != nil {
		r.Violation("reopen:error", fmt.Sprintf("reopen after %s failed: %v", step, err), w)

		return false
	}

	if r.Guard("read-after-reopen", w, func() { after = s.readAll() }) {
		return false
	}

	kinds := map[string]int{}
	for q := range before {
		kinds[dbrig.Kind(q)]++
	}

	for k, n := range kinds {
		r.Count("reads_compared_"+k, n)
	}

	r.Count("reopen_points", 1)
	r.Count("reopen_after_"+step, 1)
	r.Count("reopen_after_running_steps_"+stepsBucket(s.sinceReopen), 1)

	ranfor := stepsBucket(s.sinceReopen)
	s.sinceReopen = 0
	s.liveTemps = map[base.Height]string{}
	s.readKeys = map[string]bool{}

	for k := range s.gen.U.Keys { // the read after reopening
		s.readKeys[k] = true
	}

	permblocks := len(s.chain.Blocks) - len(temps)
	lastproofinperm := false

	for i := 0; i < permblocks && i < len(s.chain.Blocks); i++ {
		if s.chain.Blocks[i].Proof != nil {
			lastproofinperm = true
		}
	}

	if s.anyRepeated() {
		r.Count("reopen_points_with_repeated_setters_in_store", 1)
	}

	r.Case(fmt.Sprintf("%s/temps=%d/perm=%d/proofinperm=%v/pool=%d/newest-block-written=%s/instance-ran-steps=%s/perm-cache=%s/writer-cache=%s",
		step, len(temps), permblocks, lastproofinperm, len(s.pool.Ops), s.lasthist, ranfor, s.permCacheClass(), s.lastwcache))

	ms := dbrig.DiffExact(before, after)
	if len(ms) < 1 {
		return true
	}

	groups := map[string][]dbrig.Mismatch{}

	for _, m := range ms {
		sig := "reopen:" + dbrig.Kind(m.Query) + ":" + m.Class + s.historyOf(m.Query, before[m.Query], after[m.Query]) +
			s.cacheComponent(m.Query, before, after)
		groups[sig] = append(groups[sig], m)
	}

	for sig, g := range groups {
		w.Mismatches = dbrig.Head(g, 5)
		r.Violation(sig, fmt.Sprintf("close/reopen after %s (chain %d, %d blocks, temps %s): %s answered %q before closing and %q after reopening (%d such reads)",
			step, s.idx, len(s.chain.Blocks), dbrig.HeightsString(temps), g[0].Query, g[0].Want, g[0].Got, len(g)), w)
	}

	return true
}

// writerCache draws the size of the state cache the block write database of a
// block with nstates states is given (launch gives every block writer one):
// unset, 1, smaller than the block (entries are evicted), exactly the block,
// larger.
func writerCache(rng *rand.Rand, nstates int) (int, string) {
	var size int

	switch p := rng.Intn(100); {
	case p < 20:
		return 0, "unset"
	case p < 35:
		size = 1
	case p < 60:
		size = 1 + rng.Intn(max(1, nstates-1))
	case p < 75:
		size = max(1, nstates)
	case p < 90:
		size = nstates + 1 + rng.Intn(8)
	default:
		size = 4096
	}

	switch {
	case size < nstates:
		return size, "evicting"
	case size == nstates:
		return size, "exact"
	default:
		return size, "roomy"
	}
}

// countMerged counts the temps which left the Center for the permanent
// database: made by the running instance from its own block write (they carry
// the writer's state cache into the merge) or reloaded from storage.
func (s *run) countMerged(before []base.Height) {
	after := map[base.Height]bool{}
	for _, h := range s.st.Temps() {
		after[h] = true
	}

	for _, h := range before {
		if after[h] {
			continue
		}

		if class, ok := s.liveTemps[h]; ok {
			s.r.Count("temps_merged_made_by_running_instance_writer_cache_"+class, 1)
		} else {
			s.r.Count("temps_merged_reloaded_from_storage", 1)
		}
	}
}

func countHistory(r *vlib.Run, h *history, kept string) {
	mode := "sequential"
	if h.Concurrent {
		mode = "concurrent"
	}

	r.Count("histories_"+mode, 1)
	r.Count("histories_order_"+h.Style, 1)

	if rep := h.Repeated(); len(rep) < 1 {
		r.Count("histories_every_setter_once", 1)
	} else {
		for _, k := range rep {
			r.Count("histories_repeated_"+k, 1)
		}
	}

	if h.MapCalls > 1 {
		// observation only (which call is kept is not judged): under
		// concurrency a call other than the first launched one being kept
		// shows that the calls did overlap / overtake each other
		r.Count("repeated_blockmap_kept_"+mode+"_"+kept, 1)
	}

	if h.StateRepeats > 0 {
		r.Count("histories_same_state_again", 1)
	}

	if h.StateVariants > 0 {
		r.Count("histories_other_state_of_same_key_and_height", 1)
	}

	if h.OpRepeats > 0 {
		r.Count("histories_same_operation_again", 1)
	}

	r.Count("setter_calls_SetBlockMap", h.MapCalls)
	r.Count("setter_calls_SetStates", h.StateCalls)
	r.Count("setter_calls_SetOperations", h.OpCalls)
	r.Count("setter_calls_SetSuffrageProof", h.ProofCalls)
	r.SetAdd("history_shapes", h.Fingerprint())
}

func runChain(r *vlib.Run, env *dbrig.Env, idx int, onFile bool) {
	rng := r.Rand(1, idx)

	cfg := dbrig.StoreConfig{
		PermCache: []int{0, 1, 2, 64, 4096}[rng.Intn(5)],
		TempCache: []int{0, 3, 4096}[rng.Intn(3)], // rival writes; every committed block draws its own (writerCache)
		Pool:      true,
		PoolCache: []int{0, 4, 4096}[rng.Intn(3)],
	}

	if onFile {
		cfg.Dir = filepath.Join(r.WorkDir(), fmt.Sprintf("c20-chain-%d", idx))
		defer os.RemoveAll(cfg.Dir)
	}

	st, err := dbrig.OpenStore(env, cfg)
	if err != nil {
		r.Inconclusive("open store: " + err.Error())

		return
	}

	defer func() { _ = st.Close() }()

	s := &run{
		r: r, env: env, idx: idx, st: st, gen: dbrig.NewGen(env, rng, fmt.Sprintf("c%d", idx)),
		chain: &dbrig.Chain{}, pool: dbrig.NewPoolContent(rng),
		othernode: base.RandomLocalNode(), hist: map[base.Height]*heightInfo{},
		lasthist: "none", fullperm: r.Thorough(),
		reopenPct: []int{100, 35, 12, 100, 20}[idx%5], readKeys: map[string]bool{}, liveTemps: map[base.Height]string{}, lastwcache: "none",
	}

	r.Count(fmt.Sprintf("chains_reopening_at_%d_percent_of_quiescent_points", s.reopenPct), 1)
	r.Count("chains_permanent_state_cache_"+s.permCacheClass(), 1)

	if onFile {
		r.Count("chains_on_file_storage", 1)
	} else {
		r.Count("chains_on_memory_storage", 1)
	}

	nblocks := 5 + rng.Intn(r.N(10, 20))
	maxStates := []int{3, 8, 20}[rng.Intn(3)]
	sufEvery := 1 + rng.Intn(5)

	if !s.reopenCheck("empty") {
		return
	}

	for i := 0; i < nblocks; i++ {
		if n := rng.Intn(4); n > 0 {
			s.log("pool +%d of each kind", n)

			if err := s.pool.AddRandom(env, rng, st.Pool, s.chain.Top()+1, n); err != nil {
				r.Inconclusive("pool insert: " + err.Error())

				return
			}
		}

		// a rival write database of the same height which is never merged:
		// written and abandoned, or cancelled
		if p := rng.Intn(100); p < 12 {
			rival := s.gen.Next(s.chain, dbrig.RandomOpt(rng, maxStates, sufEvery))

			bw, err := st.Write(rival)
			if err != nil {
				r.Violation("rival-write:error", err.Error(), witness{Chain: idx, Script: s.script})

				return
			}

			how := "abandoned"

			if p < 6 {
				how = "cancelled"

				if err := bw.Cancel(); err != nil {
					r.Violation("rival-cancel:error", err.Error(), witness{Chain: idx, Script: s.script})

					return
				}
			}

			s.log("rival write h=%d states=%d ops=%d suffrage=%v: written, %s", rival.Height, len(rival.States), len(rival.Ops), rival.Proof != nil, how)
			r.Count("rival_block_writes_"+how, 1)
		}

		b := s.gen.Next(s.chain, dbrig.RandomOpt(rng, maxStates, sufEvery))
		h := s.planHistory(rng, b)

		wsize, wclass := writerCache(rng, len(b.States))
		st.Cfg.TempCache = wsize
		s.writerCaches = s.writerCaches || wsize > 0
		s.lastwcache = wclass
		r.Count("block_writes_state_cache_"+wclass, 1)

		if st.Cfg.PermCache > 0 {
			for j := range b.States {
				if !s.readKeys[b.States[j].Key()] {
					continue
				}

				r.Count("state_rewrites_of_keys_read_earlier_by_running_instance", 1)

				if wclass == "evicting" {
					r.Count("state_rewrites_of_keys_read_earlier_in_block_larger_than_writer_cache", 1)
				}
			}
		}

		s.log("commit h=%d states=%d ops=%d suffrage=%v policy=%v writer-state-cache=%d(%s): %s",
			b.Height, len(b.States), len(b.Ops), b.Proof != nil, b.Policy != nil, wsize, wclass, h)

		kept, err := s.commitWithHistory(b, h)
		if err != nil {
			r.Violation("commit:error", err.Error(), witness{Chain: idx, Script: s.script})

			return
		}

		s.remember(b, h)
		s.lasthist = h.Fingerprint()
		countHistory(r, h, kept)

		s.chain.Append(b)
		s.liveTemps[b.Height] = wclass
		r.Count("blocks_committed", 1)

		if !s.quiescent(rng, "commit") {
			return
		}

		switch p := rng.Intn(100); {
		case p < 35:
			tempsbefore := st.Temps()
			merged, err := st.MergeOne()
			s.log("merge-one -> %v", merged)
			s.countMerged(tempsbefore)

			if err != nil {
				r.Violation("merge-one:error", err.Error(), witness{Chain: idx, Script: s.script})

				return
			}

			if !s.quiescent(rng, "merge-one") {
				return
			}
		case p < 50:
			s.log("merge-all")

			tempsbefore := st.Temps()

			if err := st.Center.MergeAllPermanent(); err != nil {
				r.Violation("merge-all:error", err.Error(), witness{Chain: idx, Script: s.script})

				return
			}

			s.countMerged(tempsbefore)

			if !s.quiescent(rng, "merge-all") {
				return
			}
		case p < 58:
			temps := st.Temps()
			if len(temps) < 1 {
				break
			}

			h := temps[rng.Intn(len(temps))]
			if h < 1 {
				break
			}

			removed, err := st.Center.RemoveBlocks(h)
			s.log("remove-blocks %d -> %v", h, removed)

			if err != nil {
				r.Violation("remove-blocks:error", err.Error(), witness{Chain: idx, Script: s.script})

				return
			}

			if removed {
				s.chain.Truncate(h)
				s.forget(h)
				s.lasthist = "removed"
			}

			if !s.quiescent(rng, "remove-blocks") {
				return
			}
		}
	}

	if s.sinceReopen > 0 {
		if !s.reopenCheck("end-of-script") {
			return
		}
	}

	if idx < 3 {
		r.Sample(map[string]any{"chain": idx, "config": cfg, "script": s.script})
	}
}

func TestC20(t *testing.T) {
	r := vlib.Start(t, "C20", vlib.LevelFault)
	defer r.Finish()

	r.SetRule("case = one reopen point of a generated script; quiescent points are: empty store, after every block commit, after every merge into the permanent store, after block removal, end of script. 2 of 5 worlds reopen at every quiescent point; the others at 35% / 20% / 12% of them (and at the end of the script), and at the other quiescent points the running instance is only asked the full read set and keeps running, so that the instance which is closed has served reads and written / merged blocks for up to the whole script and its caches have a history (keys read from the permanent database before a later block rewrites them; temps made from the instance's own block writes carrying the writer's state cache into the merge). At a reopen point: the full read set taken immediately before closing the storage and immediately after reopening it, compared field by field and byte for byte. Read set = every object read and every *Bytes tuple of the Center over all keys / hashes / heights of the scenario, signer+signature of every block map object answered, the same accessors of the permanent database asked directly (perm.*: Last* accessors, block maps and suffrage proofs of every height, every state key; thorough tier every operation hash), and every pool read over the inserted operations, proposals, ballots, expel operations. " +
		"Every block is written through a generated write history of its BlockWriteDatabase: 25% every setter once in the importer's order; else SetBlockMap called 1-3 times (the same manifest signed again by the local node or by another node), SetStates in 1-4 parts plus optionally states handed over again (identical, or another valid state of the same key and height), SetOperations in 1-3 parts plus optionally an operation again, SetSuffrageProof once or twice (another proof of the same suffrage state); calls ordered as the importer does (block map, data, proof, Write), as the block writer does (data, Write, block map, proof) or shuffled with only the data calls before Write; 40% of these with the calls of each phase released together from one goroutine each; 12% of the blocks preceded by a rival write database of the same height which is written and abandoned or cancelled. Which of two calls the database keeps is not judged, only that the running and the reopened instance agree. " +
		"Caches: state / in-state-operation cache of the permanent database per world off, 1, 2, 64 or 4096 entries; the state cache given to every block write database (SetStateCache) drawn per block: unset, 1, smaller than the number of states of the block (entries are evicted), exactly that number, larger; pool operation cache per world 0, 4, 4096. " +
		"distinct = (step kind, temps, blocks in permanent store, whether a suffrage proof is in the permanent store, pool size, shape of the newest block's write history: order style, sequential/concurrent, number of calls of every setter, repeats/variants; how many script steps the closed instance had been running; class of the permanent state cache; class of the newest block's writer cache)")
	r.Assume("close = leveldb Storage.Close with every in-memory object dropped; reopen = new Storage on the same goleveldb storage (memory; thorough tier also file), new LeveldbPermanent, Center and TempPool as launch.LoadDatabase builds them")
	r.Exhaustive(false) // 2 of 5 worlds reopen at every quiescent point of their script; the others at a drawn subset, to close instances which have been running for long

	env := dbrig.NewEnv()
	env.AddPoolHinters()

	n := r.N(40, 360)

	vlib.Parallel(n, 8, func(i int) {
		onFile := r.Thorough() && i%4 == 0
		r.WithWatchdog(10*time.Minute, fmt.Sprintf("chain %d", i), func() { runChain(r, env, i, onFile) })
	})

	r.Set("chains", n)

	if r.Counter("reopen_points") < 1 {
		r.Inconclusive("no reopen point was reached")
	}

	if r.Counter("reopen_points_with_repeated_setters_in_store") < 1 || r.Counter("histories_concurrent") < 1 {
		r.Inconclusive("no reopen point with a block written by repeated / concurrent setter calls was reached")
	}

	if r.Counter("reopen_after_running_steps_3-5")+r.Counter("reopen_after_running_steps_6+") < 1 ||
		r.Counter("temps_merged_made_by_running_instance_writer_cache_evicting") < 1 ||
		r.Counter("state_rewrites_of_keys_read_earlier_by_running_instance") < 1 {
		r.Inconclusive("no instance was closed after a long run / after merging a temp whose writer cache had evicted entries / after a rewrite of a key it had read")
	}
}

var _ = base.NilHeight
